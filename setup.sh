#!/bin/sh
# offline setup: nothing to build ahead of time; scratch space is created on demand under /verif/build
set -e
cd "$(dirname "$0")"
mkdir -p build evidence
for t in cbmc goto-cc goto-instrument clang++ g++ python3-vt z3; do command -v $t >/dev/null || { echo "missing tool $t"; exit 1; }; done
python3-vt -c "import sympy, z3, mpmath"
# real libraries for native replays (incremental afterwards); a failure here only disables native replays, the checks still run
python3-vt -c "import sys; sys.path.insert(0, '.'); from vlib import native; native.libs()" > build/setup_native.log 2>&1 || echo 'note: native library build failed (see build/setup_native.log)'
echo setup ok
