import sys, time
sys.path.insert(0, '/tmp/probe')
import se_gen
from se_gen import *
import z3
docs = load_docs('/tmp/probe/ast_map.json')
M = {d['name']: d for d in docs if d.get('kind') == 'CXXMethodDecl' and any(x.get('kind') == 'CompoundStmt' for x in d.get('inner', []))}
class Closure:
    def __init__(s, node, env): s.m = [c for c in node['inner'][0]['inner'] if c.get('kind') == 'CXXMethodDecl' and c.get('name') == 'operator()'][0]; s.env = env
    def __call__(s, ex, *args):
        params = [p['name'] for p in s.m['inner'] if p['kind'] == 'ParmVarDecl']; body = [c for c in s.m['inner'] if c['kind'] == 'CompoundStmt'][0]
        e2 = Exec(dict(s.env, **dict(zip(params, args))), ex.cb, ex.methods, ex.this)   # by-reference capture: shares the enclosing values at call time
        try: e2.stmt(body)
        except Ret as r: return r.v
class It:
    def __init__(s, lst, i): s.l = lst; s.i = i
class Tok:
    def __init__(s, key): s.key = key
_os, _oe = Exec.stmt, Exec.expr
def stmt(s, n):
    if n['kind'] == 'DeclStmt':
        for vd in n['inner']:
            ty = vd['type']['qualType']; inner = vd.get('inner', [])
            if 'Tokenizer' in ty and inner:
                ce = inner[0]
                while ce['kind'] not in ('CXXConstructExpr', 'CXXTemporaryObjectExpr'): ce = ce['inner'][0]
                s.env[vd['name']] = Tok(rval(s.expr(ce['inner'][0]))); continue
            if ty.startswith('vector<') or ty.startswith('std::vector<'):
                if not inner or (inner[0]['kind'] == 'CXXConstructExpr' and not [a for a in inner[0].get('inner', []) if a['kind'] != 'CXXDefaultArgExpr']):
                    s.env[vd['name']] = []; continue
            if inner:
                val = rval(s.expr(inner[0]))
                if val is None and 'element_t' in ty: val = {}
                s.env[vd['name']] = val
            else: s.env[vd['name']] = {} if 'element_t' in ty else None
        return
    return _os(s, n)
def expr(s, n):
    k = n['kind']
    if k == 'StringLiteral': return n.get('value', '').strip('"')
    if k == 'LambdaExpr': return Closure(n, s.env)
    if k == 'CXXTemporaryObjectExpr' and 'Tokenizer' in n['type']['qualType']: return Tok(rval(s.expr(n['inner'][0])))
    if k == 'CXXConstructExpr' and 'basic_string' in n['type'].get('desugaredQualType', n['type']['qualType']):
        args = [a for a in n.get('inner', []) if a['kind'] != 'CXXDefaultArgExpr']
        return rval(s.expr(args[0])) if args else ''
    if k == 'CXXOperatorCallExpr':
        op = s.callee_name(n['inner'][0])
        if op == 'operator[]':
            obj = rval(s.expr(n['inner'][1])); idx = rval(s.expr(n['inner'][2])); idx = int(idx.v) if isinstance(idx, D) else idx
            if isinstance(obj, list): return Ref(lambda: obj[idx], lambda v: obj.__setitem__(idx, v))
        if op == 'operator+':
            a = rval(s.expr(n['inner'][1])); b = rval(s.expr(n['inner'][2]))
            if isinstance(a, str) or isinstance(b, str): return str(a) + str(b)
        if op == 'operator=':
            l = s.expr(n['inner'][1]); r = rval(s.expr(n['inner'][2]))
            if isinstance(r, (list, str)) or r is None: l.set(list(r) if isinstance(r, list) else r); return l
    if k == 'CXXMemberCallExpr':
        me = n['inner'][0]; name = me['name']
        if name not in s.cb:
            obj = rval(s.expr(me['inner'][0])); args = [rval(s.expr(a)) for a in n['inner'][1:] if a['kind'] != 'CXXDefaultArgExpr']
            if isinstance(obj, list):
                if name == 'size': return len(obj)
                if name == 'begin': return It(obj, 0)
                if name == 'end': return It(obj, len(obj))
                if name == 'resize':
                    cnt = args[0]
                    while len(obj) < cnt: obj.append(D(0))
                    del obj[cnt:]; return None
            if isinstance(obj, Tok) and name == 'ToVector': return list(s.cb['tokens'](obj.key))
            if name in s.methods and obj is s.this: return s.call_method(name, s.this, args)
    if k == 'CallExpr':
        name = s.callee_name(n['inner'][0])
        if name in ('accumulate', 'transform', 'copy'):
            args = [rval(s.expr(a)) for a in n['inner'][1:]]
            if name == 'accumulate':
                acc = D.lift(args[2])
                for x in args[0].l[args[0].i:args[1].i]: acc = acc + x
                return acc
            if name == 'transform':
                src = args[0].l[args[0].i:args[1].i]; dst = args[2]
                for j, x in enumerate(src): dst.l[dst.i + j] = args[3](s, x)
                return None
            if name == 'copy':
                src = args[0].l[args[0].i:args[1].i]; dst = args[2]
                for j, x in enumerate(src): dst.l[dst.i + j] = x
                return None
    return _oe(s, n)
Exec.stmt, Exec.expr = stmt, expr
def to_z3(e):
    if e.is_Symbol: return z3.Real(e.name)
    if e.is_Rational: return z3.RealVal(str(e))
    if e.is_Add:
        r = to_z3(e.args[0])
        for a in e.args[1:]: r = r + to_z3(a)
        return r
    if e.is_Mul:
        r = to_z3(e.args[0])
        for a in e.args[1:]: r = r * to_z3(a)
        return r
    if e.is_Pow and e.exp.is_Integer:
        b = to_z3(e.base); nn = int(e.exp); r = z3.RealVal(1)
        for _ in range(abs(nn)): r = r * b
        return r if nn >= 0 else 1 / r
    if isinstance(e, (sp.Lt, sp.Gt, sp.Le, sp.Ge, sp.Eq, sp.Ne)):
        a, b = to_z3(e.lhs), to_z3(e.rhs)
        return {sp.StrictLessThan: a < b, sp.StrictGreaterThan: a > b, sp.LessThan: a <= b, sp.GreaterThan: a >= b, sp.Equality: a == b, sp.Unequality: a != b}[type(e)]
    raise Unsupported('to_z3 ' + str(e))
BASE = []
class Paths:
    def __init__(s): s.prefix = []; s.pos = 0; s.pc = []
    def start(s): s.pos = 0; s.pc = []
    def feas(s, extra):
        sol = z3.Solver(); sol.set('timeout', 5000); sol.add(*BASE); sol.add(*s.pc); sol.add(extra); return sol.check() != z3.unsat
    def decide(s, cond):
        zc = to_z3(cond)
        if s.pos < len(s.prefix): val, _ = s.prefix[s.pos]
        else:
            ct, cf = s.feas(zc), s.feas(z3.Not(zc))
            if ct and cf: val = True; s.prefix.append((True, True))
            else: val = ct; s.prefix.append((val, False))
        s.pos += 1; s.pc.append(zc if val else z3.Not(zc)); return val
    def next(s):
        while s.prefix:
            val, alt = s.prefix.pop()
            if alt: s.prefix.append((not val, False)); return True
        return False
t0 = time.time()
for n in (2, 3):
  for has_d in (False, True):
    P = Paths(); npaths = 0; allok = True; thrown = 0
    while True:
        P.start(); del BASE[:]
        w = [sp.Symbol('w%d' % i, real=True) for i in range(n)]; d = [sp.Symbol('d%d' % i, real=True) for i in range(n)]
        BASE.append(to_z3(sp.Ne(sum(w), 0)));
        if has_d: BASE.append(to_z3(sp.Ne(sum(d), 0)))
        names = ['B%d' % i for i in range(n)]
        class Prop:
            def __init__(s, path): s.path = path
        def tokens(key):
            if key == ('value', 'weights'): return [D(x) for x in w]
            if key == ('value', 'd'): return [D(x) for x in d]
            if key == ('value', 'beads'): return list(names)
            raise Unsupported('tokens ' + str(key))
        cb = {'decide': P.decide, 'tokens': tokens,
              'get': lambda p, key: Prop(key), 'value': lambda p: ('value', p.path), 'exists': lambda p, key: has_d if key == 'd' else True,
              'as': lambda p: 'str', 'getBeadByName': lambda mol, nm: names.index(nm), 'getBead': lambda mol, i: {'bead': i}}
        this = {'matrix_': [], 'in_': None, 'out_': None, 'opts_map_': None, 'opts_bead_': None}
        # vector push_back for AddElem
        cb['push_back'] = lambda lst, el: lst.append(dict(el))
        ex = Exec({'in': 'MOL', 'out': 'OUT', 'opts_bead': Prop('bead'), 'opts_map': Prop('map')}, cb, M, this)
        body = [c for c in M['Initialize']['inner'] if c['kind'] == 'CompoundStmt'][0]
        status = 'ok'
        try: ex.stmt(body)
        except Ret: pass
        except Thrown: status = 'thrown'
        npaths += 1
        if status == 'thrown': thrown += 1
        else:
            mat = this['matrix_']; S = sum(w); Sd = sum(d)
            ok = len(mat) == n and nf_zero(sum(D.lift(e['weight_']).v for e in mat) - 1)
            for i, e in enumerate(mat):
                ok = ok and nf_zero(D.lift(e['weight_']).v - w[i] / S) and e['in_'] == {'bead': i}
                # force weight: on this path either w_i == 0 (then 0) or (d_i/Sd)/(w_i/S) (1 if no d)
                sol = z3.Solver(); sol.add(*BASE); sol.add(*P.pc); sol.add(to_z3(sp.Eq(w[i], 0)))
                wzero = sol.check() != z3.unsat
                expect = 0 if wzero else ((d[i] / Sd) / (w[i] / S) if has_d else 1)
                ok = ok and nf_zero(D.lift(e['force_weight_']).v - expect)
            allok = allok and ok
        if not P.next(): break
    print('n=%d d-given=%s paths=%d thrown=%d  Q-init on all non-throwing paths: %s  %.1fs' % (n, has_d, npaths, thrown, allok, time.time() - t0)); sys.stdout.flush()
