from z3 import *
import time
ax,bx,by,cx,cy,cz = Reals('ax bx by cx cy cz')
r = Reals('rx ry rz')
def rnd(x, name):
    k = Int(name); kr = ToReal(k)
    return kr, And(x - kr <= RealVal(1)/2, kr - x <= RealVal(1)/2)
def run(order):
    cons=[ax>0,by>0,cz>0]
    cols={0:(ax,0,0),1:(bx,by,0),2:(cx,cy,cz)}
    diag={0:ax,1:by,2:cz}
    v=list(r)
    for n,i in enumerate(order):
        k,c=rnd(v[i]/diag[i],'k%d'%n); cons.append(c)
        v=[v[j]-cols[i][j]*k for j in range(3)]
    s=Solver(); s.set('timeout',60000); s.add(*cons)
    s.add(Or(v[0]>ax/2, v[0]<-ax/2, v[1]>by/2, v[1]<-by/2, v[2]>cz/2, v[2]<-cz/2))
    t=time.time(); res=s.check(); print(order,res,'%.2fs'%(time.time()-t))
    if res==sat: print(s.model())
run([2,1,0]); run([0,1,2]); run([2,1]);
