#include "votca/tools/unitconverter.h"
using namespace votca::tools;
extern "C" double fabs(double);
extern "C" void h_uc() {
  UnitConverter uc;
  double a = uc.convert(DistanceUnit::nanometers, DistanceUnit::bohr);
  double b = uc.convert(DistanceUnit::bohr, DistanceUnit::nanometers);
  __CPROVER_assert(fabs(a * b - 1.0) < 1e-12, "nm<->bohr reciprocal");
  double kcal_per_kj = uc.convert(EnergyUnit::kilojoules, EnergyUnit::kilocalories);
  __CPROVER_assert(fabs(1.0 / kcal_per_kj - 4.18679994) / 4.184 < 5e-4, "kcal2kj agrees with constants.h to 4 significant digits");
  __CPROVER_assert(fabs(1.0 / kcal_per_kj - 4.184) / 4.184 < 5e-4, "kcal2kj is the thermochemical calorie");
  double f = uc.convert(ForceUnit::kilojoules_per_nanometer, ForceUnit::kilocalories_per_angstrom);
  __CPROVER_assert(fabs(f - kcal_per_kj / 10.0) < 1e-12, "force = energy / distance");
}
