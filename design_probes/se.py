#!/usr/bin/env python3-vt
"""Prototype: symbolic executor over clang JSON AST with z3 Reals + forward AD (dual numbers)."""
import json, sys, time
from z3 import *

def load_docs(path):
    s = open(path).read()
    dec = json.JSONDecoder(); i = 0; docs = []
    while i < len(s):
        while i < len(s) and s[i].isspace(): i += 1
        if i >= len(s): break
        if s[i] != '{':
            i = s.index('\n', i) + 1; continue
        d, j = dec.raw_decode(s, i); docs.append(d); i = j
    return docs

SIDE = []   # side constraints from sqrt etc.
_cnt = [0]
def fresh(name):
    _cnt[0] += 1
    return Real('%s!%d' % (name, _cnt[0]))

class D:
    """dual number: value v, tangent t (z3 Real terms or python numbers)"""
    def __init__(s, v, t=0):
        s.v = v if is_expr(v) else RealVal(v); s.t = t if is_expr(t) else RealVal(t)
    @staticmethod
    def lift(x): return x if isinstance(x, D) else D(x)
    def __add__(s, o): o = D.lift(o); return D(s.v + o.v, s.t + o.t)
    __radd__ = __add__
    def __sub__(s, o): o = D.lift(o); return D(s.v - o.v, s.t - o.t)
    def __rsub__(s, o): return D.lift(o) - s
    def __neg__(s): return D(-s.v, -s.t)
    def __mul__(s, o):
        if isinstance(o, V): return o * s
        o = D.lift(o); return D(s.v * o.v, s.t * o.v + s.v * o.t)
    __rmul__ = __mul__
    def __truediv__(s, o):
        o = D.lift(o); return D(s.v / o.v, (s.t * o.v - s.v * o.t) / (o.v * o.v))
    def __rtruediv__(s, o): return D.lift(o) / s

def d_sqrt(x):
    x = D.lift(x); r = fresh('sqrt'); SIDE.append(And(r >= 0, r * r == x.v)); return D(r, x.t / (2 * r))
ACOS = Function('acos', RealSort(), RealSort())
def d_acos(x):
    x = D.lift(x); q = d_sqrt(D(1 - x.v * x.v)); return D(ACOS(x.v), -x.t / q.v)
def d_pow(x, n):
    x = D.lift(x)
    assert isinstance(n, int) or (isinstance(n, D) and is_rational_value(simplify(n.v)))
    if isinstance(n, D): n = simplify(n.v).as_long()
    r = D(1)
    for _ in range(n): r = r * x
    return r

class V:
    def __init__(s, c): s.c = [D.lift(x) for x in c]
    def __add__(s, o): return V([a + b for a, b in zip(s.c, o.c)])
    def __sub__(s, o): return V([a - b for a, b in zip(s.c, o.c)])
    def __neg__(s): return V([-a for a in s.c])
    def __mul__(s, k): return V([a * k for a in s.c])
    __rmul__ = __mul__
    def __truediv__(s, k): return V([a / k for a in s.c])
    def dot(s, o): return s.c[0] * o.c[0] + s.c[1] * o.c[1] + s.c[2] * o.c[2]
    def squaredNorm(s): return s.dot(s)
    def norm(s): return d_sqrt(s.squaredNorm())
    def cross(s, o):
        a, b = s.c, o.c
        return V([a[1]*b[2]-a[2]*b[1], a[2]*b[0]-a[0]*b[2], a[0]*b[1]-a[1]*b[0]])

class Ret(Exception):
    def __init__(s, v): s.v = v

class Exec:
    def __init__(s, env, callbacks): s.env = dict(env); s.cb = callbacks
    def stmt(s, n):
        k = n['kind']
        if k == 'CompoundStmt':
            for c in n.get('inner', []): s.stmt(c)
        elif k == 'DeclStmt':
            for vd in n['inner']:
                init = vd.get('inner', [None])[0] if vd.get('inner') else None
                s.env[vd['name']] = s.expr(init) if init else None
        elif k == 'ReturnStmt':
            raise Ret(s.expr(n['inner'][0]))
        elif k == 'SwitchStmt':
            cond = s.expr(n['inner'][0]); body = n['inner'][1]
            cv = cond if isinstance(cond, int) else simplify(cond.v).as_long()
            active = False
            for c in body['inner']:
                if c['kind'] == 'CaseStmt':
                    val = int(c['inner'][0]['value'])
                    if val == cv: active = True
                    if active: s.stmt(c['inner'][1])
                elif c['kind'] == 'BreakStmt':
                    if active: return
                elif active: s.stmt(c)
        elif k in ('BreakStmt', 'NullStmt'): pass
        else:
            s.expr(n)
    def expr(s, n):
        k = n['kind']
        if k in ('ImplicitCastExpr', 'ParenExpr', 'ExprWithCleanups', 'MaterializeTemporaryExpr', 'CXXBindTemporaryExpr', 'ConstantExpr', 'CXXFunctionalCastExpr'):
            return s.expr(n['inner'][0])
        if k == 'CXXConstructExpr':
            if 'inner' not in n: return None
            if len(n['inner']) == 1: return s.expr(n['inner'][0])
            raise NotImplementedError('ctor with %d args' % len(n['inner']))
        if k == 'FloatingLiteral':
            from fractions import Fraction
            f = Fraction(n['value']) if 'e' not in n['value'].lower() else Fraction(float(n['value']))
            return D(RealVal(str(f)))
        if k == 'IntegerLiteral': return int(n['value'])
        if k == 'DeclRefExpr': return s.env[n['referencedDecl']['name']]
        if k == 'BinaryOperator':
            a = s.expr(n['inner'][0]); b = s.expr(n['inner'][1]); op = n['opcode']
            return {'+': lambda: a + b, '-': lambda: a - b, '*': lambda: a * b, '/': lambda: a / b}[op]()
        if k == 'UnaryOperator':
            a = s.expr(n['inner'][0])
            if n['opcode'] == '-': return -a
            raise NotImplementedError(n['opcode'])
        if k == 'CXXOperatorCallExpr':
            callee = n['inner'][0]
            while callee['kind'] != 'DeclRefExpr': callee = callee['inner'][0]
            op = callee['referencedDecl']['name']; args = [s.expr(a) for a in n['inner'][1:]]
            if op == 'operator[]': return ('index', args[0], args[1])
            if len(args) == 1 and op == 'operator-': return -args[0]
            a, b = args
            if isinstance(a, int): a = D(a)
            if isinstance(b, int): b = D(b)
            return {'operator+': lambda: a + b, 'operator-': lambda: a - b, 'operator*': lambda: a * b, 'operator/': lambda: a / b}[op]()
        if k == 'CXXMemberCallExpr':
            me = n['inner'][0]; name = me['name']; obj = s.expr(me['inner'][0]); args = [s.expr(a) for a in n['inner'][1:]]
            if name in s.cb: return s.cb[name](obj, *args)
            return getattr(obj, name)(*args)
        if k == 'CallExpr':
            callee = n['inner'][0]
            while callee['kind'] != 'DeclRefExpr': callee = callee['inner'][0]
            name = callee['referencedDecl']['name']; args = [s.expr(a) for a in n['inner'][1:]]
            return {'sqrt': d_sqrt, 'acos': d_acos, 'pow': d_pow}[name](*args)
        if k == 'CXXThisExpr': return s.env['this']
        if k == 'MemberExpr':
            obj = s.expr(n['inner'][0]); return obj[n['name']]
        raise NotImplementedError(k)

def run(method, env, cb):
    body = [c for c in method['inner'] if c['kind'] == 'CompoundStmt'][0]
    ex = Exec(env, cb)
    try: ex.stmt(body)
    except Ret as r: return r.v
    return None

if __name__ == '__main__':
    docs = load_docs(sys.argv[1])
    ev = [d for d in docs if d.get('name') == 'EvaluateVar'][0]
    gr = [d for d in docs if d.get('name') == 'Grad'][0]
    # positions r0,r1,r2 with tangents = unit perturbation of (bead pb, comp pc)
    fails = 0
    for pb in range(3):
        for pc in range(3):
            SIDE.clear()
            R = [[Real('r%d_%d' % (b, c)) for c in range(3)] for b in range(3)]
            pos = [V([D(R[b][c], 1 if (b == pb and c == pc) else 0) for c in range(3)]) for b in range(3)]
            # contract of Topology::getDist(i,j): r_j - r_i (open box / locally, away from image switch)
            def getDist(top, i, j):
                i = i[2] if isinstance(i, tuple) else i; j = j[2] if isinstance(j, tuple) else j
                return pos[j] - pos[i]
            env = {'top': 'TOP', 'this': {'beads_': 'BEADS'}}
            val = run(ev, env, {'getDist': getDist})
            g = run(gr, dict(env, bead=pb), {'getDist': getDist})
            sol = Solver(); sol.set('timeout', 60000)
            v1 = pos[0] - pos[1]; v2 = pos[2] - pos[1]
            sol.add(v1.squaredNorm().v > 0, v2.squaredNorm().v > 0)
            # non-degenerate: not collinear
            c = v1.cross(v2); sol.add(c.squaredNorm().v > 0)
            for cst in SIDE: sol.add(cst)
            sol.add(val.t != g.c[pc].v)
            t = time.time(); r = sol.check()
            print('dEval/d r[%d][%d] == Grad(%d)[%d]:' % (pb, pc, pb, pc), 'PROVED' if r == unsat else r, '%.2fs' % (time.time() - t))
            if r != unsat: fails += 1
    print('fails', fails)
