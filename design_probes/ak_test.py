import sys, time
sys.path.insert(0, '/tmp/probe')
import se_gen
from se_gen import *
docs = load_docs('/tmp/probe/ast_ak.json')
M = methods_of(docs); print(sorted(M))
ENUM = {'splineNormal': 0, 'splinePeriodic': 1, 'splineDerivativeZero': 2}
# getSlope: fabs -> sign split; isApproximatelyEqual -> decision
def run_getslope(m, decide_equal, signs):
    cb = {'isApproximatelyEqual': lambda a, b, tol: decide_equal, 'fabs': lambda x: (D.lift(x) if signs.pop(0) else -D.lift(x)), 'decide': None, 'enum': None}
    return Exec({}, cb, M, {}).call_method('getSlope', {}, [D(x) for x in m])
ms = [sp.Symbol('m%d' % i, real=True) for i in range(1, 5)]
# degenerate branch: (m2+m3)/2 ; with all slopes equal to m -> m
v = run_getslope([ms[0], ms[0], ms[0], ms[0]], True, [])
print('getSlope equal slopes -> m:', nf_zero(v.v - ms[0]))
# generic branch, all four sign combinations of (m4-m3),(m2-m1): result is a convex combination of m2, m3
ok = True
for s1 in (True, False):
    for s2 in (True, False):
        v = run_getslope(ms, False, [s1, s2, s1, s2])
        a = (ms[3] - ms[2]) * (1 if s1 else -1); b = (ms[1] - ms[0]) * (1 if s2 else -1)   # |m4-m3|, |m2-m1| on this sign path
        ok = ok and nf_zero(v.v - (a * ms[1] + b * ms[2]) / (a + b))
print('getSlope = (|m4-m3| m2 + |m2-m1| m3)/(|m4-m3|+|m2-m1|) on all sign paths:', ok)
# Interpolate with N=5 knots, natural boundaries; then Hermite conditions per interval
N = 5
xs = [sp.Symbol('x0', real=True)]; hs = [sp.Symbol('h%d' % i, positive=True) for i in range(N - 1)]
for i in range(N - 1): xs.append(xs[-1] + hs[i])
ys = [sp.Symbol('y%d' % i, real=True) for i in range(N)]
slopes = []
def getSlope_contract(obj, a, b, c, d):
    t = sp.Symbol('t%d' % len(slopes), real=True); slopes.append((t, a, b, c, d)); return D(t)
this = {'boundaries_': 0}
cb = {'enum': lambda nm: ENUM[nm], 'getSlope': getSlope_contract, 'getInterval': None}
ex = Exec({}, cb, {k: v for k, v in M.items() if k != 'getSlope'}, this)
t0 = time.time()
ex.call_method('Interpolate', this, [Vec(xs), Vec(ys)])
print('Interpolate executed, slopes requested:', len(slopes), 'fields:', sorted(this.keys()))
r = sp.Symbol('r', real=True); allok = True
for iv in range(N - 1):
    cb2 = {'getInterval': lambda o, rr, iv=iv: iv, 'enum': None}
    val = Exec({}, cb2, M, this).call_method('Calculate', this, [D(r, 1)])
    der = Exec({}, cb2, M, this).call_method('CalculateDerivative', this, [D(r)])
    t = this['t'].c
    checks = [('d/dr', val.t - der.v), ('S(x_i)=y_i', val.v.subs(r, xs[iv]) - ys[iv]), ('S(x_i+1)=y_i+1', val.v.subs(r, xs[iv + 1]) - ys[iv + 1]),
              ("S'(x_i)=t_i", der.v.subs(r, xs[iv]) - t[iv].v), ("S'(x_i+1)=t_i+1", der.v.subs(r, xs[iv + 1]) - t[iv + 1].v)]
    res = [(nm, nf_zero(e)) for nm, e in checks]; allok = allok and all(z for _, z in res)
    print(' interval', iv, res)
print('Akima Hermite conditions all proved:', allok, ' %.1fs' % (time.time() - t0))
