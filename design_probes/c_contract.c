#include <stddef.h>
void tric_sc(const double *box9, const double *ri, const double *rj, double *out)
__CPROVER_requires(__CPROVER_is_fresh(box9, 9*sizeof(double)))
__CPROVER_requires(__CPROVER_is_fresh(ri, 3*sizeof(double)))
__CPROVER_requires(__CPROVER_is_fresh(rj, 3*sizeof(double)))
__CPROVER_requires(__CPROVER_is_fresh(out, 3*sizeof(double)))
__CPROVER_requires(box9[0]==1.0 && box9[4]==1.0 && box9[8]==1.0 && box9[1]==0.0 && box9[2]==0.0&& box9[3]==0.0&& box9[5]==0.0&& box9[6]==0.0&& box9[7]==0.0)
__CPROVER_requires(ri[0]==0.0 && ri[1]==0.0 && ri[2]==0.0 && rj[0]==0.75 && rj[1]==0.25 && rj[2] == 2.0)
__CPROVER_assigns(__CPROVER_object_whole(out))
__CPROVER_ensures(out[0]==-0.25 && out[1]==0.25 && out[2]==0.0)
;
void h_tric(void) { double *b,*i,*j,*o; tric_sc(b,i,j,o); }
