
typedef long Index;
extern "C" void ev(int what, long arg);
extern "C" int nondet_int();
struct string { int h; string(){h=0;} string(const char*){h=1;} string operator+(const char*) const { string r; r.h=h+100; return r; } bool operator==(const string&o) const { return h==o.h; } const char* c_str() const { return 0; } };
namespace std { typedef ::string string; }
struct QMThread {};
struct Job { int id; int status; string host; bool avail; 
  bool isAvailable() const { return avail; } string getStatusStr() const { string s; s.h=status; return s; } string getHost() const { return host; }
  void Reset(){ ev(10,id);} void setStatus(const char*){ ev(11,id); status=2; avail=false; } void setHost(string h){ host=h; } void setTime(string){} };
typedef Job* JobIt;
struct JobVec { Job d[4]; long n; JobIt begin(){ return d; } JobIt end(){ return d+n; } long size() const { return n; } };
struct JobPtrVec { Job* d[8]; long n; void clear(){ n=0; } long size() const { return n; } void push_back(Job *j){ __CPROVER_assert(n<8,"cap"); d[n++]=j; ev(12,j->id);} };
struct StrMap { int keys[2]; int count(const string &s) const { return (s.h==keys[0]||s.h==keys[1]) ? 1 : 0; } };
namespace boost { namespace interprocess { struct file_lock { file_lock(const char*){} void lock(){ ev(1,2);} void lock_sharable(){ ev(1,1);} void unlock(){ ev(6,2);} void unlock_sharable(){ ev(6,1);} }; } }
JobVec LOAD_JOBS(const string &f){ ev(2,f.h); JobVec v; v.n=nondet_int(); return v; }
void UPDATE_JOBS(JobVec &from, JobVec &to, const string &host){ ev(3,0); }
void WRITE_JOBS(JobVec &jobs, const string &f){ ev(4,f.h); }
typedef JobVec JobContainer;
struct ProgObserver {
  string progFile_, lockFile_; JobContainer jobs_; JobIt metajit_; JobPtrVec jobsToProc_; Index cacheSize_, startJobsCount_, maxJobs_; bool restartMode_; StrMap restart_stats_, restart_hosts_;
  boost::interprocess::file_lock *flock_;
  string GenerateHost(){ string s; s.h=7; return s; } string GenerateTime(){ string s; return s; }
  void LockProgFile(QMThread &thread){ flock_->lock_sharable(); } void ReleaseProgFile(QMThread &thread){ flock_->unlock_sharable(); }
  void SyncWithProgFile(QMThread &thread);
};
void ProgObserver::SyncWithProgFile(QMThread &thread)
{

  // INTERPROCESS FILE LOCKING (THREAD LOCK IN ::RequestNextJob)
  this->LockProgFile(thread);

  std::string progFile = progFile_;
  std::string progBackFile = progFile_ + "~";

  // LOAD EXTERNAL JOBS FROM SHARED XML & UPDATE INTERNAL JOBS
  /*log*/;
  JobContainer jobs_ext = LOAD_JOBS(progFile);
  UPDATE_JOBS(jobs_ext, jobs_, GenerateHost());

  // GENERATE BACK-UP FOR SHARED XML
  /*log*/;
  WRITE_JOBS(jobs_, progBackFile);

  // ASSIGN NEW JOBS IF AVAILABLE
  /*log*/;
  jobsToProc_.clear();

  Index cacheSize = cacheSize_;
  while (int(jobsToProc_.size()) < cacheSize) {
    if (metajit_ == jobs_.end() || startJobsCount_ == maxJobs_) {
      break;
    }

    bool startJob = false;

    // Start if job available or restart patterns matched
    if ((metajit_->isAvailable()) ||
        (restartMode_ && restart_stats_.count(metajit_->getStatusStr())) ||
        (restartMode_ && restart_hosts_.count(metajit_->getHost()))) {
      startJob = true;
    }

    if (startJob) {
      metajit_->Reset();
      metajit_->setStatus("ASSIGNED");
      metajit_->setHost(GenerateHost());
      metajit_->setTime(GenerateTime());
      jobsToProc_.push_back(&*metajit_);
      startJobsCount_ += 1;
    }

    ++metajit_;
  }

  // UPDATE PROGRESS STATUS FILE
  WRITE_JOBS(jobs_, progFile);

  // RELEASE PROGRESS STATUS FILE
  this->ReleaseProgFile(thread);
  return;
}

extern "C" void h_sync(ProgObserver *o){ QMThread t; o->SyncWithProgFile(t); }
extern "C" { extern int stage, bad, lockmode, writes, pushes; }
bool nondet_bool(); long nondet_long();
extern "C" void h_sync_all(){
  ProgObserver o; boost::interprocess::file_lock fl("x"); o.flock_ = &fl;
  o.progFile_ = string("f"); 
  long n = nondet_long(); __CPROVER_assume(0 <= n && n <= 3); o.jobs_.n = n;
  for (int i = 0; i < 3; i++) { o.jobs_.d[i].id = i; o.jobs_.d[i].avail = nondet_bool(); o.jobs_.d[i].status = nondet_bool() ? 3 : 4; o.jobs_.d[i].host.h = 50; }
  long pos = nondet_long(); __CPROVER_assume(0 <= pos && pos <= n); o.metajit_ = o.jobs_.d + pos;
  o.cacheSize_ = nondet_long(); __CPROVER_assume(0 <= o.cacheSize_ && o.cacheSize_ <= 4);
  o.maxJobs_ = nondet_long(); o.startJobsCount_ = nondet_long(); __CPROVER_assume(0 <= o.startJobsCount_ && o.startJobsCount_ <= o.maxJobs_ && o.maxJobs_ <= 10);
  o.restartMode_ = nondet_bool(); o.restart_stats_.keys[0] = 3; o.restart_stats_.keys[1] = -1; o.restart_hosts_.keys[0] = -1; o.restart_hosts_.keys[1] = -1;
  o.jobsToProc_.n = 0;
  long start0 = o.startJobsCount_;
  QMThread t; 

  o.SyncWithProgFile(t);
  __CPROVER_assert(!bad, "event order lock,load,update,write(backup),assign*,write(file),unlock; assigned ids strictly increasing");
  __CPROVER_assert(stage == 6 && writes == 2, "both writes and the unlock happen on every path");
  __CPROVER_assert(o.jobsToProc_.n <= o.cacheSize_, "cache size respected");
  __CPROVER_assert(o.startJobsCount_ <= o.maxJobs_ && o.startJobsCount_ == start0 + pushes, "maxjobs respected, counter = assignments");
  __CPROVER_assert(0, "canary");
}
