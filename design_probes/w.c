#include <stddef.h>
#define nullptr ((const char*)0)
#ifndef N
#define N 5
#endif
int wildcmp(const char *wild, const char *string) {
  // Written by Jack Handy - jakkhandy@hotmail.com
  const char *cp = nullptr, *mp = nullptr;

  while ((*string) && (*wild != '*')) {
    if ((*wild != *string) && (*wild != '?')) {
      return 0;
    }
    wild++;
    string++;
  }

  while (*string) {
    if (*wild == '*') {
      if (!*++wild) {
        return 1;
      }
      mp = wild;
      cp = string + 1;
    } else if ((*wild == *string) || (*wild == '?')) {
      wild++;
      string++;
    } else {
      wild = mp;
      string = cp++;
    }
  }

  while (*wild == '*') {
    wild++;
  }
  return !*wild;
}
/* reference spec: recursive glob */
int spec(const char *w, const char *s) {
  if (*w == 0) return *s == 0;
  if (*w == '*') return spec(w+1, s) || (*s != 0 && spec(w, s+1));
  if (*s == 0) return 0;
  if (*w == '?' || *w == *s) return spec(w+1, s+1);
  return 0;
}
char nondet_char();
void h(void) {
  char w[N+1], s[N+1];
  for (int i=0;i<N;i++){ w[i]=nondet_char(); s[i]=nondet_char(); }
  w[N]=0; s[N]=0;
  int r = wildcmp(w, s);
  int e = spec(w, s);
  __CPROVER_assert((r!=0) == (e!=0), "wildcmp agrees with glob spec");
}
