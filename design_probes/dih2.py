import sys, time
import sympy as sp
src = open('/tmp/probe/se_sym2.py').read().split("docs = load_docs")[0]
sys.argv=['x','/tmp/probe/ast1.json']
exec(src)
def run_case(pb, pc):
    del RAD[:]
    W=[[sp.Symbol('%s%d'%(n,c), real=True) for c in range(3)] for n in 'abc']
    def tang(b,c): return 1 if (b==pb and c==pc) else 0
    # v1 = r1-r0 (getDist(0,1)), v2 = r2-r1, v3 = r3-r2
    v1=V([D(W[0][c], tang(1,c)-tang(0,c)) for c in range(3)])
    v2=V([D(W[1][c], tang(2,c)-tang(1,c)) for c in range(3)])
    v3=V([D(W[2][c], tang(3,c)-tang(2,c)) for c in range(3)])
    n1=v1.cross(v2); n2=v2.cross(v3)
    P=[sp.Symbol('p%d'%c, real=True) for c in range(3)]; Q=[sp.Symbol('q%d'%c, real=True) for c in range(3)]
    n1=V([D(P[c], n1.c[c].t) for c in range(3)]); n2=V([D(Q[c], n2.c[c].t) for c in range(3)])
    sign = sp.Symbol('sg')  # +-1, treated as symbol with sg^2=1 (both branches at once)
    val = D.lift(sign) * d_acos(n1.dot(n2)/d_sqrt(n1.squaredNorm()*n2.squaredNorm()))
    # strip tangents for gradient formula evaluation (uses values only)
    def strip(v): return V([D(x.v) for x in v.c])
    u1,u2,u3,N1,N2=strip(v1),strip(v2),strip(v3),strip(n1),strip(n2)
    E=[V([1 if i==k else 0 for i in range(3)]) for k in range(3)]
    ap = D.lift(sign)*(D(-1)/d_sqrt(D(1) - d_pow(N1.dot(N2),2)/(N1.squaredNorm()*N2.squaredNorm())))
    i=pc
    if pb==0:
        rv = N2.dot(u2.cross(E[i]))/(N1.norm()*N2.norm()) - N1.dot(N2)*N1.dot(u2.cross(E[i]))/(N2.norm()*d_pow(N1.norm(),3))
    elif pb==3:
        rv = N1.dot(u2.cross(E[i]))/(N1.norm()*N2.norm()) - N1.dot(N2)*N2.dot(u2.cross(E[i]))/(N1.norm()*d_pow(N2.norm(),3))
    elif pb==1:
        rv = (N1.dot(u3.cross(E[i])) + N2.dot(E[i].cross(u1)+E[i].cross(u2)))/(N1.norm()*N2.norm()) - N1.dot(N2)*((N1.dot(E[i].cross(u1)+E[i].cross(u2)))/(N2.norm()*d_pow(N1.norm(),3)) + N2.dot(u3.cross(E[i]))/(N1.norm()*d_pow(N2.norm(),3)))
    else:
        rv = (N1.dot(E[i].cross(u2)+E[i].cross(u3)) + N2.dot(u1.cross(E[i])))/(N1.norm()*N2.norm()) - N1.dot(N2)*(N1.dot(u1.cross(E[i]))/(N2.norm()*d_pow(N1.norm(),3)) + (N2.dot(E[i].cross(u2)+E[i].cross(u3)))/(N1.norm()*d_pow(N2.norm(),3)))
    g = ap*rv
    t=time.time()
    ok = nf_zero(val.t - g.v, final=True)
    print('dihedral d/d r[%d][%d]'%(pb,pc), 'PROVED' if ok else 'NOT-ZERO', '%.1fs'%(time.time()-t), 'rad', len(RAD), 'dep', len(DEP)); sys.stdout.flush()
for pb in [0,3,1,2]:
    run_case(pb,0)
