import sys, time
sys.path.insert(0, '/tmp/probe')
from se_gen import *
docs = load_docs('/tmp/probe/ast_cs.json')
M = methods_of(docs)
ENUM = {'splineNormal': 0, 'splinePeriodic': 1, 'splineDerivativeZero': 2}
def mk(N, bc, seed_r=None, iv=None):
    del RAD[:]
    xs = [sp.Symbol('x%d' % i, real=True) for i in range(N)]
    hs = [sp.Symbol('h%d' % i, positive=True) for i in range(N - 1)]
    # knots as x0, x0+h0, ... so that h>0 is built in
    knots = [xs[0]]
    for i in range(N - 1): knots.append(knots[-1] + hs[i])
    this = {'r_': Vec(knots), 'f_': Vec([sp.Symbol('f%d' % i, real=True) for i in range(N)]),
            'f2_': Vec([sp.Symbol('g%d' % i, real=True) for i in range(N)]), 'boundaries_': bc}
    return this, knots, hs
def run(name, this, args, iv):
    cb = {'getInterval': lambda obj, r: iv, 'enum': lambda nm: ENUM[nm]}
    ex = Exec({}, cb, M, this)
    return ex.call_method(name, this, args)
ok = True
def check(label, e):
    global ok
    z = nf_zero(e); print('  %-60s %s' % (label, 'PROVED' if z else 'NOT-ZERO'));
    if not z: ok = False
t0 = time.time()
N = 4
for iv in range(N - 1):
    this, knots, hs = mk(N, 0)
    r = sp.Symbol('r', real=True)
    val = run('Calculate', this, [D(r, 1)], iv)
    der = run('CalculateDerivative', this, [D(r, 0)], iv)
    print('interval', iv)
    check('CalculateDerivative == d/dr Calculate', val.t - der.v)
    f, g = this['f_'].c, this['f2_'].c
    check('Calculate(r_i) == f_i', val.v.subs(r, knots[iv]) - f[iv].v)
    check('Calculate(r_{i+1}) == f_{i+1}', val.v.subs(r, knots[iv + 1]) - f[iv + 1].v)
    check("S''(r_i) == f2_i", sp.diff(val.v, r, 2).subs(r, knots[iv]) - g[iv].v)
    check("S''(r_{i+1}) == f2_{i+1}", sp.diff(val.v, r, 2).subs(r, knots[iv + 1]) - g[iv + 1].v)
# helper consistency: *_prime_l/r vs primes at interval ends
this, knots, hs = mk(N, 0)
r = sp.Symbol('r', real=True)
for i in range(N - 2):
    for nm_l, nm in (('A_prime_l', 'Aprime'), ('B_prime_l', 'Bprime'), ('C_prime_l', 'Cprime'), ('D_prime_l', 'Dprime')):
        l = run(nm_l, this, [i], None); p = run(nm, this, [D(r)], i)
        check('%s(%d) == %s at right end of interval %d' % (nm_l, i, nm, i), l.v - p.v.subs(r, knots[i + 1]))
    for nm_r, nm in (('A_prime_r', 'Aprime'), ('B_prime_r', 'Bprime'), ('C_prime_r', 'Cprime'), ('D_prime_r', 'Dprime')):
        l = run(nm_r, this, [i], None); p = run(nm, this, [D(r)], i + 1)
        check('%s(%d) == %s at left end of interval %d' % (nm_r, i, nm, i + 1), l.v - p.v.subs(r, knots[i + 1]))
# Interpolate: run the real body with N knots, QR.solve as contract
for bc, bcname in ((0, 'natural'), (1, 'periodic')):
    this, knots, hs = mk(N, bc)
    X = Vec(knots); Y = Vec([sp.Symbol('y%d' % i, real=True) for i in range(N)])
    sol = {}
    def solve(A, b):
        A = A[1] if isinstance(A, tuple) else A
        n = len(b.c); u = [sp.Symbol('u%d' % i, real=True) for i in range(n)]
        eqs = [sum(A.m[i][j].v * u[j] for j in range(n)) - b.c[i].v for i in range(n)]
        sol['eqs'] = eqs; sol['u'] = u; sol['A'] = sp.Matrix([[A.m[i][j].v for j in range(n)] for i in range(n)])
        return Vec(u)
    cb = {'enum': lambda nm: ENUM[nm], 'solve': solve, 'getInterval': None}
    ex = Exec({}, cb, M, this)
    this['r_'] = None; this['f_'] = None; this['f2_'] = None
    ex.call_method('Interpolate', this, [X, Y])
    A = sol['A']; print('Interpolate', bcname, 'rank of system', A.rank(), 'of', N)
    ss = sp.solve(sol['eqs'], sol['u'], dict=True)
    print('   solutions:', len(ss), 'free params:', [u for u in sol['u'] if ss and u not in ss[0]])
    if not ss: continue
    s0 = ss[0]
    # continuity of first derivative at inner knots for every solution
    for i in range(N - 2):
        this2 = dict(this); this2['f2_'] = Vec([u.subs(s0) if u in s0 else u for u in sol['u']])
        dl = Exec({}, {'getInterval': lambda o, r, i=i: i, 'enum': None}, M, this2).call_method('CalculateDerivative', this2, [D(r)])
        dr_ = Exec({}, {'getInterval': lambda o, r, i=i: i + 1, 'enum': None}, M, this2).call_method('CalculateDerivative', this2, [D(r)])
        check('%s: S\' continuous at knot %d' % (bcname, i + 1), dl.v.subs(r, knots[i + 1]) - dr_.v.subs(r, knots[i + 1]))
    g = this2['f2_'].c
    if bc == 0:
        check('natural: f2_0 == 0', g[0].v); check('natural: f2_{N-1} == 0', g[N - 1].v)
    else:
        check('periodic: f2_0 == f2_{N-1}', g[0].v - g[N - 1].v)
        d0 = Exec({}, {'getInterval': lambda o, r: 0, 'enum': None}, M, this2).call_method('CalculateDerivative', this2, [D(r)])
        dN = Exec({}, {'getInterval': lambda o, r: N - 2, 'enum': None}, M, this2).call_method('CalculateDerivative', this2, [D(r)])
        check('periodic: S\'(r_0) == S\'(r_{N-1})', d0.v.subs(r, knots[0]) - dN.v.subs(r, knots[N - 1]))
print('time %.1fs' % (time.time() - t0))
