import sys, time, json
import sympy as sp
sys.argv_backup = sys.argv
import importlib.util
src = open('/tmp/probe/se.py').read()
# reuse parser/executor pieces but with sympy arithmetic
src = src.replace('from z3 import *', 'import sympy as sp\ndef is_expr(x): return isinstance(x, sp.Basic)\ndef RealVal(x): return sp.Rational(str(x)) if not isinstance(x,(int,)) else sp.Integer(x)\ndef Real(n): return sp.Symbol(n, real=True)\ndef simplify(x): return x\ndef And(*a): return a\ndef Function(*a): return sp.Function("acos")\ndef RealSort(): return None\ndef is_rational_value(x): return True')
src = src.split("if __name__ == '__main__':")[0]
exec(src)
RAD = []   # (symbol, arg)
SQ = {}
def d_sqrt(x):
    x = D.lift(x); arg = sp.together(x.v)
    key = sp.srepr(sp.simplify(arg)) if False else None
    # unify: look for radical with same argument (zero-test by normal form)
    for (r, a) in RAD:
        if nf_zero(a - arg): return D(r, x.t / (2 * r))
    for i in range(len(RAD)):
        for j in range(i, len(RAD)):
            if nf_zero(RAD[i][1] * RAD[j][1] - arg):
                r = RAD[i][0] * RAD[j][0]; return D(r, x.t / (2 * r))
    r = sp.Symbol('s%d' % len(RAD), positive=True); RAD.append((r, arg))
    return D(r, x.t / (2 * r))
def reduce_rad(p):
    p = sp.expand(p)
    changed = True
    while changed:
        changed = False
        for (r, a) in RAD:
            if not isinstance(r, sp.Symbol): continue
            P = sp.Poly(p, r) if p.has(r) else None
            if P is None: continue
            if P.degree() >= 2:
                # replace r^2 by a
                coeffs = P.all_coeffs()[::-1]
                newp = 0
                for k, c in enumerate(coeffs):
                    newp += c * (a ** (k // 2)) * (r ** (k % 2))
                p = sp.expand(sp.numer(sp.together(newp))) if False else sp.together(newp)
                num, den = sp.fraction(p); p = sp.expand(num); changed = True
    return p
DEP = {}
def find_deps():
    DEP.clear()
    syms = [(r, a) for (r, a) in RAD]
    for k, (rk, ak) in enumerate(syms):
        for i, (ri, ai) in enumerate(syms):
            for j, (rj, aj) in enumerate(syms):
                if i >= j or k in (i, j) or ri in DEP or rj in DEP: continue
                if sp.expand(sp.numer(sp.together(ak - ai * aj))) == 0:
                    DEP[rk] = ri * rj
def nf_zero(e, final=False):
    if final:
        find_deps()
        if DEP: e = e.subs(DEP)
        for idx, (r, a) in enumerate(RAD): RAD[idx] = (r, a.subs(DEP)) if r not in DEP else (r, a)
    num, den = sp.fraction(sp.together(e))
    num = reduce_rad(num)
    return sp.expand(num) == 0
def d_acos(x):
    x = D.lift(x); q = d_sqrt(D(1 - x.v * x.v)); return D(sp.Function('acos')(x.v), -x.t / q.v)
Exec.expr.__globals__['d_sqrt'] = d_sqrt
docs = load_docs(sys.argv[1])
ev = [d for d in docs if d.get('name') == 'EvaluateVar'][0]
gr = [d for d in docs if d.get('name') == 'Grad'][0]
for pb in [1, 0, 2]:
    for pc in range(3):
        del RAD[:]
        W1 = [sp.Symbol('a%d' % c, real=True) for c in range(3)]; W2 = [sp.Symbol('b%d' % c, real=True) for c in range(3)]
        def tang(b, c): return 1 if (b == pb and c == pc) else 0
        vv = {(1, 0): V([D(W1[c], tang(0, c) - tang(1, c)) for c in range(3)]), (1, 2): V([D(W2[c], tang(2, c) - tang(1, c)) for c in range(3)])}
        def getDist(top, i, j):
            i = i[2] if isinstance(i, tuple) else i; j = j[2] if isinstance(j, tuple) else j
            return vv[(i, j)]
        env = {'top': 'TOP', 'this': {'beads_': 'BEADS'}}
        t = time.time()
        val = run(ev, env, {'getDist': getDist})
        g = run(gr, dict(env, bead=pb), {'getDist': getDist})
        ok = nf_zero(val.t - g.c[pc].v, final=True)
        print('dEval/d r[%d][%d] == Grad(%d)[%d]:' % (pb, pc, pb, pc), 'PROVED' if ok else 'NOT-ZERO', '%.2fs' % (time.time() - t), 'radicals', len(RAD), 'dep', len(DEP))
