#include <stddef.h>
/* ghost protocol state (sequential contract for ProcessData) */
enum { K_IN = 0, K_OUT = 1, K_READER = 2 };
long g_id, g_n;
int g_in_own_locked, g_reader_held, g_reader_locks, g_reader_unlocks, g_next_unlocked, g_nextframe_calls, g_evals, g_bad;
int nondet_int(void);
void ev_lock(int which, long idx) {
  if (which == K_IN) { if (idx != g_id || g_in_own_locked || g_reader_locks) g_bad = 1; g_in_own_locked = 1; }
  else if (which == K_READER) { if (!g_in_own_locked || g_reader_held) g_bad = 1; g_reader_held = 1; g_reader_locks++; }
  else g_bad = 1;
}
void ev_unlock(int which, long idx) {
  if (which == K_READER) { if (!g_reader_held) g_bad = 1; g_reader_held = 0; g_reader_unlocks++; }
  else if (which == K_IN) { if (idx != (g_id + 1) % g_n || g_reader_held || g_next_unlocked) g_bad = 1; g_next_unlocked++; }
  else g_bad = 1;
}
int ev_nextframe(long wid) { if (!g_reader_held) g_bad = 1; g_nextframe_calls++; return nondet_int() != 0; }
void ev_eval(long wid) { if (g_reader_held || !g_next_unlocked) g_bad = 1; g_evals++; }
void ev_merge(long wid) { g_bad = 1; }
