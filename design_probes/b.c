#include <math.h>
double nondet_double();
double sc(double ri, double rj, double L) {
  double r = rj - ri;
  return r - L * round(r / L);
}
int main() {
  double ri = nondet_double(), rj = nondet_double(), L = nondet_double();
  __CPROVER_assume(L >= 1e-3 && L <= 1e3);
  __CPROVER_assume(ri >= -1e6 && ri <= 1e6);
  __CPROVER_assume(rj >= -1e6 && rj <= 1e6);
  double s = sc(ri, rj, L);
#ifdef P1
  __CPROVER_assert(fabs(s) <= L * 0.5000001, "min image bound");
#endif
#ifdef P2
  double t = sc(rj, ri, L);
  __CPROVER_assert(s == -t, "antisymmetric");
#endif
  return 0;
}
