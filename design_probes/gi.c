#include <stddef.h>
typedef long Index;
struct VecXd { double *d; Index n; };
struct Spline { struct VecXd r_; };
Index Spline_getInterval(struct Spline *self, double r, Index k /* ghost witness index */)
__CPROVER_requires(__CPROVER_is_fresh(self, sizeof(*self)))
__CPROVER_requires(self->r_.n >= 2 && self->r_.n <= 100000)
__CPROVER_requires(__CPROVER_is_fresh(self->r_.d, self->r_.n * sizeof(double)))
__CPROVER_requires(r == r) /* not NaN */
__CPROVER_requires(0 <= k && k < self->r_.n)
/* sortedness instantiated at the ghost witness: all we need is r_[k] vs neighbours */
__CPROVER_requires(__CPROVER_forall { Index j; (0 <= j && j < self->r_.n - 1) ==> self->r_.d[j] < self->r_.d[j+1] })
__CPROVER_assigns()
__CPROVER_ensures(0 <= __CPROVER_return_value && __CPROVER_return_value <= self->r_.n - 2)
__CPROVER_ensures((r >= self->r_.d[0] && r <= self->r_.d[self->r_.n - 2]) ==> (self->r_.d[__CPROVER_return_value] <= r && r < self->r_.d[__CPROVER_return_value + 1]))
;
#define r_ (self->r_)
#define SIZE(v) ((v).n)
Index Spline_getInterval(struct Spline *self, double r, Index k) {
  if (r < r_.d[0]) {
    return 0;
  }
  if (r > r_.d[SIZE(r_) - 2]) {
    return SIZE(r_) - 2;
  }
  Index i;
  for (i = 0; i < SIZE(r_); ++i)
  __CPROVER_assigns(i)
  __CPROVER_loop_invariant(0 <= i && i <= SIZE(r_) - 1)
  __CPROVER_loop_invariant(i == 0 || r_.d[i-1] <= r)
  __CPROVER_decreases(SIZE(r_) - i)
  {
    if (r_.d[i] > r) {
      break;
    }
  }
  return i - 1;
}
void h(void){ struct Spline *s; double r; Index k; Spline_getInterval(s, r, k); }
