
typedef long Index;
extern "C" double fabs(double);
double nondet_double(); long nondet_long();
namespace std { inline double abs(double x){ return fabs(x);} inline double max(double a,double b){ return a>b?a:b; } }
namespace Eigen {
struct Vector3d { double x_,y_,z_;
  Vector3d cross(const Vector3d &o) const { Vector3d r; r.x_=nondet_double(); r.y_=nondet_double(); r.z_=nondet_double(); return r; }
  void normalize() { x_=nondet_double(); y_=nondet_double(); z_=nondet_double(); }
  double dot(const Vector3d &o) const { return x_; }
  Vector3d operator/(double s) const { Vector3d r; r.x_=x_/s; r.y_=y_/s; r.z_=z_/s; return r; }
  Vector3d operator*(double s) const { Vector3d r; r.x_=x_*s; r.y_=y_*s; r.z_=z_*s; return r; }
};
struct Matrix3d { Vector3d c0,c1,c2; Vector3d col(int j) const { return j==0?c0:(j==1?c1:c2); } };
}
#define MAXC 64
#ifndef KA
#define KA 2.0
#define KB 1.0
#define KC 3.0
#endif
struct cell_t; 
struct cellvec { cell_t *p[32]; long n; void push_back(cell_t *c){ __CPROVER_assert(n<32,"nb capacity"); p[n++]=c; } };
struct cell_t { cellvec neighbours_; };
namespace tools { template <class T,int N> struct NDimVector { T c[MAXC]; Index na,nb,nc; NDimVector(){} void operator=(const NDimVector &o){ na=o.na; nb=o.nb; nc=o.nc; for(int i=0;i<MAXC;i++) c[i].neighbours_.n=0; } NDimVector(Index a,Index b,Index cc):na(a),nb(b),nc(cc){ __CPROVER_assume(a>=1&&b>=1&&cc>=1&&a<=4&&b<=4&&cc<=4); for(int i=0;i<MAXC;i++) c[i].neighbours_.n=0; } T& operator()(Index a,Index b,Index cc){ __CPROVER_assert(0<=a&&a<na&&0<=b&&b<nb&&0<=cc&&cc<nc,"grid index in range"); return c[(a*nb+b)*nc+cc]; } }; }
struct NBListGrid { Eigen::Vector3d box_a_,box_b_,box_c_,norm_a_,norm_b_,norm_c_; Index box_Na_,box_Nb_,box_Nc_; double cutoff_; tools::NDimVector<cell_t,3> grid_; void InitializeGrid(const Eigen::Matrix3d &box); };
void NBListGrid::InitializeGrid(const Eigen::Matrix3d &box)
{
  box_a_ = box.col(0);
  box_b_ = box.col(1);
  box_c_ = box.col(2);

  // create plane normals
  norm_a_ = box_b_.cross(box_c_);
  norm_b_ = box_c_.cross(box_a_);
  norm_c_ = box_a_.cross(box_b_);

  norm_a_.normalize();
  norm_b_.normalize();
  norm_c_.normalize();

  double la = box_a_.dot(norm_a_);
  double lb = box_b_.dot(norm_b_);
  double lc = box_c_.dot(norm_c_);

  // calculate grid size, each grid has to be at least size of cut-off
  box_Na_ = Index(std::max(std::abs(la / cutoff_), 1.0));
  box_Nb_ = Index(std::max(std::abs(lb / cutoff_), 1.0));
  box_Nc_ = Index(std::max(std::abs(lc / cutoff_), 1.0));

  norm_a_ = norm_a_ / box_a_.dot(norm_a_) * (double)box_Na_;
  norm_b_ = norm_b_ / box_b_.dot(norm_b_) * (double)box_Nb_;
  norm_c_ = norm_c_ / box_c_.dot(norm_c_) * (double)box_Nc_;

  grid_ = tools::NDimVector<cell_t, 3>(box_Na_, box_Nb_, box_Nc_);

  Index a1, a2, b1, b2, c1, c2;

  a1 = b1 = c1 = -1;
  a2 = b2 = c2 = 1;

  if (box_Na_ < 3) {
    a2 = 0;
  }
  if (box_Nb_ < 3) {
    b2 = 0;
  }
  if (box_Nc_ < 3) {
    c2 = 0;
  }

  if (box_Na_ < 2) {
    a1 = 0;
  }
  if (box_Nb_ < 2) {
    b1 = 0;
  }
  if (box_Nc_ < 2) {
    c1 = 0;
  }

  // wow, setting up the neighbours is an ugly for construct!
  // loop from N..2*N to avoid if and only use %
  for (Index a = box_Na_; a < 2 * box_Na_; ++a) {
    for (Index b = box_Nb_; b < 2 * box_Nb_; ++b) {
      for (Index c = box_Nc_; c < 2 * box_Nc_; ++c) {
        cell_t &cell = grid_(a % box_Na_, b % box_Nb_, c % box_Nc_);
        for (Index aa = a + a1; aa <= a + a2; ++aa) {
          for (Index bb = b + b1; bb <= b + b2; ++bb) {
            for (Index cc = c + c1; cc <= c + c2; ++cc) {
              cell_t *cell2 = &grid_(aa % box_Na_, bb % box_Nb_, cc % box_Nc_);
              if (cell2 == &cell) {
                continue;  // ignore self
              }
              cell.neighbours_.push_back(
                  &grid_(aa % box_Na_, bb % box_Nb_, cc % box_Nc_));
            }
          }
        }
      }
    }
  }
}
extern "C" void h_init() {
  NBListGrid g; Eigen::Matrix3d box;
  g.cutoff_ = 1.0; box.c0.x_=KA; box.c1.x_=KB; box.c2.x_=KC;
  g.InitializeGrid(box);
  Index Na=g.box_Na_, Nb=g.box_Nb_, Nc=g.box_Nc_;
  Index a=nondet_long(), b=nondet_long(), c=nondet_long();
  __CPROVER_assume(0<=a&&a<Na&&0<=b&&b<Nb&&0<=c&&c<Nc);
  cell_t &cell = g.grid_(a,b,c);
  long n = cell.neighbours_.n;
  long da = Na>=3?3:Na, db = Nb>=3?3:Nb, dc = Nc>=3?3:Nc; __CPROVER_assert(Na==(long)KA && Nb==(long)KB && Nc==(long)KC, "cell counts as configured");
  __CPROVER_assert(n == da*db*dc - 1, "neighbour count = distinct periodic offsets minus self");
  long i=nondet_long(), j=nondet_long();
  __CPROVER_assume(0<=i&&i<n&&0<=j&&j<n&&i!=j);
  __CPROVER_assert(cell.neighbours_.p[i] != cell.neighbours_.p[j], "no duplicate neighbour");
  __CPROVER_assert(cell.neighbours_.p[i] != &cell, "self not a neighbour");
}
