#!/usr/bin/env python3-vt
"""Prototype 2: more general symbolic executor over clang JSON AST, sympy exact arithmetic + forward AD.
   Design-round probe only."""
import json, sys, time
from fractions import Fraction
import sympy as sp

def load_docs(path):
    s = open(path).read()
    dec = json.JSONDecoder(); i = 0; docs = []
    while i < len(s):
        while i < len(s) and s[i].isspace(): i += 1
        if i >= len(s): break
        if s[i] != '{':
            i = s.index('\n', i) + 1; continue
        d, j = dec.raw_decode(s, i); docs.append(d); i = j
    return docs

class Unsupported(Exception): pass

# ---------- dual numbers over sympy ----------
RAD = []          # (symbol, arg)
class D:
    __slots__ = ('v', 't')
    def __init__(s, v, t=0): s.v = sp.sympify(v); s.t = sp.sympify(t)
    @staticmethod
    def lift(x):
        if isinstance(x, D): return x
        if isinstance(x, bool): raise Unsupported('bool as scalar')
        return D(x)
    def __add__(s, o):
        if isinstance(o, (Vec, Mat)): return NotImplemented
        o = D.lift(o); return D(s.v + o.v, s.t + o.t)
    __radd__ = __add__
    def __sub__(s, o): o = D.lift(o); return D(s.v - o.v, s.t - o.t)
    def __rsub__(s, o): return D.lift(o) - s
    def __neg__(s): return D(-s.v, -s.t)
    def __mul__(s, o):
        if isinstance(o, (Vec, Mat)): return o * s
        if hasattr(o, 'g') and hasattr(o, 'p'): return NotImplemented
        o = D.lift(o); return D(s.v * o.v, s.t * o.v + s.v * o.t)
    __rmul__ = __mul__
    def __truediv__(s, o): o = D.lift(o); return D(s.v / o.v, (s.t * o.v - s.v * o.t) / (o.v * o.v))
    def __rtruediv__(s, o): return D.lift(o) / s
    def __repr__(s): return 'D(%s)' % s.v

def nf_num(e):
    num, den = sp.fraction(sp.together(e)); return reduce_rad(sp.expand(num))
def reduce_rad(p):
    changed = True
    while changed:
        changed = False
        for (r, a) in RAD:
            if p.has(r):
                P = sp.Poly(p, r)
                if P.degree() >= 2:
                    coeffs = P.all_coeffs()[::-1]; newp = 0
                    for k, c in enumerate(coeffs): newp += c * (a ** (k // 2)) * (r ** (k % 2))
                    num, den = sp.fraction(sp.together(newp)); p = sp.expand(num); changed = True
    return p
def nf_zero(e): return nf_num(e) == 0
def d_sqrt(x):
    x = D.lift(x); arg = sp.together(x.v)
    if arg.is_number and arg.is_rational is not None and sp.sqrt(arg).is_rational: r = sp.sqrt(arg); return D(r, x.t / (2 * r))
    for (r, a) in RAD:
        if nf_zero(a - arg): return D(r, x.t / (2 * r))
    r = sp.Symbol('s%d' % len(RAD), positive=True); RAD.append((r, arg)); return D(r, x.t / (2 * r))
EXPF = sp.Function('E'); LOGF = sp.Function('L'); ACOSF = sp.Function('acos')
def d_exp(x): x = D.lift(x); e = EXPF(sp.expand(x.v)); return D(e, e * x.t)
def d_log(x): x = D.lift(x); return D(LOGF(x.v), x.t / x.v)
def d_acos(x): x = D.lift(x); q = d_sqrt(D(1 - x.v * x.v)); return D(ACOSF(x.v), -x.t / q.v)
def d_pow(x, n):
    if isinstance(n, D):
        if not n.v.is_Integer: raise Unsupported('pow with non-integer exponent')
        n = int(n.v)
    r = D(1); x = D.lift(x)
    for _ in range(n): r = r * x
    return r

class Vec:
    def __init__(s, c): s.c = [D.lift(x) for x in c]
    def __len__(s): return len(s.c)
    def __add__(s, o): return Vec([a + b for a, b in zip(s.c, o.c)])
    def __sub__(s, o): return Vec([a - b for a, b in zip(s.c, o.c)])
    def __neg__(s): return Vec([-a for a in s.c])
    def __mul__(s, k):
        if isinstance(k, (Vec, Mat)): raise Unsupported('vec*vec')
        return Vec([a * k for a in s.c])
    __rmul__ = __mul__
    def __truediv__(s, k): return Vec([a / k for a in s.c])
    def dot(s, o):
        r = D(0)
        for a, b in zip(s.c, o.c): r = r + a * b
        return r
    def squaredNorm(s): return s.dot(s)
    def norm(s): return d_sqrt(s.squaredNorm())
    def cross(s, o):
        a, b = s.c, o.c
        return Vec([a[1]*b[2]-a[2]*b[1], a[2]*b[0]-a[0]*b[2], a[0]*b[1]-a[1]*b[0]])
    def size(s): return len(s.c)
class Mat:
    def __init__(s, rows): s.m = [[D.lift(x) for x in r] for r in rows]
    def rows(s): return len(s.m)
    def cols(s): return len(s.m[0])

class Ref:
    """lvalue: container + key"""
    def __init__(s, get, set): s.get = get; s.set = set

class Ret(Exception):
    def __init__(s, v): s.v = v
class Thrown(Exception): pass
class Brk(Exception): pass

def rval(x): return x.get() if isinstance(x, Ref) else x

class Exec:
    def __init__(s, env, cb, methods=None, this=None):
        s.env = dict(env); s.cb = cb; s.methods = methods or {}; s.this = this
    def call_method(s, name, this, args):
        m = s.methods[name]
        params = [p['name'] for p in m['inner'] if p['kind'] == 'ParmVarDecl']
        body = [c for c in m['inner'] if c['kind'] == 'CompoundStmt'][0]
        ex = Exec(dict(zip(params, args)), s.cb, s.methods, this)
        try: ex.stmt(body)
        except Ret as r: return r.v
        return None
    def truth(s, c):
        c = rval(c)
        if isinstance(c, bool): return c
        if isinstance(c, int): return c != 0
        if c in (sp.true, sp.false): return bool(c)
        if 'decide' in s.cb: return s.cb['decide'](c)
        raise Unsupported('symbolic branch %s' % c)
    def stmt(s, n):
        k = n['kind']
        if k == 'CompoundStmt':
            for c in n.get('inner', []): s.stmt(c)
        elif k == 'DeclStmt':
            for vd in n['inner']:
                inner = [c for c in vd.get('inner', []) if c.get('kind') not in ('OverrideAttr',)]
                val = rval(s.expr(inner[0])) if inner else None
                if inner and inner[0]['kind'] == 'CXXConstructExpr' and 'HouseholderQR' in vd['type']['qualType']:
                    val = ('QR', val)
                s.env[vd['name']] = val
        elif k == 'ReturnStmt':
            raise Ret(rval(s.expr(n['inner'][0])) if n.get('inner') else None)
        elif k == 'IfStmt':
            inner = n['inner']
            if s.truth(s.expr(inner[0])): s.stmt(inner[1])
            elif len(inner) > 2: s.stmt(inner[2])
        elif k == 'ForStmt':
            init, _, cond, inc, body = n['inner']
            if init: s.stmt(init)
            it = 0
            while s.truth(s.expr(cond)):
                try: s.stmt(body)
                except Brk: break
                s.expr(inc); it += 1
                if it > 1000: raise Unsupported('loop bound')
        elif k == 'SwitchStmt':
            cond = rval(s.expr(n['inner'][0])); body = n['inner'][1]
            cv = cond if isinstance(cond, int) else int(cond.v) if isinstance(cond, D) else cond
            active = False
            try:
                for c in body['inner']:
                    if c['kind'] == 'CaseStmt':
                        val = s.expr(c['inner'][0]); val = int(val.v) if isinstance(val, D) else val
                        if val == cv: active = True
                        if active: s.stmt(c['inner'][1])
                    elif c['kind'] == 'DefaultStmt':
                        active = True; s.stmt(c['inner'][0])
                    elif active: s.stmt(c)
            except Brk: pass
        elif k == 'BreakStmt': raise Brk()
        elif k == 'NullStmt': pass
        else: s.expr(n)
    def callee_name(s, n):
        c = n
        while c['kind'] != 'DeclRefExpr':
            if c['kind'] == 'MemberExpr': return c['name']
            c = c['inner'][0]
        return c['referencedDecl']['name']
    def expr(s, n):
        k = n['kind']
        if k in ('ImplicitCastExpr', 'ParenExpr', 'ExprWithCleanups', 'MaterializeTemporaryExpr', 'CXXBindTemporaryExpr', 'CXXFunctionalCastExpr', 'CXXStaticCastExpr', 'CStyleCastExpr'):
            v = s.expr(n['inner'][0])
            if n.get('castKind') == 'LValueToRValue': v = rval(v)
            return v
        if k == 'ConstantExpr':
            if 'value' in n:
                v = n['value']
                return (v == 'true') if v in ('true', 'false') else int(v)
            return s.expr(n['inner'][0])
        if k == 'CXXConstructExpr':
            if 'inner' not in n: return None
            real_args = [a for a in n['inner'] if a['kind'] != 'CXXDefaultArgExpr']
            if len(real_args) == 1: return rval(s.expr(real_args[0]))
            raise Unsupported('ctor with %d args' % len(n['inner']))
        if k == 'CXXThrowExpr': raise Thrown()
        if k == 'FloatingLiteral': return D(sp.Rational(Fraction(n['value'])) if 'e' not in n['value'].lower() else sp.Rational(Fraction(float(n['value']))))
        if k == 'IntegerLiteral': return int(n['value'])
        if k == 'CXXBoolLiteralExpr': return bool(n['value'])
        if k == 'DeclRefExpr':
            nm = n['referencedDecl']['name']
            if n['referencedDecl'].get('kind') == 'EnumConstantDecl': return s.cb['enum'](nm)
            if nm in s.env:
                return Ref(lambda nm=nm: s.env[nm], lambda v, nm=nm: s.env.__setitem__(nm, v))
            raise Unsupported('unknown name ' + nm)
        if k == 'CXXThisExpr': return s.this
        if k == 'MemberExpr':
            obj = rval(s.expr(n['inner'][0])); nm = n['name']
            return Ref(lambda: obj[nm], lambda v: obj.__setitem__(nm, v))
        if k == 'UnaryOperator':
            op = n['opcode']; a = s.expr(n['inner'][0])
            if op == '-': return -D.lift(rval(a)) if not isinstance(rval(a), (Vec,)) else -rval(a)
            if op in ('++', '--'):
                v = rval(a); nv = v + (1 if op == '++' else -1); a.set(nv); return nv
            if op == '+': return rval(a)
            if op == '!': return not s.truth(a)
            raise Unsupported('unary ' + op)
        if k == 'BinaryOperator':
            op = n['opcode']
            if op == '=':
                l = s.expr(n['inner'][0]); r = rval(s.expr(n['inner'][1])); l.set(r); return l
            if op == '&&': return s.truth(s.expr(n['inner'][0])) and s.truth(s.expr(n['inner'][1]))
            if op == '||': return s.truth(s.expr(n['inner'][0])) or s.truth(s.expr(n['inner'][1]))
            a = rval(s.expr(n['inner'][0])); b = rval(s.expr(n['inner'][1]))
            if op in ('<', '>', '<=', '>=', '==', '!='):
                if isinstance(a, int) and isinstance(b, int):
                    return {'<': a < b, '>': a > b, '<=': a <= b, '>=': a >= b, '==': a == b, '!=': a != b}[op]
                av = D.lift(a).v; bv = D.lift(b).v
                rel = {'<': sp.Lt, '>': sp.Gt, '<=': sp.Le, '>=': sp.Ge, '==': sp.Eq, '!=': sp.Ne}[op](av, bv)
                return rel
            if isinstance(a, int) and isinstance(b, int):
                return {'+': a + b, '-': a - b, '*': a * b, '/': a // b, '%': a % b if b else 0}[op]
            if isinstance(a, int): a = D(a)
            if isinstance(b, int) and not isinstance(a, (Vec, Mat)): b = D(b)
            return {'+': lambda: a + b, '-': lambda: a - b, '*': lambda: a * b, '/': lambda: a / b}[op]()
        if k == 'CompoundAssignOperator':
            l = s.expr(n['inner'][0]); r = rval(s.expr(n['inner'][1])); op = n['opcode'][0]
            cur = l.get()
            if isinstance(cur, int) and isinstance(r, int): nv = {'+': cur + r, '-': cur - r, '*': cur * r}[op]
            else: nv = {'+': lambda: cur + r, '-': lambda: cur - r, '*': lambda: cur * r, '/': lambda: cur / r}[op]()
            l.set(nv); return l
        if k == 'CXXOperatorCallExpr':
            op = s.callee_name(n['inner'][0]); args = [s.expr(a) for a in n['inner'][1:]]
            if op in ('operator[]', 'operator()'):
                obj = rval(args[0]); idx = [rval(a) for a in args[1:]]
                idx = [int(i.v) if isinstance(i, D) else i for i in idx]
                if isinstance(obj, Vec):
                    i = idx[0]; return Ref(lambda: obj.c[i], lambda v: obj.c.__setitem__(i, D.lift(v)))
                if isinstance(obj, Mat):
                    i, j = idx; return Ref(lambda: obj.m[i][j], lambda v: obj.m[i].__setitem__(j, D.lift(v)))
                raise Unsupported('index on %r' % type(obj))
            if op == 'operator=':
                r = rval(args[1])
                if isinstance(r, Vec): r = Vec(list(r.c))
                args[0].set(r); return args[0]
            if op in ('operator+=', 'operator-=', 'operator*=', 'operator/='):
                cur = args[0].get(); r = rval(args[1]); o = op[8]
                nv = {'+': lambda: cur + r, '-': lambda: cur - r, '*': lambda: cur * r, '/': lambda: cur / r}[o]()
                args[0].set(nv); return args[0]
            vals = [rval(a) for a in args]
            if len(vals) == 1 and op == 'operator-': return -vals[0]
            a, b = vals
            if isinstance(a, int): a = D(a)
            if isinstance(b, int): b = D(b)
            return {'operator+': lambda: a + b, 'operator-': lambda: a - b, 'operator*': lambda: a * b, 'operator/': lambda: a / b}[op]()
        if k == 'CXXMemberCallExpr':
            me = n['inner'][0]; name = me['name']; obj = rval(s.expr(me['inner'][0])); args = [rval(s.expr(a)) for a in n['inner'][1:]]
            if name in s.cb: return s.cb[name](obj, *args)
            if name in s.methods and obj is s.this: return s.call_method(name, s.this, args)
            if name == 'size' and isinstance(obj, Vec): return len(obj.c)
            if isinstance(obj, tuple) and obj[0] == 'QR' and name == 'solve': return s.cb['solve'](obj[1], args[0])
            if hasattr(obj, name): return getattr(obj, name)(*args)
            raise Unsupported('member call ' + name)
        if k == 'CallExpr':
            name = s.callee_name(n['inner'][0]); args = [rval(s.expr(a)) for a in n['inner'][1:]]
            if name == 'Zero':
                ints = [int(a.v) if isinstance(a, D) else a for a in args]
                if len(ints) == 1: return Vec([0] * ints[0])
                if len(ints) == 2: return Mat([[0] * ints[1] for _ in range(ints[0])])
            f = {'sqrt': d_sqrt, 'acos': d_acos, 'pow': d_pow, 'exp': d_exp, 'log': d_log}.get(name)
            if f: return f(*args)
            if name in s.cb: return s.cb[name](*args)
            raise Unsupported('call ' + name)
        raise Unsupported('node ' + k)

def methods_of(docs, cls=None):
    m = {}
    for d in docs:
        if d.get('kind') == 'CXXMethodDecl' and any(x.get('kind') == 'CompoundStmt' for x in d.get('inner', [])):
            m[d['name']] = d
    return m
