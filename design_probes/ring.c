typedef long Index;
#ifndef NT
#define NT 2
#endif
#ifndef NF
#define NF 3
#endif
struct Mutex { int locked; };
void Mutex_Lock(struct Mutex *m){ __CPROVER_atomic_begin(); __CPROVER_assume(!m->locked); m->locked=1; __CPROVER_atomic_end(); }
void Mutex_Unlock(struct Mutex *m){ __CPROVER_atomic_begin(); __CPROVER_assert(m->locked, "unlock of unlocked mutex"); m->locked=0; __CPROVER_atomic_end(); }
struct Mutex In[NT], Out[NT], traj_readerMutex_;
Index nframes_; _Bool is_first_frame_; Index nthreads_ = NT;
/* ghost */
int in_reader = 0, in_merge = 0; Index frames_in_file = NF; Index next_frame = 0; Index merged = 0;
Index worker_frame[NT];
_Bool NextFrame(Index id){ __CPROVER_assert(in_reader==0,"reader exclusive"); in_reader=1; _Bool ok = next_frame < frames_in_file; if(ok){ worker_frame[id]=next_frame; next_frame++; } in_reader=0; return ok; }
void MergeWorker(Index id){ __CPROVER_assert(in_merge==0,"merge exclusive"); in_merge=1; __CPROVER_assert(worker_frame[id]==merged, "merge in frame order"); merged++; in_merge=0; }
#define SynchronizeThreads() 1
_Bool ProcessData(Index wid) {
  Index id;
  id = wid;

  if (SynchronizeThreads()) {
    // wait til its your turn
    Mutex_Lock(&In[id]);
  }
  Mutex_Lock(&traj_readerMutex_);
  if (nframes_ == 0) {
    Mutex_Unlock(&traj_readerMutex_);

    if (SynchronizeThreads()) {
      // done processing? don't forget to unlock next worker anyway
      Mutex_Unlock(&In[(id + 1) % nthreads_]);
    }

    return 0;
  }
  nframes_--;
  if (!is_first_frame_ || wid != 0) {
    // get frame
    _Bool tmpRes = NextFrame(wid);
    if (!tmpRes) {
      Mutex_Unlock(&traj_readerMutex_);
      if (SynchronizeThreads()) {
        Mutex_Unlock(&In[(id + 1) % nthreads_]);
      }
      return 0;
    }
  }
  if (wid == 0) {
    is_first_frame_ = 0;
  }

  Mutex_Unlock(&traj_readerMutex_);
  if (SynchronizeThreads()) {
    // unlock next frame for input
    Mutex_Unlock(&In[(id + 1) % nthreads_]);
  }
  return 1;
}
void Worker_Run(Index wid) {
  while (ProcessData(wid)) {
    if (SynchronizeThreads()) {
      Index id = wid;
      Mutex_Lock(&Out[id]);
      MergeWorker(wid);
      Mutex_Unlock(&Out[(id + 1) % nthreads_]);
    }
  }
}
int done[NT];
void thr(Index id){ Worker_Run(id); done[id]=1; }
void h(void){
  nframes_ = -1; is_first_frame_ = 1;
  /* FirstFrame read by master during seek: frame 0 in worker 0 */
  worker_frame[0] = 0; next_frame = 1;
  for (int i=0;i<NT;i++){ In[i].locked=1; Out[i].locked=1; }
  __CPROVER_ASYNC_1: thr(0);
  __CPROVER_ASYNC_2: thr(1);
#if NT>2
  __CPROVER_ASYNC_3: thr(2);
#endif
  Mutex_Unlock(&In[0]); Mutex_Unlock(&Out[0]);
  /* join */
  __CPROVER_assume(done[0] && done[1]
#if NT>2
   && done[2]
#endif
  );
  __CPROVER_assert(merged == frames_in_file, "all frames merged exactly once");
}
