typedef long Index;
struct block_t { Index begin_, end_, stride_; };
struct BlockList { block_t d[4]; long n; block_t* begin(){ return d; } block_t* end(){ return d + n; } };
struct RangeParser { BlockList blocks_; 
  struct iterator { RangeParser *parent_; block_t *block_; Index current_; iterator &operator++(); };
};
RangeParser::iterator &RangeParser::iterator::operator++()
#ifdef FIXED
{
  current_ += (*block_).stride_;
  if (((*block_).stride_ > 0) ? (current_ > (*block_).end_) : (current_ < (*block_).end_)) {
    ++block_;
    if (block_ != parent_->blocks_.end()) {
      current_ = (*block_).begin_;
    } else {
      current_ = -1;
    }
  }
  return *this;
}
#else
{
  current_ += (*block_).stride_;
  if (current_ > (*block_).end_) {
    ++block_;
    if (block_ != parent_->blocks_.end()) {
      current_ = (*block_).begin_;
    } else {
      current_ = -1;
    }
  }
  return *this;
}
#endif
long nondet_long(); bool nondet_bool();
/* ParseBlock acceptance condition, as in the source */
static bool accepted(Index b, Index s, Index e) {
#ifdef FIXED
  if (s == 0) return false;
#endif
  return !(b * s > e * s);
}
extern "C" void h_step() {
  RangeParser rp; long n = nondet_long(); __CPROVER_assume(1 <= n && n <= 3); rp.blocks_.n = n;
  for (int i = 0; i < 3; i++) { Index b = nondet_long(), s = nondet_long(), e = nondet_long();
    __CPROVER_assume(-1000000 <= b && b <= 1000000 && -1000 <= s && s <= 1000 && -1000000 <= e && e <= 1000000);
    __CPROVER_assume(accepted(b, s, e)); rp.blocks_.d[i].begin_ = b; rp.blocks_.d[i].stride_ = s; rp.blocks_.d[i].end_ = e; }
  long k = nondet_long(); __CPROVER_assume(0 <= k && k < n);
  Index b = rp.blocks_.d[k].begin_, s = rp.blocks_.d[k].stride_, e = rp.blocks_.d[k].end_;
  __CPROVER_assert(s != 0, "Q-accept: an accepted block has a non-zero stride");
  /* ghost position j inside block k */
  Index c = nondet_long();
  RangeParser::iterator it; it.parent_ = &rp; it.block_ = rp.blocks_.d + k; it.current_ = c;
  __CPROVER_assume(s > 0 ? (b <= c && c <= e) : (e <= c && c <= b));   /* current element lies in the block */
  bool more = s > 0 ? (c + s <= e) : (c + s >= e);
  ++it;
  if (more) __CPROVER_assert(it.block_ == rp.blocks_.d + k && it.current_ == c + s, "Q-enum: next element of the same block");
  else if (k + 1 < n) __CPROVER_assert(it.block_ == rp.blocks_.d + k + 1 && it.current_ == rp.blocks_.d[k + 1].begin_, "Q-enum: first element of the next block");
  else __CPROVER_assert(it.block_ == rp.blocks_.end() && it.current_ == -1, "Q-enum: end()");
  __CPROVER_assert(0, "canary");
}
