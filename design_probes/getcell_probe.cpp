
typedef long Index;
extern "C" double floor(double);
double nondet_double();
namespace Eigen { struct Vector3d { double x_,y_,z_; double tag; double dot(const Vector3d &o) const { return o.tag; } }; }
struct cell_t { int dummy; };
struct Grid { cell_t c[1]; Index na,nb,nc; cell_t& operator()(Index a,Index b,Index cc){ __CPROVER_assert(0<=a&&a<na&&0<=b&&b<nb&&0<=cc&&cc<nc,"grid index in range"); return c[0]; } };
struct NBListGrid { typedef ::cell_t cell_t; Eigen::Vector3d norm_a_,norm_b_,norm_c_; Index box_Na_,box_Nb_,box_Nc_; Grid grid_; cell_t &getCell(const Eigen::Vector3d &r); };
NBListGrid::cell_t &NBListGrid::getCell(const Eigen::Vector3d &r)
{
  Index a = (Index)floor(r.dot(norm_a_));
  Index b = (Index)floor(r.dot(norm_b_));
  Index c = (Index)floor(r.dot(norm_c_));

  if (a < 0) {
    a = box_Na_ + a % box_Na_;
  }
  a %= box_Na_;

  if (b < 0) {
    b = box_Nb_ + b % box_Nb_;
  }
  b %= box_Nb_;

  if (c < 0) {
    c = box_Nc_ + c % box_Nc_;
  }
  c %= box_Nc_;

  return grid_(a, b, c);
}
long nondet_long();
extern "C" void h_getcell(){
  NBListGrid g; Eigen::Vector3d r;
  g.box_Na_=nondet_long(); g.box_Nb_=nondet_long(); g.box_Nc_=nondet_long();
  __CPROVER_assume(g.box_Na_>=1&&g.box_Nb_>=1&&g.box_Nc_>=1&&g.box_Na_<=1000000&&g.box_Nb_<=1000000&&g.box_Nc_<=1000000);
  g.grid_.na=g.box_Na_; g.grid_.nb=g.box_Nb_; g.grid_.nc=g.box_Nc_;
  g.norm_a_.tag=nondet_double(); g.norm_b_.tag=nondet_double(); g.norm_c_.tag=nondet_double();   /* r.dot(norm_x_) = arbitrary double */
  __CPROVER_assume(g.norm_a_.tag > -4e18 && g.norm_a_.tag < 4e18 && g.norm_b_.tag > -4e18 && g.norm_b_.tag < 4e18 && g.norm_c_.tag > -4e18 && g.norm_c_.tag < 4e18);
  g.getCell(r);
  __CPROVER_assert(0,"canary");
}
