#include <math.h>
#include <float.h>
#include <stddef.h>
typedef long Index;
struct arr { double *v; size_t n; };
struct sel { struct arr **a; size_t n; };
struct options_t { Index n_; _Bool auto_interval_, extend_interval_; double min_, max_; _Bool periodic_, normalize_; };
struct Histogram { double *pdf_; double min_, max_, interval_; struct options_t options_; };
/* numeric_limits<double>::max()/min() as in <limits> */
#define NL_MAX DBL_MAX
#define NL_MIN DBL_MIN
#ifdef FIXED
#undef NL_MIN
#define NL_MIN (-DBL_MAX)
#endif
static inline double dmin(double a, double b){ return b < a ? b : a; }
static inline double dmax(double a, double b){ return a < b ? b : a; }
/* ghost witness: one particular element (A,K) of the data */
#define NB 6
size_t gA, gK; double gB, gL;
_Bool all_in(const double *v, size_t n){ for (size_t j = 0; j < NB; j++) if (j < n && !(gL <= v[j] && v[j] <= gB)) return 0; return 1; }
/* first half of Histogram::ProcessData (range determination), body text with R-for applied to loops 1,2 */
void Histogram_range(struct Histogram *self, struct sel *data)
__CPROVER_requires(__CPROVER_is_fresh(self, sizeof(*self)))
__CPROVER_requires(__CPROVER_is_fresh(data, sizeof(*data)) && data->n == 1)
__CPROVER_requires(__CPROVER_is_fresh(data->a, sizeof(struct arr*)) && __CPROVER_is_fresh(data->a[0], sizeof(struct arr)))
__CPROVER_requires(data->a[0]->n >= 1 && data->a[0]->n <= NB && __CPROVER_is_fresh(data->a[0]->v, data->a[0]->n * sizeof(double)))
__CPROVER_requires(gA == 0 && gK < data->a[0]->n)
__CPROVER_requires(all_in(data->a[0]->v, data->a[0]->n))
__CPROVER_requires(self->options_.auto_interval_)
__CPROVER_requires(gB >= -DBL_MAX && gB <= DBL_MAX && gL >= -DBL_MAX && gL <= DBL_MAX)
__CPROVER_requires(!isnan(data->a[0]->v[gK]) && !isinf(data->a[0]->v[gK]))
__CPROVER_assigns(self->min_, self->max_, self->options_.extend_interval_)
__CPROVER_ensures(self->min_ <= data->a[0]->v[gK] && data->a[0]->v[gK] <= self->max_)   
__CPROVER_ensures(self->max_ <= gB && gL <= self->min_) /* tight: below every upper bound, above every lower bound */
;
void Histogram_range(struct Histogram *self, struct sel *data) {
  if (self->options_.auto_interval_) {
    self->min_ = NL_MAX;
    self->max_ = NL_MIN;
    self->options_.extend_interval_ = 1;
  } else {
    self->min_ = self->options_.min_;
    self->max_ = self->options_.max_;
  }
  for (size_t __a = 0; __a < data->n; ++__a)
  __CPROVER_assigns(__a, self->min_, self->max_)
  __CPROVER_loop_invariant(__a <= data->n)
  __CPROVER_loop_invariant(__a == 0 || (self->max_ <= gB && gL <= self->min_))
  __CPROVER_loop_invariant(__a == 0 || (self->min_ <= data->a[0]->v[gK] && data->a[0]->v[gK] <= self->max_))
  {
    struct arr *array = data->a[__a];
    if (self->options_.extend_interval_ || self->options_.auto_interval_) {
      for (size_t __v = 0; __v < array->n; ++__v)
      __CPROVER_assigns(__v, self->min_, self->max_)
      __CPROVER_loop_invariant(__v <= array->n)
      __CPROVER_loop_invariant(__v == 0 || (self->max_ <= gB && gL <= self->min_))
      __CPROVER_loop_invariant(__v <= gK || (self->min_ <= data->a[0]->v[gK] && data->a[0]->v[gK] <= self->max_))
      {
        double value = array->v[__v];
        self->min_ = dmin(value, self->min_);
        self->max_ = dmax(value, self->max_);
      }
    }
  }
}
void h(void){ struct Histogram *s; struct sel *d; Histogram_range(s, d); }
