import sys, time, itertools
sys.path.insert(0, '/tmp/probe')
import se_gen
from se_gen import *
import z3
docs = load_docs('/tmp/probe/ast_map.json')
M = {d['name']: d for d in docs if d.get('kind') == 'CXXMethodDecl' and any(x.get('kind') == 'CompoundStmt' for x in d.get('inner', []))}
# ---- extend executor: range-for, conditional, ostream <<, decisions
orig_stmt, orig_expr = Exec.stmt, Exec.expr
def stmt(s, n):
    if n['kind'] == 'CXXForRangeStmt':
        inner = n['inner']; rng = rval(s.expr(inner[1]['inner'][0]['inner'][0])); var = inner[6]['inner'][0]['name']; body = inner[7]
        for el in list(rng):
            s.env[var] = el
            try: s.stmt(body)
            except Brk: break
        return
    return orig_stmt(s, n)
def expr(s, n):
    k = n['kind']
    if k == 'CXXOperatorCallExpr' and s.callee_name(n['inner'][0]) == 'operator<<': return 'ostream'
    if k == 'DeclRefExpr' and n['referencedDecl']['name'] in ('cout', 'endl'): return 'ostream'
    if k == 'ConditionalOperator':
        return rval(s.expr(n['inner'][1])) if s.truth(s.expr(n['inner'][0])) else rval(s.expr(n['inner'][2]))
    if k == 'CXXDefaultArgExpr': return None
    return orig_expr(s, n)
Exec.stmt, Exec.expr = stmt, expr
# ---- sympy relation -> z3 (radicals and symbols as reals)
def to_z3(e, cache={}):
    if e.is_Symbol: return z3.Real(e.name)
    if e.is_Rational: return z3.RealVal(str(e))
    if e.is_Add: return sum((to_z3(a) for a in e.args[1:]), to_z3(e.args[0]))
    if e.is_Mul:
        r = to_z3(e.args[0])
        for a in e.args[1:]: r = r * to_z3(a)
        return r
    if e.is_Pow and e.exp.is_Integer:
        b = to_z3(e.base); n = int(e.exp)
        if n >= 0:
            r = z3.RealVal(1)
            for _ in range(n): r = r * b
            return r
        r = z3.RealVal(1)
        for _ in range(-n): r = r * b
        return 1 / r
    if isinstance(e, (sp.Lt, sp.Gt, sp.Le, sp.Ge, sp.Eq, sp.Ne)):
        a, b = to_z3(e.lhs), to_z3(e.rhs)
        return {sp.StrictLessThan: a < b, sp.StrictGreaterThan: a > b, sp.LessThan: a <= b, sp.GreaterThan: a >= b, sp.Equality: a == b, sp.Unequality: a != b}[type(e)]
    raise Unsupported('to_z3 ' + str(e))
class Paths:
    """replay-based DFS over symbolic decisions"""
    def __init__(s): s.prefix = []; s.pos = 0; s.pc = []
    def start(s): s.pos = 0; s.pc = []
    def decide(s, cond):
        zc = to_z3(cond)
        if s.pos < len(s.prefix): val = s.prefix[s.pos]
        else:
            # feasibility-directed default: try True if feasible else False
            val = s.feasible(zc); s.prefix.append(val)
        s.pos += 1; s.pc.append(zc if val else z3.Not(zc)); return val
    def feasible(s, extra):
        sol = z3.Solver(); sol.set('timeout', 5000); sol.add(*s.pc); sol.add(extra); sol.add(*BASE)
        return sol.check() != z3.unsat
    def next(s):
        while s.prefix:
            last = s.prefix.pop()
            if last:
                # flip to False if feasible
                s.prefix.append(False); return True
        return False
BASE = []
def run_apply(n, haspos, hasvel, hasf, boxtype):
    """returns list of paths: (pc, status, outputs)"""
    results = []
    P = Paths()
    while True:
        P.start(); del RAD[:]; del BASE[:]
        w = [sp.Symbol('w%d' % i, real=True) for i in range(n)]; fw = [sp.Symbol('fw%d' % i, real=True) for i in range(n)]
        m = [sp.Symbol('m%d' % i, positive=True) for i in range(n)]
        pos = [Vec([sp.Symbol('r%d%s' % (i, c), real=True) for c in 'xyz']) for i in range(n)]
        vel = [Vec([sp.Symbol('v%d%s' % (i, c), real=True) for c in 'xyz']) for i in range(n)]
        frc = [Vec([sp.Symbol('f%d%s' % (i, c), real=True) for c in 'xyz']) for i in range(n)]
        # contract of BCShortestConnection(r0, r_i): opaque u_i with norm d_i >= 0
        u = [Vec([sp.Symbol('u%d%s' % (i, c), real=True) for c in 'xyz']) for i in range(n)]
        dn = [sp.Symbol('d%d' % i, nonnegative=True) for i in range(n)]
        for di in dn: BASE.append(z3.Real(di.name) >= 0)
        hmin = sp.Symbol('hmin', positive=True); BASE.append(z3.Real('hmin') > 0)
        beads = [{'i': i} for i in range(n)]
        out = {'parents': []}
        class NormVec(Vec):
            def norm(s): return D(s.dn)
        def bcsc(bc, a, b):
            i = [k for k in range(n) if b is pos[k]][0]
            assert a is r0box[0] or True
            v = NormVec(u[i].c); v.dn = dn[i]; return v
        r0box = [None]
        cb = {'decide': P.decide, 'enum': lambda nm: {'typeOpen': 3, 'typeTriclinic': 1, 'typeOrthorhombic': 2}[nm],
              'HasPos': lambda b: haspos[b['i']], 'HasVel': lambda b: hasvel[b['i']], 'HasF': lambda b: hasf[b['i']],
              'getPos': lambda b: pos[b['i']], 'getVel': lambda b: vel[b['i']], 'getF': lambda b: frc[b['i']],
              'getMass': lambda b: D(m[b['i']]), 'getId': lambda b: b['i'], 'getName': lambda b: 'name', 'getMoleculeId': lambda b: 0,
              'ClearParentBeads': lambda o: o['parents'].clear(), 'AddParentBead': lambda o, i: o['parents'].append(i),
              'setMass': lambda o, v: o.__setitem__('mass', v), 'setPos': lambda o, v: o.__setitem__('pos', v),
              'setVel': lambda o, v: o.__setitem__('vel', v), 'setF': lambda o, v: o.__setitem__('f', v),
              'BCShortestConnection': bcsc, 'getBoxType': lambda bc: boxtype, 'getShortestBoxDimension': lambda bc: D(hmin),
              'front': lambda v: v[0], 'at': lambda v, i: v[i], 'size': lambda v: len(v)}
        matrix = [{'in_': beads[i], 'weight_': D(w[i]), 'force_weight_': D(fw[i])} for i in range(n)]
        this = {'matrix_': matrix, 'out_': out}
        ex = Exec({'bc': 'BC'}, cb, M, this)
        body = [c for c in M['Apply']['inner'] if c['kind'] == 'CompoundStmt'][0]
        ex.env['bc'] = 'BC'
        status = 'ok'
        try: ex.stmt(body)
        except Ret: pass
        except Thrown: status = 'thrown'
        results.append((list(P.pc), status, dict(out), dict(w=w, fw=fw, m=m, pos=pos, vel=vel, frc=frc, u=u, dn=dn, hmin=hmin)))
        if not P.next(): break
    return results
# Zero() for Vector3d: CallExpr 'Zero' with no args -> 3-vector
_orig_expr2 = Exec.expr
def expr2(s, n):
    if n['kind'] == 'CallExpr' and s.callee_name(n['inner'][0]) == 'Zero' and len(n['inner']) == 1: return Vec([0, 0, 0])
    return _orig_expr2(s, n)
Exec.expr = expr2
t0 = time.time()
n = 3
res = run_apply(n, [True] * n, [True] * n, [True] * n, 2)
print('paths', len(res), 'time %.1fs' % (time.time() - t0))
allok = True
for pc, status, out, sy in res:
    z = z3.Solver(); z.add(*pc); z.add(*BASE)
    # obligation: thrown <=> max d_i > hmin/2
    maxgt = z3.Or(*[z3.Real(d.name) > z3.Real('hmin') / 2 for d in sy['dn']])
    z.push(); z.add(z3.Not(maxgt) if status == 'thrown' else maxgt); r = z.check(); z.pop()
    okthrow = (r == z3.unsat)
    line = '%-7s |pc|=%d  throw<=>max>h/2:%s' % (status, len(pc), 'PROVED' if okthrow else 'REFUTED')
    if status == 'ok':
        exp_pos = sum((sy['w'][i] * (sy['u'][i].c[0].v + sy['pos'][0].c[0].v) for i in range(n)), 0)
        line += '  pos.x:%s' % ('PROVED' if nf_zero(out['pos'].c[0].v - exp_pos) else 'NOT-ZERO')
        line += '  mass:%s' % ('PROVED' if nf_zero(out['mass'].v - sum(sy['m'])) else 'NOT-ZERO')
        line += '  vel.y:%s' % ('PROVED' if nf_zero(out['vel'].c[1].v - sum(sy['w'][i] * sy['vel'][i].c[1].v for i in range(n))) else 'NOT-ZERO')
        line += '  f.z:%s' % ('PROVED' if nf_zero(out['f'].c[2].v - sum(sy['fw'][i] * sy['frc'][i].c[2].v for i in range(n))) else 'NOT-ZERO')
        line += '  parents:%s' % (out['parents'] == list(range(n)))
    print(line)
