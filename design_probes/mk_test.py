import sys, time, itertools
sys.path.insert(0, '/tmp/probe')
import se_gen
from se_gen import *
import z3
docs = load_docs('/tmp/probe/ast_huff.json')
spec = [c for c in docs[0]['inner'] if c['kind'] == 'ClassTemplateSpecializationDecl'][0]
M = {m['name']: m for m in spec['inner'] if m['kind'] == 'CXXMethodDecl' and any(x.get('kind') == 'CompoundStmt' for x in m.get('inner', []))}
def to_z3(e):
    if e.is_Symbol: return z3.Real(e.name)
    if e.is_Rational: return z3.RealVal(str(e))
    if e.is_Add:
        r = to_z3(e.args[0])
        for a in e.args[1:]: r = r + to_z3(a)
        return r
    if e.is_Mul:
        r = to_z3(e.args[0])
        for a in e.args[1:]: r = r * to_z3(a)
        return r
    if e.is_Pow and e.exp.is_Integer:
        b = to_z3(e.base); n = int(e.exp); r = z3.RealVal(1)
        for _ in range(abs(n)): r = r * b
        return r if n >= 0 else 1 / r
    if isinstance(e, (sp.Lt, sp.Gt, sp.Le, sp.Ge, sp.Eq, sp.Ne)):
        a, b = to_z3(e.lhs), to_z3(e.rhs)
        return {sp.StrictLessThan: a < b, sp.StrictGreaterThan: a > b, sp.LessThan: a <= b, sp.GreaterThan: a >= b, sp.Equality: a == b, sp.Unequality: a != b}[type(e)]
    raise Unsupported('to_z3 ' + str(e))
BASE = []
class Paths:
    def __init__(s): s.prefix = []; s.pos = 0; s.pc = []; s.queries = 0
    def start(s): s.pos = 0; s.pc = []
    def feas(s, extra):
        s.queries += 1
        sol = z3.Solver(); sol.set('timeout', 5000); sol.add(*BASE); sol.add(*s.pc); sol.add(extra); return sol.check() != z3.unsat
    def decide(s, cond):
        zc = to_z3(cond)
        if s.pos < len(s.prefix):
            val, _ = s.prefix[s.pos]
        else:
            ct, cf = s.feas(zc), s.feas(z3.Not(zc))
            if ct and cf: val = True; s.prefix.append((True, True))     # (value, alternative-open)
            else: val = ct; s.prefix.append((val, False))
        s.pos += 1; s.pc.append(zc if val else z3.Not(zc)); return val
    def next(s):
        while s.prefix:
            val, alt = s.prefix.pop()
            if alt: s.prefix.append((not val, False)); return True
        return False
class Lambda:
    def __init__(s, node): s.m = [c for c in node['inner'][0]['inner'] if c.get('kind') == 'CXXMethodDecl' and c.get('name') == 'operator()'][0]
class PQ:
    def __init__(s, comp, ex): s.comp = comp; s.items = []; s.ex = ex
    def less(s, a, b):
        m = s.comp.m; params = [p['name'] for p in m['inner'] if p['kind'] == 'ParmVarDecl']; body = [c for c in m['inner'] if c['kind'] == 'CompoundStmt'][0]
        e2 = Exec(dict(zip(params, [a, b])), s.ex.cb, s.ex.methods, s.ex.this)
        try: e2.stmt(body)
        except Ret as r: return e2.truth(r.v)
    def push(s, x): s.items.append(x)
    def _top(s):
        best = 0
        for i in range(1, len(s.items)):
            if s.less(s.items[best], s.items[i]): best = i
        return best
    def top(s): return s.items[s._top()]
    def pop(s): s.items.pop(s._top())
    def size(s): return len(s.items)
    def empty(s): return len(s.items) == 0
_os, _oe = Exec.stmt, Exec.expr
def newnode(): return dict(leftChild=None, rightChild=None, leftLeaf=None, rightLeaf=None, probability=None, isOnLastLevel=False)
def stmt(s, n):
    k = n['kind']
    if k == 'DeclStmt':
        for vd in n['inner']:
            ty = vd['type']['qualType']; inner = vd.get('inner', [])
            if inner and inner[0]['kind'] == 'LambdaExpr': s.env[vd['name']] = Lambda(inner[0]); continue
            if 'priority_queue' in ty:
                ce = inner[0]
                while ce['kind'] != 'CXXConstructExpr': ce = ce['inner'][0]
                comp = rval(s.expr(ce['inner'][0])); s.env[vd['name']] = PQ(comp, s); continue
            if not inner: s.env[vd['name']] = None; continue
            s.env[vd['name']] = rval(s.expr(inner[0]))
        return
    if k == 'WhileStmt':
        it = 0
        while s.truth(s.expr(n['inner'][0])):
            s.stmt(n['inner'][1]); it += 1
            if it > 100: raise Unsupported('while bound')
        return
    if k == 'CXXForRangeStmt':
        inner = n['inner']; rng = rval(s.expr(inner[1]['inner'][0]['inner'][0])); var = inner[6]['inner'][0]['name']
        for el in list(rng): s.env[var] = el; s.stmt(inner[7])
        return
    return _os(s, n)
def expr(s, n):
    k = n['kind']
    if k == 'UnaryOperator' and n['opcode'] in ('&', '*'): return rval(s.expr(n['inner'][0]))
    if k == 'ConditionalOperator': return rval(s.expr(n['inner'][1])) if s.truth(s.expr(n['inner'][0])) else rval(s.expr(n['inner'][2]))
    if k == 'CXXConstructExpr' and 'vector<' in n['type']['qualType']:
        args = [a for a in n.get('inner', []) if a['kind'] != 'CXXDefaultArgExpr']
        cnt = rval(s.expr(args[0])); return [newnode() for _ in range(cnt)]
    if k == 'CXXOperatorCallExpr':
        op = s.callee_name(n['inner'][0])
        if op == 'operator[]':
            obj = rval(s.expr(n['inner'][1])); idx = rval(s.expr(n['inner'][2]))
            if isinstance(obj, list): return obj[idx]
        if op == 'operator=':
            l = s.expr(n['inner'][1]); r = rval(s.expr(n['inner'][2]))
            if isinstance(r, list): l.set(r); return l
    if k == 'CXXMemberCallExpr':
        me = n['inner'][0]; name = me['name']; obj = rval(s.expr(me['inner'][0]))
        if isinstance(obj, list) and name == 'size': return len(obj)
        if isinstance(obj, list) and name == 'back': return obj[-1]
        if isinstance(obj, PQ):
            args = [rval(s.expr(a)) for a in n['inner'][1:]]; return getattr(obj, name)(*args)
    if k == 'CXXDefaultArgExpr': return None
    return _oe(s, n)
Exec.stmt, Exec.expr = stmt, expr
_ot = Exec.truth
def truth(s, c):
    c = rval(c)
    if c is None: return False
    if isinstance(c, (list, dict, PQ)): return True
    return _ot(s, c)
Exec.truth = truth
def leaves(nd):
    if nd['isOnLastLevel']: return [nd['rightLeaf'], nd['leftLeaf']] if nd['rightLeaf'] is not nd['leftLeaf'] else [nd['leftLeaf']]
    return leaves(nd['rightChild']) + leaves(nd['leftChild'])
def intervals(nd, lo, hi, out):
    th = nd['probability'].v
    if nd['isOnLastLevel']: out.append((nd['rightLeaf'], lo, th)); out.append((nd['leftLeaf'], th, hi)); return
    intervals(nd['leftChild'], th, hi, out); intervals(nd['rightChild'], lo, th, out)
t0 = time.time(); total = 0; bad = 0
for nev in range(1, 6):
    P = Paths(); npaths = 0
    while True:
        P.start(); del BASE[:]
        rates = [sp.Symbol('k%d' % i, positive=True) for i in range(nev)]
        for r in rates: BASE.append(z3.Real(r.name) > 0)
        events = [{'name': i, 'rate': rates[i]} for i in range(nev)]
        this = {'events': events, 'htree': None, 'treeIsMade': False, 'sum_of_values': D(0)}
        cb = {'decide': P.decide, 'getValue': lambda ev: D(ev['rate'])}
        ex = Exec({}, cb, M, this)
        body = [c for c in M['makeTree']['inner'] if c['kind'] == 'CompoundStmt'][0]
        try: ex.stmt(body)
        except Ret: pass
        npaths += 1
        ht = this['htree']; root = ht[-1]; S = sum(rates)
        ok = (len(ht) == (nev if nev % 2 else nev - 1)) and this['treeIsMade'] is True and nf_zero(this['sum_of_values'].v - S)
        lv = leaves(root); ok = ok and sorted(e['name'] for e in lv) == list(range(nev))
        out = []; intervals(root, sp.Integer(0), sp.Integer(1), out)
        meas = {}
        for ev, lo, hi in out: meas[ev['name']] = meas.get(ev['name'], 0) + (hi - lo)
        ok = ok and all(nf_zero(meas[i] - rates[i] / S) for i in range(nev))
        # thresholds ordered (each piece non-negative) under the path condition
        for ev, lo, hi in out:
            sol = z3.Solver(); sol.add(*BASE); sol.add(*P.pc); sol.add(to_z3(sp.together(hi - lo).as_numer_denom()[0]) < 0); 
            if sol.check() != z3.unsat: ok = False
        total += 1; bad += not ok
        if not P.next(): break
    print('events=%d paths=%d z3queries=%d  %.1fs' % (nev, npaths, P.queries, time.time() - t0)); sys.stdout.flush()
print('total paths', total, 'bad', bad)
