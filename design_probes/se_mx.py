"""Design-round probe: dense small-matrix semantics with lvalue views for the AST executor (used for VSiteA)."""
import sys
sys.path.insert(0, '/tmp/probe')
import se_gen
from se_gen import *

class Mx:
    """r x c matrix of dual numbers; vectors are c == 1. Views share storage."""
    def __init__(s, r, c, data=None, base=None, r0=0, c0=0):
        s.r, s.c = r, c
        if base is not None: s.base, s.r0, s.c0 = base, r0, c0
        else:
            s.base, s.r0, s.c0 = None, 0, 0
            s.d = data if data is not None else [[D(0) for _ in range(c)] for _ in range(r)]
    # storage access
    def g(s, i, j=0):
        return s.base.g(s.r0 + i, s.c0 + j) if s.base is not None else s.d[i][j]
    def p(s, i, j, v):
        if s.base is not None: s.base.p(s.r0 + i, s.c0 + j, v)
        else: s.d[i][j] = D.lift(v)
    @staticmethod
    def vec(xs): return Mx(len(xs), 1, [[D.lift(x)] for x in xs])
    def copy(s): return Mx(s.r, s.c, [[s.g(i, j) for j in range(s.c)] for i in range(s.r)])
    def assign(s, o):
        if isinstance(o, Mx):
            if (o.r, o.c) != (s.r, s.c):
                if o.r * o.c == s.r * s.c and 1 in (o.r, o.c) and 1 in (s.r, s.c):   # vector/row-vector
                    flat = [o.g(i, j) for i in range(o.r) for j in range(o.c)]; k = 0
                    for i in range(s.r):
                        for j in range(s.c): s.p(i, j, flat[k]); k += 1
                    return
                raise Unsupported('shape %s <- %s' % ((s.r, s.c), (o.r, o.c)))
            vals = [[o.g(i, j) for j in range(s.c)] for i in range(s.r)]
            for i in range(s.r):
                for j in range(s.c): s.p(i, j, vals[i][j])
        else: raise Unsupported('assign scalar to matrix')
    # views
    def view(s, r0, c0, nr, nc): return Mx(nr, nc, base=s, r0=r0, c0=c0)
    def col(s, j): return s.view(0, int(j.v) if isinstance(j, D) else j, s.r, 1)
    def segment(s, n, i): return s.view(i, 0, n, 1) if s.c == 1 else s.view(0, i, 1, n)
    def head(s, n): return s.segment(n, 0)
    def tail(s, n): return s.segment(n, (s.r if s.c == 1 else s.c) - n)
    def rightCols(s, n): return s.view(0, s.c - n, s.r, n)
    def transpose(s): return Mx(s.c, s.r, [[s.g(i, j) for i in range(s.r)] for j in range(s.c)])
    def selfadjointViewLower(s): return Mx(s.r, s.c, [[s.g(max(i, j), min(i, j)) for j in range(s.c)] for i in range(s.r)])
    # elements
    def x(s): return s.eref(0)
    def y(s): return s.eref(1)
    def z(s): return s.eref(2)
    def eref(s, k):
        i, j = (k, 0) if s.c == 1 else (0, k)
        return Ref(lambda: s.g(i, j), lambda v: s.p(i, j, v))
    # algebra
    def _ew(s, o, f): return Mx(s.r, s.c, [[f(s.g(i, j), o.g(i, j)) for j in range(s.c)] for i in range(s.r)])
    def __add__(s, o):
        if not isinstance(o, Mx): return NotImplemented
        if (s.r, s.c) != (o.r, o.c): raise Unsupported('add shapes')
        return s._ew(o, lambda a, b: a + b)
    def __sub__(s, o):
        if (s.r, s.c) != (o.r, o.c): raise Unsupported('sub shapes')
        return s._ew(o, lambda a, b: a - b)
    def __neg__(s): return Mx(s.r, s.c, [[-s.g(i, j) for j in range(s.c)] for i in range(s.r)])
    def __mul__(s, o):
        if isinstance(o, Mx):
            if s.c != o.r: raise Unsupported('matmul shapes %s %s' % ((s.r, s.c), (o.r, o.c)))
            out = Mx(s.r, o.c)
            for i in range(s.r):
                for j in range(o.c):
                    acc = D(0)
                    for k in range(s.c): acc = acc + s.g(i, k) * o.g(k, j)
                    out.p(i, j, acc)
            return out
        o = D.lift(o); return Mx(s.r, s.c, [[s.g(i, j) * o for j in range(s.c)] for i in range(s.r)])
    def __rmul__(s, o): o = D.lift(o); return Mx(s.r, s.c, [[o * s.g(i, j) for j in range(s.c)] for i in range(s.r)])
    def __truediv__(s, o): o = D.lift(o); return Mx(s.r, s.c, [[s.g(i, j) / o for j in range(s.c)] for i in range(s.r)])
    def dot(s, o):
        a = [s.g(i, j) for i in range(s.r) for j in range(s.c)]; b = [o.g(i, j) for i in range(o.r) for j in range(o.c)]
        if len(a) != len(b): raise Unsupported('dot sizes')
        acc = D(0)
        for p, q in zip(a, b): acc = acc + p * q
        return acc
    def squaredNorm(s): return s.dot(s)
    def norm(s): return d_sqrt(s.squaredNorm())
    def scalar(s):
        if (s.r, s.c) != (1, 1): raise Unsupported('1x1 expected')
        return s.g(0, 0)

def as_scalar(x):
    x = rval(x)
    if isinstance(x, Mx): return x.scalar()
    return x

_oe = Exec.expr
def expr(s, n):
    k = n['kind']
    if k == 'CXXOperatorCallExpr':
        op = s.callee_name(n['inner'][0])
        args = [s.expr(a) for a in n['inner'][1:]]
        a0 = rval(args[0]) if args else None
        if isinstance(a0, Mx) or (len(args) > 1 and isinstance(rval(args[1]), Mx)):
            if op in ('operator()', 'operator[]'):
                idx = [rval(a) for a in args[1:]]; idx = [int(i.v) if isinstance(i, D) else i for i in idx]
                if len(idx) == 1: return a0.eref(idx[0])
                i, j = idx; return Ref(lambda: a0.g(i, j), lambda v: a0.p(i, j, v))
            if op == 'operator=':
                r = rval(args[1])
                if isinstance(args[0], Ref) and not isinstance(a0, Mx): args[0].set(r); return args[0]
                a0.assign(r if isinstance(r, Mx) else r); return args[0]
            if op in ('operator+=', 'operator-=', 'operator*=', 'operator/='):
                r = rval(args[1]); o = op[8]
                nv = {'+': lambda: a0 + r, '-': lambda: a0 - r, '*': lambda: a0 * r, '/': lambda: a0 / r}[o]()
                a0.assign(nv); return args[0]
            vals = [rval(a) for a in args]
            if len(vals) == 1 and op == 'operator-': return -vals[0]
            a, b = vals
            if isinstance(a, int): a = D(a)
            if isinstance(b, int): b = D(b)
            if isinstance(a, Mx) and isinstance(b, Mx) and (a.r, a.c) == (1, 1) and op == 'operator*': return b * a.scalar()
            return {'operator+': lambda: a + b, 'operator-': lambda: a - b, 'operator*': lambda: a * b, 'operator/': lambda: a / b}[op]()
        # fall through with re-evaluation avoided: emulate base behaviour using already evaluated args
        vals = args
        if op == 'operator=':
            args[0].set(rval(args[1])); return args[0]
        if op in ('operator+=', 'operator-=', 'operator*=', 'operator/='):
            cur = args[0].get(); r = as_scalar(args[1]); o = op[8]
            nv = {'+': lambda: cur + r, '-': lambda: cur - r, '*': lambda: cur * r, '/': lambda: cur / r}[o]()
            args[0].set(nv); return args[0]
        v = [rval(a) for a in args]
        if len(v) == 1 and op == 'operator-': return -D.lift(v[0])
        a, b = v
        if isinstance(a, int): a = D(a)
        if isinstance(b, int): b = D(b)
        return {'operator+': lambda: a + b, 'operator-': lambda: a - b, 'operator*': lambda: a * b, 'operator/': lambda: a / b}[op]()
    if k == 'CXXMemberCallExpr':
        me = n['inner'][0]; name = me['name']
        if name.startswith('operator '):   # conversion operator (1x1 product -> double)
            return as_scalar(s.expr(me['inner'][0]))
        if name in s.cb: return _oe(s, n)
        obj = rval(s.expr(me['inner'][0]))
        if isinstance(obj, Mx):
            args = [rval(s.expr(a)) for a in n['inner'][1:] if a['kind'] != 'CXXDefaultArgExpr']
            args = [int(a.v) if isinstance(a, D) else a for a in args]
            mt = re.search(r'<(\d+)', n['type']['qualType']); targs = [int(mt.group(1))] if (mt and name in ('segment', 'head', 'tail', 'rightCols')) else []
            if name in ('segment', 'head', 'tail', 'rightCols'):
                return getattr(obj, name)(*(targs + args))
            if name == 'selfadjointView': return obj.selfadjointViewLower()
            return getattr(obj, name)(*args)
    if k in ('BinaryOperator',) and n['opcode'] in ('+', '-', '*', '/'):
        a = rval(s.expr(n['inner'][0])); b = rval(s.expr(n['inner'][1]))
        if isinstance(a, Mx) and (a.r, a.c) == (1, 1): a = a.scalar()
        if isinstance(b, Mx) and (b.r, b.c) == (1, 1): b = b.scalar()
        if isinstance(a, int) and isinstance(b, int):
            op = n['opcode']; return {'+': a + b, '-': a - b, '*': a * b, '/': a // b}[op]
        if isinstance(a, int): a = D(a)
        if isinstance(b, int) and not isinstance(a, Mx): b = D(b)
        return {'+': lambda: a + b, '-': lambda: a - b, '*': lambda: a * b, '/': lambda: a / b}[n['opcode']]()
    if k == 'CompoundAssignOperator':
        l = s.expr(n['inner'][0]); r = as_scalar(s.expr(n['inner'][1])); op = n['opcode'][0]; cur = l.get()
        if isinstance(cur, int) and isinstance(r, int): nv = {'+': cur + r, '-': cur - r, '*': cur * r}[op]
        else: nv = {'+': lambda: cur + r, '-': lambda: cur - r, '*': lambda: cur * r, '/': lambda: cur / r}[op]()
        l.set(nv); return l
    if k == 'SubstNonTypeTemplateParmExpr': return s.expr(n['inner'][-1])
    return _oe(s, n)
Exec.expr = expr

import re
def template_ints(me):
    """explicit template integer args of a member call such as segment<3>: parsed from the bound member type is not
    available in the JSON; clang prints them in the MemberExpr 'type'? fall back to the result type of the call (Block<..., N, M>)."""
    return me.get('_targs', [])
