import sys, time
sys.path.insert(0, '/tmp/probe')
from se_gen import *
docs = load_docs('/tmp/probe/ast_ljg.json')
M = methods_of(docs)
print(sorted(M))
lam = [sp.Symbol('l%d' % i, real=True) for i in range(5)]
r = sp.Symbol('r', positive=True)
def run(name, args, seed=None, seed2=None):
    L = Vec([D(lam[i], 1 if i == seed else 0) for i in range(5)])
    this = {'lam_': L, 'min_': D(sp.Symbol('rmin')), 'cut_off_': D(sp.Symbol('rcut'))}
    cb = {'decide': lambda c: True}   # inside [min, cut]
    return Exec({}, cb, M, this).call_method(name, this, args)
bad = 0
t0 = time.time()
for i in range(5):
    F = run('CalculateF', [D(r)], seed=i)
    DF = run('CalculateDF', [i, D(r)])
    z = nf_zero(F.t - DF.v); print('dF/dlam%d == CalculateDF(%d): %s' % (i, i, 'PROVED' if z else 'NOT-ZERO')); bad += not z
    for j in range(5):
        DFj = run('CalculateDF', [i, D(r)], seed=j)   # d/dlam_j of DF_i
        D2 = run('CalculateD2F', [i, j, D(r)])
        z = nf_zero(DFj.t - D2.v); 
        if not z: print('  d2F/dlam%d dlam%d == CalculateD2F(%d,%d): NOT-ZERO   AD=%s  code=%s' % (i, j, i, j, sp.factor(DFj.t), sp.factor(D2.v))); bad += 1
print('bad', bad, 'time %.1fs' % (time.time() - t0))
