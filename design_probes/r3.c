typedef __CPROVER_real real;
real nondet_real();
real mysqrt(real x) { real s = nondet_real(); __CPROVER_assume(s >= 0 && s*s == x); return s; }
int main(){
  real x = nondet_real(); real y = nondet_real();
  __CPROVER_assume(y > 0);
  real z = x*y/y;
#ifdef BAD
  __CPROVER_assert(z == x + 1, "bad must fail");
#endif
  real h = (real)1/(real)2;  real one = 1;
  __CPROVER_assert(h + h == one, "literal");
  real n = mysqrt(x*x + y*y);
  __CPROVER_assert(n >= y, "norm ge comp");
  __CPROVER_assert(n*n - x*x == y*y, "pyth");
  return 0; }
