#include <math.h>
#include <stddef.h>
typedef long Index;
struct HistogramNew { double min_, max_, step_; _Bool periodic_; Index nbins_; double *y_; };
/* ghost */
Index g_bin = -1; int g_hits = 0;
void HistogramNew_Process(struct HistogramNew *self, const double v, double scale)
__CPROVER_requires(__CPROVER_is_fresh(self, sizeof(*self)))
__CPROVER_requires(self->nbins_ >= 1 && self->nbins_ <= 1000000)
__CPROVER_requires(__CPROVER_is_fresh(self->y_, self->nbins_ * sizeof(double)))
__CPROVER_requires(self->step_ > 0.0 && self->step_ < 1e300 && !isnan(self->min_) && !isinf(self->min_))
__CPROVER_requires(!isnan(v) && !isinf(v))
__CPROVER_requires(((v - self->min_) / self->step_) < 4e18 && ((v - self->min_) / self->step_) > -4e18)
__CPROVER_assigns(__CPROVER_object_whole(self->y_))
;
#define min_ (self->min_)
#define step_ (self->step_)
#define nbins_ (self->nbins_)
#define periodic_ (self->periodic_)
#define DATA_Y(i) (self->y_[i])
void HistogramNew_Process(struct HistogramNew *self, const double v, double scale)
{
  Index i = (Index)floor((v - min_) / step_ + 0.5);
  if (i < 0 || i >= nbins_) {
    if (periodic_) {
      if (i < 0) {
#ifdef FIXED
        i = (nbins_ - ((-i) % nbins_)) % nbins_;
#else
        i = nbins_ - ((-i) % nbins_);
#endif
      } else {
        i = i % nbins_;
      }
    } else {
      return;
    }
  }
  DATA_Y(i) += scale;
}
void h_process(void) { struct HistogramNew *h; double v, s; HistogramNew_Process(h, v, s); }
