
typedef long Index;
/* ghost event log */
extern "C" void ev_lock(int which, long idx); extern "C" void ev_unlock(int which, long idx); extern "C" int ev_nextframe(long wid); extern "C" void ev_eval(long wid); extern "C" void ev_merge(long wid);
namespace tools { struct Mutex { int kind; long idx; void Lock(){ ev_lock(kind, idx);} void Unlock(){ ev_unlock(kind, idx);} }; }
namespace std {
template <class T> struct unique_ptr { T *p; T* operator->() const { return p; } T* get() const { return p; } };
template <class T> struct vector { T d[4]; long n; T& operator[](long i){ __CPROVER_assert(0<=i && i<n, "vector index"); return d[i]; } };
}
struct Topology {};
struct CsgApplication;
struct TrajectoryReader { bool NextFrame(Topology &t); long wid; };
struct TopologyMap { void Apply(); };
struct Worker { CsgApplication *app_; long id_; Topology top_, top_cg_; TopologyMap *map_; Index getId(){ return id_; }
  void EvalConfiguration(Topology *a, Topology *b = 0){ ev_eval(id_); } void Run(); };
struct CsgApplication {
  typedef ::Worker Worker;
  struct MutexVec { tools::Mutex d[4]; long n; tools::Mutex* operator[](long i){ __CPROVER_assert(0<=i && i<n, "vector index"); return &d[i]; } } threadsMutexesIn_, threadsMutexesOut_;
  tools::Mutex traj_readerMutex_; Index nframes_; bool is_first_frame_; Index nthreads_; bool do_mapping_; bool sync_;
  TrajectoryReader *traj_reader_;
  bool SynchronizeThreads(){ return sync_; }
  void MergeWorker(Worker *w){ ev_merge(w->id_); }
  bool ProcessData(Worker *worker);
};
long cur_wid;
bool TrajectoryReader::NextFrame(Topology &t){ return ev_nextframe(cur_wid); }
void TopologyMap::Apply(){}
bool CsgApplication::ProcessData(Worker *worker)
{

  Index id;
  id = worker->getId();

  if (SynchronizeThreads()) {
    // wait til its your turn
    threadsMutexesIn_[id]->Lock();
  }
  traj_readerMutex_.Lock();
  if (nframes_ == 0) {
    traj_readerMutex_.Unlock();

    if (SynchronizeThreads()) {
      // done processing? don't forget to unlock next worker anyway
      threadsMutexesIn_[(id + 1) % nthreads_]->Unlock();
    }

    return false;
  }
  nframes_--;
  if (!is_first_frame_ || worker->getId() != 0) {
    // get frame
    bool tmpRes = traj_reader_->NextFrame(worker->top_);
    if (!tmpRes) {
      traj_readerMutex_.Unlock();
      if (SynchronizeThreads()) {
        threadsMutexesIn_[(id + 1) % nthreads_]->Unlock();
      }
      return false;
    }
  }
  if (worker->getId() == 0) {
    is_first_frame_ = false;
  }

  traj_readerMutex_.Unlock();
  if (SynchronizeThreads()) {
    // unlock next frame for input
    threadsMutexesIn_[(id + 1) % nthreads_]->Unlock();
  }
  // evaluate
  if (do_mapping_) {
    worker->map_->Apply();
    worker->EvalConfiguration(&worker->top_cg_, &worker->top_);
  } else {
    worker->EvalConfiguration(&worker->top_);
  }

  return true;
}
void Worker::Run()
{
  while (app_->ProcessData(this)) {
    if (app_->SynchronizeThreads()) {
      Index id = getId();
      app_->threadsMutexesOut_[id]->Lock();
      app_->MergeWorker(this);
      app_->threadsMutexesOut_[(id + 1) % app_->nthreads_]->Unlock();
    }
  }
}
extern "C" int pd_shim(CsgApplication *app, Worker *w){ cur_wid = w->id_; return app->ProcessData(w); }
extern "C" { extern long g_id, g_n; extern int g_in_own_locked, g_reader_held, g_reader_locks, g_reader_unlocks, g_next_unlocked, g_nextframe_calls, g_evals, g_bad; }
long nondet_long(); bool nondet_bool();
extern "C" void h_pd() {
  CsgApplication app; Worker w; TrajectoryReader tr; TopologyMap tm;
  long n = nondet_long(), id = nondet_long(); __CPROVER_assume(1 <= n && n <= 4 && 0 <= id && id < n);
  app.nthreads_ = n; app.sync_ = true; app.do_mapping_ = nondet_bool(); app.nframes_ = nondet_long(); __CPROVER_assume(app.nframes_ >= -1 && app.nframes_ < 1000000);
  app.is_first_frame_ = nondet_bool(); app.traj_reader_ = &tr; app.traj_readerMutex_.kind = 2; app.traj_readerMutex_.idx = 0;
  app.threadsMutexesIn_.n = n; app.threadsMutexesOut_.n = n;
  for (int i = 0; i < 4; i++) { app.threadsMutexesIn_.d[i].kind = 0; app.threadsMutexesIn_.d[i].idx = i; app.threadsMutexesOut_.d[i].kind = 1; app.threadsMutexesOut_.d[i].idx = i; }
  w.app_ = &app; w.id_ = id; w.map_ = &tm;
  g_id = id; g_n = n;
  long nf0 = app.nframes_; bool ff0 = app.is_first_frame_;
  int r = pd_shim(&app, &w);
  __CPROVER_assert(!g_bad, "lock protocol order respected on every path");
  __CPROVER_assert(g_in_own_locked == 1, "own input token acquired");
  __CPROVER_assert(g_reader_locks == 1 && g_reader_unlocks == 1 && !g_reader_held, "reader mutex balanced");
  __CPROVER_assert(g_next_unlocked == 1, "next worker's input token released exactly once on every path");
  __CPROVER_assert(g_nextframe_calls <= 1, "at most one frame read");
  __CPROVER_assert(!r || g_evals == 1, "evaluated exactly once when a frame was assigned");
  __CPROVER_assert(r || g_evals == 0, "no evaluation without a frame");
  __CPROVER_assert((nf0 == 0) ? (app.nframes_ == 0 && !r && g_nextframe_calls == 0) : (app.nframes_ == nf0 - 1), "frame budget");
  __CPROVER_assert((g_nextframe_calls == 0 && nf0 != 0) == (ff0 && id == 0), "worker 0 reuses the seek frame exactly once");
  __CPROVER_assert(0, "canary");
}
