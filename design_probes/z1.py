import time, sys
from z3 import *
x1,y1,z1,x2,y2,z2,a,b,ap = Reals('x1 y1 z1 x2 y2 z2 a b ap')
class V:
    def __init__(s,x,y,z): s.c=(x,y,z)
    def __add__(s,o): return V(*[p+q for p,q in zip(s.c,o.c)])
    def __sub__(s,o): return V(*[p-q for p,q in zip(s.c,o.c)])
    def __neg__(s): return V(*[-p for p in s.c])
    def __mul__(s,k): return V(*[p*k for p in s.c])
    __rmul__=__mul__
    def __truediv__(s,k): return V(*[p/k for p in s.c])
    def dot(s,o): return sum(p*q for p,q in zip(s.c,o.c))
v1=V(x1,y1,z1); v2=V(x2,y2,z2)
d=v1.dot(v2)
bug = len(sys.argv)>1
g0 = (-v2/(a*b) + (v1*d)/(a*a*a*b))*ap
g2 = ((-v1/(a*b))*ap + (v2*d)/(a*b*b*b)) if bug else (-v1/(a*b) + (v2*d)/(a*b*b*b))*ap
g1 = ((v1+v2)/(a*b) - (v1*v2.dot(v2) + v2*v1.dot(v1))*d/(a*a*a*b*b*b))*ap
s=g0+g1+g2
for i in range(3):
    sol=Solver(); sol.set("timeout",120000)
    sol.add(a>0,b>0,a*a==v1.dot(v1),b*b==v2.dot(v2))
    sol.add(s.c[i]!=0)
    t=time.time(); r=sol.check(); print(i,r,round(time.time()-t,2))
    if r==sat: print(sol.model())
