import sys, time
sys.path.insert(0, '/tmp/probe')
import se_gen
from se_gen import *
import z3
# Eigen bits needed here
def col(m, j): j = int(j.v) if isinstance(j, D) else j; return Vec([m.m[i][j] for i in range(3)])
Mat.col = col
Vec.x = lambda s: s.c[0]; Vec.y = lambda s: s.c[1]; Vec.z = lambda s: s.c[2]
class Arr(Vec):   # Eigen::Array3d: coefficient-wise ops
    def __mul__(s, o): return Arr([a * b for a, b in zip(s.c, o.c)]) if isinstance(o, Vec) else Arr([a * o for a in s.c])
    def __truediv__(s, o): return Arr([a / b for a, b in zip(s.c, o.c)]) if isinstance(o, Vec) else Arr([a / o for a in s.c])
    def __sub__(s, o): return Arr([a - b for a, b in zip(s.c, o.c)])
    def round(s): return Arr([rnd(a) for a in s.c])
    def matrix(s): return Vec(s.c)
Mat.diagonal = lambda s: Arr([s.m[i][i] for i in range(3)])
_os = Exec.stmt
def stmt(s_, n):
    _os(s_, n)
    if n['kind'] == 'DeclStmt':
        for vd in n['inner']:
            if 'Array' in vd['type']['qualType'] and isinstance(s_.env.get(vd['name']), Vec) and not isinstance(s_.env[vd['name']], Arr):
                s_.env[vd['name']] = Arr(s_.env[vd['name']].c)
Exec.stmt = stmt
RND = []
def rnd(x):
    x = D.lift(x); k = sp.Symbol('k%d' % len(RND), integer=True); RND.append((k, x.v)); return D(k)
def load(f, name):
    docs = load_docs('/tmp/probe/ast_%s.json' % f)
    return [d for d in docs if d.get('name') == name and any(x.get('kind') == 'CompoundStmt' for x in d.get('inner', []))][0]
def to_z3(e):
    if e.is_Symbol: return z3.Int(e.name) if e.is_integer else z3.Real(e.name)
    if e.is_Rational: return z3.RealVal(str(e))
    if e.is_Add: 
        r = to_z3(e.args[0])
        for a in e.args[1:]: r = r + to_z3(a)
        return r
    if e.is_Mul:
        r = to_z3(e.args[0])
        for a in e.args[1:]: r = r * to_z3(a)
        return r
    if e.is_Pow and e.exp.is_Integer and int(e.exp) < 0:
        b = to_z3(e.base); r = b
        for _ in range(-int(e.exp) - 1): r = r * b
        return 1 / r
    if e.is_Pow and e.exp.is_Integer:
        b = to_z3(e.base); r = b
        for _ in range(int(e.exp) - 1): r = r * b
        return r
    raise Exception('to_z3 ' + str(e))
def run(f, box, mutate=None):
    del RND[:]
    m = load(f, 'BCShortestConnection')
    ri = Vec([sp.Symbol('a%s' % c, real=True) for c in 'xyz']); rj = Vec([sp.Symbol('b%s' % c, real=True) for c in 'xyz'])
    this = {'box_': box}
    ex = Exec({'r_i': ri, 'r_j': rj}, {'round': lambda *a: (a[-1].round() if isinstance(a[-1], Arr) else rnd(a[-1]))}, {}, this)
    body = [c for c in m['inner'] if c['kind'] == 'CompoundStmt'][0]
    try: ex.stmt(body)
    except Ret as r: return r.v, ri, rj
ax, by, cz = sp.symbols('ax by cz', positive=True); bx, cx, cy = sp.symbols('bx cx cy', real=True)
tri = Mat([[ax, bx, cx], [0, by, cy], [0, 0, cz]])
ortho = Mat([[ax, 0, 0], [0, by, 0], [0, 0, cz]])
for name, f, box in (('triclinic', 'triclinicbox', tri), ('orthorhombic', 'orthorhombicbox', ortho)):
    t0 = time.time()
    res, ri, rj = run(f, box)
    # Q-lattice: res == rj - ri - sum k_m col(m), k integer  (normal form; which k multiplies which column is read off the result)
    diff = [sp.expand(res.c[i].v - (rj.c[i].v - ri.c[i].v)) for i in range(3)]
    ks = [k for k, _ in RND]
    lattice_ok = all(sp.Poly(d, *ks).total_degree() <= 1 and sp.Poly(d, *ks).eval({k: 0 for k in ks}) == 0 for d in diff)
    # Q-brick with z3: round contract |x - k| <= 1/2
    s = z3.Solver(); s.add(z3.Real('ax') > 0, z3.Real('by') > 0, z3.Real('cz') > 0)
    for k, x in RND:
        zx = to_z3(sp.together(x)); zk = z3.ToReal(z3.Int(k.name)); s.add(zx - zk <= z3.RealVal(1) / 2, zk - zx <= z3.RealVal(1) / 2)
    out = [to_z3(sp.expand(c.v)) for c in res.c]
    half = [z3.Real('ax') / 2, z3.Real('by') / 2, z3.Real('cz') / 2]
    s.add(z3.Or(*[z3.Or(out[i] > half[i], out[i] < -half[i]) for i in range(3)]))
    r = s.check()
    print('%-13s rounds=%d  Q-lattice:%s  Q-brick:%s  %.2fs' % (name, len(RND), 'PROVED' if lattice_ok else 'FAILED', 'PROVED' if r == z3.unsat else str(r), time.time() - t0))
