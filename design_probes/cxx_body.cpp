namespace E {
struct V3 { double d[3];
  double x() const { return d[0]; } double y() const {return d[1];} double z() const {return d[2];}
  V3 operator-(const V3 &o) const { V3 r; r.d[0]=d[0]-o.d[0]; r.d[1]=d[1]-o.d[1]; r.d[2]=d[2]-o.d[2]; return r; }
  V3 operator*(double s) const { V3 r; r.d[0]=d[0]*s; r.d[1]=d[1]*s; r.d[2]=d[2]*s; return r; }
};
struct M3 { double m[3][3];
  V3 col(int j) const { V3 r; r.d[0]=m[0][j]; r.d[1]=m[1][j]; r.d[2]=m[2][j]; return r; }
  double operator()(int i,int j) const { return m[i][j]; }
};
}
extern "C" double round(double); namespace std { using ::round; }
class TriclinicBox { public:
  E::V3 BCShortestConnection(const E::V3 &r_i, const E::V3 &r_j) const;
  E::M3 box_;
};
E::V3 TriclinicBox::BCShortestConnection(
    const E::V3 &r_i, const E::V3 &r_j) const {
  E::V3 r_tp = r_j - r_i;
  E::V3 r_dp = r_tp - box_.col(2) * std::round(r_tp.z() / box_(2, 2));
  E::V3 r_sp = r_dp - box_.col(1) * std::round(r_dp.y() / box_(1, 1));
  return r_sp - box_.col(0) * std::round(r_sp.x() / box_(0, 0));
}
extern "C" void tric_sc(const double *box9, const double *ri, const double *rj, double *out) {
  TriclinicBox b;
  for (int i=0;i<3;i++) for (int j=0;j<3;j++) b.box_.m[i][j]=box9[3*i+j];
  E::V3 a, c; for (int i=0;i<3;i++){a.d[i]=ri[i]; c.d[i]=rj[i];}
  E::V3 r = b.BCShortestConnection(a,c);
  for (int i=0;i<3;i++) out[i]=r.d[i];
}
