import sys, json, itertools
import sympy as sp
sys.argv=['x']
src = open('/tmp/probe/se.py').read()
src = src.replace('from z3 import *', 'import sympy as sp\ndef is_expr(x): return isinstance(x, sp.Basic)\ndef RealVal(x): return sp.Rational(str(x)) if not isinstance(x,(int,)) else sp.Integer(x)\ndef Real(n): return sp.Symbol(n, real=True)\ndef simplify(x): return x\ndef And(*a): return a\ndef Function(*a): return sp.Function("acos")\ndef RealSort(): return None\ndef is_rational_value(x): return True')
src = src.split("if __name__ == '__main__':")[0]
exec(src)
docs = load_docs('/tmp/probe/ast_huff.json')
spec = [c for c in docs[0]['inner'] if c['kind']=='ClassTemplateSpecializationDecl'][0]
methods = {m['name']: m for m in spec['inner'] if m['kind']=='CXXMethodDecl' and any(x.get('kind')=='CompoundStmt' for x in m.get('inner',[]))}
# extend executor
class Exec2(Exec):
    def stmt(s, n):
        k = n['kind']
        if k == 'IfStmt':
            inner = n['inner']; c = s.expr(inner[0])
            assert isinstance(c, bool), ('symbolic branch', c)
            if c: s.stmt(inner[1])
            elif len(inner) > 2: s.stmt(inner[2])
            return
        if k == 'ReturnStmt' and not n.get('inner'): raise Ret(None)
        return Exec.stmt(s, n)
    def lval(s, n):
        k = n['kind']
        if k in ('ImplicitCastExpr','ParenExpr'): return s.lval(n['inner'][0])
        if k == 'MemberExpr':
            obj = s.expr(n['inner'][0]); return (obj, n['name'])
        raise NotImplementedError('lval '+k)
    def expr(s, n):
        k = n['kind']
        if k == 'MemberExpr':
            obj = s.expr(n['inner'][0]); return obj[n['name']]
        if k == 'CompoundAssignOperator':
            o, f = s.lval(n['inner'][0]); r = s.expr(n['inner'][1]); r = D.lift(r) if not isinstance(r, D) else r
            o[f] = {'+=': o[f] + r, '-=': o[f] - r}[n['opcode']]; return o[f]
        if k == 'BinaryOperator' and n['opcode'] == '=':
            o, f = s.lval(n['inner'][0]); o[f] = s.expr(n['inner'][1]); return o[f]
        if k == 'CXXMemberCallExpr':
            me = n['inner'][0]; name = me['name']
            if name in methods:
                args = [s.expr(a) for a in n['inner'][1:]]
                m = methods[name]; params = [p['name'] for p in m['inner'] if p['kind']=='ParmVarDecl']
                body = [c for c in m['inner'] if c['kind']=='CompoundStmt'][0]
                ex = Exec2(dict(zip(params, args), this=s.env['this']), s.cb)
                try: ex.stmt(body)
                except Ret as r: return r.v
                return None
        if k == 'CXXThisExpr': return s.env['this']
        return Exec.expr(s, n)
def node(**kw):
    d = dict(leftChild=None, rightChild=None, leftLeaf=None, rightLeaf=None, probability=None, isOnLastLevel=False); d.update(kw); return d
def shapes(leaves):
    """all full binary trees whose leaves are 'last-level nodes' groups; leaves: list of last-level nodes"""
    if len(leaves) == 1: yield leaves[0]; return
    for i in range(1, len(leaves)):
        for L in shapes(leaves[:i]):
            for R in shapes(leaves[i:]):
                yield ('inner', L, R)
def build(t, S):
    if isinstance(t, dict): 
        t2 = dict(t); return t2
    _, L, R = t; l = build(L, S); r = build(R, S)
    return node(leftChild=l, rightChild=r, probability=l['probability'] + r['probability'])
def leaves_of(n):
    if n['isOnLastLevel']: return [n]
    return leaves_of(n['leftChild']) + leaves_of(n['rightChild'])
def intervals(n, lo, hi, out):
    th = n['probability'].v
    if n['isOnLastLevel']:
        out.append((n['rightLeaf'], lo, th)); out.append((n['leftLeaf'], th, hi)); return
    intervals(n['leftChild'], th, hi, out); intervals(n['rightChild'], lo, th, out)
total = 0; bad = 0
for nev in range(1, 7):
    rates = [sp.Symbol('k%d' % i, positive=True) for i in range(nev)]
    S = sum(rates)
    evs = [{'name': i, 'rate': rates[i]} for i in range(nev)]
    # last-level nodes: consecutive pairs (+ single duplicated when odd) -- arrangement of which events pair up is irrelevant to the two passes
    ll = []
    i = 0
    while i + 1 < nev:
        ll.append(node(isOnLastLevel=True, leftLeaf=evs[i], rightLeaf=evs[i+1], probability=D((rates[i] + rates[i+1]) / S))); i += 2
    if i < nev: ll.append(node(isOnLastLevel=True, leftLeaf=evs[i], rightLeaf=evs[i], probability=D(rates[i] / S)))
    for t in shapes(ll):
        root = build(t, S) if not isinstance(t, dict) else dict(t)
        this = {'sum_of_values': D(S)}
        cb = {'getValue': lambda ev: D(ev['rate'])}
        ex = Exec2({'this': this}, cb)
        def call(name, *args):
            m = methods[name]; params = [p['name'] for p in m['inner'] if p['kind']=='ParmVarDecl']
            body = [c for c in m['inner'] if c['kind']=='CompoundStmt'][0]
            e2 = Exec2(dict(zip(params, args), this=this), cb)
            try: e2.stmt(body)
            except Ret: pass
        call('addProbabilityFromRightSubtreeToLeftSubtree', root, D(0))
        call('moveProbabilitiesFromRightSubtreesOneLevelUp', root)
        out = []; intervals(root, sp.Integer(0), sp.Integer(1), out)
        # merge duplicate single leaf
        meas = {}
        for ev, lo, hi in out: meas[ev['name']] = meas.get(ev['name'], 0) + (hi - lo)
        ok = all(sp.simplify(meas[i] - rates[i] / S) == 0 for i in range(nev))
        # ordering: thresholds monotone => lo<=hi for each piece under positivity
        ok2 = all(sp.simplify(hi - lo).is_nonnegative for ev, lo, hi in out)
        total += 1
        if not (ok and ok2): bad += 1; print('FAIL shape', nev, meas)
print('shapes checked', total, 'bad', bad)
