#include <votca/tools/histogramnew.h>
#include <votca/tools/rangeparser.h>
#include <iostream>
using namespace votca::tools;
int main(){
  RangeParser rp; rp.Parse("5:-1:1"); int n=0; for (auto i: rp){ std::cout<<i<<" "; if(++n>10) break;} std::cout<<"| n="<<n<<std::endl;
  RangeParser rz; rz.Parse("1:0:3"); n=0; for (auto i: rz){ if(++n>1000) break;} std::cout<<"zero stride iterations (capped 1000): "<<n<<std::endl;
  HistogramNew h; h.Initialize(0,10,10); 
  // make periodic
  HistogramNew hp; hp.setPeriodic(true); hp.Initialize(0,10,10);
  std::cout << "step=" << hp.getStep() << std::endl;
  hp.Process(-10.0, 1.0);  // i = -10 -> nbins - 0 = 10 -> OOB
  std::cout << "processed\n";
}
