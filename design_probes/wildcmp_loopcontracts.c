#include <stddef.h>
#define nullptr ((const char*)0)
int wildcmp(const char *wild, const char *string)
__CPROVER_requires(1)
;
/* ghost: allocated lengths */
size_t WL, SL; const char *W0, *S0;
#define INB(p, base, len) (__CPROVER_same_object(p, base) && __CPROVER_POINTER_OFFSET(p) <= (len))
int wildcmp(const char *wild, const char *string) {
  // Written by Jack Handy - jakkhandy@hotmail.com
  const char *cp = nullptr, *mp = nullptr;

  while ((*string) && (*wild != '*'))
  __CPROVER_assigns(wild, string)
  __CPROVER_loop_invariant(INB(wild, W0, WL) && INB(string, S0, SL))
  __CPROVER_decreases(SL - __CPROVER_POINTER_OFFSET(string))
  {
    if ((*wild != *string) && (*wild != '?')) {
      return 0;
    }
    wild++;
    string++;
  }

  while (*string)
  __CPROVER_assigns(wild, string, mp, cp)
  __CPROVER_loop_invariant(INB(wild, W0, WL) && INB(string, S0, SL))
  __CPROVER_loop_invariant((mp == nullptr && cp == nullptr && *wild == '*') || (INB(mp, W0, WL) && INB(cp, S0, SL + 1) && __CPROVER_POINTER_OFFSET(cp) >= 1 && __CPROVER_POINTER_OFFSET(string) + 1 >= __CPROVER_POINTER_OFFSET(cp)))
  __CPROVER_decreases(SL + 2 - (cp == nullptr ? 0 : __CPROVER_POINTER_OFFSET(cp)), SL - __CPROVER_POINTER_OFFSET(string), WL - __CPROVER_POINTER_OFFSET(wild))
  {
    if (*wild == '*') {
      if (!*++wild) {
        return 1;
      }
      mp = wild;
      cp = string + 1;
    } else if ((*wild == *string) || (*wild == '?')) {
      wild++;
      string++;
    } else {
      wild = mp;
      string = cp++;
    }
  }

  while (*wild == '*')
  __CPROVER_assigns(wild)
  __CPROVER_loop_invariant(INB(wild, W0, WL))
  __CPROVER_decreases(WL - __CPROVER_POINTER_OFFSET(wild))
  {
    wild++;
  }
  return !*wild;
}
size_t nondet_size_t();
void h(void) {
  WL = nondet_size_t(); SL = nondet_size_t();
  __CPROVER_assume(WL <= 1000 && SL <= 1000);
  char *w = __CPROVER_allocate(WL + 1, 0); char *s = __CPROVER_allocate(SL + 1, 0);
  __CPROVER_assume(w != 0 && s != 0);
  w[WL] = 0; s[SL] = 0;
  /* NUL only at the end: strlen == WL / SL (all shorter strings are covered by smaller WL/SL) */
  W0 = w; S0 = s;
  wildcmp(w, s);
}
