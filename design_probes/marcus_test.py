import sys, time
sys.path.insert(0, '/tmp/probe')
import se_gen
from se_gen import *
docs = load_docs('/tmp/probe/ast_marcus.json')
M = methods_of(docs); print(sorted(M))
G = {'hbar': sp.Symbol('hbar', positive=True), 'ev2hrt': sp.Symbol('ev2hrt', positive=True), 'Pi': sp.Symbol('pi', positive=True)}
# patch: unknown names resolve to global constants
orig = Exec.expr
def expr(s, n):
    if n['kind'] == 'DeclRefExpr' and n['referencedDecl']['name'] in G and n['referencedDecl']['name'] not in s.env:
        return D(G[n['referencedDecl']['name']])
    return orig(s, n)
Exec.expr = expr
J2, dG, lam, T = sp.symbols('J2 dG lam T', positive=True)
dGs = sp.Symbol('dG', real=True)
this = {'temperature_': D(T)}
def rate(j2, dg, l): return Exec({}, {}, M, this).call_method('Marcusrate', this, [D(j2), D(dg), D(l)])
k12 = rate(J2, dGs, lam); k21 = rate(J2, -dGs, lam)
print('k12 =', k12.v)
# detailed balance: k12/k21 == E(dG/T) -> use lemma E(a) = E(b) * E(a-b)
E = se_gen.EXPF
ratio = sp.simplify(k12.v / k21.v)
print('ratio =', ratio)
args = [a.args[0] for a in ratio.atoms(sp.Function) if a.func == E]
print('exp args:', args)
if len(args) == 2:
    a, b = args
    print('a-b =', sp.simplify(a - b), ' -> expected +-dG/T')
# linear in J2
print('linear in J2:', se_gen.nf_zero(rate(2 * J2, dGs, lam).v - 2 * k12.v))
