import sys, time, itertools
sys.path.insert(0, '/tmp/probe')
from se_mx import *
import se_gen
docs = load_docs('/tmp/probe/ast_vs.json')
ft = [d for d in docs if d.get('kind') == 'FunctionTemplateDecl'][0]
specs = {}
for c in ft['inner']:
    if c.get('kind') == 'CXXMethodDecl':
        ta = [x for x in c.get('inner', []) if x.get('kind') == 'TemplateArgument']
        if ta: specs[int(ta[0]['value'])] = c
print('specialisations:', sorted(specs))
s3 = sp.Symbol('sq3', positive=True); 
def mk_site(tag, rank):
    q = [sp.Symbol('%sQ%d' % (tag, i), real=True) if (i == 0 or (i < 4 and rank >= 1) or rank >= 2) else sp.Integer(0) for i in range(9)]
    pos = [sp.Symbol('%sp%s' % (tag, c), real=True) for c in 'xyz']
    return {'Q': Mx.vec(q), 'pos': Mx.vec(pos), 'rank': rank, 'tag': tag}
def vsite(N, A, B):
    """returns V = VSiteA<N>(A, B) executed from the real AST"""
    m = specs[N]
    def AxA_get(name):
        idx = {'xx': (0, 0), 'xy': (0, 1), 'xz': (0, 2), 'yy': (1, 1), 'yz': (1, 2), 'zz': (2, 2)}[name]
        return lambda r: r.g(idx[0]) * r.g(idx[1])
    cb = {'getPos': lambda st: st['pos'], 'getRank': lambda st: st['rank'], 'getCharge': lambda st: st['Q'].g(0), 'Q': lambda st: st['Q'],
          'decide': None}
    for nm in ('xx', 'xy', 'xz', 'yy', 'yz', 'zz'): cb[nm] = AxA_get(nm)
    # sqrt(3) -> radical symbol handled by d_sqrt; pow(fac1, n) ok
    ex = Exec({'siteA': A, 'siteB': B}, cb, {}, {})
    body = [c for c in m['inner'] if c['kind'] == 'CompoundStmt'][0]
    try: ex.stmt(body)
    except Ret as r: return r.v
# declared-type construction: 'Eigen::Matrix<double, N, 1> V;' etc. -> need zero-init objects for VarDecl without init
_os = Exec.stmt
def stmt(s_, n):
    if n['kind'] == 'DeclStmt':
        for vd in n['inner']:
            inner = [c for c in vd.get('inner', [])]
            ty = vd['type'].get('desugaredQualType', vd['type']['qualType'])
            mt = re.search(r'Matrix<double, (\d+), (\d+)', ty)
            if mt and (not inner or (inner[0]['kind'] == 'CXXConstructExpr' and not [a for a in inner[0].get('inner', []) if a['kind'] != 'CXXDefaultArgExpr'])):
                s_.env[vd['name']] = Mx(int(mt.group(1)), int(mt.group(2)),
                    [[D(sp.Symbol('uninit_%s_%d_%d' % (vd['name'], i, j))) for j in range(int(mt.group(2)))] for i in range(int(mt.group(1)))]); continue
            if inner:
                val = rval(s_.expr(inner[0]))
                if isinstance(val, Mx): val = val.copy()
                s_.env[vd['name']] = val
            else: s_.env[vd['name']] = None
        return
    return _os(s_, n)
Exec.stmt = stmt
def truth(s_, c):
    c = rval(c)
    if isinstance(c, bool): return c
    if isinstance(c, int): return c != 0
    if c in (sp.true, sp.false): return bool(c)
    raise Unsupported('symbolic branch %s' % c)
Exec.truth = truth
def energy(A, B):
    """CalcStaticEnergy_site(site1=A, site2=B): V_full = VSiteA<N>(site2, site1); e = V_full . Q(site2)"""
    if B['rank'] < 2:
        V = vsite(4, B, A); return V.dot(B['Q'].segment(4, 0))
    V = vsite(9, B, A); return V.dot(B['Q'])
t0 = time.time()
bad = 0
for ra, rb in itertools.product(range(3), range(3)):
    del se_gen.RAD[:]
    A = mk_site('a', ra); B = mk_site('b', rb)
    e1 = energy(A, B); e2 = energy(B, A)
    z = nf_zero(e1.v - e2.v)
    extra = ''
    if ra == 0 and rb == 0:
        # q1 q2 / R
        R = d_sqrt((B['pos'] - A['pos']).squaredNorm()); extra = '  q1q2/R:%s' % ('PROVED' if nf_zero(e1.v - A['Q'].g(0).v * B['Q'].g(0).v / R.v) else 'NOT-ZERO')
    print('ranks %d,%d  E(A,B)==E(B,A): %s%s  radicals=%d  %.1fs' % (ra, rb, 'PROVED' if z else 'NOT-ZERO', extra, len(se_gen.RAD), time.time() - t0)); sys.stdout.flush()
    bad += not z
print('bad', bad)
del se_gen.RAD[:]
A = mk_site('a', 0); B = mk_site('b', 1)
e1 = energy(A, B)
print('E(charge a, charge+dipole b) =', sp.simplify(e1.v)); print('radicals', se_gen.RAD)
print('canary (E == 2E):', 'refuted' if not nf_zero(e1.v - 2 * energy(B, A).v) else 'NOT refuted')
