int stage = 0, bad = 0, lockmode = 0, writes = 0, pushes = 0; long lastpush = -1;
void ev(int what, long arg) {
  switch (what) {
    case 1: if (stage != 0) bad = 1; stage = 1; lockmode = (int)arg; break;      /* lock */
    case 2: if (stage != 1) bad = 1; stage = 2; break;                            /* load */
    case 3: if (stage != 2) bad = 1; stage = 3; break;                            /* update */
    case 4: if (writes == 0) { if (stage != 3 || arg != 101) bad = 1; stage = 4; } /* backup = progFile_+"~" (h=1+100) */
            else { if (stage != 4 || arg != 1) bad = 1; stage = 5; }
            writes++; break;
    case 12: if (stage != 4) bad = 1; if (arg <= lastpush) bad = 1; lastpush = arg; pushes++; break;
    case 6: if (stage != 5) bad = 1; stage = 6; break;
    default: break;
  }
}
