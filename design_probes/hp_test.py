import sys, time
sys.path.insert(0, '/tmp/probe')
import se_gen
from se_gen import *
import z3
docs = load_docs('/tmp/probe/ast_hp.json')
m = [d for d in docs if d.get('kind') == 'CXXMethodDecl' and any(x.get('kind') == 'CompoundStmt' for x in d.get('inner', []))][0]
print(m['name'])
def to_z3(e):
    if e.is_Symbol: return z3.Int(e.name) if e.is_integer else z3.Real(e.name)
    if e.is_Integer: return z3.IntVal(int(e))
    if e.is_Rational: return z3.RealVal(str(e))
    if e.is_Add:
        r = to_z3(e.args[0])
        for a in e.args[1:]: r = r + to_z3(a)
        return r
    if e.is_Mul:
        r = to_z3(e.args[0])
        for a in e.args[1:]: r = r * to_z3(a)
        return r
    if isinstance(e, sp.Mod): return to_z3(e.args[0]) % to_z3(e.args[1])
    if e.is_Pow and e.exp.is_Integer and int(e.exp) == -1: return 1 / to_z3(e.base)
    if isinstance(e, (sp.Lt, sp.Gt, sp.Le, sp.Ge, sp.Eq, sp.Ne)):
        a, b = to_z3(e.lhs), to_z3(e.rhs)
        return {sp.StrictLessThan: a < b, sp.StrictGreaterThan: a > b, sp.LessThan: a <= b, sp.GreaterThan: a >= b, sp.Equality: a == b, sp.Unequality: a != b}[type(e)]
    raise Unsupported('to_z3 ' + str(e))
BASE = []
class Paths:
    def __init__(s): s.prefix = []; s.pos = 0; s.pc = []
    def start(s): s.pos = 0; s.pc = []
    def feas(s, extra):
        sol = z3.Solver(); sol.set('timeout', 5000); sol.add(*BASE); sol.add(*s.pc); sol.add(extra); return sol.check() != z3.unsat
    def decide(s, cond):
        zc = to_z3(cond)
        if s.pos < len(s.prefix): val, _ = s.prefix[s.pos]
        else:
            ct, cf = s.feas(zc), s.feas(z3.Not(zc))
            if ct and cf: val = True; s.prefix.append((True, True))
            else: val = ct; s.prefix.append((val, False))
        s.pos += 1; s.pc.append(zc if val else z3.Not(zc)); return val
    def next(s):
        while s.prefix:
            val, alt = s.prefix.pop()
            if alt: s.prefix.append((not val, False)); return True
        return False
# symbolic integers: C semantics of % (truncated) for the sign combinations that occur: model via sympy Mod only where operands are known non-negative; otherwise use explicit truncated-mod helper
class SInt:
    """symbolic integer wrapper with C-style operators"""
    def __init__(s, e): s.e = sp.sympify(e)
    def __neg__(s): return SInt(-s.e)
    def __add__(s, o): return SInt(s.e + (o.e if isinstance(o, SInt) else o))
    __radd__ = __add__
    def __sub__(s, o): return SInt(s.e - (o.e if isinstance(o, SInt) else o))
    def __rsub__(s, o): return SInt((o.e if isinstance(o, SInt) else o) - s.e)
def cmod(a, b, P):
    """C99 truncated remainder a % b for b > 0: sign follows a"""
    ae = a.e if isinstance(a, SInt) else sp.Integer(a); be = b.e if isinstance(b, SInt) else sp.Integer(b)
    if P.decide(sp.Ge(ae, 0)): return SInt(sp.Mod(ae, be))
    return SInt(-sp.Mod(-ae, be))
_oe = Exec.expr
writes = []
def expr(s, n):
    k = n['kind']
    if k == 'CStyleCastExpr':
        v = rval(s.expr(n['inner'][0]))
        if isinstance(v, SInt): return v
        return v
    if k == 'BinaryOperator':
        op = n['opcode']
        if op not in ('=', '&&', '||'):
            a = rval(s.expr(n['inner'][0])); b = rval(s.expr(n['inner'][1]))
            if isinstance(a, SInt) or isinstance(b, SInt):
                ae = a.e if isinstance(a, SInt) else sp.Integer(a); be = b.e if isinstance(b, SInt) else sp.Integer(b)
                if op in ('<', '>', '<=', '>=', '==', '!='):
                    return {'<': sp.Lt, '>': sp.Gt, '<=': sp.Le, '>=': sp.Ge, '==': sp.Eq, '!=': sp.Ne}[op](ae, be)
                if op == '%': return cmod(a, b, s.cb['paths'])
                return {'+': SInt(ae + be), '-': SInt(ae - be)}[op]
            # non-symbolic: recompute through base using cached values is not possible -> emulate
            if op in ('<', '>', '<=', '>=', '==', '!='):
                if isinstance(a, int) and isinstance(b, int): return {'<': a < b, '>': a > b, '<=': a <= b, '>=': a >= b, '==': a == b, '!=': a != b}[op]
                return {'<': sp.Lt, '>': sp.Gt, '<=': sp.Le, '>=': sp.Ge, '==': sp.Eq, '!=': sp.Ne}[op](D.lift(a).v, D.lift(b).v)
            if isinstance(a, int) and isinstance(b, int): return {'+': a + b, '-': a - b, '*': a * b, '/': a // b, '%': a % b}[op]
            a = D(a) if isinstance(a, int) else a; b = D(b) if isinstance(b, int) else b
            return {'+': lambda: a + b, '-': lambda: a - b, '*': lambda: a * b, '/': lambda: a / b}[op]()
    if k == 'UnaryOperator' and n['opcode'] == '-':
        a = rval(s.expr(n['inner'][0]))
        if isinstance(a, SInt): return -a
    return _oe(s, n)
Exec.expr = expr
res = []
for periodic in (False, True):
    P = Paths()
    while True:
        P.start(); del BASE[:]; del writes[:]
        v, mn, st, sc = sp.symbols('v min step scale', real=True); nb = sp.Symbol('nbins', integer=True); kf = sp.Symbol('kf', integer=True)
        BASE += [z3.Real('step') > 0, z3.Int('nbins') >= 1]
        # floor contract: kf <= x < kf + 1 with x = (v-min)/step + 1/2
        def floor_c(x):
            x = D.lift(x); BASE.append(to_z3(sp.Le(kf, 0)) if False else z3.ToReal(z3.Int('kf')) <= to_z3(sp.together(x.v))); BASE.append(to_z3(sp.together(x.v)) < z3.ToReal(z3.Int('kf')) + 1); return SInt(kf)
        def y_write(tbl, i): 
            return Ref(lambda: D(sp.Function('y')(i.e if isinstance(i, SInt) else i)), lambda val, i=i: writes.append((i, val)))
        this = {'min_': D(mn), 'step_': D(st), 'nbins_': SInt(nb), 'periodic_': periodic, 'data_': 'TABLE'}
        cb = {'decide': P.decide, 'paths': P, 'floor': floor_c, 'y': y_write}
        ex = Exec({'v': D(v), 'scale': D(sc)}, cb, {}, this)
        body = [c for c in m['inner'] if c['kind'] == 'CompoundStmt'][0]
        try: ex.stmt(body)
        except Ret: pass
        # obligations on this path
        sol = z3.Solver(); sol.add(*BASE); sol.add(*P.pc)
        line = 'periodic=%s writes=%d' % (periodic, len(writes))
        if writes:
            idx = writes[0][0]; ie = to_z3(idx.e if isinstance(idx, SInt) else sp.Integer(idx))
            sol.push(); sol.add(z3.Or(ie < 0, ie >= z3.Int('nbins'))); r = sol.check(); line += '  index in [0,nbins): %s' % ('PROVED' if r == z3.unsat else 'REFUTED ' + str(sol.model())); sol.pop()
            sol.push(); sol.add((ie - z3.Int('kf')) % z3.Int('nbins') != 0); r = sol.check(); line += '  index == k (mod nbins): %s' % ('PROVED' if r == z3.unsat else 'REFUTED'); sol.pop()
        else:
            sol.push(); sol.add(z3.And(z3.Int('kf') >= 0, z3.Int('kf') < z3.Int('nbins'))); r = sol.check(); line += '  discarded only if k outside range: %s' % ('PROVED' if r == z3.unsat else 'REFUTED'); sol.pop()
        print(line)
        if not P.next(): break
