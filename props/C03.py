"""C03 - neighbour search (partial): cell index wrap and neighbour-cell sets of the grid searches (DESIGN.md section 5, C03)"""
import os, re, itertools
from vlib import core, ccv
from vlib.core import Ob

CDIR = os.path.join(core.VERIF, 'contracts', 'C03')
META = {
    'level': 'proof', 'functions': [],
    'trusted_base': ['CBMC 6.11 C++ front end, SAT back end, IEEE-754 encoding', 'stub classes standing for nblistgrid.h / Eigen / NDimVector (member names as in the header)'],
    'assumptions': ['|r . norm| < 2^62 (beyond that the float-to-index conversion in getCell is undefined, like every (Index)floor(x))'],
    'not_decided': ['that cells one cutoff thick plus the 27-neighbourhood find every pair within the cutoff (geometric argument over triclinic cells)', 'exactly-once delivery through PairList::FindPair (std::map)',
                    'the simple O(N^2) lists, the three-body enumeration, exclusions (std::list / std::map)', 'cross/normalize geometry inside InitializeGrid (nondeterministic stubs)'],
}
TARGETS = {'NBListGrid': 'csg/src/libcsg/nblistgrid.cc', 'NBListGrid_3Body': 'csg/src/libcsg/nblistgrid_3body.cc'}


def body3():
    return ccv.extract('csg/include/votca/csg/nblistgrid_3body.h', r'inline\s+NBListGrid_3Body::cell_t\s*&\s*NBListGrid_3Body::getCell\s*\(\s*const\s+Index\s*&\s*a\s*,\s*const\s+Index\s*&\s*b\s*,\s*const\s+Index\s*&\s*c\s*\)')


def job_getcell(cls, mode):
    rel = TARGETS[cls]
    ex = ccv.extract(rel, r'%s::cell_t\s*&\s*%s::getCell\s*\(\s*const\s+Eigen::Vector3d\s*&\s*r\s*\)' % (cls, cls))
    info = dict(ex.info(), name=cls + '::getCell', route='CCV (CBMC C++ mode, verbatim body, stub class)', dropped='class declaration (stub), namespaces; r.dot(norm) by contract = arbitrary double')
    if cls == 'NBListGrid':
        tu = open(os.path.join(CDIR, 'getcell.cpp.in')).read().replace('@BODY@', ex.body)
    else:
        tu = open(os.path.join(CDIR, 'getcell3.cpp.in')).read().replace('@BODY@', ex.body).replace('@BODY3@', body3().body)
    if mode == 'range':
        obs = ccv.build_and_check('C03.%s.getCell.range' % cls, cls + '::getCell', {'gc.cpp': tu}, 'h_getcell', cxx_std='c++11', defines=['VERIF_MAXN=1000000', 'VERIF_MAXP=4.0e18'], timeout=900,
                                  expect_fail=['canary'], route_note='all doubles with |projection| < 4e18, all cell counts 1..1e6')
    else:
        obs = ccv.build_and_check('C03.%s.getCell.cong' % cls, cls + '::getCell', {'gc.cpp': tu}, 'h_getcell', cxx_std='c++11', defines=['VERIF_MAXN=8', 'VERIF_MAXP=64.0', 'VERIF_CONGRUENCE'], timeout=900,
                                  expect_fail=['canary'], bound='cell counts <= 8, |projection| < 64', route_note='index congruent to floor(projection) mod N')
    for o in obs:
        o['functions'] = [info]
    return obs


def job_initgrid(cls, ka, kb, kc):
    rel = TARGETS[cls]
    ex = ccv.extract(rel, r'void\s+%s::InitializeGrid\s*\(\s*const\s+Eigen::Matrix3d\s*&\s*box\s*\)' % cls)
    info = dict(ex.info(), name=cls + '::InitializeGrid', route='CCV (CBMC C++ mode, verbatim body, stub classes)', dropped='class declarations (stubs), namespaces; cross/normalize nondeterministic')
    if cls == 'NBListGrid':
        tu = open(os.path.join(CDIR, 'initgrid.cpp.in')).read().replace('@BODY@', ex.body)
    else:
        tu = open(os.path.join(CDIR, 'initgrid3.cpp.in')).read().replace('@BODY@', ex.body).replace('@BODY3@', body3().body)
    obs = ccv.build_and_check('C03.%s.InitializeGrid.%d%d%d' % (cls, ka, kb, kc), cls + '::InitializeGrid', {'ig.cpp': tu}, 'h_init', cxx_std='c++11',
                              defines=['KA=%d.0' % ka, 'KB=%d.0' % kb, 'KC=%d.0' % kc], unwind=65, timeout=1800, object_bits=12, expect_fail=['canary'], checks=['--bounds-check', '--pointer-check', '--div-by-zero-check', '--signed-overflow-check'],
                              bound='(%d,%d,%d) cells per direction, arbitrary cell' % (ka, kb, kc), route_note='neighbour-cell set of an arbitrary cell')
    for o in obs:
        o['functions'] = [info]
    return obs


def collect(obs):
    seen = set(f['name'] for f in META['functions'])
    for o in obs:
        for f in o.pop('functions', []) or []:
            if f['name'] not in seen:
                seen.add(f['name'])
                META['functions'].append(f)


def run(tier, seed, only=None):
    rng = (1, 2, 3) if tier == 'quick' else (1, 2, 3, 4)
    jobs = []
    for cls in TARGETS:
        jobs += [(job_getcell, (cls, 'range')), (job_getcell, (cls, 'cong'))]
    confs = list(itertools.product(rng, repeat=3))
    if tier == 'quick':
        # quick: the N = 1, 2 and generic N >= 3 regimes in every direction, without all 27 combinations
        confs = [(1, 1, 1), (2, 2, 2), (1, 2, 3), (3, 1, 2), (2, 3, 1), (3, 3, 1), (1, 3, 3), (3, 1, 3)]
        confs3 = [(1, 1, 1), (2, 2, 2), (1, 2, 3), (3, 3, 1)]
    else:
        # (3,3,3) takes ~10 min for the pair grid and does not finish for the three-body grid (27 self-including neighbours): left out there
        confs3 = [c for c in confs if c != (3, 3, 3) and max(c) <= 3] 
        confs = [c for c in confs if max(c) <= 3] + [(4, 1, 2), (2, 4, 1), (1, 2, 4)]
    jobs += [(job_initgrid, ('NBListGrid', a, b, c)) for a, b, c in confs]
    jobs += [(job_initgrid, ('NBListGrid_3Body', a, b, c)) for a, b, c in confs3]
    if only:
        jobs = [j for j in jobs if re.search(only, j[0].__name__ + str(j[1]))]
    obs = core.pmap(jobs)
    collect(obs)
    return obs, META
