"""C03 - neighbour search (partial): cell index wrap and neighbour-cell sets of the grid searches (DESIGN.md section 5, C03)"""
import os, re, itertools
from vlib import core, ccv
from vlib.core import Ob
import time

CDIR = os.path.join(core.VERIF, 'contracts', 'C03')
META = {
    'level': 'proof', 'functions': [],
    'trusted_base': ['RVC executor + exact normal form + z3 for the geometry obligations (real arithmetic; abs / max / double->Index truncation by contract)', 'CBMC 6.11 C++ front end, SAT back end, IEEE-754 encoding', 'stub classes standing for nblistgrid.h / Eigen / NDimVector (member names as in the header)'],
    'assumptions': ['|r . norm| < 2^62 (beyond that the float-to-index conversion in getCell is undefined, like every (Index)floor(x))'],
    'not_decided': ['three-body grid neighbour sets beyond the enumerated counts (the pair grid is decided for all counts)', 'the COMPOSITION of the geometry lemmas (count, reciprocal normals, projection < 1, floor, getCell congruence, neighbour sets) into "every pair within the cutoff is examined" is a paper argument over machine-checked pieces', 'exactly-once delivery through PairList::FindPair (std::map)',
                    'the simple O(N^2) lists, the three-body enumeration; ExclusionList::RemoveExclusion and the use of IsExcluded inside the searches (insert / query / ExcludeList are decided for 3 beads)', 'in the CBMC runs cross/normalize inside InitializeGrid are nondeterministic stubs (the geometry is decided separately on the AST, real arithmetic)'],
}
TARGETS = {'NBListGrid': 'csg/src/libcsg/nblistgrid.cc', 'NBListGrid_3Body': 'csg/src/libcsg/nblistgrid_3body.cc'}


def body3():
    return ccv.extract('csg/include/votca/csg/nblistgrid_3body.h', r'inline\s+NBListGrid_3Body::cell_t\s*&\s*NBListGrid_3Body::getCell\s*\(\s*const\s+Index\s*&\s*a\s*,\s*const\s+Index\s*&\s*b\s*,\s*const\s+Index\s*&\s*c\s*\)')


def job_getcell(cls, mode):
    rel = TARGETS[cls]
    ex = ccv.extract(rel, r'%s::cell_t\s*&\s*%s::getCell\s*\(\s*const\s+Eigen::Vector3d\s*&\s*r\s*\)' % (cls, cls))
    info = dict(ex.info(), name=cls + '::getCell', route='CCV (CBMC C++ mode, verbatim body, stub class)', dropped='class declaration (stub), namespaces; r.dot(norm) by contract = arbitrary double')
    if cls == 'NBListGrid':
        tu = open(os.path.join(CDIR, 'getcell.cpp.in')).read().replace('@BODY@', ex.body)
    else:
        tu = open(os.path.join(CDIR, 'getcell3.cpp.in')).read().replace('@BODY@', ex.body).replace('@BODY3@', body3().body)
    if mode == 'range':
        obs = ccv.build_and_check('C03.%s.getCell.range' % cls, cls + '::getCell', {'gc.cpp': tu}, 'h_getcell', cxx_std='c++11', defines=['VERIF_MAXN=1000000', 'VERIF_MAXP=4.0e18'], timeout=900,
                                  expect_fail=['canary'], route_note='all doubles with |projection| < 4e18, all cell counts 1..1e6')
    else:
        obs = ccv.build_and_check('C03.%s.getCell.cong' % cls, cls + '::getCell', {'gc.cpp': tu}, 'h_getcell', cxx_std='c++11', defines=['VERIF_MAXN=8', 'VERIF_MAXP=64.0', 'VERIF_CONGRUENCE'], timeout=900,
                                  expect_fail=['canary'], bound='cell counts <= 8, |projection| < 64', route_note='index congruent to floor(projection) mod N')
    for o in obs:
        o['functions'] = [info]
    return obs


def job_initgrid(cls, ka, kb, kc):
    rel = TARGETS[cls]
    ex = ccv.extract(rel, r'void\s+%s::InitializeGrid\s*\(\s*const\s+Eigen::Matrix3d\s*&\s*box\s*\)' % cls)
    info = dict(ex.info(), name=cls + '::InitializeGrid', route='CCV (CBMC C++ mode, verbatim body, stub classes)', dropped='class declarations (stubs), namespaces; cross/normalize nondeterministic')
    if cls == 'NBListGrid':
        tu = open(os.path.join(CDIR, 'initgrid.cpp.in')).read().replace('@BODY@', ex.body)
    else:
        tu = open(os.path.join(CDIR, 'initgrid3.cpp.in')).read().replace('@BODY@', ex.body).replace('@BODY3@', body3().body)
    obs = ccv.build_and_check('C03.%s.InitializeGrid.%d%d%d' % (cls, ka, kb, kc), cls + '::InitializeGrid', {'ig.cpp': tu}, 'h_init', cxx_std='c++11',
                              defines=['KA=%d.0' % ka, 'KB=%d.0' % kb, 'KC=%d.0' % kc], unwind=65, timeout=1800, object_bits=12, expect_fail=['canary'], checks=['--bounds-check', '--pointer-check', '--div-by-zero-check', '--signed-overflow-check'],
                              bound='(%d,%d,%d) cells per direction, arbitrary cell' % (ka, kb, kc), route_note='neighbour-cell set of an arbitrary cell')
    for o in obs:
        o['functions'] = [info]
    return obs


class StopExec(Exception):
    pass


def job_geometry(cls, seed):
    """geometric completeness of the cell search: the part of InitializeGrid that computes the cell counts and the scaled normals (executed from the AST, RVC route),
    and the lemma chain from there to 'a bead within the cutoff lies in the same or an adjacent cell (mod N) in every direction'"""
    import sympy as sp, z3
    from vlib import rvc
    from vlib.rvc import D, Mx, Exec, Ret, SInt
    rvc.reset()
    rel = TARGETS[cls]
    fns = rvc.functions(rvc.ast(rel, cls + '::InitializeGrid'))
    if 'InitializeGrid' not in fns:
        raise core.Undecided('front end: %s::InitializeGrid not found' % cls)
    fn = fns['InitializeGrid'][0]
    F = cls + '::InitializeGrid'
    box = Mx.sym('h', 3, 3)
    cut = sp.Symbol('cut', positive=True)
    absargs, ints, maxes = [], [], []
    def c_abs(x):
        k = len(absargs)
        a = sp.Symbol('A%d' % k, nonnegative=True)
        absargs.append((a, D.lift(x).v))
        return D(a)
    def c_max(a, b):
        k = len(maxes)
        m = sp.Symbol('M%d' % k, positive=True)
        maxes.append((m, D.lift(a).v, D.lift(b).v))
        return D(m)
    def to_int(v):
        k = len(ints)
        n = sp.Symbol('N%d' % k, integer=True, positive=True)
        ints.append((n, D.lift(v).v))
        return SInt(n)
    def construct(ex_, n, ty, args):
        if 'NDimVector' in ty:
            raise StopExec()
        return NotImplemented
    class Grid:
        def resize(s_, *a): raise StopExec()
    this = {'__class__': cls, 'grid_': Grid(), 'cutoff_': D(cut), 'box_a_': Mx(3, 1), 'box_b_': Mx(3, 1), 'box_c_': Mx(3, 1), 'norm_a_': Mx(3, 1), 'norm_b_': Mx(3, 1), 'norm_c_': Mx(3, 1),
            'box_Na_': SInt(sp.Symbol('u0', integer=True)), 'box_Nb_': SInt(sp.Symbol('u1', integer=True)), 'box_Nc_': SInt(sp.Symbol('u2', integer=True))}
    ex = Exec({'box': box}, {'abs': c_abs, 'max': c_max, 'to_int': to_int, 'construct': construct}, {}, this)
    try:
        ex.stmt(rvc.body_of(fn))
        raise core.Undecided('InitializeGrid: the grid allocation was not reached')
    except StopExec:
        pass
    except Ret:
        raise core.Undecided('InitializeGrid returned before the grid allocation')
    obs = []
    bound = None
    cols = [box.col(0), box.col(1), box.col(2)]
    names = 'abc'
    ok_shape = len(absargs) == 3 and len(maxes) == 3 and len(ints) == 3
    obs.append(Ob('C03.%s.geometry/shape' % cls, F, 'one |l/cutoff|, one max(.,1) and one truncation per direction', 'RVC', 'symbolic execution', core.PROVED if ok_shape else core.REFUTED, 0, '%d %d %d' % (len(absargs), len(maxes), len(ints)), witness=None if ok_shape else {}))
    if not ok_shape:
        return obs
    vol = cols[0].dot(cols[1].cross(cols[2]))
    for k in range(3):
        A, x = absargs[k]; M, m1, m2 = maxes[k]; N, nv = ints[k]
        sn = this['norm_%s_' % names[k]]
        Nk = this['box_N%s_' % names[k]]
        d = names[k]
        okN = isinstance(Nk, SInt) and Nk.e == N and m1 == A and m2 == 1 and nv == M
        obs.append(Ob('C03.%s.geometry/%s.count' % (cls, d), F, 'cell count N_%s = trunc(max(|l_%s / cutoff|, 1))' % (d, d), 'RVC', 'symbolic execution', core.PROVED if okN else core.REFUTED, 0, str((Nk, m1, m2, nv))[:200], witness=None if okN else {}))
        # l_k: height of the box along the plane normal = volume / base area
        base = cols[(k + 1) % 3].cross(cols[(k + 2) % 3])
        l2 = (vol * vol / base.squaredNorm()).v
        obs.append(rvc.identity('C03.%s.geometry/%s.height' % (cls, d), F, '(argument of abs)^2 * cutoff^2 == (box height along normal %s)^2 = volume^2 / |base area|^2' % d, x ** 2 * cut ** 2, l2, seed))
        for j in range(3):
            obs.append(rvc.identity('C03.%s.geometry/%s.reciprocal%d' % (cls, d, j), F, 'scaled normal %s . box vector %s == %s (fractional coordinate times the cell count: a lattice shift moves a bead by whole multiples of N cells in its own direction only)' % (d, names[j], 'N_' + d if j == k else '0'),
                                    sn.dot(cols[j]).v, N if j == k else 0, seed))
        obs.append(rvc.identity('C03.%s.geometry/%s.length' % (cls, d), F, '|scaled normal %s|^2 * height^2 == N_%s^2 (cell thickness = height / N)' % (d, d), sn.squaredNorm().v * l2, N ** 2, seed))
    # contract-level lemmas (z3): from the callee contracts to 'within the cutoff => adjacent cell'
    t0 = time.time()
    A, M, c, S2, D2, T, l2 = z3.Reals('A M c S2 D2 T l2')
    N = z3.Int('N')
    facts = [A >= 0, M == z3.If(A >= 1, A, 1), N <= M, M < N + 1, c > 0, l2 == A * A * c * c, S2 * l2 == z3.ToReal(N) * z3.ToReal(N), D2 >= 0, D2 < c * c, T >= 0, T <= D2 * S2]
    def prove(oid, clause, claim, extra=()):
        sol = z3.Solver(); sol.set('timeout', 60000); sol.add(*facts); sol.add(*extra); sol.add(z3.Not(claim))
        r = sol.check()
        st = core.PROVED if r == z3.unsat else (core.REFUTED if r == z3.sat else core.UNDECIDED)
        obs.append(Ob(oid, F, clause, 'RVC', 'z3 %s (nonlinear real/int)' % z3.get_version_string(), st, time.time() - t0, str(r), witness=None if st != core.REFUTED else {'model': str(sol.model())[:300]}))
    prove('C03.%s.geometry/lemma.count' % cls, 'N >= 1, and N >= 2 implies N * cutoff <= box height (every cell is at least one cutoff thick whenever there is more than one)', z3.And(N >= 1, z3.Implies(N >= 2, z3.ToReal(N) <= A)))
    prove('C03.%s.geometry/lemma.projection' % cls, 'for N >= 2: |d| < cutoff implies |d . scaled normal| < 1 (Cauchy-Schwarz (d.s)^2 <= |d|^2 |s|^2, |s| = N / height <= 1 / cutoff)', T < 1, extra=[N >= 2])
    # Lagrange identity behind the Cauchy-Schwarz premise
    dv, sv = Mx.sym('d', 3), Mx.sym('s', 3)
    obs.append(rvc.identity('C03.%s.geometry/lemma.cauchy' % cls, F, '|d|^2 |s|^2 - (d.s)^2 == |d x s|^2 >= 0', (dv.squaredNorm() * sv.squaredNorm() - dv.dot(sv) * dv.dot(sv)).v, dv.cross(sv).squaredNorm().v, seed))
    # floor lemma: p(v) = p(u) + delta - k N with |delta| < 1 => floor(p(v)) - floor(p(u)) + k N in {-1, 0, 1}
    p, dl = z3.Reals('p dl'); fu, fv, k, Nn = z3.Ints('fu fv k Nn')
    sol = z3.Solver(); sol.set('timeout', 60000)
    sol.add(Nn >= 1, fu <= p, p < fu + 1, dl > -1, dl < 1, fv <= p + dl - z3.ToReal(k * Nn), p + dl - z3.ToReal(k * Nn) < fv + 1)
    sol.add(z3.Not(z3.And(fv - fu + k * Nn >= -1, fv - fu + k * Nn <= 1)))
    r = sol.check()
    st = core.PROVED if r == z3.unsat else (core.REFUTED if r == z3.sat else core.UNDECIDED)
    obs.append(Ob('C03.%s.geometry/lemma.floor' % cls, F, 'p(v) = p(u) + delta - k N, |delta| < 1 (delta = min-image vector . scaled normal, k = lattice coefficient, C02) implies floor(p(v)) - floor(p(u)) is -1, 0 or 1 modulo N: the partner bead lies in the same or an adjacent cell, which getCell (index congruent to floor(p) mod N) and the neighbour sets (offsets {-1,0,1} mod N) cover',
                  'RVC', 'z3 %s (linear real/int)' % z3.get_version_string(), st, time.time() - t0, str(r), witness=None if st != core.REFUTED else {'model': str(sol.model())[:300]}))
    mf = [{'name': F, 'file': rel, 'ast_nodes': rvc.node_count(fn), 'route': 'RVC (AST of the real translation unit; executed up to the grid allocation)'}]
    for o in obs:
        o['functions'] = mf
    return obs


def job_neighbours_sym(cls, seed, first=None):
    """neighbour-cell sets for ALL cell counts: the part of InitializeGrid after the grid allocation is executed from the AST with symbolic cell counts
    (per direction: N = 1, N = 2, or any N >= 3) and the body of the triple loop over the cells is executed once for an arbitrary cell (per-iteration contract);
    the 27 offset iterations inside are concrete.  Complements the CBMC runs, which enumerate the counts."""
    import sympy as sp, z3, itertools as it
    from vlib import rvc
    from vlib.rvc import D, Mx, Exec, Ret, SInt
    rvc.reset()
    rel = TARGETS[cls]
    fns = rvc.functions(rvc.ast(rel, cls + '::InitializeGrid'))
    if 'InitializeGrid' not in fns:
        raise core.Undecided('front end: %s::InitializeGrid not found' % cls)
    fn = fns['InitializeGrid'][0]
    F = cls + '::InitializeGrid'
    stmts = rvc.body_of(fn)['inner']
    start = [i for i, st in enumerate(stmts) if st['kind'] == 'DeclStmt' and any(v.get('name') == 'a1' for v in st.get('inner', []))]
    loop = [i for i, st in enumerate(stmts) if st['kind'] == 'ForStmt']
    if len(start) != 1 or len(loop) != 1 or loop[0] < start[0]:
        raise core.Undecided('%s: the offset declarations / the loop over the cells were not found' % F)
    outer = stmts[loop[0]]
    names = []
    node = outer
    for _ in range(3):                       # a, b, c loops
        names.append(node['inner'][0]['inner'][0]['name'])
        body = node['inner'][4]
        inner = [c for c in body.get('inner', []) if c.get('kind') == 'ForStmt'] if body.get('kind') == 'CompoundStmt' else ([body] if body.get('kind') == 'ForStmt' else [])
        if _ < 2:
            if len(inner) != 1:
                raise core.Undecided('%s: three nested loops over the cells expected' % F)
            node = inner[0]
    cellbody = node['inner'][4]
    mfs = [{'name': F, 'file': rel, 'ast_nodes': rvc.node_count(fn), 'route': 'RVC (AST; symbolic cell counts, loop over the cells closed by a per-iteration contract)'}]
    obs = []
    # per direction: regime and position class of the cell
    CLASSES = {'1': ['only'], '2': ['low', 'high'], 'ge3': ['low', 'mid', 'high']}
    def coord(reg, cl, delta, d):
        """label of the cell coordinate (x + delta) mod N for a cell of class cl (x = a - N in [0,N))"""
        if reg == '1':
            return 'x'
        if reg == '2':
            return {('low', 0): '0', ('low', 1): '1', ('low', -1): '1', ('high', 0): '1', ('high', 1): '0', ('high', -1): '0'}[(cl, delta)]
        if cl == 'low':
            return {0: '0', 1: '1', -1: 'N-1'}[delta]
        if cl == 'high':
            return {0: 'N-1', 1: '0', -1: 'N-2'}[delta]
        return {0: 'x', 1: 'x+1', -1: 'x-1'}[delta]
    # the labels of one class are pairwise different integers for every N >= 3 (z3, linear)
    N, x = z3.Ints('N x')
    val = {'0': z3.IntVal(0), '1': z3.IntVal(1), 'N-1': N - 1, 'N-2': N - 2, 'x': x, 'x+1': x + 1, 'x-1': x - 1}
    okd = True
    for cl, base in (('low', [N >= 3]), ('high', [N >= 3]), ('mid', [N >= 3, x >= 1, x <= N - 2])):
        labs = [coord('ge3', cl, dl, 0) for dl in (-1, 0, 1)]
        for p, q in it.combinations(labs, 2):
            sol = z3.Solver(); sol.add(*base); sol.add(val[p] == val[q])
            okd = okd and sol.check() == z3.unsat
        for p in labs:
            sol = z3.Solver(); sol.add(*base); sol.add(z3.Or(val[p] < 0, val[p] >= N))
            okd = okd and sol.check() == z3.unsat
    o = Ob('C03.%s.neighbours/labels%s' % (cls, '' if first is None else '.a-' + first), F, 'for N >= 3 the coordinates x-1, x, x+1 (mod N) of an edge or interior cell are three different cells inside [0,N)', 'RVC', 'z3 (linear integer)', core.PROVED if okd else core.REFUTED, 0, '')
    o['functions'] = mfs; obs.append(o)
    nbad = 0
    for regs in it.product(('1', '2', 'ge3'), repeat=3):
        if first is not None and regs[0] != first:
            continue
        for cls3 in it.product(*[CLASSES[r] for r in regs]):
            Ns = [1 if r == '1' else (2 if r == '2' else sp.Symbol('N%s' % 'abc'[k], integer=True, positive=True)) for k, r in enumerate(regs)]
            rvc.CTX.base = [z3.Int('N%s' % 'abc'[k]) >= 3 for k, r in enumerate(regs) if r == 'ge3']
            P = rvc.Paths(); P.start()
            loopv = [sp.Symbol('cell_%s' % 'abc'[k], integer=True) for k in range(3)]
            neigh = []
            class Cell(dict):          # compared by identity (one object per cell key), like the address of a grid cell
                def __init__(s_, key): dict.__init__(s_); s_.key = key; s_['neighbours_'] = s_
                def push_back(s_, c): neigh.append(c.key)
            cells = {}
            def grid_call(ia, ib, ic):
                key = []
                for k, e in enumerate((ia, ib, ic)):
                    ee = sp.expand(SInt.ex(e) if isinstance(e, (int, SInt)) else e)
                    # the index expression is (loop variable + delta) % N  (or the loop variable itself % N)
                    if isinstance(ee, sp.Mod):
                        num, den = ee.args
                    else:
                        num, den = ee, None
                    dl = sp.expand(num - loopv[k])
                    if den is not None:        # sympy may have shifted the dividend by the modulus
                        for cand in (dl, sp.expand(dl - den), sp.expand(dl + den)):
                            if cand.is_Integer and int(cand) in (-1, 0, 1):
                                dl = cand
                                break
                    if not (dl.is_Integer and int(dl) in (-1, 0, 1)) or (den is not None and sp.expand(den - Ns[k]) != 0 and regs[k] != '1'):
                        if regs[k] == '1' and ee.is_Integer and int(ee) == 0:
                            key.append('x'); continue
                        raise rvc.Unsupported('grid index %s is not (cell index + offset) %% N' % ee)
                    key.append(coord(regs[k], cls3[k], int(dl), k))
                key = tuple(key)
                return cells.setdefault(key, Cell(key))
            class Grid:
                def op_call(s_, op, b): return NotImplemented
            def mod(a, b):
                return None
            this = {'__class__': cls, 'box_Na_': Ns[0] if isinstance(Ns[0], int) else SInt(Ns[0]), 'box_Nb_': Ns[1] if isinstance(Ns[1], int) else SInt(Ns[1]), 'box_Nc_': Ns[2] if isinstance(Ns[2], int) else SInt(Ns[2]), 'grid_': 'GRID'}
            def index_hook(obj, idx):
                return grid_call(*idx)
            class GridM:
                def index_ref(s_, idx): return grid_call(*idx)
            this['grid_'] = GridM()
            # the modulo of a symbolic non-negative dividend stays symbolic (sp.Mod); N = 1: x % 1 == 0
            rvc.CTX.base += [z3.Int('cell_%s' % 'abc'[k]) >= (1 if r == '1' else (2 if r == '2' else z3.Int('N%s' % 'abc'[k]))) for k, r in enumerate(regs)]
            cb = {'decide': P.decide, 'push_back': lambda o_, c: o_.push_back(c), 'getCell': lambda o_, a, b, c: grid_call(a, b, c)}
            ex = Exec({}, cb, fns, this)
            try:
                for st in stmts[start[0]:loop[0]]:
                    ex.stmt(st)
                for k in range(3):
                    ex.env[names[k]] = SInt(loopv[k])
                ex.stmt(cellbody)
            except rvc.Unsupported as e:
                raise
            me = tuple(coord(regs[k], cls3[k], 0, k) for k in range(3))
            exp = set()
            for dl in it.product((-1, 0, 1), repeat=3):
                key = tuple(coord(regs[k], cls3[k], dl[k], k) if regs[k] != '1' else 'x' for k in range(3))
                if regs[0] == '2' or regs[1] == '2' or regs[2] == '2' or True:
                    exp.add(key)
            exp.discard(me)
            good = len(neigh) == len(set(neigh)) and set(neigh) == exp and me not in neigh
            if not good:
                nbad += 1
                o = Ob('C03.%s.neighbours/%s.%s' % (cls, '-'.join(regs), '-'.join(cls3)), F, 'an arbitrary cell gets exactly the cells at periodic offset {-1,0,1}^3 other than itself as neighbours, each once', 'RVC', 'symbolic execution', core.REFUTED, 0,
                       'neighbours %s expected %s' % (sorted(neigh), sorted(exp)), witness={'regime': regs, 'cell_class': cls3, 'listed': str(sorted(neigh))[:400], 'expected': str(sorted(exp))[:400]})
                o['functions'] = mfs; obs.append(o)
    o = Ob('C03.%s.neighbours/all-counts%s' % (cls, '' if first is None else '.a-' + first), F, 'for every combination of cell counts (per direction N = 1, N = 2 or any N >= 3) and every cell (edge or interior), the cell gets exactly the cells at periodic offset {-1,0,1}^3 other than itself as neighbours, each once (216 regime x position cases over the three jobs, symbolic N)',
           'RVC', 'symbolic execution + z3', core.PROVED if nbad == 0 else core.REFUTED, 0, '%d failing cases' % nbad, witness=None if nbad == 0 else {'failing_cases': nbad})
    o['functions'] = mfs; obs.append(o)
    return obs


def collect(obs):
    seen = set(f['name'] for f in META['functions'])
    for o in obs:
        for f in o.pop('functions', []) or []:
            if f['name'] not in seen:
                seen.add(f['name'])
                META['functions'].append(f)


def replay_pairs(obs):
    """native replay behind every refuted obligation: the pair set of the real NBListGrid (libraries built from the working tree) against a brute-force
    minimum-image reference on orthorhombic and sheared boxes (seeded search in the precondition domain; the obligations are structural and carry no input)"""
    bad = [o for o in obs if o['status'] == core.REFUTED and not o.get('replay')]
    if not bad:
        return
    from vlib import native
    try:
        exe = native.build('C03.pairs', open(os.path.join(core.VERIF, 'contracts', 'C03', 'replay_pairs.cc')).read(), [], sanitize=False, opt='-O1', libs=native.libs())
        rc, out, err = native.execute(exe, [], timeout=600)
        rep = {'reproduced': rc == 1, 'cmd': exe, 'rc': rc, 'stdout': '\n'.join(l for l in out.splitlines() if ' missing 0, spurious 0, duplicates 0' not in l)[-1200:] or out[-400:],
               'against': 'real Topology / BoundaryCondition / BeadList / NBListGrid (libvotca_csg from the working tree)', 'input_from': 'seeded search in the precondition domain'}
    except core.Undecided as e:
        rep = {'reproduced': False, 'error': str(e)}
    for o in bad:
        o['replay'] = rep


from vlib import rvc


class BeadMap(list):
    """std::map<Bead *, exclusion_t *> by its contract: at most one entry per key (key = object identity), find / end / operator[] (default-inserting)"""
    def call(s, name, args):
        if name == 'find':
            for i, e in enumerate(s):
                if e['first'] is args[0]:
                    return rvc.ListIt(s, i)
            return rvc.ListIt(s, len(s))
        if name == 'end':
            return rvc.ListIt(s, len(s))
        raise rvc.Unsupported('std::map::' + name)
    def index_ref(s, idx):
        k = idx[0]
        hit = [e for e in s if e['first'] is k]
        if not hit:
            e = {'first': k, 'second': None}
            list.append(s, e)
            hit = [e]
        e = hit[0]
        return rvc.Ref(lambda: e['second'], lambda v: e.__setitem__('second', v))


def job_exclusions(seed):
    """ExclusionList: abstract view = a set of unordered bead pairs.  InsertExclusion(a, b) in either argument order adds {a, b} and nothing else; IsExcluded(x, y) is
    true exactly for the pairs of the view, in either argument order; ExcludeList(l) adds every pair of l whatever the order of l.  InsertExclusion, IsExcluded,
    GetExclusions and the instantiated ExcludeList are executed from the AST (std::map / std::list / std::find / std::swap by their contracts); bead ids are
    arbitrary distinct numbers, not positions."""
    from vlib import rvc, native
    from vlib.rvc import Exec
    rvc.reset()
    rel = 'csg/src/libcsg/exclusionlist.cc'
    fns = rvc.functions(rvc.ast(rel, 'ExclusionList::'))
    for need in ('InsertExclusion', 'IsExcluded', 'GetExclusions', 'ExcludeList'):
        if need not in fns:
            raise core.Undecided('front end: ExclusionList::%s not found' % need)
    ids = (5, 2, 9)
    def find(a, b, x=None):
        if isinstance(a, BeadMap):
            return a.call('find', [b])
        for i in range(a.i, b.i):
            if a.lst[i] is x:
                return rvc.ListIt(a.lst, i)
        return rvc.ListIt(a.lst, b.i)
    def swap(a, b):
        va, vb = rvc.rval(a), rvc.rval(b)
        a.set(vb); b.set(va)
    swap.by_ref = True
    def fresh_state():
        beads = [{'__class__': 'Bead', 'id': i, 'mol': 0} for i in ids]
        this = {'__class__': 'ExclusionList', 'exclusions_': [], 'excl_by_bead_': BeadMap()}
        return beads, this
    cb = {'getId': lambda b: b['id'], 'getMoleculeId': lambda b: b['mol'], 'find': find, 'swap': swap, 'exec_functions': (),
          'construct': lambda ex_, n, ty, args: ({'__class__': 'exclusion_t', 'atom_': None, 'exclude_': []} if 'exclusion_t' in ty else NotImplemented)}
    def call(this, name, *args):
        ex = Exec({}, cb, fns, this)
        m = [f for f in fns[name] if len(rvc.params_of(f)) == len(args) and rvc.body_of(f)]
        if name == 'InsertExclusion':
            m = [f for f in m if 'Bead *, votca::csg::Bead *' in f['type']['qualType'] or f['type']['qualType'].count('Bead *') == 2]
        if not m:
            raise rvc.Unsupported('no body of ExclusionList::%s with %d parameters' % (name, len(args)))
        return ex.call_fn(m[-1], list(args), this)
    def view_of(this, beads):
        return {(i, j): bool(call(this, 'IsExcluded', beads[i], beads[j])) for i in range(3) for j in range(3) if i != j}
    F = 'ExclusionList::InsertExclusion / IsExcluded'
    mfs = [{'name': 'ExclusionList::' + k, 'file': rel if k != 'ExcludeList' else 'csg/include/votca/csg/exclusionlist.h', 'ast_nodes': rvc.node_count(fns[k][0])} for k in ('InsertExclusion', 'IsExcluded', 'GetExclusions', 'ExcludeList')]
    obs = []
    pairs = [(i, j) for i in range(3) for j in range(3) if i != j]
    bad, runs = None, 0
    for seq in [(p_,) for p_ in pairs] + [(p_, q_) for p_ in pairs for q_ in pairs] + [((0, 0), p_) for p_ in pairs]:
        beads, this = fresh_state()
        view = set()
        for (i, j) in seq:
            call(this, 'InsertExclusion', beads[i], beads[j])
            if i != j:
                view.add(frozenset((i, j)))
            runs += 1
            got = view_of(this, beads)
            wrong = [(ids[a], ids[b], v) for (a, b), v in got.items() if v != (frozenset((a, b)) in view)]
            if wrong and bad is None:
                bad = {'bead_ids': ids, 'inserted (ids, in call order)': [(ids[a], ids[b]) for a, b in seq], 'IsExcluded wrong for (id1, id2, answer)': wrong[:4]}
    o = Ob('C03.exclusions/insert-query', F, 'after any sequence of InsertExclusion calls IsExcluded(x, y) holds exactly for the inserted unordered pairs, in either argument order (bead ids arbitrary distinct numbers)', 'RVC',
           'symbolic execution (concrete lists, %d states)' % runs, core.REFUTED if bad else core.BOUNDED, 0, '', witness=bad, bound='3 beads of one molecule, <= 2 insertions')
    o['functions'] = mfs
    obs.append(o)
    bad = None
    import itertools as _it
    for perm in _it.permutations(range(3)):
        for k in (2, 3):
            beads, this = fresh_state()
            l = [beads[i] for i in perm[:k]]
            call(this, 'ExcludeList', l)
            got = view_of(this, beads)
            want = set(frozenset(c) for c in _it.combinations(perm[:k], 2))
            wrong = [(ids[a], ids[b], v) for (a, b), v in got.items() if v != (frozenset((a, b)) in want)]
            if wrong and bad is None:
                bad = {'bead_ids': ids, 'list (ids, in order)': [ids[i] for i in perm[:k]], 'IsExcluded wrong for (id1, id2, answer)': wrong[:4]}
    o = Ob('C03.exclusions/exclude-list', 'ExclusionList::ExcludeList', 'ExcludeList(l) excludes every pair of beads of l, whatever the order of the beads in l (a bond written "2 1", an angle "4 3 2"), and nothing else', 'RVC',
           'symbolic execution (concrete lists)', core.REFUTED if bad else core.BOUNDED, 0, '', witness=bad, bound='lists of 2 and 3 beads, every order')
    o['functions'] = mfs
    obs.append(o)
    if any(x['status'] == core.REFUTED for x in obs):
        try:
            exe = native.build('C03.exclusions', open(os.path.join(core.VERIF, 'contracts', 'C03', 'replay_exclusions.cc')).read(), [], sanitize=False, opt='-O1', libs=native.libs())
            rc, out, err = native.execute(exe, [], timeout=60)
            for x in obs:
                if x['status'] == core.REFUTED:
                    x['replay'] = {'reproduced': rc == 1, 'cmd': exe, 'rc': rc, 'stdout': (out or '')[-600:], 'stderr': (err or '')[-300:], 'input_from': 'fixed input in the domain of the contract',
                                   'against': 'real ExclusionList / Topology (libvotca_csg from the working tree): bonds listed with descending bead ids, then IsExcluded and a pair search with exclusions'}
        except core.Undecided as e:
            for x in obs:
                if x['status'] == core.REFUTED:
                    x['replay'] = {'reproduced': False, 'error': str(e)}
    return obs


def run(tier, seed, only=None):
    rng = (1, 2, 3) if tier == 'quick' else (1, 2, 3, 4)
    jobs = []
    for cls in TARGETS:
        jobs += [(job_getcell, (cls, 'range')), (job_getcell, (cls, 'cong'))]
    confs = list(itertools.product(rng, repeat=3))
    if tier == 'quick':
        # quick: the N = 1, 2 and generic N >= 3 regimes in every direction, without all 27 combinations
        confs = [(1, 1, 1), (2, 2, 2), (1, 2, 3), (3, 1, 2), (2, 3, 1), (3, 3, 1), (1, 3, 3), (3, 1, 3)]
        confs3 = [(1, 1, 1), (2, 2, 2), (1, 2, 3), (3, 3, 1)]
    else:
        # (3,3,3) takes ~10 min for the pair grid and does not finish for the three-body grid (27 self-including neighbours): left out there
        confs3 = [c for c in confs if c != (3, 3, 3) and max(c) <= 3] 
        confs = [c for c in confs if max(c) <= 3] + [(4, 1, 2), (2, 4, 1), (1, 2, 4)]
    jobs += [(job_exclusions, (seed,))]
    jobs += [(job_initgrid, ('NBListGrid', a, b, c)) for a, b, c in confs]
    jobs += [(job_initgrid, ('NBListGrid_3Body', a, b, c)) for a, b, c in confs3]
    jobs += [(job_geometry, (cls, seed)) for cls in TARGETS]
    jobs += [(job_neighbours_sym, ('NBListGrid', seed, r)) for r in ('1', '2', 'ge3')]
    if only:
        jobs = [j for j in jobs if re.search(only, j[0].__name__ + str(j[1]))]
    obs = core.pmap(jobs)
    replay_pairs(obs)
    collect(obs)
    return obs, META
