"""C03 - neighbour search (partial): cell index wrap and neighbour-cell sets of the grid searches (DESIGN.md section 5, C03)"""
import os, re, itertools
from vlib import core, ccv
from vlib.core import Ob
import time

CDIR = os.path.join(core.VERIF, 'contracts', 'C03')
META = {
    'level': 'proof', 'functions': [],
    'trusted_base': ['RVC executor + exact normal form + z3 for the geometry obligations (real arithmetic; abs / max / double->Index truncation by contract)', 'CBMC 6.11 C++ front end, SAT back end, IEEE-754 encoding', 'stub classes standing for nblistgrid.h / Eigen / NDimVector (member names as in the header)'],
    'assumptions': ['|r . norm| < 2^62 (beyond that the float-to-index conversion in getCell is undefined, like every (Index)floor(x))'],
    'not_decided': ['the COMPOSITION of the geometry lemmas (count, reciprocal normals, projection < 1, floor, getCell congruence, neighbour sets) into "every pair within the cutoff is examined" is a paper argument over machine-checked pieces', 'exactly-once delivery through PairList::FindPair (std::map)',
                    'the simple O(N^2) lists, the three-body enumeration, exclusions (std::list / std::map)', 'in the CBMC runs cross/normalize inside InitializeGrid are nondeterministic stubs (the geometry is decided separately on the AST, real arithmetic)'],
}
TARGETS = {'NBListGrid': 'csg/src/libcsg/nblistgrid.cc', 'NBListGrid_3Body': 'csg/src/libcsg/nblistgrid_3body.cc'}


def body3():
    return ccv.extract('csg/include/votca/csg/nblistgrid_3body.h', r'inline\s+NBListGrid_3Body::cell_t\s*&\s*NBListGrid_3Body::getCell\s*\(\s*const\s+Index\s*&\s*a\s*,\s*const\s+Index\s*&\s*b\s*,\s*const\s+Index\s*&\s*c\s*\)')


def job_getcell(cls, mode):
    rel = TARGETS[cls]
    ex = ccv.extract(rel, r'%s::cell_t\s*&\s*%s::getCell\s*\(\s*const\s+Eigen::Vector3d\s*&\s*r\s*\)' % (cls, cls))
    info = dict(ex.info(), name=cls + '::getCell', route='CCV (CBMC C++ mode, verbatim body, stub class)', dropped='class declaration (stub), namespaces; r.dot(norm) by contract = arbitrary double')
    if cls == 'NBListGrid':
        tu = open(os.path.join(CDIR, 'getcell.cpp.in')).read().replace('@BODY@', ex.body)
    else:
        tu = open(os.path.join(CDIR, 'getcell3.cpp.in')).read().replace('@BODY@', ex.body).replace('@BODY3@', body3().body)
    if mode == 'range':
        obs = ccv.build_and_check('C03.%s.getCell.range' % cls, cls + '::getCell', {'gc.cpp': tu}, 'h_getcell', cxx_std='c++11', defines=['VERIF_MAXN=1000000', 'VERIF_MAXP=4.0e18'], timeout=900,
                                  expect_fail=['canary'], route_note='all doubles with |projection| < 4e18, all cell counts 1..1e6')
    else:
        obs = ccv.build_and_check('C03.%s.getCell.cong' % cls, cls + '::getCell', {'gc.cpp': tu}, 'h_getcell', cxx_std='c++11', defines=['VERIF_MAXN=8', 'VERIF_MAXP=64.0', 'VERIF_CONGRUENCE'], timeout=900,
                                  expect_fail=['canary'], bound='cell counts <= 8, |projection| < 64', route_note='index congruent to floor(projection) mod N')
    for o in obs:
        o['functions'] = [info]
    return obs


def job_initgrid(cls, ka, kb, kc):
    rel = TARGETS[cls]
    ex = ccv.extract(rel, r'void\s+%s::InitializeGrid\s*\(\s*const\s+Eigen::Matrix3d\s*&\s*box\s*\)' % cls)
    info = dict(ex.info(), name=cls + '::InitializeGrid', route='CCV (CBMC C++ mode, verbatim body, stub classes)', dropped='class declarations (stubs), namespaces; cross/normalize nondeterministic')
    if cls == 'NBListGrid':
        tu = open(os.path.join(CDIR, 'initgrid.cpp.in')).read().replace('@BODY@', ex.body)
    else:
        tu = open(os.path.join(CDIR, 'initgrid3.cpp.in')).read().replace('@BODY@', ex.body).replace('@BODY3@', body3().body)
    obs = ccv.build_and_check('C03.%s.InitializeGrid.%d%d%d' % (cls, ka, kb, kc), cls + '::InitializeGrid', {'ig.cpp': tu}, 'h_init', cxx_std='c++11',
                              defines=['KA=%d.0' % ka, 'KB=%d.0' % kb, 'KC=%d.0' % kc], unwind=65, timeout=1800, object_bits=12, expect_fail=['canary'], checks=['--bounds-check', '--pointer-check', '--div-by-zero-check', '--signed-overflow-check'],
                              bound='(%d,%d,%d) cells per direction, arbitrary cell' % (ka, kb, kc), route_note='neighbour-cell set of an arbitrary cell')
    for o in obs:
        o['functions'] = [info]
    return obs


class StopExec(Exception):
    pass


def job_geometry(cls, seed):
    """geometric completeness of the cell search: the part of InitializeGrid that computes the cell counts and the scaled normals (executed from the AST, RVC route),
    and the lemma chain from there to 'a bead within the cutoff lies in the same or an adjacent cell (mod N) in every direction'"""
    import sympy as sp, z3
    from vlib import rvc
    from vlib.rvc import D, Mx, Exec, Ret, SInt
    rvc.reset()
    rel = TARGETS[cls]
    fns = rvc.functions(rvc.ast(rel, cls + '::InitializeGrid'))
    if 'InitializeGrid' not in fns:
        raise core.Undecided('front end: %s::InitializeGrid not found' % cls)
    fn = fns['InitializeGrid'][0]
    F = cls + '::InitializeGrid'
    box = Mx.sym('h', 3, 3)
    cut = sp.Symbol('cut', positive=True)
    absargs, ints, maxes = [], [], []
    def c_abs(x):
        k = len(absargs)
        a = sp.Symbol('A%d' % k, nonnegative=True)
        absargs.append((a, D.lift(x).v))
        return D(a)
    def c_max(a, b):
        k = len(maxes)
        m = sp.Symbol('M%d' % k, positive=True)
        maxes.append((m, D.lift(a).v, D.lift(b).v))
        return D(m)
    def to_int(v):
        k = len(ints)
        n = sp.Symbol('N%d' % k, integer=True, positive=True)
        ints.append((n, D.lift(v).v))
        return SInt(n)
    def construct(ex_, n, ty, args):
        if 'NDimVector' in ty:
            raise StopExec()
        return NotImplemented
    class Grid:
        def resize(s_, *a): raise StopExec()
    this = {'__class__': cls, 'grid_': Grid(), 'cutoff_': D(cut), 'box_a_': Mx(3, 1), 'box_b_': Mx(3, 1), 'box_c_': Mx(3, 1), 'norm_a_': Mx(3, 1), 'norm_b_': Mx(3, 1), 'norm_c_': Mx(3, 1),
            'box_Na_': SInt(sp.Symbol('u0', integer=True)), 'box_Nb_': SInt(sp.Symbol('u1', integer=True)), 'box_Nc_': SInt(sp.Symbol('u2', integer=True))}
    ex = Exec({'box': box}, {'abs': c_abs, 'max': c_max, 'to_int': to_int, 'construct': construct}, {}, this)
    try:
        ex.stmt(rvc.body_of(fn))
        raise core.Undecided('InitializeGrid: the grid allocation was not reached')
    except StopExec:
        pass
    except Ret:
        raise core.Undecided('InitializeGrid returned before the grid allocation')
    obs = []
    bound = None
    cols = [box.col(0), box.col(1), box.col(2)]
    names = 'abc'
    ok_shape = len(absargs) == 3 and len(maxes) == 3 and len(ints) == 3
    obs.append(Ob('C03.%s.geometry/shape' % cls, F, 'one |l/cutoff|, one max(.,1) and one truncation per direction', 'RVC', 'symbolic execution', core.PROVED if ok_shape else core.REFUTED, 0, '%d %d %d' % (len(absargs), len(maxes), len(ints)), witness=None if ok_shape else {}))
    if not ok_shape:
        return obs
    vol = cols[0].dot(cols[1].cross(cols[2]))
    for k in range(3):
        A, x = absargs[k]; M, m1, m2 = maxes[k]; N, nv = ints[k]
        sn = this['norm_%s_' % names[k]]
        Nk = this['box_N%s_' % names[k]]
        d = names[k]
        okN = isinstance(Nk, SInt) and Nk.e == N and m1 == A and m2 == 1 and nv == M
        obs.append(Ob('C03.%s.geometry/%s.count' % (cls, d), F, 'cell count N_%s = trunc(max(|l_%s / cutoff|, 1))' % (d, d), 'RVC', 'symbolic execution', core.PROVED if okN else core.REFUTED, 0, str((Nk, m1, m2, nv))[:200], witness=None if okN else {}))
        # l_k: height of the box along the plane normal = volume / base area
        base = cols[(k + 1) % 3].cross(cols[(k + 2) % 3])
        l2 = (vol * vol / base.squaredNorm()).v
        obs.append(rvc.identity('C03.%s.geometry/%s.height' % (cls, d), F, '(argument of abs)^2 * cutoff^2 == (box height along normal %s)^2 = volume^2 / |base area|^2' % d, x ** 2 * cut ** 2, l2, seed))
        for j in range(3):
            obs.append(rvc.identity('C03.%s.geometry/%s.reciprocal%d' % (cls, d, j), F, 'scaled normal %s . box vector %s == %s (fractional coordinate times the cell count: a lattice shift moves a bead by whole multiples of N cells in its own direction only)' % (d, names[j], 'N_' + d if j == k else '0'),
                                    sn.dot(cols[j]).v, N if j == k else 0, seed))
        obs.append(rvc.identity('C03.%s.geometry/%s.length' % (cls, d), F, '|scaled normal %s|^2 * height^2 == N_%s^2 (cell thickness = height / N)' % (d, d), sn.squaredNorm().v * l2, N ** 2, seed))
    # contract-level lemmas (z3): from the callee contracts to 'within the cutoff => adjacent cell'
    t0 = time.time()
    A, M, c, S2, D2, T, l2 = z3.Reals('A M c S2 D2 T l2')
    N = z3.Int('N')
    facts = [A >= 0, M == z3.If(A >= 1, A, 1), N <= M, M < N + 1, c > 0, l2 == A * A * c * c, S2 * l2 == z3.ToReal(N) * z3.ToReal(N), D2 >= 0, D2 < c * c, T >= 0, T <= D2 * S2]
    def prove(oid, clause, claim, extra=()):
        sol = z3.Solver(); sol.set('timeout', 60000); sol.add(*facts); sol.add(*extra); sol.add(z3.Not(claim))
        r = sol.check()
        st = core.PROVED if r == z3.unsat else (core.REFUTED if r == z3.sat else core.UNDECIDED)
        obs.append(Ob(oid, F, clause, 'RVC', 'z3 %s (nonlinear real/int)' % z3.get_version_string(), st, time.time() - t0, str(r), witness=None if st != core.REFUTED else {'model': str(sol.model())[:300]}))
    prove('C03.%s.geometry/lemma.count' % cls, 'N >= 1, and N >= 2 implies N * cutoff <= box height (every cell is at least one cutoff thick whenever there is more than one)', z3.And(N >= 1, z3.Implies(N >= 2, z3.ToReal(N) <= A)))
    prove('C03.%s.geometry/lemma.projection' % cls, 'for N >= 2: |d| < cutoff implies |d . scaled normal| < 1 (Cauchy-Schwarz (d.s)^2 <= |d|^2 |s|^2, |s| = N / height <= 1 / cutoff)', T < 1, extra=[N >= 2])
    # Lagrange identity behind the Cauchy-Schwarz premise
    dv, sv = Mx.sym('d', 3), Mx.sym('s', 3)
    obs.append(rvc.identity('C03.%s.geometry/lemma.cauchy' % cls, F, '|d|^2 |s|^2 - (d.s)^2 == |d x s|^2 >= 0', (dv.squaredNorm() * sv.squaredNorm() - dv.dot(sv) * dv.dot(sv)).v, dv.cross(sv).squaredNorm().v, seed))
    # floor lemma: p(v) = p(u) + delta - k N with |delta| < 1 => floor(p(v)) - floor(p(u)) + k N in {-1, 0, 1}
    p, dl = z3.Reals('p dl'); fu, fv, k, Nn = z3.Ints('fu fv k Nn')
    sol = z3.Solver(); sol.set('timeout', 60000)
    sol.add(Nn >= 1, fu <= p, p < fu + 1, dl > -1, dl < 1, fv <= p + dl - z3.ToReal(k * Nn), p + dl - z3.ToReal(k * Nn) < fv + 1)
    sol.add(z3.Not(z3.And(fv - fu + k * Nn >= -1, fv - fu + k * Nn <= 1)))
    r = sol.check()
    st = core.PROVED if r == z3.unsat else (core.REFUTED if r == z3.sat else core.UNDECIDED)
    obs.append(Ob('C03.%s.geometry/lemma.floor' % cls, F, 'p(v) = p(u) + delta - k N, |delta| < 1 (delta = min-image vector . scaled normal, k = lattice coefficient, C02) implies floor(p(v)) - floor(p(u)) is -1, 0 or 1 modulo N: the partner bead lies in the same or an adjacent cell, which getCell (index congruent to floor(p) mod N) and the neighbour sets (offsets {-1,0,1} mod N) cover',
                  'RVC', 'z3 %s (linear real/int)' % z3.get_version_string(), st, time.time() - t0, str(r), witness=None if st != core.REFUTED else {'model': str(sol.model())[:300]}))
    mf = [{'name': F, 'file': rel, 'ast_nodes': rvc.node_count(fn), 'route': 'RVC (AST of the real translation unit; executed up to the grid allocation)'}]
    for o in obs:
        o['functions'] = mf
    return obs


def collect(obs):
    seen = set(f['name'] for f in META['functions'])
    for o in obs:
        for f in o.pop('functions', []) or []:
            if f['name'] not in seen:
                seen.add(f['name'])
                META['functions'].append(f)


def run(tier, seed, only=None):
    rng = (1, 2, 3) if tier == 'quick' else (1, 2, 3, 4)
    jobs = []
    for cls in TARGETS:
        jobs += [(job_getcell, (cls, 'range')), (job_getcell, (cls, 'cong'))]
    confs = list(itertools.product(rng, repeat=3))
    if tier == 'quick':
        # quick: the N = 1, 2 and generic N >= 3 regimes in every direction, without all 27 combinations
        confs = [(1, 1, 1), (2, 2, 2), (1, 2, 3), (3, 1, 2), (2, 3, 1), (3, 3, 1), (1, 3, 3), (3, 1, 3)]
        confs3 = [(1, 1, 1), (2, 2, 2), (1, 2, 3), (3, 3, 1)]
    else:
        # (3,3,3) takes ~10 min for the pair grid and does not finish for the three-body grid (27 self-including neighbours): left out there
        confs3 = [c for c in confs if c != (3, 3, 3) and max(c) <= 3] 
        confs = [c for c in confs if max(c) <= 3] + [(4, 1, 2), (2, 4, 1), (1, 2, 4)]
    jobs += [(job_initgrid, ('NBListGrid', a, b, c)) for a, b, c in confs]
    jobs += [(job_initgrid, ('NBListGrid_3Body', a, b, c)) for a, b, c in confs3]
    jobs += [(job_geometry, (cls, seed)) for cls in TARGETS]
    if only:
        jobs = [j for j in jobs if re.search(only, j[0].__name__ + str(j[1]))]
    obs = core.pmap(jobs)
    collect(obs)
    return obs, META
