"""C09 - Davidson eigensolver (partial): status protocol and the projected-space algebra of the symmetric mode (DESIGN.md section 5, C09)

Decided: what `solve` reports and stores relative to the convergence test; the residual the test looks at IS A q - lambda q of the returned pair;
the projected-space invariant (AV = A V, T = V^T A V) through first projection, incremental extension and restart.
NOT decided: convergence itself, "lowest eigenvalues", orthonormality to tolerance, the Hamiltonian (harmonic Ritz) mode, floating point."""
import os, re, time, itertools
import sympy as sp
import z3
from vlib import core, rvc
from vlib.core import Ob
from vlib.rvc import D, Mx, Exec, Ret, Thrown, SInt

CDIR = os.path.join(core.VERIF, 'contracts', 'C09')
REL = 'xtp/src/libxtp/davidsonsolver.cc'
META = {
    'level': 'other', 'functions': [],
    'trusted_base': ['clang 14 AST = the code g++ compiles; DavidsonSolver::solve<Eigen::MatrixXd> is requested by an instantiation driver (contracts/C09/instantiate_solve.cc: one #include and one explicit instantiation) because the '
                     'translation units that instantiate it in /repo need libint2 headers that are not installed', 'RVC executor; exact normal form (sympy) + numeric cross-check',
                     'ASSUMED contract of Eigen::SelfAdjointEigenSolver (T = U diag(e) U^T, info() == Success), dense products / blocks / conservativeResize as mathematical matrices', 'machine arithmetic treated as mathematical'],
    'assumptions': ['symmetric operator A (SYMM mode)', 'small symbolic shapes (operator 3x3, search space 2 -> 3)'],
    'not_decided': ['that the iteration converges, and that converged roots are the LOWEST eigenvalues', 'orthonormality of the search space to tolerance (Gram-Schmidt in floating point)', 'Hamiltonian mode (harmonic Ritz, generalized eigensolver, QR)',
                    'correction vectors (DPR / Olsen): only their use, not their quality', 'matrix-free operators', 'iteration counts beyond the enumerated ones'],
    'explanation': 'partial: control-flow protocol and exact matrix identities of the symmetric mode, bounded in shape, relative to an assumed eigen-decomposition contract',
}
SUCCESS, NOCONV = 'Success', 'NoConvergence'
LEVELS = {'error': 0, 'warning': 1, 'info': 2, 'debug': 3}
LOGCB = {'enum': lambda n: LEVELS.get(n, n), 'getReportLevel': lambda l: -1}      # XTP_LOG(level, log): logging switched off (level > report level), the statement is then empty


def fns_cc():
    fns = rvc.functions(rvc.ast(REL, 'DavidsonSolver'))
    for need in ('getRitz', 'checkConvergence', 'storeConvergedData', 'storeNotConvergedData', 'storeEigenPairs', 'restart', 'initProjectedSpace', 'getSizeUpdate'):
        if need not in fns:
            raise core.Undecided('front end: DavidsonSolver::%s not found' % need)
    return fns


def fns_hdr():
    fns = rvc.functions(rvc.ast(os.path.join(CDIR, 'instantiate_solve.cc'), 'DavidsonSolver'))
    for need in ('solve', 'updateProjection'):
        if need not in fns:
            raise core.Undecided('front end: DavidsonSolver::%s<Eigen::MatrixXd> instantiation not found' % need)
    return fns


def mf(fns, names, rel=REL):
    return [{'name': 'DavidsonSolver::' + k, 'file': rel, 'ast_nodes': rvc.node_count(fns[k][0])} for k in names]


def ob(obs, oid, fn, clause, ok, detail='', bound=None, wit=None):
    o = Ob(oid, 'DavidsonSolver::' + fn, clause, 'RVC', 'symbolic execution', (core.BOUNDED if bound else core.PROVED) if ok else core.REFUTED, 0, detail, witness=None if ok else (wit or {'detail': detail[:500]}), bound=bound)
    obs.append(o)
    return o


def job_protocol(itmax, seed):
    """solve(): for every outcome sequence of the convergence test over itmax iterations"""
    rvc.reset()
    fns = fns_hdr()
    fn = fns['solve'][0]
    obs = []
    bound = 'iter_max = %d, every outcome sequence of the convergence test; restart on/off' % itmax
    for seq in itertools.product((False, True), repeat=itmax):
        for big in (False, True):
            ev = []
            proj = {'__class__': 'ProjectedSpace', 'root_converged': 'RC', 'V': Mx.sym('V', 3, 2)}
            this = {'__class__': 'DavidsonSolver', 'max_search_space_': 100, 'iter_max_': itmax, 'i_iter_': SInt(sp.Symbol('u_it', integer=True)), 'restart_size_': SInt(sp.Symbol('u_rs', integer=True)), 'Adiag_': Mx(0, 1), 'log_': 'LOG'}
            it = [0]
            def check(o, rep, pr, ne):
                k = rvc._i(this['i_iter_'])
                ev.append(('check', k, rep, ne))
                return seq[k] if isinstance(k, int) and 0 <= k < itmax else (_ for _ in ()).throw(rvc.Unsupported('iteration counter %r outside the loop range' % (k,)))
            cb = dict(LOGCB)
            cb.update({'checkOptions': lambda o, n: ev.append(('options', n)), 'printOptions': lambda *a: None, 'printTiming': lambda *a: None, 'printIterationData': lambda *a: None,
                  'initProjectedSpace': lambda o, ne, sg: (ev.append(('init', ne, sg)), proj)[1], 'updateProjection': lambda o, A, pr: ev.append(('update', rvc._i(this['i_iter_']), pr is proj)),
                  'getRitzEigenPairs': lambda o, pr: (ev.append(('ritz', rvc._i(this['i_iter_']))), {'__class__': 'RitzEigenPair', 'it': rvc._i(this['i_iter_'])})[1],
                  'checkConvergence': check, 'storeConvergedData': lambda o, rep, ne: ev.append(('store-ok', rvc._i(this['i_iter_']), rep['it'], ne)),
                  'storeNotConvergedData': lambda o, rep, rc, ne: ev.append(('store-fail', rvc._i(this['i_iter_']), rep['it'], rc, ne)),
                  'extendProjection': lambda o, rep, pr: (ev.append(('extend', rvc._i(this['i_iter_']), rep['it'])), 1)[1], 'search_space': lambda pr: 1000 if big else 3,
                  'restart': lambda o, rep, pr, n: ev.append(('restart', rvc._i(this['i_iter_']), rep['it'], n)), 'ostream_write': lambda *a: None, 'now': lambda *a: None, 'TimeStamp': lambda *a: 'T',
                  'decl': lambda ex_, vd, ty, inner: (None if 'chrono' in ty else ({'__class__': 'RitzEigenPair', 'it': None} if ty.endswith('RitzEigenPair') else NotImplemented))})
            A = Mx.sym('A', 3, 3)
            ex = Exec({'A': A, 'neigen': 1, 'size_initial_guess': 0}, cb, fns, this)
            try:
                ex.stmt(rvc.body_of(fn))
            except Ret:
                pass
            t = 'it%d.%s.%s' % (itmax, ''.join('c' if x else 'n' for x in seq), 'restart' if big else 'norestart')
            first = next((k for k, x in enumerate(seq) if x), None)
            ok_store = [e for e in ev if e[0] in ('store-ok', 'store-fail')]
            if first is not None:
                exp = [('store-ok', first, first, 1)]
            else:
                exp = [('store-fail', itmax - 1, itmax - 1, 'RC', 1)]
            ob(obs, 'C09.protocol/%s/status' % t, 'solve', 'the result is stored exactly once: as converged at the first iteration whose convergence test succeeds (with that iteration\'s Ritz pairs), otherwise as NOT converged after the last iteration with the per-root flags of the last test; never both',
               ok_store == exp, str(ok_store), bound=bound)
            last = first if first is not None else itmax - 1
            seqev = [e[0] for e in ev if e[0] in ('update', 'ritz', 'check', 'extend', 'restart', 'store-ok', 'store-fail')]
            exp_seq = []
            for k in range(last + 1):
                exp_seq += ['update', 'ritz', 'check']
                if k == last:
                    exp_seq += ['store-ok' if first is not None else 'store-fail']
                else:
                    exp_seq += ['extend'] + (['restart'] if big else [])
            ob(obs, 'C09.protocol/%s/order' % t, 'solve', 'every iteration projects, extracts Ritz pairs and tests them; the space is extended (and restarted when larger than the limit) only when the run continues; nothing happens after the result is stored', seqev == exp_seq, str(seqev), bound=bound)
            chk = [e for e in ev if e[0] == 'check']
            ob(obs, 'C09.protocol/%s/tested-pairs' % t, 'solve', 'the convergence test of iteration k looks at the Ritz pairs of iteration k and at the requested number of roots', all(e[2]['it'] == e[1] and e[3] == 1 for e in chk) and len(chk) == last + 1, str([(e[1], e[2]['it']) for e in chk]), bound=bound)
    for o in obs:
        o['functions'] = mf(fns, ['solve'], 'xtp/include/votca/xtp/davidsonsolver.h')
    return obs


def symmat(name, n):
    return Mx(n, n, [[D(sp.Symbol('%s%d%d' % (name, min(i, j), max(i, j)), real=True)) for j in range(n)] for i in range(n)])


def mx_eq(a, b):
    return a.r == b.r and a.c == b.c and all(rvc.nf_zero(a.g(i, j).v - b.g(i, j).v) for i in range(a.r) for j in range(a.c))


class ESObj:
    def __init__(s, U, e, info): s.U, s.e, s.i = U, e, info
    def eigenvalues(s): return s.e
    def eigenvectors(s): return s.U
    def info(s): return s.i


def job_ritz(seed):
    """getRitz: Ritz pairs and the residual that the convergence test looks at"""
    rvc.reset()
    fns = fns_cc()
    obs = []
    n, k = 3, 3
    bound = 'operator %dx%d, search space %d' % (n, n, k)
    A = symmat('a', n)
    for rs, su in ((1, 2), (2, 1), (3, 5)):
        for info in (SUCCESS, NOCONV):
            V = Mx.sym('v', n, k)
            AV = A * V
            T = symmat('t', k)
            U, e = Mx.sym('u', k, k), Mx.sym('e', k)
            proj = {'__class__': 'ProjectedSpace', 'V': V, 'AV': AV, 'T': T, 'size_update': su}
            this = {'__class__': 'DavidsonSolver', 'restart_size_': rs, 'log_': 'LOG'}
            seen = []
            def decl(ex_, vd, ty, inner):
                if 'SelfAdjointEigenSolver' in ty:
                    arg = rvc.rval(ex_.expr(inner[0]['inner'][0]))
                    seen.append(arg.copy())
                    return ESObj(U.copy(), e.copy(), info)
                if ty.endswith('RitzEigenPair'):
                    return {'__class__': 'RitzEigenPair', 'lambda': Mx(0, 1), 'q': Mx(0, 0), 'U': Mx(0, 0), 'res': Mx(0, 0)}
                return NotImplemented
            cb = dict(LOGCB); cb.update({'decl': decl, 'ostream_write': lambda *a: None})
            ex = Exec({'proj': proj}, cb, fns, this)
            rep, thrown = None, False
            try:
                ex.stmt(rvc.body_of(fns['getRitz'][0]))
            except Ret as r:
                rep = r.v
            except Thrown:
                thrown = True
            t = 'rs%d.su%d.%s' % (rs, su, info)
            if info != SUCCESS:
                ob(obs, 'C09.ritz/%s/failure-reported' % t, 'getRitz', 'a failed small eigenvalue problem is reported (exception), never used', thrown and rep is None, 'thrown=%s' % thrown, bound=bound)
                continue
            need = min(k, max(rs, su))
            ok = (not thrown) and rep is not None and len(seen) == 1 and mx_eq(seen[0], T)
            ob(obs, 'C09.ritz/%s/projected' % t, 'getRitz', 'the small eigenproblem solved is that of the projected matrix T', ok, '', bound=bound)
            if not ok:
                continue
            lam, Ur, q, res = rep['lambda'], rep['U'], rep['q'], rep['res']
            ok = lam.r == need and Ur.c == need and all(rvc.nf_zero(lam.g(j, 0).v - e.g(j, 0).v) for j in range(need)) and mx_eq(Ur, U.leftCols(need))
            ob(obs, 'C09.ritz/%s/lowest-pairs' % t, 'getRitz', 'the first min(search space, max(restart size, update size)) eigenpairs of T in the solver\'s (ascending) order are kept', ok, 'kept %d' % lam.r, bound=bound)
            ok = ok and mx_eq(q, V * U.leftCols(need))
            ob(obs, 'C09.ritz/%s/vectors' % t, 'getRitz', 'Ritz vectors q = V U', ok, '', bound=bound)
            if ok:
                good = True
                for j in range(need):
                    rj = A * q.col(j) - q.col(j) * lam.g(j, 0)
                    good = good and all(rvc.nf_zero(res.g(i, j).v - rj.g(i, 0).v) for i in range(n))
                ob(obs, 'C09.ritz/%s/residual' % t, 'getRitz', 'with AV = A V: column j of res is A q_j - lambda_j q_j, the residual of the pair that is tested and returned', good, '', bound=bound)
    for o in obs:
        o['functions'] = mf(fns, ['getRitz'])
    return obs


def job_converge(seed):
    """checkConvergence / res_norm / store*: what 'converged' means and what is stored"""
    rvc.reset()
    fns = fns_cc()
    obs = []
    n = 3
    # res_norm
    res = Mx.sym('r', n, 2)
    rep = {'__class__': 'RitzEigenPair', 'res': res}
    ex = Exec({}, dict(LOGCB), fns, rep)
    try:
        ex.stmt(rvc.body_of(fns['res_norm'][0])); rn = None
    except Ret as r:
        rn = r.v
    ok = isinstance(rn, Mx) and rn.size() == 2
    if ok:
        for j in range(2):
            o = rvc.identity('C09.converge/res_norm.col%d' % j, 'DavidsonSolver::RitzEigenPair::res_norm', 'entry j is the Euclidean norm of residual column j (squared: sum of squares)', rn.flat()[j].v ** 2, sum((res.g(i, j).v ** 2 for i in range(n)), sp.Integer(0)), seed, bound='3x2 residual block')
            o['functions'] = mf(fns, ['res_norm']); obs.append(o)
    else:
        ob(obs, 'C09.converge/res_norm', 'res_norm', 'one norm per residual column', False, str(rn))
    # checkConvergence: size_update 3, neigen 2
    tol = sp.Symbol('tol', positive=True)
    rns = [sp.Symbol('rn%d' % j, nonnegative=True) for j in range(4)]
    for prior in itertools.product((False, True), repeat=3):          # the flags of the previous iteration are arbitrary: a flag must not outlive its iteration
        pt = ''.join('c' if f else 'n' for f in prior)
        P = rvc.Paths()
        while True:
            P.start()
            rvc.CTX.base = [z3.Real('tol') > 0] + [z3.Real('rn%d' % j) >= 0 for j in range(4)]
            proj = {'__class__': 'ProjectedSpace', 'size_update': 3, 'root_converged': rvc.BoolArr(list(prior))}
            rep = {'__class__': 'RitzEigenPair'}
            this = {'__class__': 'DavidsonSolver', 'tol_': D(tol)}
            cb = dict(LOGCB); cb.update({'decide': P.decide, 'res_norm': lambda r_: Mx(1, 4, [[D(x) for x in rns]])})
            ex = Exec({'rep': rep, 'proj': proj, 'neigen': 2}, cb, fns, this)
            try:
                ex.stmt(rvc.body_of(fns['checkConvergence'][0])); ret = None
            except Ret as r:
                ret = r.v
            val = ex.truth(ret)
            rc = proj['root_converged']
            t = 'prior-%s.p%d' % (pt, P.count)
            flags_ok = isinstance(rc, rvc.BoolArr) and len(rc) == 3 and all(str(rc[j]) == str(sp.Lt(rns[j], tol)) for j in range(3))
            ob(obs, 'C09.converge/%s/flags' % t, 'checkConvergence', 'root j (j < update size) is flagged converged exactly when its residual norm of THIS iteration is below the tolerance, whatever the flags of the previous iteration were (positions in the sorted Ritz spectrum can change between iterations)',
               flags_ok, str(rc), bound='update size 3, 2 requested roots', wit={'previous_flags': pt, 'flags': str(rc)})
            claim = z3.And(z3.Real('rn0') < z3.Real('tol'), z3.Real('rn1') < z3.Real('tol'))
            o = rvc.logic('C09.converge/%s/all-requested' % t, 'DavidsonSolver::checkConvergence', 'returns true exactly when every REQUESTED root (the first neigen) has residual norm below the tolerance', claim if val else z3.Not(claim), pc=P.pc, bound='update size 3, 2 requested roots')
            obs.append(o)
            if not P.next():
                break
    for o in obs:
        o.setdefault('functions', mf(fns, ['checkConvergence', 'res_norm']))
    # store*
    lam = Mx.sym('l', 3)
    q = Mx.sym('q', n, 3)
    rep = {'__class__': 'RitzEigenPair', 'lambda': lam, 'q': q}
    def stored_ok(this, keep):
        ev_, vec = this['eigenvalues_'], this['eigenvectors_']
        if not (isinstance(ev_, Mx) and isinstance(vec, Mx) and ev_.r == 2 and vec.r == n and vec.c == 2):
            return False
        good = True
        for j in range(2):
            if keep[j]:
                nrm2 = sum((q.g(i, j).v ** 2 for i in range(n)), sp.Integer(0))
                good = good and rvc.nf_zero(ev_.g(j, 0).v - lam.g(j, 0).v)
                good = good and all(rvc.nf_zero(vec.g(i, j).v ** 2 * nrm2 - q.g(i, j).v ** 2) and rvc.nf_zero(sp.sign(1) * 0) for i in range(n))      # vec = q / |q| (squared form)
                good = good and rvc.nf_zero(sum((vec.g(i, j).v ** 2 for i in range(n)), sp.Integer(0)) - 1)
            else:
                good = good and rvc.nf_zero(ev_.g(j, 0).v) and all(rvc.nf_zero(vec.g(i, j).v) for i in range(n))
        return good
    this = {'__class__': 'DavidsonSolver', 'eigenvalues_': Mx(0, 1), 'eigenvectors_': Mx(0, 0), 'info_': NOCONV, 'i_iter_': 1, 'log_': 'LOG'}
    cb = dict(LOGCB); cb.update({'ostream_write': lambda *a: None, 'TimeStamp': lambda *a: 'T', 'exec_functions': ('storeEigenPairs',)})
    ex = Exec({'rep': rep, 'neigen': 2}, cb, fns, this)
    try:
        ex.stmt(rvc.body_of(fns['storeConvergedData'][0]))
    except Ret:
        pass
    o = ob(obs, 'C09.converge/store.success', 'storeConvergedData', 'status Success; the first neigen Ritz values and the normalised Ritz vectors are stored', this['info_'] == SUCCESS and stored_ok(this, [True, True]), 'info=%s' % this['info_'], bound='2 of 3 pairs')
    o['functions'] = mf(fns, ['storeConvergedData', 'storeEigenPairs'])
    for flags in itertools.product((False, True), repeat=2):
        this = {'__class__': 'DavidsonSolver', 'eigenvalues_': Mx(0, 1), 'eigenvectors_': Mx(0, 0), 'info_': SUCCESS, 'i_iter_': 1, 'log_': 'LOG'}
        cb = dict(LOGCB); cb.update({'ostream_write': lambda *a: None, 'TimeStamp': lambda *a: 'T', 'exec_functions': ('storeEigenPairs',), 'format': lambda *a: 'FMT'})
        ex = Exec({'rep': rep, 'neigen': 2, 'root_converged': rvc.BoolArr(list(flags) + [True])}, cb, fns, this)
        try:
            ex.stmt(rvc.body_of(fns['storeNotConvergedData'][0]))
        except Ret:
            pass
        o = ob(obs, 'C09.converge/store.fail.%s' % ''.join('c' if f else 'n' for f in flags), 'storeNotConvergedData', 'status NoConvergence; every requested root that is not flagged converged is returned as zero value and zero vector (never an unconverged pair), converged ones as normalised Ritz pairs',
               this['info_'] == NOCONV and stored_ok(this, list(flags)), 'info=%s' % this['info_'], bound='2 requested roots')
        o['functions'] = mf(fns, ['storeNotConvergedData', 'storeEigenPairs'])
    return obs


def job_projection(seed):
    """updateProjection (first and incremental) and restart keep AV = A V and T = V^T A V (symmetric operator)"""
    rvc.reset()
    fh, fc = fns_hdr(), fns_cc()
    obs = []
    n = 3
    A = symmat('a', n)
    bound = 'operator 3x3 (symmetric, symbolic), search space 2 -> 3'
    def inv_ok(proj, cols):
        V = proj['V'].leftCols(cols)
        return mx_eq(proj['AV'], A * V) and mx_eq(proj['T'], V.transpose() * (A * V))
    # first projection
    V = Mx.sym('v', n, 2)
    proj = {'__class__': 'ProjectedSpace', 'V': V.copy(), 'AV': Mx(0, 0), 'T': Mx(0, 0), 'AAV': Mx(0, 0), 'B': Mx(0, 0)}
    this = {'__class__': 'DavidsonSolver', 'i_iter_': 0, 'matrix_type_': 'SYMM'}
    cb = dict(LOGCB)
    ex = Exec({'A': A, 'proj': proj}, cb, fh, this)
    try:
        ex.stmt(rvc.body_of(fh['updateProjection'][0]))
    except Ret:
        pass
    o = ob(obs, 'C09.projection/first', 'updateProjection', 'iteration 0: AV = A V and T = V^T A V', inv_ok(proj, 2) and mx_eq(proj['V'], V), '', bound=bound)
    # incremental
    V3 = Mx.sym('v', n, 3)
    V2 = V3.leftCols(2)
    proj = {'__class__': 'ProjectedSpace', 'V': V3.copy(), 'AV': (A * V2).copy(), 'T': (V2.transpose() * (A * V2)).copy(), 'AAV': Mx(0, 0), 'B': Mx(0, 0)}
    this = {'__class__': 'DavidsonSolver', 'i_iter_': 2, 'matrix_type_': 'SYMM'}
    ex = Exec({'A': A, 'proj': proj}, dict(LOGCB), fh, this)
    try:
        ex.stmt(rvc.body_of(fh['updateProjection'][0]))
    except Ret:
        pass
    ob(obs, 'C09.projection/incremental', 'updateProjection', 'later iterations: given AV = A V and T = V^T A V on the old columns, appending columns gives AV = A V and T = V^T A V on all columns (only the new columns are multiplied)', inv_ok(proj, 3) and mx_eq(proj['V'], V3), '', bound=bound)
    for o in obs:
        o['functions'] = mf(fh, ['updateProjection'], 'xtp/include/votca/xtp/davidsonsolver.h')
    # restart: V has 3 old columns + 1 new, keep restart_size 2
    Vold = Mx.sym('v', n, 3)
    w = Mx.sym('w', n, 1)
    Vall = Mx(n, 4, [[Vold.g(i, j) if j < 3 else w.g(i, 0) for j in range(4)] for i in range(n)])
    U = Mx.sym('u', 3, 2)
    rep = {'__class__': 'RitzEigenPair', 'U': U, 'q': Vold * U}
    proj = {'__class__': 'ProjectedSpace', 'V': Vall.copy(), 'AV': (A * Vold).copy(), 'T': (Vold.transpose() * (A * Vold)).copy(), 'AAV': Mx(0, 0), 'B': Mx(0, 0), 'size_update': 3, 'root_converged': rvc.BoolArr([True, True, False])}
    this = {'__class__': 'DavidsonSolver', 'restart_size_': 2, 'matrix_type_': 'SYMM'}
    def construct(ex_, n_, ty, args):
        if re.search(r'Matrix<double, -1, -1|MatrixXd', ty + n_['type'].get('desugaredQualType', '')) and len(args) == 2:
            a = [rvc._i(rvc.rval(ex_.expr(x))) for x in args]
            if all(isinstance(x, int) for x in a):
                return Mx(a[0], a[1], [[D(rvc.fresh('uninit')) for _ in range(a[1])] for _ in range(a[0])])
        return NotImplemented
    cb = dict(LOGCB); cb.update({'construct': construct})
    ex = Exec({'rep': rep, 'proj': proj, 'newvectors': 1}, cb, fc, this)
    try:
        ex.stmt(rvc.body_of(fc['restart'][0]))
    except Ret:
        pass
    q2 = (Vold * U)
    expV = Mx(n, 3, [[q2.g(i, j) if j < 2 else w.g(i, 0) for j in range(3)] for i in range(n)])
    o = ob(obs, 'C09.projection/restart.space', 'restart', 'after a restart the search space is the restart_size lowest Ritz vectors followed by the new correction vectors', mx_eq(proj['V'], expV), '', bound=bound)
    o['functions'] = mf(fc, ['restart'])
    o = ob(obs, 'C09.projection/restart.invariant', 'restart', 'AV = A V and T = V^T A V hold on the kept Ritz vectors (so the next incremental projection is consistent)', inv_ok(proj, 2), '', bound=bound)
    o['functions'] = mf(fc, ['restart'])
    return obs


def job_extend(seed):
    """extendProjection: one normalised correction vector per NOT converged root, appended after the existing basis, then orthogonalised"""
    rvc.reset()
    fns = fns_cc()
    obs = []
    n = 3
    for flags in itertools.product((False, True), repeat=3):
        V = Mx.sym('v', n, 2)
        proj = {'__class__': 'ProjectedSpace', 'V': V.copy(), 'root_converged': rvc.BoolArr(flags), 'size_update': 3}
        rep = {'__class__': 'RitzEigenPair', 'q': Mx.sym('q', n, 3), 'lambda': Mx.sym('l', 3), 'res': Mx.sym('r', n, 3)}
        ev = []
        ws = {}
        def corr(o, qj, lj, rj):
            j = [k for k in range(3) if rvc.nf_zero(D.lift(lj).v - rep['lambda'].g(k, 0).v)]
            ok = len(j) == 1 and mx_eq(qj, rep['q'].col(j[0])) and mx_eq(rj, rep['res'].col(j[0]))
            ev.append(('corr', j[0] if j else None, ok))
            ws[j[0]] = Mx.sym('w%d' % j[0], n)
            return ws[j[0]].copy()
        this = {'__class__': 'DavidsonSolver'}
        cb = dict(LOGCB); cb.update({'computeCorrectionVector': corr, 'orthogonalize': lambda o, M, k: ev.append(('orth', M is proj['V'], rvc._i(k), M.c))})
        ex = Exec({'rep': rep, 'proj': proj}, cb, fns, this)
        ret = None
        t = ''.join('c' if f else 'n' for f in flags)
        try:
            ex.stmt(rvc.body_of(fns['extendProjection'][0]))
        except Ret as r:
            ret = r.v
        except rvc.Unsupported as e:
            if 'outside' not in str(e):
                raise
            o = ob(obs, 'C09.extend/%s' % t, 'extendProjection', 'every column written lies inside the resized basis', False, 'matrix access outside its bounds: %s' % e, bound='3 candidate roots, basis of 2 vectors')
            o['functions'] = mf(fns, ['extendProjection'])
            continue
        todo = [j for j in range(3) if not flags[j]]
        Vn = proj['V']
        good = rvc._i(ret) == len(todo) and Vn.c == 2 + len(todo) and mx_eq(Vn.leftCols(2), V) and [e[1] for e in ev if e[0] == 'corr'] == todo and all(e[2] for e in ev if e[0] == 'corr')
        for k, j in enumerate(todo if good else []):
            w = ws[j]
            nrm2 = sum((w.g(i, 0).v ** 2 for i in range(n)), sp.Integer(0))
            good = good and all(rvc.nf_zero(Vn.g(i, 2 + k).v ** 2 * nrm2 - w.g(i, 0).v ** 2) for i in range(n)) and rvc.nf_zero(sum((Vn.g(i, 2 + k).v ** 2 for i in range(n)), sp.Integer(0)) - 1)
        orth = [e for e in ev if e[0] == 'orth']
        good = good and orth == [('orth', True, len(todo), 2 + len(todo))] and ev[-1][0] == 'orth'
        o = ob(obs, 'C09.extend/%s' % t, 'extendProjection', 'the existing basis is kept; for every root NOT flagged converged (and only those, in order) the normalised correction vector built from that root\'s Ritz vector, value and residual is appended; the new columns are then orthogonalised against the basis; the number of new vectors is returned',
               good, str(ev), bound='3 candidate roots, basis of 2 vectors')
        o['functions'] = mf(fns, ['extendProjection'])
    return obs


def job_gramschmidt(seed):
    """gramschmidt: appended unit vectors become orthonormal to an orthonormal basis (twice-repeated Gram-Schmidt), the basis itself is untouched"""
    rvc.reset()
    fns = fns_cc()
    obs = []
    n = 3
    Q = Mx.sym('g', n, 2)
    for i in range(n):
        Q.p(i, 0, D(1 if i == 0 else 0))
    a, b = sp.Symbol('ga', real=True), sp.Symbol('gb', real=True)
    nr = rvc.d_sqrt(D(1 + a * a + b * b)).v
    for i, v in enumerate((1, a, b)):
        Q.p(i, 1, D(v / nr))          # an arbitrary unit vector not orthogonal to e1 (every such vector is (1,a,b)/|.| up to sign)
    this = {'__class__': 'DavidsonSolver'}
    thrown = False
    ex = Exec({'Q': Q, 'nstart': 1}, dict(LOGCB, decide=lambda c: False), fns, this)      # the dependency test is taken on its 'independent' side (precondition: a, b not both 0)
    try:
        ex.stmt(rvc.body_of(fns['gramschmidt'][0]))
    except Ret:
        pass
    except Thrown:
        thrown = True
    G = Q.transpose() * Q
    good = (not thrown) and all(rvc.nf_zero(G.g(i, j).v - (1 if i == j else 0)) for i in range(2) for j in range(2)) and all(rvc.nf_zero(Q.g(i, 0).v - (1 if i == 0 else 0)) for i in range(n))
    o = ob(obs, 'C09.gramschmidt/basis1.new1', 'gramschmidt', 'a unit vector appended to an orthonormal basis becomes orthogonal to it and stays normalised; the basis is not modified', good, '', bound='3-dimensional space, basis of 1 vector, 1 new vector')
    o['functions'] = mf(fns, ['gramschmidt'])
    return obs


def collect(obs):
    seen = set(f['name'] for f in META['functions'])
    for o in obs:
        for f in o.pop('functions', []) or []:
            if f['name'] not in seen:
                seen.add(f['name'])
                META['functions'].append(f)


def run(tier, seed, only=None):
    jobs = [(job_protocol, (k, seed)) for k in ((1, 2, 3) if tier == 'quick' else (1, 2, 3, 4))] + [(job_ritz, (seed,)), (job_converge, (seed,)), (job_projection, (seed,)), (job_extend, (seed,)), (job_gramschmidt, (seed,))]
    if only:
        jobs = [j for j in jobs if re.search(only, j[0].__name__)] or jobs
    obs = core.pmap(jobs)
    if only:
        obs = [o for o in obs if re.search(only, o['id']) or o['status'] == core.UNDECIDED]
    collect(obs)
    return obs, META
