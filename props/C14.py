"""C14 - KMC event selection is rate-proportional; Marcus rates obey detailed balance (DESIGN.md section 5, C14)"""
import os, re, time
import sympy as sp
import z3
from vlib import core, rvc, native
from vlib.core import Ob
from vlib.rvc import D, Mx, Exec, Ret, Thrown, SInt

META = {
    'level': 'proof', 'functions': [],
    'trusted_base': ['clang 14 AST = the code g++ compiles (instantiation huffmanTree<GLink>)', 'RVC executor with feasibility-checked path forking (z3)',
                     'std::priority_queue / std::vector as Python models (assumed contracts); ties between equal keys take one admissible heap order',
                     'exp by its contract E(a)/E(b) = E(a-b), E > 0; sqrt > 0; machine arithmetic treated as mathematical'],
    'assumptions': ['positive rates', 'Marcus: equal forward/backward reorganisation energy, T > 0, J^2 > 0',
                    'sign convention of the field term: dG = dE12 + q F.R as the code and the anchor define it (the property text writes the field term with the opposite orientation of R)'],
    'not_decided': ['uniformity of the random generator (the distribution claims rest on it)', 'event lists longer than the bound', 'equal rates (ties) beyond one admissible heap order'],
}


class PQ:
    """std::priority_queue model: top() is a maximal element under the comparator (a lambda from the AST); symbolic comparisons fork"""
    def __init__(s, comp, ex):
        s.comp, s.items, s.ex = comp, [], ex
    def less(s, a, b):
        return s.ex.truth(s.comp(a, b))
    def _top(s):
        best = 0
        for i in range(1, len(s.items)):
            if s.less(s.items[best], s.items[i]):
                best = i
        return best
    def call(s, name, args):
        if name == 'push':
            s.items.append(args[0]); return None
        if name == 'top':
            return s.items[s._top()]
        if name == 'pop':
            s.items.pop(s._top()); return None
        if name == 'size':
            return len(s.items)
        if name == 'empty':
            return len(s.items) == 0
        raise rvc.Unsupported('priority_queue::' + name)


def newnode():
    return dict(leftChild=None, rightChild=None, leftLeaf=None, rightLeaf=None, probability=D(rvc.fresh('uninit')), isOnLastLevel=False)


def tree_fns():
    docs = rvc.ast('xtp/src/libxtp/gnode.cc', 'huffmanTree')
    fns = rvc.functions(docs)
    for need in ('makeTree', 'findHoppingDestination', 'addProbabilityFromRightSubtreeToLeftSubtree', 'moveProbabilitiesFromRightSubtreesOneLevelUp'):
        if need not in fns:
            raise core.Undecided('front end: huffmanTree<GLink>::%s instantiation not found' % need)
    return fns


def leaves(nd):
    if nd['isOnLastLevel']:
        return [nd['rightLeaf'], nd['leftLeaf']] if nd['rightLeaf'] is not nd['leftLeaf'] else [nd['leftLeaf']]
    return leaves(nd['rightChild']) + leaves(nd['leftChild'])


def job_tree(nev, seed, sorted_rates=False):
    """the real makeTree + findHoppingDestination for nev events with symbolic positive rates, every ordering the comparators can observe"""
    rvc.reset()
    fns = tree_fns()
    F = 'huffmanTree<GLink>::makeTree / findHoppingDestination'
    bound = '%d events (rates symbolic, every comparator outcome explored%s)' % (nev, '; restricted to rates in increasing order k0 < k1 < ...' if sorted_rates else '')
    obs = []
    rates = [sp.Symbol('k%d' % i, positive=True) for i in range(nev)]
    base0 = [z3.Real(r.name) > 0 for r in rates] + ([z3.Real(rates[i].name) < z3.Real(rates[i + 1].name) for i in range(nev - 1)] if sorted_rates else [])
    S = sum(rates)
    P = rvc.Paths(budget=20000)
    npaths = 0
    while True:
        P.start()
        rvc.CTX.base = list(base0)
        events = [{'name': i, 'rate': rates[i]} for i in range(nev)]
        # the object may have been used before (trees are rebuilt when events are added): every member starts in an arbitrary state
        this = {'events': events, 'htree': [newnode()], 'treeIsMade': True, 'sum_of_values': D(sp.Symbol('previous_sum', real=True))}
        def decl(ex, vd, ty, inner):
            if 'priority_queue' in ty:
                ce = inner[0]
                while ce['kind'] != 'CXXConstructExpr':
                    ce = ce['inner'][0]
                return PQ(rvc.rval(ex.expr(ce['inner'][0])), ex)
            return NotImplemented
        def construct(ex, n, ty, args):
            if 'vector<' in ty and 'huffmanNode' in ty and len(args) == 1:
                return [newnode() for _ in range(rvc._i(rvc.rval(ex.expr(args[0]))))]
            return NotImplemented
        cb = {'decide': P.decide, 'getValue': lambda ev: D(ev['rate']), 'decl': decl, 'construct': construct}
        ex = Exec({}, cb, fns, this)
        try:
            ex.stmt(rvc.body_of(fns['makeTree'][0]))
        except Ret:
            pass
        npaths += 1
        tag = 'n%d%s.p%d' % (nev, '.sorted' if sorted_rates else '', npaths)
        ht = this['htree']
        root = ht[-1]
        okstruct = (len(ht) == (nev if nev % 2 else nev - 1)) and this['treeIsMade'] is True and rvc.nf_zero(this['sum_of_values'].v - S) and sorted(e['name'] for e in leaves(root)) == list(range(nev))
        obs.append(Ob('C14.tree/%s/structure' % tag, F, 'htree has n (n odd) or n-1 nodes, sum_of_values = sum of rates, every event is a leaf exactly once', 'RVC', 'symbolic execution + normal form',
                      core.BOUNDED if okstruct else core.REFUTED, 0, '', bound=bound, witness=None if okstruct else {'nodes': len(ht)}))
        # descent: the real findHoppingDestination with a symbolic p in [0,1], all paths; each path is an interval (lo, hi] of p
        makepc = list(P.pc)
        p = sp.Symbol('p', real=True)
        meas = {i: sp.Integer(0) for i in range(nev)}
        Q = rvc.Paths(budget=2000)
        tight_ok, tight_bad = True, None
        nd = 0
        while True:
            Q.start()
            rvc.CTX.base = list(base0) + makepc + [z3.Real('p') >= 0, z3.Real('p') <= 1]
            bounds = []
            def decide(c):
                r = Q.decide(c)
                bounds.append((c, r))
                return r
            ex2 = Exec({'p': D(p)}, {'decide': decide}, fns, this)
            try:
                ex2.stmt(rvc.body_of(fns['findHoppingDestination'][0]))
                raise rvc.Unsupported('findHoppingDestination did not return')
            except Ret as r:
                dest = r.v
            nd += 1
            lo, hi = sp.Integer(0), sp.Integer(1)
            for c, r in bounds:
                # c is  p > th
                if not (isinstance(c, sp.StrictGreaterThan) and c.lhs == p):
                    raise rvc.Unsupported('unexpected descent condition %s' % c)
                th = c.rhs
                # nesting: a later threshold must lie inside the current interval (ordered thresholds)
                zth = rvc.to_z3(th)
                sol = z3.Solver(); sol.set('timeout', 20000); sol.add(*base0); sol.add(*makepc); sol.add(z3.Or(zth < rvc.to_z3(lo), zth > rvc.to_z3(hi)))
                if sol.check() != z3.unsat:
                    tight_ok, tight_bad = False, str(th)
                if r: lo = th
                else: hi = th
            meas[dest['name']] += hi - lo
            if not Q.next():
                break
        obs.append(Ob('C14.tree/%s/thresholds' % tag, F, 'thresholds are nested: every threshold met on a descent lies inside the interval selected so far', 'RVC', 'z3', core.BOUNDED if tight_ok else core.REFUTED, 0,
                      '%d descents' % nd, bound=bound, witness=None if tight_ok else {'threshold': tight_bad}))
        for i in range(nev):
            o = rvc.identity('C14.tree/%s/measure.ev%d' % (tag, i), F, 'the set of p in [0,1] selecting event %d has total length rate_%d / sum of rates' % (i, i), meas[i], rates[i] / S, seed, bound=bound)
            obs.append(o)
        if not P.next():
            break
    # vacuity: at least one path and a canary
    obs.append(rvc.canary('C14.tree.n%d%s' % (nev, '.sorted' if sorted_rates else ''), F, rates[0] / S, rates[0] / S, seed))
    mf = [{'name': 'huffmanTree<GLink>::' + k, 'file': 'xtp/include/votca/xtp/huffmantree.h', 'ast_nodes': rvc.node_count(fns[k][0])} for k in
          ('makeTree', 'findHoppingDestination', 'addProbabilityFromRightSubtreeToLeftSubtree', 'moveProbabilitiesFromRightSubtreesOneLevelUp')]
    for o in obs:
        o['functions'] = mf
    return obs


def job_escape(seed, n=4):
    rvc.reset()
    rel = 'xtp/src/libxtp/gnode.cc'
    fns = rvc.functions(rvc.ast(rel, 'GNode::InitEscapeRate'))
    if 'InitEscapeRate' not in fns:
        raise core.Undecided('front end: GNode::InitEscapeRate not found')
    obs = []
    for k in range(0, n + 1):
        rates = [sp.Symbol('k%d' % i, positive=True) for i in range(k)]
        this = {'events_': [{'r': r} for r in rates], 'escape_rate_': D(rvc.fresh('uninit'))}
        ex = Exec({}, {'getRate': lambda e: D(e['r'])}, fns, this)
        try:
            ex.stmt(rvc.body_of(fns['InitEscapeRate'][0]))
        except Ret:
            pass
        obs.append(rvc.identity('C14.escape/n%d' % k, 'GNode::InitEscapeRate', 'escape_rate_ == sum of the event rates (%d events)' % k, this['escape_rate_'].v, sum(rates, sp.Integer(0)), seed, bound='%d events' % k))
    mf = [{'name': 'GNode::InitEscapeRate', 'file': rel, 'ast_nodes': rvc.node_count(fns['InitEscapeRate'][0])}]
    for o in obs:
        o['functions'] = mf
    return obs


def job_marcus(seed):
    rvc.reset()
    rel = 'xtp/src/libxtp/rate_engine.cc'
    fns = rvc.functions(rvc.ast(rel, 'Rate_Engine::'))
    for need in ('Marcusrate', 'Rate'):
        if need not in fns:
            raise core.Undecided('front end: Rate_Engine::%s not found' % need)
    G = {'hbar': sp.Symbol('hbar', positive=True), 'ev2hrt': sp.Symbol('ev2hrt', positive=True), 'Pi': sp.Symbol('pi', positive=True)}
    J2, lam, T = sp.symbols('J2 lam T', positive=True)
    dE, LO = sp.Symbol('dE12', real=True), sp.Symbol('lamO', real=True)
    R, Fld = Mx.sym('R', 3), Mx.sym('F', 3)
    obs = []
    F = 'Rate_Engine::Rate / Marcusrate'
    def glob(nm):
        if nm in G:
            return D(G[nm])
        raise rvc.Unsupported('unknown global ' + nm)
    def rate(carrier, j2=J2, lam12=lam, lam21=lam, lamo=sp.Integer(0)):
        """execute Rate(pair, carriertype) with Marcusrate executed from its own AST"""
        P = rvc.Paths()
        P.start()
        pair = {'__pair__': 1}
        cb = {'decide': P.decide, 'global': glob, 'enum': lambda n: n,
              'getReorg12': lambda p, c: D(lam12), 'getReorg21': lambda p, c: D(lam21), 'getLambdaO': lambda p, c: D(lamo), 'R': lambda p: R,
              'getdE12': lambda p, c: D(dE), 'getJeff2': lambda p, c: D(j2),
              'decl': lambda ex, vd, ty, inner: ({'rate12': D(0), 'rate21': D(0)} if ty.endswith('PairRates') else NotImplemented)}
        this = {'temperature_': D(T), 'field_': Fld, 'ratetype_': 'marcus'}
        rvc.CTX.base = [z3.Real('lam') >= z3.RealVal('1e-10'), z3.Real('T') > 0, z3.Real('J2') > 0, z3.Real('lamO') > 0, z3.Real('lamO') < z3.Real('lam') / 2]    # the code refuses |lambda| < 1e-12
        ex = Exec({'pair': pair, 'carriertype': carrier}, cb, fns, this)
        try:
            ex.stmt(rvc.body_of(fns['Rate'][0]))
        except Ret as r:
            return r.v
        raise rvc.Unsupported('Rate did not return')
    E = rvc.ufun('E')
    for carrier, q in (('Electron', -1), ('Hole', 1), ('Singlet', 0)):
        res = rate(carrier)
        k12, k21 = res['rate12'].v, res['rate21'].v
        dG = dE + q * sum(R.g(i).v * Fld.g(i).v for i in range(3))
        # linear in J^2
        res2 = rate(carrier, j2=3 * J2)
        obs.append(rvc.identity('C14.marcus/%s/linear12' % carrier, F, 'rate12 scales linearly with the squared coupling', res2['rate12'].v, 3 * k12, seed))
        obs.append(rvc.identity('C14.marcus/%s/linear21' % carrier, F, 'rate21 scales linearly with the squared coupling', res2['rate21'].v, 3 * k21, seed))
        # detailed balance: k12 / k21 = E(a)/E(b) with a - b = dG/T   (contract of exp)
        e12 = [a for a in sp.preorder_traversal(k12) if getattr(a, 'func', None) == E]
        e21 = [a for a in sp.preorder_traversal(k21) if getattr(a, 'func', None) == E]
        if len(set(e12)) != 1 or len(set(e21)) != 1:
            raise rvc.Unsupported('expected exactly one exp() in each rate')
        a, b = e12[0].args[0], e21[0].args[0]
        pre12, pre21 = k12 / e12[0], k21 / e21[0]
        obs.append(rvc.identity('C14.marcus/%s/balance.prefactor' % carrier, F, 'forward and backward rates have the same prefactor (equal reorganisation energies)', pre12, pre21, seed))
        obs.append(rvc.identity('C14.marcus/%s/balance.exponent' % carrier, F, 'exponent(12) - exponent(21) == dG/T with dG = dE12 + q F.R (q = %d): k12/k21 = exp(dG/kT)' % q, a - b, dG / T, seed))
        # positivity: prefactor > 0 (E > 0 by contract)
        obs.append(rvc.logic('C14.marcus/%s/positive' % carrier, F, 'rate prefactors are positive for J2, lambda, T > 0 (exp > 0 by contract)', z3.And(rvc.to_z3(pre12) > 0, rvc.to_z3(pre21) > 0),
                             extra=[z3.Real('hbar') > 0, z3.Real('ev2hrt') > 0, z3.Real('pi') > 0]))
    # outer-sphere reorganisation energy: the total reorganisation energy lambda + lambda_O enters both directions alike
    lo = sp.Symbol('lamO', positive=True)
    res = rate('Hole', lamo=lo)
    k12, k21 = res['rate12'].v, res['rate21'].v
    e12 = [a for a in sp.preorder_traversal(k12) if getattr(a, 'func', None) == E]
    e21 = [a for a in sp.preorder_traversal(k21) if getattr(a, 'func', None) == E]
    if len(set(e12)) == 1 and len(set(e21)) == 1:
        dGh = dE + sum(R.g(i).v * Fld.g(i).v for i in range(3))
        obs.append(rvc.identity('C14.marcus/outer/balance.prefactor', F, 'with an outer-sphere contribution lambda_O (equal inner reorganisation energies) forward and backward prefactors still agree', k12 / e12[0], k21 / e21[0], seed))
        obs.append(rvc.identity('C14.marcus/outer/balance.exponent', F, 'with an outer-sphere contribution lambda_O: exponent(12) - exponent(21) == dG/T (detailed balance)', e12[0].args[0] - e21[0].args[0], dGh / T, seed))
        obs.append(rvc.identity('C14.marcus/outer/total', F, 'the forward rate is the Marcus rate for the total reorganisation energy lambda + lambda_O', k12, rate('Hole', lam12=lam + lo, lam21=lam + lo)['rate12'].v, seed))
    else:
        raise rvc.Unsupported('expected exactly one exp() in each rate (outer-sphere run)')
    # zero reorganisation energy is rejected
    for which in ('12', '21'):
        try:
            P = rvc.Paths(); P.start()
            rvc.CTX.base = []
            cb = {'decide': lambda c: True, 'global': glob, 'enum': lambda n: n, 'getReorg12': lambda p, c: D(0), 'getReorg21': lambda p, c: D(0), 'getLambdaO': lambda p, c: D(0),
                  'R': lambda p: R, 'getdE12': lambda p, c: D(dE), 'getJeff2': lambda p, c: D(J2)}
            ex = Exec({'pair': {}, 'carriertype': 'Hole'}, cb, fns, {'temperature_': D(T), 'field_': Fld, 'ratetype_': 'marcus'})
            ex.stmt(rvc.body_of(fns['Rate'][0]))
            thrown = False
        except Thrown:
            thrown = True
        except Ret:
            thrown = False
        obs.append(Ob('C14.marcus/zero-reorg.%s' % which, F, 'a vanishing reorganisation energy is rejected with an error', 'RVC', 'symbolic execution', core.PROVED if thrown else core.REFUTED, 0, '', witness=None if thrown else {'reorg': 0}))
    res = rate('Hole')
    obs.append(rvc.canary('C14.marcus', F, res['rate12'].v, res['rate12'].v, seed))
    mf = [{'name': 'Rate_Engine::' + k, 'file': rel, 'ast_nodes': rvc.node_count(fns[k][0])} for k in ('Marcusrate', 'Rate')]
    for o in obs:
        o['functions'] = mf
    return obs


def job_promote(seed):
    """KMCCalculator::Promotetime: dt * k_tot == -log(1 - u)"""
    rvc.reset()
    rel = 'xtp/src/libxtp/kmccalculator.cc'
    fns = rvc.functions(rvc.ast(rel, 'KMCCalculator::Promotetime'))
    if 'Promotetime' not in fns:
        raise core.Undecided('front end: KMCCalculator::Promotetime not found')
    u, k = sp.Symbol('u', positive=True), sp.Symbol('ktot', positive=True)
    ex = Exec({'cumulated_rate': D(k)}, {'rand_uniform': lambda o: D(u)}, fns, {'RandomVariable_': 'RNG'})
    try:
        ex.stmt(rvc.body_of(fns['Promotetime'][0]))
        raise rvc.Unsupported('no return')
    except Ret as r:
        dt = D.lift(r.v).v
    L = rvc.ufun('L')
    o = rvc.identity('C14.promote/waiting-time', 'KMCCalculator::Promotetime', 'dt * k_tot == -log(1 - u) for the uniform variate u (inverse-transform sampling of the exponential distribution)', dt * k, -L(1 - u), seed)
    o['functions'] = [{'name': 'KMCCalculator::Promotetime', 'file': rel, 'ast_nodes': rvc.node_count(fns['Promotetime'][0])}]
    return [o]


def collect(obs):
    seen = set(f['name'] for f in META['functions'])
    for o in obs:
        for f in o.pop('functions', []) or []:
            if f['name'] not in seen:
                seen.add(f['name'])
                META['functions'].append(f)


def run(tier, seed, only=None):
    ns = (1, 2, 3, 4) if tier == 'quick' else (1, 2, 3, 4, 5)
    jobs = [(job_tree, (n, seed)) for n in ns] + ([(job_tree, (n, seed, True)) for n in ((5, 6, 7, 8) if tier == 'quick' else (6, 7, 8, 9, 10))]) + [(job_escape, (seed,)), (job_marcus, (seed,)), (job_promote, (seed,))]
    if only:
        jobs = [j for j in jobs if re.search(only, j[0].__name__ + str(j[1]))]
    obs = core.pmap(jobs)
    collect(obs)
    return obs, META
