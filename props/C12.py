"""C12 - tables and splines interpolate, fit and resample faithfully (DESIGN.md section 5, C12)"""
import os, re, time
import sympy as sp
import z3
from vlib import core, rvc, ccv, native
from vlib.core import Ob
from vlib.rvc import D, Mx, Exec, Ret, Thrown, SInt

CDIR = os.path.join(core.VERIF, 'contracts', 'C12')
ENUM = {'splineNormal': 0, 'splinePeriodic': 1, 'splineDerivativeZero': 2}
META = {
    'level': 'proof',
    'functions': [],
    'trusted_base': ['clang 14 AST = the code g++ compiles', 'RVC executor (vlib/rvc.py), Eigen dense-vector/matrix element access contracts',
                     'Eigen::HouseholderQR::solve returns a solution of A u = b when A is non-singular (assumed contract)',
                     'sympy Poly arithmetic over Q', 'machine arithmetic treated as mathematical (RVC obligations)',
                     'CBMC 6.11 + cvc5 1.0 (getInterval, GenerateGrid: IEEE doubles, bit-precise)'],
    'assumptions': ['knots strictly increasing (h_i > 0)'],
    'not_decided': ['the dense least-squares solves (Eigen QR) behind Fit', 'csg_resample executable behaviour and flags', 'non-finite inputs'],
}


def knots(N):
    xs = [sp.Symbol('x0', real=True)]
    hs = [sp.Symbol('h%d' % i, positive=True) for i in range(N - 1)]
    for i in range(N - 1):
        xs.append(xs[-1] + hs[i])
    return xs, hs


def symvec(name, n):
    return Mx.vec([sp.Symbol('%s%d' % (name, i), real=True) for i in range(n)])


def subs_d(e, r, x):
    return sp.sympify(e).subs(r, x)


class QR:
    def __init__(s, A, rec):
        s.A, s.rec = A.copy(), rec

    def call(s, name, args):
        if name != 'solve':
            raise rvc.Unsupported('QR.' + name)
        b = args[0]
        n = b.r
        u = [sp.Symbol('u%d' % i, real=True) for i in range(n)]
        s.rec['A'], s.rec['b'], s.rec['u'] = s.A, b.copy(), u
        return Mx.vec(u)


def mk_exec(fns, this, iv=None, rec=None, extra=None):
    def decl(ex, vd, ty, inner):
        if 'HouseholderQR' in ty:
            ce = inner[0]
            while ce['kind'] != 'CXXConstructExpr':
                ce = ce['inner'][0]
            return QR(rvc.rval(ex.expr(ce['inner'][0])), rec)
        return NotImplemented
    cb = {'enum': lambda nm: ENUM[nm], 'decl': decl}
    if iv is not None:
        cb['getInterval'] = lambda obj, r: iv
    cb.update(extra or {})
    return Exec({}, cb, fns, this)


def call(fns, name, this, args, iv=None, rec=None, extra=None, nargs=None):
    ex = mk_exec(fns, this, iv, rec, extra)
    m = ex.pick_method(name, len(args) if nargs is None else nargs)
    if m is None:
        raise core.Undecided('front end: method %s/%d not found' % (name, len(args)))
    return ex.call_fn(m, args, this)


def fn_meta(fns, cls, names, relpath):
    out = []
    for n in names:
        for f in fns.get(n, [])[:1]:
            out.append({'name': '%s::%s' % (cls, n), 'file': relpath, 'ast_nodes': rvc.node_count(f)})
    return out


# ------------------------------------------------------------------------------------------------ cubic spline

def job_cubic_interval(seed, N=4):
    """per interval: interpolation at both knots, second derivative at both knots, CalculateDerivative = d/dr Calculate, linearity; helper identities"""
    rvc.reset()
    rel = 'tools/src/libtools/cubicspline.cc'
    fns = rvc.functions(rvc.ast(rel, 'CubicSpline'))
    xs, hs = knots(N)
    f, g = symvec('f', N), symvec('g', N)
    this = {'r_': Mx.vec(xs), 'f_': f, 'f2_': g, 'boundaries_': 0}
    r = sp.Symbol('r', real=True)
    obs = []
    F = 'CubicSpline::Calculate'
    for iv in range(N - 1):
        val = call(fns, 'Calculate', this, [D(r, 1)], iv)
        der = call(fns, 'CalculateDerivative', this, [D(r)], iv)
        t = 'C12.cubic.iv%d' % iv
        obs.append(rvc.identity(t + '/deriv', 'CubicSpline::CalculateDerivative', 'CalculateDerivative(r) == d/dr Calculate(r) on interval %d' % iv, der.v, val.t, seed))
        obs.append(rvc.identity(t + '/left', F, 'Calculate(r_i) == f_i (interval %d, arbitrary f2)' % iv, subs_d(val.v, r, xs[iv]), f.g(iv).v, seed))
        obs.append(rvc.identity(t + '/right', F, 'Calculate(r_{i+1}) == f_{i+1} (C0 across knots)', subs_d(val.v, r, xs[iv + 1]), f.g(iv + 1).v, seed))
        d2 = sp.diff(val.v, r, 2)
        obs.append(rvc.identity(t + '/curvL', F, "S''(r_i) == f2_i", subs_d(d2, r, xs[iv]), g.g(iv).v, seed))
        obs.append(rvc.identity(t + '/curvR', F, "S''(r_{i+1}) == f2_{i+1}", subs_d(d2, r, xs[iv + 1]), g.g(iv + 1).v, seed))
        # linear in the ordinates and curvatures: value = sum_k dS/dc_k * c_k
        coefs = [x.v for x in f.flat()] + [x.v for x in g.flat()]
        lin = sum(sp.diff(val.v, c) * c for c in coefs)
        obs.append(rvc.identity(t + '/linear', F, 'Calculate is linear (homogeneous) in (f, f2)', val.v, lin, seed))
    for i in range(N - 2):
        for nm in 'ABCD':
            l = call(fns, nm + '_prime_l', this, [i])
            p = call(fns, nm + 'prime', this, [D(r)], i)
            obs.append(rvc.identity('C12.cubic.helper/%s_prime_l.%d' % (nm, i), 'CubicSpline::%s_prime_l' % nm, '%s_prime_l(%d) == %sprime at the right end of interval %d' % (nm, i, nm, i),
                                    l.v, subs_d(p.v, r, xs[i + 1]), seed))
            l = call(fns, nm + '_prime_r', this, [i])
            p = call(fns, nm + 'prime', this, [D(r)], i + 1)
            obs.append(rvc.identity('C12.cubic.helper/%s_prime_r.%d' % (nm, i), 'CubicSpline::%s_prime_r' % nm, '%s_prime_r(%d) == %sprime at the left end of interval %d' % (nm, i, nm, i + 1),
                                    l.v, subs_d(p.v, r, xs[i + 1]), seed))
    val = call(fns, 'Calculate', this, [D(r, 1)], 0)
    obs.append(rvc.canary('C12.cubic.interval', F, val.t, val.t, seed))
    mf = fn_meta(fns, 'CubicSpline', ['Calculate', 'CalculateDerivative', 'A', 'B', 'C', 'D', 'Aprime', 'Bprime', 'Cprime', 'Dprime'] +
                 [a + b for a in 'ABCD' for b in ('_prime_l', '_prime_r')], rel)
    for o in obs:
        o['functions'] = mf
    return obs


def slope(fns, this, iv, at, r):
    d = call(fns, 'CalculateDerivative', this, [D(r)], iv)
    return subs_d(d.v, r, at)


def job_cubic_interpolate(seed, N, bc):
    """the real Interpolate body with QR.solve as a contract: each row of the assembled system IS the continuity / boundary condition
    (identity in the unknown curvatures u), so every solution has the stated property; generic rank = N (bounded in N)"""
    rvc.reset()
    rel = 'tools/src/libtools/cubicspline.cc'
    fns = rvc.functions(rvc.ast(rel, 'CubicSpline'))
    xs, hs = knots(N)
    y = symvec('y', N)
    rec = {}
    this = {'r_': Mx(0, 1), 'f_': Mx(0, 1), 'f2_': Mx(0, 1), 'boundaries_': bc}
    call(fns, 'Interpolate', this, [Mx.vec(xs), y], None, rec)
    if 'A' not in rec:
        raise core.Undecided('Interpolate did not reach QR.solve')
    A, b, u = rec['A'], rec['b'], rec['u']
    r = sp.Symbol('r', real=True)
    bcn = {0: 'natural', 1: 'periodic'}[bc]
    bound = 'N = %d knots (non-uniform symbolic grid)' % N
    F = 'CubicSpline::Interpolate'
    obs = []
    res = [sum((A.g(i, j).v * u[j] for j in range(N)), sp.Integer(0)) - b.g(i).v for i in range(N)]   # residual of row i
    # stored values
    for i in range(N):
        pass
    obs.append(rvc.identity('C12.cubic.interp.%s.N%d/f' % (bcn, N), F, 'f_ holds the ordinates, r_ the abscissae', sum((this['f_'].g(i).v - y.g(i).v) ** 2 for i in range(N)) +
                            sum((this['r_'].g(i).v - xs[i]) ** 2 for i in range(N)), sp.Integer(0), seed, bound=bound))
    for i in range(1, N - 1):
        defect = slope(fns, this, i - 1, xs[i], r) - slope(fns, this, i, xs[i], r)
        obs.append(rvc.identity('C12.cubic.interp.%s.N%d/C1.knot%d' % (bcn, N, i), F,
                                "row %d of the system == first-derivative jump at inner knot %d (so S' is continuous for every solution)" % (i, i), res[i], defect, seed, bound=bound))
    if bc == 0:
        obs.append(rvc.identity('C12.cubic.interp.natural.N%d/end0' % N, F, 'row 0 of the system == f2_0 (natural: zero end curvature)', res[0], u[0], seed, bound=bound))
        obs.append(rvc.identity('C12.cubic.interp.natural.N%d/endN' % N, F, 'row N-1 of the system == f2_{N-1}', res[N - 1], u[N - 1], seed, bound=bound))
        # straight-line data: right-hand side vanishes, so f2 = 0 solves the system and the line is reproduced
        al, be = sp.symbols('alpha beta', real=True)
        line = {y.g(i).v: al + be * xs[i] for i in range(N)}
        tot = sum((b.g(i).v.subs(line)) ** 2 for i in range(N))
        obs.append(rvc.identity('C12.cubic.interp.natural.N%d/line' % N, F, 'straight-line data => right-hand side is zero (f2 = 0 solves it, the line is reproduced)', tot, sp.Integer(0), seed, bound=bound))
    else:
        obs.append(rvc.identity('C12.cubic.interp.periodic.N%d/curv' % N, F, 'row 0 of the system == f2_0 - f2_{N-1} (equal end curvature)', res[0], u[0] - u[N - 1], seed, bound=bound))
        jump = slope(fns, this, 0, xs[0], r) - slope(fns, this, N - 2, xs[N - 1], r)
        o = rvc.identity('C12.cubic.interp.periodic.N%d/slope' % N, F, "row N-1 of the system == S'(r_0) - S'(r_{N-1}) up to sign (equal end slope)", res[N - 1] ** 2, jump ** 2, seed, bound=bound)
        obs.append(o)
    # generic rank
    t0 = time.time()
    M = sp.Matrix([[A.g(i, j).v for j in range(N)] for i in range(N)])
    det = sp.factor(M.det())
    st = core.BOUNDED if det != 0 else core.REFUTED
    obs.append(Ob('C12.cubic.interp.%s.N%d/rank' % (bcn, N), F, 'the assembled %s system is non-singular (determinant not identically zero)' % bcn, 'RVC', 'sympy determinant', st,
                  time.time() - t0, 'det = %s' % str(det)[:200], bound=bound, witness=None if det != 0 else {'note': 'determinant is identically zero: singular for every grid'}))
    mf = fn_meta(fns, 'CubicSpline', ['Interpolate'], rel)
    for o in obs:
        o['functions'] = mf
    replay_periodic(obs)
    return obs


class FunVec:
    """Eigen vector of symbolic length N: element k is the symbol <name>[k], written <name>_i+1, <name>_N-1, <name>_c0 ... (index relative to the loop index i, to N, or constant)"""
    def __init__(s, name, isym, nsym, store=None):
        s.name, s.i, s.n, s.store = name, isym, nsym, store if store is not None else {}
    def key(s, idx):
        e = sp.expand(SInt.ex(idx) if isinstance(idx, (int, SInt)) else D.lift(idx).v)
        for base, tag in ((s.i, 'i'), (s.n, 'N'), (s.n + s.i, 'N+i'), (2 * s.n, '2N')):
            k = sp.expand(e - base)
            if k.is_Integer:
                return '%s%+d' % (tag, int(k)) if int(k) else tag
        if e.is_Integer:
            return 'c%d' % int(e)
        raise rvc.Unsupported('vector index %s is neither i+k, N+k nor a constant' % e)
    def get(s, idx):
        k = s.key(idx)
        return s.store[k] if k in s.store else D(sp.Symbol('%s[%s]' % (s.name, k), real=True))
    def index_ref(s, idx):
        return rvc.Ref(lambda: s.get(idx[0]), lambda v: s.store.__setitem__(s.key(idx[0]), D.lift(v)))
    def call(s, name, args):
        if name in ('size', 'rows'): return SInt(s.n)
        raise rvc.Unsupported('vector::' + name)


class SparseM:
    """zero-initialised matrix with symbolic indices: written entries are kept by (row key, column key)"""
    def __init__(s, fv): s.fv, s.e = fv, {}
    def index_ref(s, idx):
        k = (s.fv.key(idx[0]), s.fv.key(idx[1]) if len(idx) > 1 else 'c0')
        return rvc.Ref(lambda: s.e.get(k, D(0)), lambda v: s.e.__setitem__(k, D.lift(v)))
    def row(s, r):
        return {c: v for (rr, c), v in s.e.items() if rr == r}


def job_cubic_interpolate_allN(seed, bc):
    """CubicSpline::Interpolate for EVERY number of knots N >= 3: the loop over the interior knots is closed by a per-iteration contract (body executed once for a
    symbolic index i on vectors of symbolic length), the boundary rows are executed with symbolic N.  Row i+1 of the assembled system is the jump of S' at knot i+1."""
    rvc.reset()
    rel = 'tools/src/libtools/cubicspline.cc'
    fns = rvc.functions(rvc.ast(rel, 'CubicSpline'))
    fn = fns['Interpolate'][0]
    F = 'CubicSpline::Interpolate'
    stmts = rvc.body_of(fn)['inner']
    loops = [k for k, st in enumerate(stmts) if st['kind'] == 'ForStmt']
    if len(loops) != 1:
        raise core.Undecided('CubicSpline::Interpolate: one loop over the interior knots expected, found %d' % len(loops))
    isym, nsym = sp.Symbol('i', integer=True, nonnegative=True), sp.Symbol('N', integer=True, positive=True)
    x, y = FunVec('x', isym, nsym), FunVec('y', isym, nsym)
    rvec, fvec, f2 = FunVec('r', isym, nsym), FunVec('f', isym, nsym), FunVec('u', isym, nsym)
    import z3
    P = rvc.Paths(); P.start()
    rvc.CTX.base = [z3.Int('N') >= 3, z3.Int('i') >= 0, z3.Int('i') <= z3.Int('N') - 3]
    this = {'r_': rvec, 'f_': fvec, 'f2_': f2, 'boundaries_': bc}
    rec = {}
    A, temp = SparseM(rvec), SparseM(rvec)
    def decl(ex_, vd, ty, inner):
        if 'HouseholderQR' in ty:
            rec['qr'] = ctor_value(ex_, inner)
            return {'__class__': 'QR'}
        if vd['name'] == 'A' or (re.search(r'MatrixXd', ty) and 'Zero' in str(inner)[:3000]):
            return A
        if vd['name'] == 'temp' or (re.search(r'VectorXd', ty) and 'Zero' in str(inner)[:3000]):
            return temp
        return NotImplemented
    def ctor_value(ex_, inner):
        n = inner[0]
        while n.get('kind') != 'CXXConstructExpr':
            n = n['inner'][0]
        return rvc.rval(ex_.expr(n['inner'][0]))
    def store_vec(dst_name):
        def f(v): pass
        return f
    cb = {'enum': lambda nm: ENUM[nm], 'decl': decl, 'decide': P.decide, 'solve': lambda qr, b: (rec.__setitem__('rhs', b), f2)[1]}
    ex = Exec({'x': x, 'y': y}, cb, fns, this)
    # vectors are copied by assignment (r_ = x; f_ = y): symbolic vectors alias their source under the new name
    for st in stmts[:loops[0]]:
        ex.stmt(st)
    obs = []
    bcn = {0: 'natural', 1: 'periodic'}[bc]
    mf = fn_meta(fns, 'CubicSpline', ['Interpolate'], rel)
    def ob(oid, clause, ok, detail=''):
        o = Ob(oid, F, clause, 'RVC', 'symbolic execution (loop closed by a per-iteration contract, vectors of symbolic length)', core.PROVED if ok else core.REFUTED, 0, detail, witness=None if ok else {'detail': detail[:400]})
        o['functions'] = mf; obs.append(o)
    rr, ff = this['r_'], this['f_']
    ok = isinstance(rr, FunVec) and isinstance(ff, FunVec) and rr.name == 'x' and ff.name == 'y'
    ob('C12.cubic.interp.%s.allN/copy' % bcn, 'r_ and f_ hold the abscissae and ordinates handed in', ok, '%s %s' % (getattr(rr, 'name', rr), getattr(ff, 'name', ff)))
    if not ok:
        return obs
    loop = stmts[loops[0]]
    ex.env[loop['inner'][0]['inner'][0]['name']] = SInt(isym)
    ex.stmt(loop['inner'][4])
    # the row written by iteration i
    rows = set(k[0] for k in A.e) | set(k[0] for k in temp.e)
    ok = rows == {'i+1'}
    ob('C12.cubic.interp.%s.allN/row-index' % bcn, 'iteration i (0 <= i <= N-3) writes row i+1 of the matrix and of the right-hand side, and nothing else', ok, str(sorted(rows)))
    if ok:
        r = sp.Symbol('r', real=True)
        usym = lambda k: f2.get(SInt(isym + k)).v
        row = A.row('i+1')
        lhs = sum((v.v * f2.get(SInt({'i': isym, 'i+1': isym + 1, 'i+2': isym + 2}[c])).v for c, v in row.items() if c in ('i', 'i+1', 'i+2')), sp.Integer(0)) - temp.e.get(('i+1', 'c0'), D(0)).v
        okc = set(row) <= {'i', 'i+1', 'i+2'}
        # S' on interval i at its right end, and on interval i+1 at its left end, from the real CalculateDerivative
        def slope_at(interval, knot):
            exs = Exec({}, {'enum': lambda nm: ENUM[nm], 'getInterval': lambda o, rv: SInt(interval)}, fns, this)
            m = exs.pick_method('CalculateDerivative', 1)
            d = exs.call_fn(m, [D(r)], this)
            return sp.sympify(D.lift(d).v).subs(r, rr.get(SInt(knot)).v)
        defect = slope_at(isym, isym + 1) - slope_at(isym + 1, isym + 1)
        o = rvc.identity('C12.cubic.interp.%s.allN/C1' % bcn, F, "row i+1 of the system (in the unknown curvatures) == jump of S' at the interior knot i+1, for every interior knot of every grid", lhs, defect, seed)
        o['functions'] = mf; obs.append(o)
        ob('C12.cubic.interp.%s.allN/band' % bcn, 'row i+1 only has entries in columns i, i+1, i+2', okc, str(sorted(row)))
    # boundary rows with symbolic N
    A.e = {k: v for k, v in A.e.items() if k[0] != 'i+1'}; temp.e = {k: v for k, v in temp.e.items() if k[0] != 'i+1'}
    try:
        for st in stmts[loops[0] + 1:]:
            ex.stmt(st)
    except Ret:
        pass
    rows = sorted(set(k[0] for k in A.e))
    ok = rows == ['N-1', 'c0']
    ob('C12.cubic.interp.%s.allN/boundary-rows' % bcn, 'the boundary conditions fill exactly rows 0 and N-1 (the rows the interior loop leaves free)', ok and rec.get('qr') is A and rec.get('rhs') is temp, '%s qr=%s' % (rows, rec.get('qr') is A))
    if ok:
        def rowsum(rk):
            tot = sp.Integer(0)
            for c, v in A.row(rk).items():
                idx = {'c0': 0, 'c1': 1, 'N-1': nsym - 1, 'N-2': nsym - 2}.get(c)
                if idx is None:
                    raise rvc.Unsupported('boundary row touches column %s' % c)
                tot += v.v * f2.get(SInt(idx) if not isinstance(idx, int) else idx).v
            return tot - temp.e.get((rk, 'c0'), D(0)).v
        if bc == 0:
            o = rvc.identity('C12.cubic.interp.natural.allN/end0', F, 'row 0 == curvature at the first knot (natural: zero)', rowsum('c0'), f2.get(0).v, seed); o['functions'] = mf; obs.append(o)
            o = rvc.identity('C12.cubic.interp.natural.allN/endN', F, 'row N-1 == curvature at the last knot', rowsum('N-1'), f2.get(SInt(nsym - 1)).v, seed); o['functions'] = mf; obs.append(o)
        else:
            r = sp.Symbol('r', real=True)
            def slope_at(interval, knot):
                exs = Exec({}, {'enum': lambda nm: ENUM[nm], 'getInterval': lambda o_, rv: interval}, fns, this)
                m = exs.pick_method('CalculateDerivative', 1)
                d = exs.call_fn(m, [D(r)], this)
                return sp.sympify(D.lift(d).v).subs(r, rr.get(knot).v)
            o = rvc.identity('C12.cubic.interp.periodic.allN/curv', F, 'row 0 == curvature(first knot) - curvature(last knot)', rowsum('c0'), f2.get(0).v - f2.get(SInt(nsym - 1)).v, seed); o['functions'] = mf; obs.append(o)
            jump = slope_at(0, 0) - slope_at(SInt(nsym - 2), SInt(nsym - 1))
            o = rvc.identity('C12.cubic.interp.periodic.allN/slope', F, "row N-1 == S'(first knot) - S'(last knot) up to sign (equal end slopes)", rowsum('N-1') ** 2, jump ** 2, seed); o['functions'] = mf; obs.append(o)
    return obs


def job_cubic_fitbc_allN(seed, bc):
    """CubicSpline::AddBCToFitMatrix for every number of knots: row l+i+1 of the constraint block (in the unknown knot values f and curvatures f2) is the jump of S' at knot i+1"""
    rvc.reset()
    rel = 'tools/src/libtools/cubicspline.cc'
    fns = rvc.functions(rvc.ast(rel, 'CubicSpline'))
    cand = fns.get('AddBCToFitMatrix', [])
    if not cand:
        raise core.Undecided('front end: AddBCToFitMatrix instantiation not found')
    fn = cand[0]
    F = 'CubicSpline::AddBCToFitMatrix'
    stmts = rvc.body_of(fn)['inner']
    loops = [k for k, st in enumerate(stmts) if st['kind'] == 'ForStmt']
    if len(loops) != 1:
        raise core.Undecided('AddBCToFitMatrix: one loop over the interior knots expected')
    import z3
    isym, nsym = sp.Symbol('i', integer=True, nonnegative=True), sp.Symbol('N', integer=True, positive=True)
    rvec, fvec, f2 = FunVec('r', isym, nsym), FunVec('f', isym, nsym), FunVec('u', isym, nsym)
    P = rvc.Paths(); P.start()
    rvc.CTX.base = [z3.Int('N') >= 3, z3.Int('i') >= 0, z3.Int('i') <= z3.Int('N') - 3]
    this = {'r_': rvec, 'f_': fvec, 'f2_': f2, 'boundaries_': bc}
    M = SparseM(rvec)
    ex = Exec({'M': M, 'offset1': 0, 'offset2': 0}, {'enum': lambda nm: ENUM[nm], 'decide': P.decide}, fns, this)
    for st in stmts[:loops[0]]:
        ex.stmt(st)
    loop = stmts[loops[0]]
    ex.env[loop['inner'][0]['inner'][0]['name']] = SInt(isym)
    ex.stmt(loop['inner'][4])
    obs = []
    bcn = {0: 'natural', 1: 'periodic', 2: 'derivzero'}[bc]
    mf = fn_meta(fns, 'CubicSpline', ['AddBCToFitMatrix'], rel)
    def unknown(col):
        m = re.fullmatch(r'(N\+i|i|N|c)([+-]?\d+)?', col)
        if not m:
            raise rvc.Unsupported('column %s' % col)
        base, k = m.group(1), int(m.group(2) or 0)
        if base == 'i': return fvec.get(SInt(isym + k)).v
        if base == 'N+i': return f2.get(SInt(isym + k)).v
        if base == 'c': return fvec.get(k).v
        if base == 'N': return (f2.get(k).v if k >= 0 else fvec.get(SInt(nsym + k)).v)
        raise rvc.Unsupported('column %s' % col)
    rows = set(k[0] for k in M.e)
    ok = rows == {'i+1'}
    o = Ob('C12.cubic.fitbc.%s.allN/row-index' % bcn, F, 'iteration i writes constraint row l+i+1 only', 'RVC', 'symbolic execution', core.PROVED if ok else core.REFUTED, 0, str(sorted(rows)), witness=None if ok else {}); o['functions'] = mf; obs.append(o)
    if ok:
        row = M.row('i+1')
        lhs = sum((v.v * unknown(c) for c, v in row.items()), sp.Integer(0))
        r = sp.Symbol('r', real=True)
        def slope_at(interval, knot):
            exs = Exec({}, {'enum': lambda nm: ENUM[nm], 'getInterval': lambda o_, rv: SInt(interval)}, fns, this)
            d = exs.call_fn(exs.pick_method('CalculateDerivative', 1), [D(r)], this)
            return sp.sympify(D.lift(d).v).subs(r, rvec.get(SInt(knot)).v)
        defect = slope_at(isym, isym + 1) - slope_at(isym + 1, isym + 1)
        o = rvc.identity('C12.cubic.fitbc.%s.allN/C1' % bcn, F, "constraint row l+i+1 (in the unknown knot values and curvatures) == jump of S' at the interior knot i+1, for every interior knot of every grid", lhs, defect, seed)
        o['functions'] = mf; obs.append(o)
    return obs


def job_akima_allN(seed):
    """AkimaSpline::Interpolate for every number of knots: both loops closed by per-iteration contracts.  Loop 1: the slope at an inner knot i is getSlope of the four
    secants around it.  Loop 2: for ARBITRARY knot slopes t the cubic of interval i is the Hermite interpolant (values and slopes at both ends): hence S interpolates the
    data and S' is continuous with S'(x_i) = t_i at every knot, whatever the slopes are."""
    import z3
    rvc.reset()
    rel = 'tools/src/libtools/akimaspline.cc'
    fns = rvc.functions(rvc.ast(rel, 'AkimaSpline'))
    fn = fns['Interpolate'][0]
    F = 'AkimaSpline::Interpolate'
    stmts = rvc.body_of(fn)['inner']
    loops = [k for k, st in enumerate(stmts) if st['kind'] == 'ForStmt']
    if len(loops) != 2:
        raise core.Undecided('AkimaSpline::Interpolate: two loops expected, found %d' % len(loops))
    isym, nsym = sp.Symbol('i', integer=True, nonnegative=True), sp.Symbol('N', integer=True, positive=True)
    x, y = FunVec('x', isym, nsym), FunVec('y', isym, nsym)
    mf = fn_meta(fns, 'AkimaSpline', ['Interpolate'], rel)
    obs = []
    P = rvc.Paths(); P.start()
    rvc.CTX.base = [z3.Int('N') >= 4, z3.Int('i') >= 0, z3.Int('i') <= z3.Int('N') - 2]
    slopes = []
    tvec = FunVec('t', isym, nsym)
    ps = [FunVec('p%d' % k, isym, nsym) for k in range(4)]
    this = {'r_': x, 'p0': ps[0], 'p1': ps[1], 'p2': ps[2], 'p3': ps[3], 't': tvec, 'boundaries_': 0}
    cb = {'enum': lambda nm: ENUM[nm], 'decide': P.decide, 'getSlope': lambda o, a, b, c, d: (slopes.append([D.lift(v).v for v in (a, b, c, d)]), D(sp.Symbol('slope%d' % len(slopes), real=True)))[1]}
    ex = Exec({'x': x, 'y': y, 'N': SInt(nsym)}, cb, fns, this)
    def ob(oid, clause, ok, detail=''):
        o = Ob(oid, F, clause, 'RVC', 'symbolic execution (loop closed by a per-iteration contract, vectors of symbolic length)', core.PROVED if ok else core.REFUTED, 0, detail, witness=None if ok else {'detail': detail[:400]})
        o['functions'] = mf; obs.append(o)
    # loop 1: inner slopes
    l1 = stmts[loops[0]]
    ex.env[l1['inner'][0]['inner'][0]['name']] = SInt(isym)
    for nm in ('m1', 'm2', 'm3', 'm4'):
        ex.env[nm] = D(rvc.fresh('uninit'))
    tvec.store.clear()
    ex.stmt(l1['inner'][4])
    sec = lambda a: (y.get(SInt(isym + a + 1)).v - y.get(SInt(isym + a)).v) / (x.get(SInt(isym + a + 1)).v - x.get(SInt(isym + a)).v)
    ok = len(slopes) == 1 and list(tvec.store) == ['i'] and rvc.nf_zero(tvec.store['i'].v - sp.Symbol('slope1', real=True))
    ob('C12.akima.allN/slope.write', 'iteration i of the first loop writes t(i) only, with the value getSlope returns', ok, '%s %s' % (list(tvec.store), len(slopes)))
    if ok:
        for k, a in enumerate((-2, -1, 0, 1)):
            o = rvc.identity('C12.akima.allN/slope.m%d' % (k + 1), F, 'argument %d of getSlope is the secant of the data over [x(i%+d), x(i%+d)]' % (k + 1, a, a + 1), slopes[0][k], sec(a), seed)
            o['functions'] = mf; obs.append(o)
    # loop 2: coefficients from arbitrary slopes
    tvec.store.clear()
    for pv in ps:
        pv.store.clear()
    l2 = stmts[loops[1]]
    ex.env[l2['inner'][0]['inner'][0]['name']] = SInt(isym)
    ex.stmt(l2['inner'][4])
    okw = all(list(pv.store) == ['i'] for pv in ps) and not tvec.store
    ob('C12.akima.allN/coeff.write', 'iteration i of the second loop writes the four coefficients of interval i and nothing else', okw, str([list(pv.store) for pv in ps]))
    if okw:
        r = sp.Symbol('r', real=True)
        def S(fname, at):
            exs = Exec({}, {'enum': lambda nm: ENUM[nm], 'getInterval': lambda o_, rv: SInt(isym)}, fns, this)
            d = exs.call_fn(exs.pick_method(fname, 1), [D(r)], this)
            return sp.sympify(D.lift(d).v).subs(r, at)
        xi, xj = x.get(SInt(isym)).v, x.get(SInt(isym + 1)).v
        for nm, lhs, rhs in (('value.left', S('Calculate', xi), y.get(SInt(isym)).v), ('value.right', S('Calculate', xj), y.get(SInt(isym + 1)).v),
                             ('slope.left', S('CalculateDerivative', xi), tvec.get(SInt(isym)).v), ('slope.right', S('CalculateDerivative', xj), tvec.get(SInt(isym + 1)).v)):
            o = rvc.identity('C12.akima.allN/hermite.%s' % nm, F, 'on interval i the spline has the data value / the knot slope at the %s end, for arbitrary knot slopes: S interpolates and S\' is continuous at every knot of every grid' % nm.split('.')[1], lhs, rhs, seed)
            o['functions'] = mf; obs.append(o)
    return obs


def job_deriv_allN(seed):
    """CalculateDerivative(r) == d/dr Calculate(r) on an arbitrary interval of a grid of arbitrary size, for the cubic, Akima and linear splines (forward-mode AD through
    the real Calculate; the knot, value and coefficient vectors have symbolic length)"""
    rvc.reset()
    obs = []
    isym, nsym = sp.Symbol('i', integer=True, nonnegative=True), sp.Symbol('N', integer=True, positive=True)
    r = sp.Symbol('r', real=True)
    for cls, rel, members in (('CubicSpline', 'tools/src/libtools/cubicspline.cc', ('r_', 'f_', 'f2_')), ('AkimaSpline', 'tools/src/libtools/akimaspline.cc', ('r_', 'p0', 'p1', 'p2', 'p3')),
                              ('LinSpline', 'tools/src/libtools/linspline.cc', ('r_', 'a', 'b'))):
        fns = rvc.functions(rvc.ast(rel, cls))
        if 'Calculate' not in fns or 'CalculateDerivative' not in fns:
            raise core.Undecided('front end: %s::Calculate / CalculateDerivative not found' % cls)
        this = {m: FunVec(m.strip('_'), isym, nsym) for m in members}
        this['boundaries_'] = 0
        def run(name, arg):
            exs = Exec({}, {'enum': lambda nm: ENUM[nm], 'getInterval': lambda o_, rv: SInt(isym)}, fns, this)
            return D.lift(exs.call_fn(exs.pick_method(name, 1), [arg], this))
        val = run('Calculate', D(r, 1))
        der = run('CalculateDerivative', D(r))
        o = rvc.identity('C12.%s.allN/deriv' % cls, '%s::CalculateDerivative' % cls, 'CalculateDerivative(r) == d/dr Calculate(r) on every interval of every grid', der.v, val.t, seed)
        o['functions'] = fn_meta(fns, cls, ['Calculate', 'CalculateDerivative'], rel)
        obs.append(o)
    return obs


def job_linear_grid_allN(seed):
    """LinSpline::Interpolate and Spline::GenerateGrid for every size (per-iteration contracts): the line of interval i passes through both of its data points; grid point i is min + i*h and
    the last point is max"""
    import z3
    rvc.reset()
    obs = []
    isym, nsym = sp.Symbol('i', integer=True, nonnegative=True), sp.Symbol('N', integer=True, positive=True)
    # --- linear spline
    rel = 'tools/src/libtools/linspline.cc'
    fns = rvc.functions(rvc.ast(rel, 'LinSpline'))
    fn = fns['Interpolate'][0]
    stmts = rvc.body_of(fn)['inner']
    loops = [k for k, st in enumerate(stmts) if st['kind'] == 'ForStmt']
    if len(loops) != 1:
        raise core.Undecided('LinSpline::Interpolate: one loop expected')
    x, y = FunVec('x', isym, nsym), FunVec('y', isym, nsym)
    av, bv = FunVec('a', isym, nsym), FunVec('b', isym, nsym)
    this = {'r_': x, 'a': av, 'b': bv}
    P = rvc.Paths(); P.start()
    rvc.CTX.base = [z3.Int('N') >= 2, z3.Int('i') >= 0, z3.Int('i') <= z3.Int('N') - 2]
    ex = Exec({'x': x, 'y': y, 'N': SInt(nsym)}, {'decide': P.decide}, fns, this)
    loop = stmts[loops[0]]
    ex.env[loop['inner'][0]['inner'][0]['name']] = SInt(isym)
    ex.stmt(loop['inner'][4])
    mf = fn_meta(fns, 'LinSpline', ['Interpolate', 'Calculate'], rel)
    okw = list(av.store) == ['i'] and list(bv.store) == ['i']
    o = Ob('C12.linear.allN/write', 'LinSpline::Interpolate', 'iteration i writes slope and intercept of interval i only', 'RVC', 'symbolic execution', core.PROVED if okw else core.REFUTED, 0, '%s %s' % (list(av.store), list(bv.store)), witness=None if okw else {})
    o['functions'] = mf; obs.append(o)
    if okw:
        r = sp.Symbol('r', real=True)
        exs = Exec({}, {'getInterval': lambda o_, rv: SInt(isym)}, fns, this)
        val = sp.sympify(D.lift(exs.call_fn(exs.pick_method('Calculate', 1), [D(r)], this)).v)
        for nm, k in (('left', 0), ('right', 1)):
            o = rvc.identity('C12.linear.allN/value.%s' % nm, 'LinSpline::Interpolate', 'on interval i the line takes the data value at the %s end, on every interval of every grid (so the spline interpolates and is continuous)' % nm,
                             val.subs(r, x.get(SInt(isym + k)).v), y.get(SInt(isym + k)).v, seed)
            o['functions'] = mf; obs.append(o)
    # --- GenerateGrid: loop invariant r_init == min + i*h
    rel2 = 'tools/src/libtools/spline.cc'
    fns2 = rvc.functions(rvc.ast(rel2, 'Spline::GenerateGrid'))
    fn2 = fns2['GenerateGrid'][0]
    st2 = rvc.body_of(fn2)['inner']
    lp = [k for k, st in enumerate(st2) if st['kind'] == 'ForStmt']
    if len(lp) != 1:
        raise core.Undecided('Spline::GenerateGrid: one loop expected')
    mn, mx, h = sp.Symbol('gmin', real=True), sp.Symbol('gmax', real=True), sp.Symbol('gstep', positive=True)
    grid = FunVec('grid', isym, nsym)
    sizes = []
    cb = {'to_int': lambda v: SInt(nsym), 'resize': lambda o_, k: sizes.append(SInt.ex(k)), 'size': lambda o_: SInt(nsym)}
    this2 = {'r_': grid}
    ex2 = Exec({'min': D(mn), 'max': D(mx), 'h': D(h)}, cb, fns2, this2)
    for st in st2[:lp[0]]:
        ex2.stmt(st)
    mf2 = fn_meta(fns2, 'Spline', ['GenerateGrid'], rel2)
    loop2 = st2[lp[0]]
    ex2.stmt(loop2['inner'][0]) if loop2['inner'][0].get('kind') else None          # the init expression: r_init = min, i = 0
    ok0 = rvc.nf_zero(D.lift(ex2.env['r_init']).v - mn) and rvc._i(ex2.env['i']) == 0 and sizes == [nsym]
    o = Ob('C12.grid.allN/entry', 'Spline::GenerateGrid', 'the grid is resized to the computed size and the loop starts with r_init = min, i = 0 (invariant r_init == min + i*h holds)', 'RVC', 'symbolic execution', core.PROVED if ok0 else core.REFUTED, 0, str(sizes), witness=None if ok0 else {})
    o['functions'] = mf2; obs.append(o)
    ex2.env['i'] = SInt(isym); ex2.env['r_init'] = D(mn + isym * h)
    ex2.stmt(loop2['inner'][4]); ex2.expr(loop2['inner'][3])
    okg = list(grid.store) == ['i'] and rvc.nf_zero(grid.store['i'].v - (mn + isym * h)) and sp.expand(SInt.ex(ex2.env['i']) - isym - 1) == 0 and rvc.nf_zero(D.lift(ex2.env['r_init']).v - (mn + (isym + 1) * h))
    o = Ob('C12.grid.allN/step', 'Spline::GenerateGrid', 'a pass under the invariant writes grid point i = min + i*h and re-establishes the invariant for i+1', 'RVC', 'symbolic execution + normal form', core.PROVED if okg else core.REFUTED, 0, str(grid.store)[:200], witness=None if okg else {})
    o['functions'] = mf2; obs.append(o)
    grid.store.clear()
    ex2.env['i'] = SInt(nsym - 1)                      # loop exit: i == size - 1
    ret = None
    try:
        for st in st2[lp[0] + 1:]:
            ex2.stmt(st)
    except Ret as rr:
        ret = rr.v
    oke = list(grid.store) == ['N-1'] and rvc.nf_zero(grid.store['N-1'].v - mx) and sp.expand(SInt.ex(ret) - nsym) == 0
    o = Ob('C12.grid.allN/last', 'Spline::GenerateGrid', 'after the loop the last grid point is set to max exactly and the size is returned', 'RVC', 'symbolic execution', core.PROVED if oke else core.REFUTED, 0, '%s ret=%s' % (grid.store, ret), witness=None if oke else {})
    o['functions'] = mf2; obs.append(o)
    return obs


def replay_periodic(obs):
    bad = [o for o in obs if o['status'] == core.REFUTED]
    if not bad:
        return
    try:
        exe = native.build('C12.periodic', open(os.path.join(CDIR, 'replay_periodic.cc')).read(),
                           ['tools/src/libtools/cubicspline.cc', 'tools/src/libtools/spline.cc', 'tools/src/libtools/linalg.cc'])
        mode = 'periodic' if any('periodic' in o['id'] for o in bad) else 'natural'
        rc, out, err = native.execute(exe, [mode])
        rep = {'reproduced': rc == 1, 'cmd': exe + ' ' + mode, 'rc': rc, 'stdout': out[-1200:], 'stderr': err[-400:], 'against': 'real CubicSpline (cubicspline.cc, spline.cc) with ASan+UBSan'}
    except core.Undecided as e:
        rep = {'reproduced': False, 'error': str(e)}
    for o in bad:
        o['replay'] = rep
        o['witness'] = {'grid': 'x = 0,1,2.5,3,4.5,6 (non-uniform)', 'data': 'y = sin(2 pi x / 6), periodic'}


def job_cubic_fit(seed, N=4):
    """AddToFitMatrix row . (f, f2) == Calculate(x); AddBCToFitMatrix rows == continuity / boundary equations"""
    rvc.reset()
    rel = 'tools/src/libtools/cubicspline.cc'
    fns = rvc.functions(rvc.ast(rel, 'CubicSpline'))
    xs, hs = knots(N)
    f, g = symvec('f', N), symvec('g', N)
    r = sp.Symbol('r', real=True)
    bound = 'N = %d knots' % N
    obs = []
    unk = [x.v for x in f.flat()] + [x.v for x in g.flat()]
    for iv in range(N - 1):
        this = {'r_': Mx.vec(xs), 'f_': f, 'f2_': g, 'boundaries_': 0}
        M = Mx(1, 2 * N)
        # AddToFitMatrix(M, x, offset1, offset2, scale) : scalar x version with 4 or 5 params
        m4 = [m for m in fns.get('AddToFitMatrix', []) if len(rvc.params_of(m)) == 4]
        if not m4:
            raise core.Undecided('front end: AddToFitMatrix(M, xvector, off1, off2) instantiation not found')
        ex = mk_exec(fns, this, iv)
        ex.call_fn(m4[0], [M, Mx.vec([r]), 0, 0], this)      # the instantiation used by CubicSpline::Fit
        row = sum((M.g(0, j).v * unk[j] for j in range(2 * N)), sp.Integer(0))
        val = call(fns, 'Calculate', this, [D(r)], iv)
        obs.append(rvc.identity('C12.cubic.fit/row.iv%d' % iv, 'CubicSpline::AddToFitMatrix', 'fit-matrix row(x) . (f,f2) == Calculate(x) on interval %d' % iv, row, val.v, seed, bound=bound))
    for bc, bcn in ((0, 'natural'), (1, 'periodic'), (2, 'derivzero')):
        this = {'r_': Mx.vec(xs), 'f_': f, 'f2_': g, 'boundaries_': bc}
        B = Mx(N, 2 * N)
        mb = [m for m in fns.get('AddBCToFitMatrix', [])]
        if not mb:
            raise core.Undecided('front end: AddBCToFitMatrix instantiation not found')
        ex = mk_exec(fns, this, None)
        ex.call_fn(mb[0], [B, 0, 0], this)
        rows = [sum((B.g(i, j).v * unk[j] for j in range(2 * N)), sp.Integer(0)) for i in range(N)]
        for i in range(1, N - 1):
            defect = slope(fns, this, i - 1, xs[i], r) - slope(fns, this, i, xs[i], r)
            obs.append(rvc.identity('C12.cubic.fitbc.%s/C1.knot%d' % (bcn, i), 'CubicSpline::AddBCToFitMatrix', "constraint row %d == first-derivative jump at knot %d" % (i, i), rows[i], defect, seed, bound=bound))
        if bc == 0:
            obs.append(rvc.identity('C12.cubic.fitbc.natural/end0', 'CubicSpline::AddBCToFitMatrix', 'constraint row 0 == f2_0', rows[0], g.g(0).v, seed, bound=bound))
            obs.append(rvc.identity('C12.cubic.fitbc.natural/endN', 'CubicSpline::AddBCToFitMatrix', 'constraint row N-1 == f2_{N-1}', rows[N - 1], g.g(N - 1).v, seed, bound=bound))
        elif bc == 2:
            obs.append(rvc.identity('C12.cubic.fitbc.derivzero/end0', 'CubicSpline::AddBCToFitMatrix', "constraint row 0 == +-S'(r_0)", rows[0] ** 2, slope(fns, this, 0, xs[0], r) ** 2, seed, bound=bound))
            obs.append(rvc.identity('C12.cubic.fitbc.derivzero/endN', 'CubicSpline::AddBCToFitMatrix', "constraint row N-1 == +-S'(r_{N-1})", rows[N - 1] ** 2, slope(fns, this, N - 2, xs[N - 1], r) ** 2, seed, bound=bound))
        else:
            obs.append(rvc.identity('C12.cubic.fitbc.periodic/value', 'CubicSpline::AddBCToFitMatrix', 'constraint row 0 == f_0 - f_{N-1} (equal end values)', rows[0], f.g(0).v - f.g(N - 1).v, seed, bound=bound))
            obs.append(rvc.identity('C12.cubic.fitbc.periodic/curv', 'CubicSpline::AddBCToFitMatrix', 'constraint row N-1 == f2_0 - f2_{N-1} (equal end curvature)', rows[N - 1], g.g(0).v - g.g(N - 1).v, seed, bound=bound))
    # frames: AddBCToFitMatrix(M, l, c) touches rows [l, l+N) only; AddBCSumZeroToFitMatrix(M, l, c) replaces row l by sum_i f_i and touches nothing else
    for bc, bcn in ((0, 'natural'), (1, 'periodic')):
        this = {'r_': Mx.vec(xs), 'f_': f, 'f2_': g, 'boundaries_': bc}
        def sentinel():
            return Mx(N + 3, 2 * N + 2, [[D(sp.Symbol('m_%d_%d' % (i, j), real=True)) for j in range(2 * N + 2)] for i in range(N + 3)])
        B = sentinel(); B0 = sentinel()
        ex = mk_exec(fns, this, None)
        ex.call_fn(fns['AddBCToFitMatrix'][0], [B, 1, 1], this)
        ok = all(B.g(i, j).v == B0.g(i, j).v for i in range(N + 3) for j in range(2 * N + 2) if not (1 <= i < 1 + N and 1 <= j < 1 + 2 * N))
        obs.append(Ob('C12.cubic.fitbc.%s/frame' % bcn, 'CubicSpline::AddBCToFitMatrix', 'only rows [l, l+N) and columns [c, c+2N) of the matrix are written', 'RVC', 'symbolic execution', core.BOUNDED if ok else core.REFUTED, 0, '', bound=bound, witness=None if ok else {}))
        ms = fns.get('AddBCSumZeroToFitMatrix', []) or rvc.functions(rvc.ast('csg/src/tools/csg_fmatch.cc', 'AddBCSumZeroToFitMatrix')).get('AddBCSumZeroToFitMatrix', [])   # only instantiated by csg_fmatch
        if not ms:
            raise core.Undecided('front end: AddBCSumZeroToFitMatrix instantiation not found')
        B = sentinel()
        ex = mk_exec(fns, this, None)
        ex.call_fn(ms[0], [B, 2, 1], this)
        ok = all(B.g(i, j).v == B0.g(i, j).v for i in range(N + 3) for j in range(2 * N + 2) if not (i == 2 and 1 <= j < 1 + 2 * N))
        obs.append(Ob('C12.cubic.fitsum0.%s/frame' % bcn, 'CubicSpline::AddBCSumZeroToFitMatrix', 'only row l, columns [c, c+2N) of the matrix is written', 'RVC', 'symbolic execution', core.BOUNDED if ok else core.REFUTED, 0, '', bound=bound, witness=None if ok else {}))
        row = sum((B.g(2, 1 + j).v * unk[j] for j in range(2 * N)), sp.Integer(0))
        obs.append(rvc.identity('C12.cubic.fitsum0.%s/row' % bcn, 'CubicSpline::AddBCSumZeroToFitMatrix', 'constraint row l == sum_i f_i (whatever the row held before)', row, sum((x.v for x in f.flat()), sp.Integer(0)), seed, bound=bound))
    mf = fn_meta(fns, 'CubicSpline', ['AddToFitMatrix', 'AddBCToFitMatrix', 'AddBCSumZeroToFitMatrix'], rel)
    for o in obs:
        o['functions'] = mf
    return obs


# ------------------------------------------------------------------------------------------------ Akima, linear

def job_akima(seed, N=6):
    rvc.reset()
    rel = 'tools/src/libtools/akimaspline.cc'
    fns = rvc.functions(rvc.ast(rel, 'AkimaSpline'))
    obs = []
    ms = [sp.Symbol('m%d' % i, real=True) for i in range(1, 5)]
    # getSlope on every sign path of the two fabs() and both outcomes of the degenerate test
    F = 'AkimaSpline::getSlope'
    for equal in (True, False):
        P = rvc.Paths()
        while True:
            P.start()
            rvc.CTX.base = []
            cb = {'isApproximatelyEqual': lambda a, b, tol: equal, 'decide': P.decide}
            ex = Exec({}, cb, fns, {})
            v = ex.call_fn(fns['getSlope'][0], [D(m) for m in ms], {})
            tag = 'eq' if equal else 'path%d' % P.count
            if equal:
                allm = {ms[i]: ms[0] for i in range(4)}
                obs.append(rvc.identity('C12.akima.getSlope/degenerate', F, 'degenerate branch returns (m2+m3)/2', v.v, (ms[1] + ms[2]) / 2, seed))
                obs.append(rvc.identity('C12.akima.getSlope/line', F, 'all four slopes equal m => slope m (line reproduction)', v.v.subs(allm), ms[0], seed))
            else:
                # convex combination of m2 and m3: v = (a m2 + b m3)/(a+b) with a,b >= 0 on this sign path
                a, b = sp.symbols('wa wb', positive=True)
                w2 = sp.together((v.v - ms[2]) / (ms[1] - ms[2]))     # weight of m2
                obs.append(rvc.logic('C12.akima.getSlope/convex.%s' % tag, F, 'slope is a convex combination of m2 and m3 on sign path %d' % P.count,
                                     z3.And(rvc.to_z3(sp.numer(w2)) * rvc.to_z3(sp.denom(w2)) >= 0,
                                            (rvc.to_z3(sp.denom(w2)) - rvc.to_z3(sp.numer(w2))) * rvc.to_z3(sp.denom(w2)) >= 0), pc=P.pc,
                                     extra=[rvc.to_z3(sp.denom(w2)) != 0]))
            if not P.next():
                break
    # Interpolate with getSlope as a callee contract (fresh slope symbols), natural boundaries: Hermite conditions per interval
    for bc, bcn in ((0, 'natural'), (1, 'periodic')):
        xs, hs = knots(N)
        y = symvec('y', N)
        slopes = []
        def getSlope_c(obj, a, b, c, d):
            # callee contract: getSlope is a function of its four arguments (same arguments => same slope), value otherwise arbitrary
            for (t, pa, pb, pc_, pd) in slopes:
                if all(rvc.nf_zero(D.lift(p).v - D.lift(q).v) for p, q in ((pa, a), (pb, b), (pc_, c), (pd, d))):
                    return D(t)
            t = sp.Symbol('t%d' % len(slopes), real=True)
            slopes.append((t, a, b, c, d))
            return D(t)
        this = {'boundaries_': bc, 'r_': Mx(0, 1), 'p0': Mx(0, 1), 'p1': Mx(0, 1), 'p2': Mx(0, 1), 'p3': Mx(0, 1), 't': Mx(0, 1)}
        sub = {k: v for k, v in fns.items() if k != 'getSlope'}
        try:
            call(sub, 'Interpolate', this, [Mx.vec(xs), y], None, None, {'getSlope': getSlope_c})
        except KeyError as e:
            raise core.Undecided('AkimaSpline member not modelled: %s' % e)
        r = sp.Symbol('r', real=True)
        bound = 'N = %d knots' % N
        tv = this['t']
        for iv in range(N - 1):
            val = call(fns, 'Calculate', this, [D(r, 1)], iv)
            der = call(fns, 'CalculateDerivative', this, [D(r)], iv)
            t = 'C12.akima.%s.iv%d' % (bcn, iv)
            obs.append(rvc.identity(t + '/deriv', 'AkimaSpline::CalculateDerivative', 'CalculateDerivative == d/dr Calculate (interval %d)' % iv, der.v, val.t, seed, bound=bound))
            obs.append(rvc.identity(t + '/left', 'AkimaSpline::Interpolate', 'S(x_i) == y_i', subs_d(val.v, r, xs[iv]), y.g(iv).v, seed, bound=bound))
            obs.append(rvc.identity(t + '/right', 'AkimaSpline::Interpolate', 'S(x_{i+1}) == y_{i+1} (C0)', subs_d(val.v, r, xs[iv + 1]), y.g(iv + 1).v, seed, bound=bound))
            obs.append(rvc.identity(t + '/slopeL', 'AkimaSpline::Interpolate', "S'(x_i) == t_i", subs_d(der.v, r, xs[iv]), tv.g(iv).v, seed, bound=bound))
            obs.append(rvc.identity(t + '/slopeR', 'AkimaSpline::Interpolate', "S'(x_{i+1}) == t_{i+1} (C1)", subs_d(der.v, r, xs[iv + 1]), tv.g(iv + 1).v, seed, bound=bound))
        if bc == 1:
            obs.append(rvc.identity('C12.akima.periodic/endslope', 'AkimaSpline::Interpolate', 'periodic: t_0 == t_{N-1} (equal end slope)', tv.g(0).v, tv.g(N - 1).v, seed, bound=bound))
    for o in obs:
        if o['id'] == 'C12.akima.periodic/endslope' and o['status'] == core.REFUTED:
            # the proof obligation (equal argument tuples) is sufficient, not necessary: a refutation needs the real code to disagree
            try:
                exe = native.build('C12.akima_periodic', open(os.path.join(CDIR, 'replay_akima_periodic.cc')).read(),
                                   ['tools/src/libtools/akimaspline.cc', 'tools/src/libtools/spline.cc'])
                rc, out, err = native.execute(exe, [])
                o['replay'] = {'reproduced': rc == 1, 'cmd': exe, 'rc': rc, 'stdout': out[-800:], 'stderr': err[-300:], 'against': 'real AkimaSpline with ASan+UBSan'}
                o['witness'] = {'grid': 'x = 0,1,2.5,3,4.5,5.2,6', 'data': 'sin(2 pi x/6) + 0.3 cos(4 pi x/6), y_6 = y_0'}
            except core.Undecided as e:
                o['replay'] = {'reproduced': False, 'error': str(e)}
            if not o['replay'].get('reproduced'):
                o['status'] = core.UNDECIDED
                o['detail'] = 'end slopes are computed from different argument tuples, but the native run on the real code did not show unequal slopes'
    mf = fn_meta(fns, 'AkimaSpline', ['Interpolate', 'Calculate', 'CalculateDerivative', 'getSlope'], rel)
    for o in obs:
        o['functions'] = mf
    return obs


def job_linspline(seed, N=4):
    rvc.reset()
    rel = 'tools/src/libtools/linspline.cc'
    fns = rvc.functions(rvc.ast(rel, 'LinSpline'))
    xs, hs = knots(N)
    y = symvec('y', N)
    this = {'boundaries_': 0, 'r_': Mx(0, 1), 'a': Mx(0, 1), 'b': Mx(0, 1)}
    call(fns, 'Interpolate', this, [Mx.vec(xs), y])
    r = sp.Symbol('r', real=True)
    obs = []
    bound = 'N = %d knots' % N
    for iv in range(N - 1):
        val = call(fns, 'Calculate', this, [D(r, 1)], iv)
        der = call(fns, 'CalculateDerivative', this, [D(r)], iv)
        t = 'C12.lin.iv%d' % iv
        obs.append(rvc.identity(t + '/deriv', 'LinSpline::CalculateDerivative', 'CalculateDerivative == d/dr Calculate', der.v, val.t, seed, bound=bound))
        obs.append(rvc.identity(t + '/left', 'LinSpline::Interpolate', 'S(x_i) == y_i', subs_d(val.v, r, xs[iv]), y.g(iv).v, seed, bound=bound))
        obs.append(rvc.identity(t + '/right', 'LinSpline::Interpolate', 'S(x_{i+1}) == y_{i+1}', subs_d(val.v, r, xs[iv + 1]), y.g(iv + 1).v, seed, bound=bound))
        coefs = [x.v for x in y.flat()]
        obs.append(rvc.identity(t + '/linear', 'LinSpline::Calculate', 'linear in the ordinates', val.v, sum(sp.diff(val.v, c) * c for c in coefs), seed, bound=bound))
    mf = fn_meta(fns, 'LinSpline', ['Interpolate', 'Calculate', 'CalculateDerivative'], rel)
    for o in obs:
        o['functions'] = mf
    return obs


def job_smooth(seed):
    """Table::Smooth: end points kept, straight-line data unchanged, inner points become (y[k-1] + 2 y[k] + y[k+1])/4 per pass"""
    rvc.reset()
    rel = 'tools/src/libtools/table.cc'
    fns = rvc.functions(rvc.ast(rel, 'Table::Smooth'))
    if 'Smooth' not in fns:
        raise core.Undecided('front end: Table::Smooth not found')
    fn = fns['Smooth'][0]
    obs = []
    F = 'Table::Smooth'
    for n in (2, 3, 4, 6):
        for passes in (1, 2):
            y = symvec('y', n)
            y0 = [e.v for e in y.flat()]
            this = {'y_': y, 'x_': symvec('x', n)}
            ex = Exec({'Nsmooth': passes}, {'size': lambda o=None: n}, {}, this)
            thrown = False
            try:
                ex.stmt(rvc.body_of(fn))
            except Ret:
                pass
            except Thrown:
                thrown = True
            tag = 'n%d.pass%d' % (n, passes)
            bound = '%d points, %d passes' % (n, passes)
            if n < 2:
                continue
            if n == 2:
                okk = (not thrown) and all(rvc.nf_zero(y.g(i).v - y0[i]) for i in range(n))
                obs.append(Ob('C12.smooth/%s/two-points' % tag, F, 'a table of two points is left unchanged', 'RVC', 'symbolic execution', core.BOUNDED if okk else core.REFUTED, 0, '', bound=bound, witness=None if okk else {'thrown': thrown}))
                continue
            obs.append(rvc.identity('C12.smooth/%s/first' % tag, F, 'first point unchanged', y.g(0).v, y0[0], seed, bound=bound))
            obs.append(rvc.identity('C12.smooth/%s/last' % tag, F, 'last point unchanged', y.g(n - 1).v, y0[n - 1], seed, bound=bound))
            al, be = sp.symbols('alpha beta', real=True)
            line = {y0[k]: al + be * k for k in range(n)}
            for k in range(1, n - 1):
                obs.append(rvc.identity('C12.smooth/%s/line%d' % (tag, k), F, 'straight-line data (uniform grid) is left unchanged', y.g(k).v.subs(line), al + be * k, seed, bound=bound))
                if passes == 1:
                    obs.append(rvc.identity('C12.smooth/%s/kernel%d' % (tag, k), F, 'one pass: y_k <- (y_{k-1} + 2 y_k + y_{k+1})/4 from the OLD values', y.g(k).v, (y0[k - 1] + 2 * y0[k] + y0[k + 1]) / 4, seed, bound=bound))
    mfx = [{'name': F, 'file': rel, 'ast_nodes': rvc.node_count(fn)}]
    for o in obs:
        o['functions'] = mfx
    return obs


# ------------------------------------------------------------------------------------------------ CCV: getInterval, GenerateGrid

def getinterval_tu(unbounded):
    ex = ccv.extract('tools/src/libtools/spline.cc', r'Index\s+Spline::getInterval\s*\(\s*double\s+r\s*\)')
    ccv.rule(ex, 'R-size', r'\br_\.size\(\)', 'self->r_n', None)      # count not pinned: a rewritten body must still be checked, not declared drift
    ccv.rule(ex, 'R-fcast', r'\b(double|Index|int|long)\s*\(([^()]*)\)', r'((\1)(\2))', 'any')      # functional cast of a scalar -> C cast (same meaning)
    ccv.rule(ex, 'R-scast', r'\bstatic_cast\s*<\s*(double|Index|int|long)\s*>\s*\(', r'(\1)(', 'any')
    if ccv.count_loops(ex) != 1:
        raise core.Undecided('extraction drift: getInterval has %d loops, contract knows 1' % ccv.count_loops(ex))
    if unbounded:
        ccv.insert_loop_contract(ex, 0, open(os.path.join(CDIR, 'getinterval.loop0.inv')).read())
    tu = open(os.path.join(CDIR, 'getinterval.contract.h')).read() + '\nIndex Spline_getInterval(struct Spline *self, double r)\n{' + ex.body + '}\n' + '''
struct Spline *in_self; double in_r;
void h_gi(void) { Index k = Spline_getInterval(in_self, in_r);
#ifndef VERIF_UNBOUNDED
  __CPROVER_assert(0, "canary: reachable after the call");   /* only in the twin: cvc5 cannot answer "sat" on quantified formulas */
#endif
}
'''
    return ex, tu


def replay_getinterval(o):
    w = o['witness']
    n = w.get('r_n')
    xs = [w.get('dynamic_object$1[%dl]' % i) for i in range(n or 0)]
    return {'reproduced': False, 'error': 'no native replay program for getInterval yet', 'witness_keys': sorted(w)[:20]}


def job_getinterval(mode):
    """mode 'unbounded': loop contract + quantified sortedness, cvc5, every size <= 100000; mode 'twin': size <= 8, SAT, unwinding assertions"""
    unb = mode == 'unbounded'
    ex, tu = getinterval_tu(unb)
    info = dict(ex.info(), name='Spline::getInterval', route='CCV (C mode, macro env, %s)' % mode,
                dropped='C++ signature line, namespaces, class declaration (stub struct: data pointer + size for Eigen::VectorXd)')
    if unb:
        obs = ccv.build_and_check('C12.getInterval.unbounded', 'Spline::getInterval', {'gi.c': tu}, 'h_gi', enforce='Spline_getInterval', loops=True,
                                  defines=['VERIF_UNBOUNDED', 'VERIF_MAXN=100000'], solver='cvc5', timeout=120,
                                  need=['postcondition', 'loop-invariant'], route_note='verbatim body, loop contract, all grid sizes 2..100000, IEEE doubles')
        # the unbounded form is opportunistic (DESIGN 3.4): when cvc5 gives no answer the twin alone decides, labelled bounded
        if any(o['status'] == core.UNDECIDED for o in obs):
            for o in obs:
                o['status'] = 'skipped'
            obs = [Ob('C12.getInterval.unbounded/opportunistic', 'Spline::getInterval', 'unbounded form (cvc5) gave no answer on this run; only the bounded twin counts', 'CCV', 'cbmc-smt2(cvc5)',
                      core.BOUNDED, 0, 'cvc5 timeout/unknown', bound='not decided beyond the twin bound')]
    else:
        obs = ccv.build_and_check('C12.getInterval.twin', 'Spline::getInterval', {'gi.c': tu}, 'h_gi', enforce='Spline_getInterval',
                                  defines=['VERIF_MAXN=8'], unwind=10, timeout=240, expect_fail=['canary'], need=['postcondition'],
                                  bound='grid size <= 8 (every double value symbolic)', route_note='verbatim body, quantifier-free twin')
    for o in obs:
        o['functions'] = [info]
    return obs


def job_getinterval_real(n, seed=0):
    """Spline::getInterval over the reals from the AST (RVC), grids of n symbolic knots: complements the CBMC contract - it also decides bodies
    whose IEEE encoding CBMC cannot finish (e.g. a start index computed by a division).  A double->Index conversion enters by its contract
    (truncation), enumerated over the indices -2..n+1; an index outside the knot vector is reported as such."""
    import z3
    rvc.reset()
    fns = rvc.functions(rvc.ast('tools/src/libtools/spline.cc', 'Spline::getInterval'))
    if 'getInterval' not in fns:
        raise core.Undecided('front end: Spline::getInterval not found')
    fn = fns['getInterval'][0]
    F = 'Spline::getInterval'
    bound = '%d knots (symbolic, strictly increasing), real arithmetic' % n
    x0 = sp.Symbol('x0', real=True)
    gaps = [sp.Symbol('g%d' % i, positive=True) for i in range(n - 1)]
    xs = [x0 + sum(gaps[:i]) for i in range(n)]
    r = sp.Symbol('r', real=True)
    P = rvc.Paths()
    obs = []
    zx = [rvc.to_z3(x) for x in xs]
    zr = z3.Real('r')
    while True:
        P.start()
        rvc.CTX.base = [z3.Real('g%d' % i) > 0 for i in range(n - 1)]
        oob = []
        class Knots(Mx):
            pass
        kn = Mx.vec(xs)
        def to_int(v):
            vv = D.lift(v).v
            for k in range(-2, n + 2):
                lo, hi = (sp.Le(k, vv), sp.Lt(vv, k + 1)) if k > 0 else ((sp.Lt(k - 1, vv), sp.Le(vv, k)) if k < 0 else (sp.Lt(-1, vv), sp.Lt(vv, 1)))    # truncation toward zero
                if P.decide(sp.And(lo, hi)):
                    return k
            raise rvc.Unsupported('double->Index conversion outside the enumerated range')
        class KV:
            def index_ref(s_, idx):
                i = rvc._i(idx[0])
                if not isinstance(i, int):
                    raise rvc.Unsupported('symbolic knot index')
                if not (0 <= i < n):
                    oob.append(i)
                    return D(sp.Symbol('oob%d' % len(oob), real=True))
                return D(xs[i])
            def size(s_): return n
        this = {'r_': KV()}
        ex = Exec({'r': D(r)}, {'decide': P.decide, 'to_int': to_int}, {}, this)
        ret = None
        try:
            ex.stmt(rvc.body_of(fn))
        except Ret as rr:
            ret = rr.v
        t = 'n%d.p%d' % (n, P.count)
        ri = rvc._i(ret) if ret is not None else None
        small = [z3.Real('x0') == 0] + [z3.Real('g%d' % i) * 8 == z3.ToReal(z3.Int('q%d' % i)) for i in range(n - 1)] + [z3.Int('q%d' % i) <= 64 for i in range(n - 1)] + [zr * 8 == z3.ToReal(z3.Int('qr'))]
        o1 = rvc.logic('C12.getInterval.real/%s/in-range' % t, F, 'every knot access is inside the knot vector', z3.BoolVal(not oob), pc=P.pc, bound=bound, small=small)
        obs.append(o1)
        if isinstance(ri, int):
            inside = z3.And(zr >= zx[0], zr < zx[n - 1])
            claim = z3.And(0 <= ri, ri <= n - 2,
                           z3.Implies(inside, z3.And(zx[max(0, min(ri, n - 1))] <= zr, zr < zx[max(0, min(ri + 1, n - 1))])) if 0 <= ri <= n - 2 else z3.Not(inside),
                           z3.Implies(zr < zx[0], ri == 0), z3.Implies(zr >= zx[n - 1], ri == n - 2))
            o = rvc.logic('C12.getInterval.real/%s/interval' % t, F, 'result in [0, n-2]; x[result] <= r < x[result+1] for r inside the grid; clamped to the first / last interval outside', claim, pc=P.pc, bound=bound, small=small)
            o['detail'] = (o.get('detail') or '') + ' returned %d' % ri
            obs.append(o)
        else:
            obs.append(Ob('C12.getInterval.real/%s/interval' % t, F, 'returns an interval index', 'RVC', 'symbolic execution', core.REFUTED, 0, 'returned %r' % (ret,), witness={}, bound=bound))
        if not P.next():
            break
    mf = [{'name': F, 'file': 'tools/src/libtools/spline.cc', 'ast_nodes': rvc.node_count(fn), 'route': 'RVC (real arithmetic, bounded grid size)'}]
    for o in obs:
        o['functions'] = mf
    bad = [o for o in obs if o['status'] == core.REFUTED and o.get('witness')]
    if bad:
        try:
            exe = native.build('C12.getinterval', open(os.path.join(CDIR, 'replay_getinterval.cc')).read(), ['tools/src/libtools/spline.cc', 'tools/src/libtools/linspline.cc'])
            for o in bad:
                w = o['witness']
                try:
                    vals = [float(sp.Rational(w.get('x0', '0')))]
                    for i in range(n - 1):
                        vals.append(vals[-1] + float(sp.Rational(w['g%d' % i])))
                    rv = float(sp.Rational(w['r']))
                except (KeyError, TypeError, ValueError):
                    o['replay'] = {'reproduced': False, 'error': 'witness incomplete'}
                    continue
                args = [repr(rv)] + [repr(v) for v in vals]
                rc, out, err = native.execute(exe, args)
                o['replay'] = {'reproduced': rc == 1, 'cmd': exe + ' ' + ' '.join(args), 'rc': rc, 'stdout': out[-600:], 'stderr': err[-600:], 'against': 'real Spline::getInterval through LinSpline (spline.cc) with ASan+UBSan'}
        except core.Undecided as e:
            for o in bad:
                o['replay'] = {'reproduced': False, 'error': str(e)}
    return obs


def job_grid(which, seed=0):
    """Spline::GenerateGrid / Table::GenerateGridSpacing over the reals (RVC): the float-to-index conversion enters by its contract
    (k = trunc(q + 1.00000001), enumerated k = 1..5), the loop then runs k-1 times.  (A CBMC/IEEE version of this contract - loop contract,
    division, conversion check - did not finish in 15 minutes: one double division is already beyond what SAT discharges here.)"""
    rvc.reset()
    if which == 'spline':
        rel, nm, cls = 'tools/src/libtools/spline.cc', 'GenerateGrid', 'Spline'
    else:
        rel, nm, cls = 'tools/src/libtools/table.cc', 'GenerateGridSpacing', 'Table'
    fns = rvc.functions(rvc.ast(rel, '%s::%s' % (cls, nm)))
    if nm not in fns:
        raise core.Undecided('front end: %s::%s not found' % (cls, nm))
    fn = fns[nm][0]
    F = '%s::%s' % (cls, nm)
    mn, mx, h = sp.Symbol('gmin', real=True), sp.Symbol('gmax', real=True), sp.Symbol('gstep', positive=True)
    obs = []
    for k in range(1, 6):
        grid = Mx(0, 1)
        conv = []
        def to_int(v, k=k):
            conv.append(v.v)
            return k
        def resize(o, n):
            grid.r, grid.c = rvc._i(n), 1
            grid.d = [[D(rvc.fresh('uninit'))] for _ in range(grid.r)]
        this = {'r_': grid, 'x_': grid}
        cb = {'to_int': to_int, 'resize': resize}
        args = {'min': D(mn), 'max': D(mx), 'h': D(h), 'spacing': D(h)}
        ex = Exec(args, cb, {}, this)
        ret = None
        try:
            ex.stmt(rvc.body_of(fn))
        except Ret as r:
            ret = r.v
        bound = 'grid of %d points (trunc((max-min)/step + 1.00000001) = %d)' % (k, k)
        tag = '%s.k%d' % (which, k)
        off = sp.simplify(conv[0] - (mx - mn) / h) if len(conv) == 1 else None
        okc = off is not None and off.is_Rational and abs(float(off) - 1.00000001) < 1e-12        # the literal 1.00000001 (as a double)
        obs.append(Ob('C12.grid/%s/size' % tag, F, 'size == trunc((max - min)/step + 1.00000001)', 'RVC', 'normal form', core.BOUNDED if okc and grid.r == k else core.REFUTED, 0, '', bound=bound,
                      witness=None if okc and grid.r == k else {'converted': str(conv), 'size': grid.r}))
        if which == 'spline':
            okr = ret == k or (isinstance(ret, int) and ret == k)
            obs.append(Ob('C12.grid/%s/return' % tag, F, 'returns the number of grid points', 'RVC', 'symbolic execution', core.BOUNDED if okr else core.REFUTED, 0, str(ret), bound=bound, witness=None if okr else {'ret': str(ret)}))
        obs.append(rvc.identity('C12.grid/%s/last' % tag, F, 'the last grid point is max exactly', grid.g(k - 1).v, mx, seed, bound=bound))
        sp_exp = h if which == 'spline' else ((mx - mn) / (k - 1) if k > 1 else None)
        for i in range(k - 1):
            obs.append(rvc.identity('C12.grid/%s/point%d' % (tag, i), F, 'grid point i == min + i * %s' % ('step' if which == 'spline' else '(max-min)/(n-1)'), grid.g(i).v, mn + i * sp_exp, seed, bound=bound))
    mfx = [{'name': F, 'file': rel, 'ast_nodes': rvc.node_count(fn)}]
    for o in obs:
        o['functions'] = mfx
    return obs


def collect(obs):
    seen = set(f['name'] for f in META['functions'])
    for o in obs:
        for f in o.pop('functions', []) or []:
            if f['name'] not in seen:
                seen.add(f['name'])
                META['functions'].append(f)


def jobs_rvc(tier, seed):
    Ns = (3, 4, 5) if tier == 'quick' else (3, 4, 5, 6)
    jobs = [(job_cubic_interval, (seed,)), (job_cubic_fit, (seed,)), (job_akima, (seed,)), (job_linspline, (seed,)), (job_smooth, (seed,))]
    for N in Ns:
        for bc in (0, 1):
            jobs.append((job_cubic_interpolate, (seed, N, bc)))
    return jobs


def replay_fit(obs):
    """native replay behind refuted fit-constraint obligations (structural, no verifier input): the real CubicSpline::Fit on a non-uniform grid"""
    bad = [o for o in obs if o['status'] == core.REFUTED and '.fitbc.' in o['id'] and not o.get('replay')]
    if not bad:
        return
    try:
        exe = native.build('C12.fit', open(os.path.join(CDIR, 'replay_fit.cc')).read(), [], sanitize=False, opt='-O1', libs=native.libs(('votca_tools',)))
        rc, out, err = native.execute(exe, [], timeout=300)
        rep = {'reproduced': rc == 1, 'cmd': exe, 'rc': rc, 'stdout': out[-1000:], 'against': 'real CubicSpline::Fit / AddBCToFitMatrix / linalg_constrained_qrsolve (libvotca_tools from the working tree)',
               'input_from': 'seeded input in the precondition domain (non-uniform fit grid, three boundary conditions)'}
    except core.Undecided as e:
        rep = {'reproduced': False, 'error': str(e)}
    for o in bad:
        o['replay'] = rep


def run(tier, seed, only=None):
    jobs = jobs_rvc(tier, seed) + [(job_cubic_interpolate_allN, (seed, 0)), (job_cubic_interpolate_allN, (seed, 1)), (job_cubic_fitbc_allN, (seed, 0)), (job_cubic_fitbc_allN, (seed, 1)), (job_akima_allN, (seed,)), (job_deriv_allN, (seed,)), (job_linear_grid_allN, (seed,))] + [(job_getinterval, ('unbounded',)), (job_getinterval, ('twin',))] + [(job_getinterval_real, (k, seed)) for k in ((3, 4) if tier == 'quick' else (3, 4, 5, 6))] + [(job_grid, ('spline', seed)), (job_grid, ('table', seed))]
    if only:
        jobs = [j for j in jobs if re.search(only, j[0].__name__ + str(j[1]))]
    obs = core.pmap(jobs)
    replay_fit(obs)
    collect(obs)
    return obs, META
