"""C20 - unit conversions and physical constants are consistent and physically right (DESIGN.md section 5, C20)

The real tools/include/votca/tools/unitconverter.h is compiled WHOLE by CBMC's C++ front end (one counted rewrite, an empty <map>
stub); the constants of tools/constants.h and the element tables of elements.cc are extracted by counted regular expressions.
Every obligation is a closed IEEE-754 expression over all enumerators; CBMC evaluates it exactly.  The domain is finite and fully
enumerated (exhaustive)."""
import os, re, json, time, itertools
from vlib import core, ccv, native
from vlib.core import Ob

CDIR = os.path.join(core.VERIF, 'contracts', 'C20')
META = {
    'level': 'proof', 'exhaustive': True, 'functions': [],
    'trusted_base': ['CBMC 6.11 C++ front end and its IEEE-754 double semantics (constant evaluation, SAT back end)',
                     'CODATA 2018 reference values in contracts/C20/reference.json',
                     'counted regex extraction of `const double` definitions (constants.h) and table statements (elements.cc)'],
    'assumptions': ['"agrees to four significant digits" is read as relative difference < 5e-4', 'identities (reciprocity, transitivity, quotients) hold to 1e-12 relative'],
    'not_decided': ['values of van-der-Waals radii, polarisabilities and covalent radii of the element tables (no second source in the library)'],
}
DIMS = ['DistanceUnit', 'MassUnit', 'TimeUnit', 'EnergyUnit', 'MolarEnergyUnit', 'ChargeUnit', 'VelocityUnit', 'ForceUnit', 'MolarForceUnit']


def prepare():
    ref = json.load(open(os.path.join(CDIR, 'reference.json')))
    hdr_rel = 'tools/include/votca/tools/unitconverter.h'
    src = open(os.path.join(core.REPO, hdr_rel)).read()
    clean = ccv.strip_map(src)
    enums = {}
    for m in re.finditer(r'\benum\s+(\w+)\s*\{([^}]*)\}', clean):
        enums[m.group(1)] = [x.strip() for x in m.group(2).split(',') if x.strip()]
    for d in DIMS:
        if d not in enums:
            raise core.Undecided('extraction drift: enum %s not found in unitconverter.h' % d)
    extra = [e for e in enums if e not in DIMS]
    if extra:
        raise core.Undecided('extraction drift: unitconverter.h has unit dimensions the contract does not know: %s' % extra)
    # R-enumscope: CBMC's C++ front end does not accept qualified access to unscoped enumerators
    mod, n = re.subn(r'\b(%s)::(\w+)' % '|'.join(DIMS), r'\2', src)
    if n == 0:
        raise core.Undecided('extraction drift: rule R-enumscope fired 0 times')
    gen = core.workdir('ccv', 'C20.gen')
    os.makedirs(os.path.join(gen, 'votca', 'tools'), exist_ok=True)
    open(os.path.join(gen, 'votca', 'tools', 'unitconverter.h'), 'w').write(mod)
    open(os.path.join(gen, 'map'), 'w').write('/* empty stub: unitconverter.h includes <map> but does not use it */\n')
    META['functions'].append({'name': 'UnitConverter (whole class: all get*Value_ tables and convert overloads)', 'file': hdr_rel, 'body_sha256': core.sha256(src),
                              'rules_fired': [{'rule': 'R-enumscope', 'fired': n}], 'dropped': 'nothing but the enum qualifiers; <map> replaced by an empty stub'})
    # constants.h
    crel = 'tools/include/votca/tools/constants.h'
    csrc = ccv.strip_map(open(os.path.join(core.REPO, crel)).read())
    consts = re.findall(r'const\s+double\s+(\w+)\s*=\s*([^;]+);', csrc)
    consts = [(k, v.strip()) for k, v in consts if k != 'Pi']
    names = [k for k, _ in consts]
    for need in ('kB', 'hbar', 'bohr2nm', 'nm2bohr', 'ang2bohr', 'bohr2ang', 'nm2ang', 'ang2nm', 'hrt2ev', 'ev2hrt', 'ev2kj_per_mol', 'kcal2kj', 'kj2kcal'):
        if need not in names:
            raise core.Undecided('extraction drift: constant %s not found in constants.h' % need)
    unknown = [k for k in names if k not in ('kB', 'hbar', 'bohr2nm', 'nm2bohr', 'ang2bohr', 'bohr2ang', 'nm2ang', 'ang2nm', 'hrt2ev', 'ev2hrt', 'ev2kj_per_mol', 'kcal2kj', 'kj2kcal')]
    if unknown:
        raise core.Undecided('extraction drift: constants.h defines constants the contract does not cover: %s' % unknown)
    META['functions'].append({'name': 'tools::conv constants', 'file': crel, 'body_sha256': core.sha256(repr(consts)), 'rules_fired': [{'rule': 'R-const (const double NAME = EXPR;)', 'fired': len(consts)}]})
    return ref, enums, consts


def rel_assert(lhs, rhs, tol, text):
    return '  { double a_ = (%s), b_ = (%s); __CPROVER_assert(b_ != 0.0 && fabs(a_ / b_ - 1.0) < %s, "%s"); }\n' % (lhs, rhs, repr(tol), text.replace('"', "'"))


def gen_assertions(ref, enums, consts):
    """list of (group, text, lhs, rhs, tol)"""
    tol4, tol = ref['rel_tol_4sig'], ref['rel_tol_identity']
    A = []
    for d in DIMS:
        es = enums[d]
        for a in es:
            for b in es:
                A.append(('reciprocity', '%s: convert(%s,%s)*convert(%s,%s) == 1' % (d, a, b, b, a), 'uc.convert(%s::%s, %s::%s) * uc.convert(%s::%s, %s::%s)' % (d, a, d, b, d, b, d, a), '1.0', tol))
        for a in es:
            for b in es:
                for c in es:
                    A.append(('transitivity', '%s: convert(%s,%s)*convert(%s,%s) == convert(%s,%s)' % (d, a, b, b, c, a, c),
                              'uc.convert(%s::%s, %s::%s) * uc.convert(%s::%s, %s::%s)' % (d, a, d, b, d, b, d, c), 'uc.convert(%s::%s, %s::%s)' % (d, a, d, c), tol))
    for d, table in ref['derived'].items():
        if sorted(table) != sorted(enums[d]):
            raise core.Undecided('contract drift: derived-unit table of %s does not list exactly its enumerators' % d)
        for a in enums[d]:
            for b in enums[d]:
                (n1, d1), (n2, d2) = table[a], table[b]
                A.append(('quotient', '%s: convert(%s,%s) == numerator conversion / denominator conversion' % (d, a, b), 'uc.convert(%s::%s, %s::%s)' % (d, a, d, b),
                          'uc.convert(%s, %s) / uc.convert(%s, %s)' % (n1, n2, d1, d2), tol))
    me = ref['molar_equals_particle']
    if sorted(me) != sorted(enums['MolarEnergyUnit']):
        raise core.Undecided('contract drift: molar energy table')
    for a in enums['MolarEnergyUnit']:
        for b in enums['MolarEnergyUnit']:
            A.append(('molar', 'molar energy convert(%s,%s) == per-particle convert(%s,%s)' % (a, b, me[a], me[b]), 'uc.convert(MolarEnergyUnit::%s, MolarEnergyUnit::%s)' % (a, b),
                      'uc.convert(EnergyUnit::%s, EnergyUnit::%s)' % (me[a], me[b]), tol))
    cod = ref['codata']
    def val(x):
        return repr(cod[x]) if x in cod else x
    for expr, r in ref['unitconverter_vs_codata']:
        A.append(('codata', 'UnitConverter %s agrees with CODATA/SI %s to 4 significant digits' % (expr, r), 'uc.' + expr if expr.startswith('convert') else expr, val(r), tol4))
    for expr, r in ref['constants_vs']:
        A.append(('constants', 'conv:: %s agrees with %s to 4 significant digits' % (expr, r), expr, val(r), tol4 if ('uc.' in r or r in cod) else tol4))
    A += lammps_field_assertions(ref)
    for p in ref['io_factor_pairs']:
        for side in ('reader', 'writer'):
            s = ccv.strip_map(open(os.path.join(core.REPO, p[side])).read())
            n = len(re.findall(p[side + '_re'], s))
            if n != p[side + '_count']:
                raise core.Undecided('extraction drift: %s: unit factor /%s/ found %d times, expected %d' % (p[side], p[side + '_re'], n, p[side + '_count']))
        A.append(('io', '%s: reader factor * writer factor == 1' % p['what'], '(%s) * (%s)' % (p['reader_expr'], p['writer_expr']), '1.0', tol))
    return A


def lammps_field_assertions(ref):
    """unit contract of every per-field statement of LAMMPSDumpReader::ReadAtoms: the value read from the file is multiplied by exactly the
    Angstrom -> nm (positions), nothing but the box length already in nm (scaled positions), or kcal/mol/Angstrom -> kJ/mol/nm (forces) factor.
    The right-hand sides are products of the file value (checked syntactically), so they are evaluated at value 1 and box length 3."""
    rel = 'csg/src/libcsg/modules/io/lammpsdumpreader.cc'
    src = ccv.strip_map(open(os.path.join(core.REPO, rel)).read())
    st = re.findall(r'fields\[j\]\s*==\s*"\s*"\)\s*\{\s*b->(Pos|Vel|F)\(\)\.([xyz])\(\)\s*=\s*([^;]+);', src)
    # strip_map blanks string literals: recover the field names from the unstripped text at the same positions
    raw = open(os.path.join(core.REPO, rel)).read()
    items = []
    for m in re.finditer(r'fields\[j\]\s*==\s*"(\w+)"\)\s*\{\s*b->(Pos|Vel|F)\(\)\.([xyz])\(\)\s*=\s*([^;]+);', raw):
        if src[m.start():m.start() + 6] != 'fields':
            continue        # inside a comment
        rhs = re.sub(r'//.*', '', m.group(4)).strip()
        items.append((m.group(1), m.group(2), m.group(3), rhs))
    if len(items) != 15:
        raise core.Undecided('extraction drift: %d per-field statements in LAMMPSDumpReader::ReadAtoms, contract knows 15' % len(items))
    nbox = len(re.findall(r'top\.setBox\(\s*m\s*\*\s*tools::conv::ang2nm\s*\)', src))
    if nbox != 1:
        raise core.Undecided('extraction drift: ReadBox no longer stores the box as m * conv::ang2nm (%d matches)' % nbox)
    META['functions'].append({'name': 'LAMMPSDumpReader::ReadAtoms (per-field unit statements)', 'file': rel, 'rules_fired': [{'rule': 'R-field (fields[j] == "f") { b->X().c() = EXPR; }', 'fired': len(items)}]})
    A = []
    tol4 = ref['rel_tol_4sig']
    for field, kind, comp, rhs in items:
        if rhs.count('stod(*itok)') != 1 or re.search(r'[+\-]', rhs.replace('->', '')):
            raise core.Undecided('extraction drift: right-hand side of field %s is not a product of the file value: %s' % (field, rhs))
        e = rhs.replace('stod(*itok)', '1.0')
        e = re.sub(r'\bm\(\s*(\d)\s*,\s*\1\s*\)', '3.0', e)
        e = e.replace('tools::conv::', '')
        if kind == 'Pos' and field.endswith('s'):
            exp, what = '3.0', 'scaled coordinate * box length (the box is stored in nm): no further length factor'
        elif kind == 'Pos':
            exp, what = 'uc.convert(DistanceUnit::angstroms, DistanceUnit::nanometers)', 'Angstrom -> nm'
        elif kind == 'F':
            exp, what = 'uc.convert(MolarForceUnit::kilocalories_per_mole_angstrom, MolarForceUnit::kilojoules_per_mole_nanometer)', 'kcal/mol/Angstrom -> kJ/mol/nm'
        else:
            continue        # velocities: only reader/writer reciprocity is claimed (time unit of the dump is not fixed by the format)
        A.append(('io', 'lammps dump field %s: factor applied to the file value == %s' % (field, what), e, exp, tol4))
    return A


def elements_tables():
    rel = 'tools/src/libtools/elements.cc'
    src = ccv.strip_map_keep_strings(open(os.path.join(core.REPO, rel)).read()) if hasattr(ccv, 'strip_map_keep_strings') else open(os.path.join(core.REPO, rel)).read()
    T = {}
    for name in ('Mass_', 'NucCrg_', 'EleNum_', 'EleName_', 'EleShort_', 'EleFull_'):
        ent = re.findall(r'^\s*%s\[\s*("?)([^\]"]+)\1\s*\]\s*=\s*("?)([^;"]+)\3\s*;' % name, src, re.M)
        if len(ent) < 10:
            raise core.Undecided('extraction drift: table %s has %d entries' % (name, len(ent)))
        T[name] = [(e[1], e[3].strip()) for e in ent]
    META['functions'].append({'name': 'Elements::FillMass/FillNucCrg/FillEleNum/FillEleName/FillEleShort/FillEleFull (table statements)', 'file': rel,
                              'rules_fired': [{'rule': 'R-table %s' % k, 'fired': len(v)} for k, v in T.items()]})
    return T


def gen_elements_c(T, ref):
    syms = sorted(set(k for k, _ in T['EleNum_']) | set(k for k, _ in T['Mass_']) | set(k for k, _ in T['NucCrg_']) | set(v for _, v in T['EleName_']) | set(k for k, _ in T['EleFull_']) | set(v for _, v in T['EleShort_']))
    sid = {s: i for i, s in enumerate(syms)}
    full = sorted(set(k for k, _ in T['EleShort_']) | set(v for _, v in T['EleFull_']))
    fid = {s: i for i, s in enumerate(full)}
    n = len(syms)
    num = dict(T['EleNum_'])
    c = ['#include <math.h>', '#define NSYM %d' % n, '/* symbol ids: %s */' % ' '.join('%s=%d' % (s, i) for s, i in sid.items())]
    def arr(name, pairs, keyf, valf, ty):
        c.append('static const int %s_key[%d] = {%s};' % (name, len(pairs), ', '.join(str(keyf(k)) for k, _ in pairs)))
        c.append('static const %s %s_val[%d] = {%s};' % (ty, name, len(pairs), ', '.join(str(valf(v)) for _, v in pairs)))
        c.append('#define %s_N %d' % (name, len(pairs)))
    arr('elenum', T['EleNum_'], lambda k: sid[k], int, 'int')
    arr('nuccrg', T['NucCrg_'], lambda k: sid[k], float, 'double')
    arr('mass', T['Mass_'], lambda k: sid[k], float, 'double')
    arr('elename', T['EleName_'], int, lambda v: sid[v], 'int')
    arr('eleshort', T['EleShort_'], lambda k: fid[k], lambda v: sid[v], 'int')
    arr('elefull', T['EleFull_'], lambda k: sid[k], lambda v: fid[v], 'int')
    inv = [(a, b) for a, b in ref['mass_inversions'] if a in sid and b in sid]      # pairs beyond the tabulated range do not apply
    saw, zref = ref['standard_atomic_weights'], ref['atomic_numbers']
    missing = [k for k, _ in T['Mass_'] if k not in saw] + [k for k, _ in T['EleNum_'] if k not in zref]
    if missing:
        raise core.Undecided('contract drift: no reference value for element(s) %s' % sorted(set(missing)))
    refasserts = ''.join('  __CPROVER_assert(fabs(%s / %r - 1.0) < 5e-4, "mass of %s agrees with the standard atomic weight %r to 4 significant digits");\n' % (float(v), saw[k], k, saw[k]) for k, v in T['Mass_'])
    refasserts += ''.join('  __CPROVER_assert(%d == %d, "atomic number of %s equals %d");\n' % (int(v), zref[k], k, zref[k]) for k, v in T['EleNum_'])
    c.append('static int inversion(int a, int b) { return %s; }' % (' || '.join('(a == %d && b == %d)' % (sid[a], sid[b]) for a, b in inv) or '0'))
    c.append(r'''
static int lookup(const int *keys, int n, int k) { for (int i = 0; i < n; i++) if (keys[i] == k) return i; return -1; }
void h_elements(void) {
  /* atomic numbers: injective, within 1..118, no duplicate symbol (the table skips the lanthanides, so it is not onto 1..N) */
  for (int i = 0; i < elenum_N; i++) {
    __CPROVER_assert(elenum_val[i] >= 1 && elenum_val[i] <= 118, "atomic number within 1..118");
    for (int j = i + 1; j < elenum_N; j++) {
      __CPROVER_assert(elenum_val[i] != elenum_val[j], "atomic numbers are distinct");
      __CPROVER_assert(elenum_key[i] != elenum_key[j], "element symbols occur once in the atomic-number table");
    }
  }
  /* number -> symbol table is the inverse of symbol -> number */
  for (int i = 0; i < elename_N; i++) {
    int k = lookup(elenum_key, elenum_N, elename_val[i]);
    __CPROVER_assert(k >= 0 && elenum_val[k] == elename_key[i], "EleName is the inverse of EleNum");
  }
  __CPROVER_assert(elename_N == elenum_N, "EleName and EleNum have the same number of entries");
  /* nuclear charge equals atomic number */
  for (int i = 0; i < nuccrg_N; i++) {
    int k = lookup(elenum_key, elenum_N, nuccrg_key[i]);
    __CPROVER_assert(k >= 0 && nuccrg_val[i] == (double)elenum_val[k], "nuclear charge equals atomic number");
  }
  /* masses: positive, and increasing with atomic number except at the listed inversions */
@REFASSERTS@
  for (int i = 0; i < mass_N; i++) {
    __CPROVER_assert(mass_val[i] > 0.0, "mass positive");
    int ki = lookup(elenum_key, elenum_N, mass_key[i]);
    __CPROVER_assert(ki >= 0, "every element with a mass has an atomic number");
    for (int j = 0; j < mass_N; j++) {
      int kj = lookup(elenum_key, elenum_N, mass_key[j]);
      if (ki >= 0 && kj >= 0 && elenum_val[kj] == elenum_val[ki] + 1)
        __CPROVER_assert(mass_val[j] > mass_val[i] || inversion(mass_key[i], mass_key[j]), "mass increases with atomic number (known inversions excepted)");
    }
    /* mass is roughly between Z and 3 Z (hydrogen: 1) */
    if (ki >= 0) __CPROVER_assert(mass_val[i] >= 0.99 * elenum_val[ki] && mass_val[i] <= 3.0 * elenum_val[ki], "mass between Z and 3Z");
  }
  /* short <-> full names are inverse of each other */
  for (int i = 0; i < eleshort_N; i++) {
    int k = lookup(elefull_key, elefull_N, eleshort_val[i]);
    __CPROVER_assert(k >= 0 && elefull_val[k] == eleshort_key[i], "EleFull is the inverse of EleShort");
  }
  __CPROVER_assert(eleshort_N == elefull_N, "EleShort and EleFull have the same number of entries");
  __CPROVER_assert(0, "canary: reachable end of the element harness");
}''')
    return ('\n'.join(c) + '\n').replace('@REFASSERTS@', refasserts), max(len(T['EleNum_']), len(T['Mass_'])) + 2


def job_units(ref, enums, consts, group, part=0, nparts=1, chunk=40):
    A = [a for a in gen_assertions(ref, enums, consts) if a[0] in group]
    cdefs = ''.join('static const double %s = %s;\n' % (k, v) for k, v in consts)
    gen = core.workdir('ccv', 'C20.gen')
    tag = '_'.join(group) + ('.p%d' % part if nparts > 1 else '')
    d = core.workdir('ccv', 'C20.units.' + tag)
    chunks = [A[i:i + chunk] for i in range(0, len(A), chunk)][part::nparts]     # symex time of one huge harness is quadratic: many small entry points instead
    tu = '#include "votca/tools/unitconverter.h"\nusing namespace votca::tools;\nextern "C" double fabs(double);\n' + cdefs
    for k, ch in enumerate(chunks):
        # the harness uses the same R-enumscope rewrite as the header (CBMC's front end rejects qualified unscoped enumerators)
        us = lambda e: re.sub(r'\b(%s)::(\w+)' % '|'.join(DIMS), r'\2', e)
        body = ''.join(rel_assert(us(l), us(r), t, '[%s] %s' % (g, text)) for g, text, l, r, t in ch)
        tu += 'extern "C" void h_units_%d() {\n  UnitConverter uc;\n%s  __CPROVER_assert(0, "canary: reachable end of the unit harness");\n}\n' % (k, body)
    open(os.path.join(d, 'units.cpp'), 'w').write(tu)
    ccv.goto_cc(['units.cpp'], 'units.o', d, includes=[gen], std='c++11', extra=('-nostdinc', '-c'))
    obs = []
    for k, ch in enumerate(chunks):
        ccv.goto_cc(['units.o'], 'a%d.gb' % k, d, function='h_units_%d' % k)
        obs += ccv.cbmc('a%d.gb' % k, d, 'C20.units.%s.%d' % (tag, k), 'UnitConverter::convert / tools::conv', checks=['--div-by-zero-check'], timeout=600, expect_fail=['canary'], object_bits=16,
                        route_note='%d closed IEEE expressions over all enumerators' % len(ch))
    # name the failing assertions by their text; native replay of each on the real headers
    bad = [o for o in obs if o['status'] == core.REFUTED]
    if bad:
        replay_units(bad, A, consts)
    return obs


def replay_units(bad, A, consts):
    texts = {}
    for g, text, l, r, t in A:
        texts['[%s] %s' % (g, text)] = (l, r, t)
    prog = '#include <cstdio>\n#include <cmath>\n#include "votca/tools/unitconverter.h"\n#include "votca/tools/constants.h"\nusing namespace votca::tools;\nusing namespace votca::tools::conv;\nint main(){ UnitConverter uc; int bad=0;\n'
    sel = []
    for o in bad:
        key = o['clause'].split(' [')[0]
        if key in texts:
            l, r, t = texts[key]
            sel.append((o, key))
            prog += '  { double a_=(%s), b_=(%s); bool ok = b_!=0.0 && std::fabs(a_/b_-1.0) < %s; printf("%%s lhs=%%.12g rhs=%%.12g rel=%%.3g :: %s\\n", ok?"ok ":"BAD", a_, b_, std::fabs(a_/b_-1.0)); bad += !ok; }\n' % (l, r, repr(t), key.replace('"', "'").replace('%', '%%'))
    prog += '  return bad ? 1 : 0; }\n'
    try:
        exe = native.build('C20.units', prog, [], sanitize=False)
        rc, out, err = native.execute(exe, [])
    except core.Undecided as e:
        for o, _ in sel:
            o['replay'] = {'reproduced': False, 'error': str(e)}
        return
    for o, key in sel:
        line = [l for l in out.splitlines() if l.endswith(':: ' + key.replace('"', "'"))]
        o['replay'] = {'reproduced': bool(line and line[0].startswith('BAD')), 'cmd': exe, 'stdout': (line or [''])[0], 'against': 'real unitconverter.h and constants.h compiled with g++'}
        o['witness'] = {'expression': key, 'native': (line or [''])[0]}
        m = re.search(r'lhs=(\S+) rhs=(\S+)', (line or [''])[0])
        if m:
            o['witness'].update(lhs=float(m.group(1)), rhs=float(m.group(2)))
        o['id'] = 'C20.units/' + key        # stable obligation id: the assertion text, not cbmc's running number


def job_elements(ref):
    T = elements_tables()
    csrc, unwind = gen_elements_c(T, ref)
    d = core.workdir('ccv', 'C20.elements')
    open(os.path.join(d, 'elements.c'), 'w').write(csrc)
    ccv.goto_cc(['elements.c'], 'a.gb', d, function='h_elements')
    return ccv.cbmc('a.gb', d, 'C20.elements', 'Elements tables', checks=['--bounds-check'], unwind=unwind, timeout=900, expect_fail=['canary'],
                    route_note='tables extracted from elements.cc; loops fully unwound (finite tables)')


def run(tier, seed, only=None):
    ref, enums, consts = prepare()
    jobs = [(job_units, (ref, enums, consts, ('reciprocity', 'quotient', 'molar'), p, 3)) for p in range(3)] + [(job_units, (ref, enums, consts, ('transitivity',), p, 8)) for p in range(8)] + [
            (job_units, (ref, enums, consts, ('codata', 'constants', 'io'))), (job_elements, (ref,))]
    if only:
        jobs = [j for j in jobs if re.search(only, j[0].__name__ + str(j[1][-1]))]
    obs = core.pmap(jobs)
    return obs, META
