"""C15 - classical multipole interactions are symmetric and match point-charge physics (DESIGN.md section 5, C15; partial)"""
import os, re, time, itertools
import sympy as sp
import z3
from vlib import core, rvc
from vlib.core import Ob
from vlib.rvc import D, Mx, Exec, Ret, Thrown, SInt

META = {
    'level': 'proof', 'functions': [],
    'trusted_base': ['clang 14 AST = the code g++ compiles (instantiations VSiteA<4>, VSiteA<9>, ApplyStaticField_site<...>)',
                     'RVC executor: fixed-size Eigen algebra with lvalue views (segment<k>, tail<k>, rightCols<k>, col(i).z(), selfadjointView<Lower>, diagonal().array())',
                     'sqrt(3) and |r| as radicals; exp by its contract; machine arithmetic treated as mathematical'],
    'assumptions': ['distinct site positions (R > 0)'],
    'not_decided': ['rotation invariance with rotated moments (StaticSite::Rotate)', 'convergence to finite point-charge clusters (a limit)', 'large-separation limit of the Thole damping (a limit)',
                    'segment-level double loops (CalcStaticEnergy, ApplyStaticField over segments)'],
}
CO = 'xyz'


def fns_all():
    rel = 'xtp/src/libxtp/eeinteractor.cc'
    fns = rvc.functions(rvc.ast(rel, 'eeInteractor::'))
    axa = rvc.functions(rvc.ast(rel, 'AxA'))
    for k, v in axa.items():
        fns.setdefault(k, []).extend(v)
    for need in ('VSiteA', 'CalcStaticEnergy_site', 'FillTholeInteraction', 'ApplyStaticField_site', 'AxA', 'zz'):
        if need not in fns:
            raise core.Undecided('front end: %s not found in eeinteractor.cc' % need)
    if len(fns['VSiteA']) < 2:
        raise core.Undecided('front end: expected the instantiations VSiteA<4> and VSiteA<9>')
    return fns


def mk_site(tag, rank):
    q = [sp.Symbol('%sQ%d' % (tag, i), real=True) if (i == 0 or (i < 4 and rank >= 1) or rank >= 2) else sp.Integer(0) for i in range(9)]
    return {'Q': Mx.vec(q), 'pos': Mx.sym(tag + 'p', 3), 'rank': rank, 'tag': tag, 'V': Mx(3, 1), 'V_noE': Mx(3, 1)}


def mk_exec(fns, env):
    def construct(ex, n, ty, args):
        if ty.replace('const ', '').strip().endswith('AxA'):
            obj = {'__class__': 'AxA', 'data_': Mx(6, 1, [[D(rvc.fresh('uninit'))] for _ in range(6)])}
            ctor = [f for f in fns['AxA'] if f.get('kind') == 'CXXConstructorDecl']
            if not ctor:
                raise rvc.Unsupported('AxA constructor body not found')
            ex.call_fn(ctor[0], [rvc.rval(ex.expr(args[0]))], obj)
            return obj
        return NotImplemented
    cb = {'getPos': lambda st: st['pos'], 'getRank': lambda st: st['rank'], 'getCharge': lambda st: st['Q'].g(0), 'Q': lambda st: st['Q'],
          'V': lambda st: st['V'], 'V_noE': lambda st: st['V_noE'], 'construct': construct, 'exec_classes': ('AxA',), 'enum': lambda n: n}
    return Exec(env, cb, fns, {'__class__': 'eeInteractor'})


def energy(fns, A, B):
    """CalcStaticEnergy_site(site1 = A, site2 = B) executed from the AST (it calls the VSiteA instantiations itself)"""
    ex = mk_exec(fns, {})
    return D.lift(ex.call_fn(fns['CalcStaticEnergy_site'][0], [A, B], ex.this))


def job_sym(ra, rb, seed):
    rvc.reset()
    fns = fns_all()
    F = 'eeInteractor::CalcStaticEnergy_site / VSiteA<N>'
    A, B = mk_site('a', ra), mk_site('b', rb)
    e1, e2 = energy(fns, A, B), energy(fns, B, A)
    obs = [rvc.identity('C15.sym/ranks%d%d' % (ra, rb), F, 'E(site A, site B) == E(site B, site A) for multipole ranks %d and %d' % (ra, rb), e1.v, e2.v, seed)]
    if ra == 0 and rb == 0:
        R = rvc.d_sqrt((B['pos'] - A['pos']).squaredNorm())
        obs.append(rvc.identity('C15.coulomb', F, 'two charges: E == q1 q2 / R', e1.v, A['Q'].g(0).v * B['Q'].g(0).v / R.v, seed))
        obs.append(rvc.canary('C15.sym', F, e1.v, e1.v, seed))
    # translation invariance: the energy depends on positions only through posB - posA (common translation t)
    t = Mx.sym('t', 3)
    A2, B2 = dict(A, pos=A['pos'] + t), dict(B, pos=B['pos'] + t)
    obs.append(rvc.identity('C15.translate/ranks%d%d' % (ra, rb), F, 'common translation of both sites leaves the energy unchanged', energy(fns, A2, B2).v, e1.v, seed))
    mf = [{'name': 'eeInteractor::VSiteA<%s>' % ('4' if '4, 1' in f['type']['qualType'] else '9'), 'file': 'xtp/src/libxtp/eeinteractor.cc', 'ast_nodes': rvc.node_count(f)} for f in fns['VSiteA']] + \
         [{'name': 'eeInteractor::CalcStaticEnergy_site', 'file': 'xtp/src/libxtp/eeinteractor.cc', 'ast_nodes': rvc.node_count(fns['CalcStaticEnergy_site'][0])},
          {'name': 'AxA (constructor + accessors)', 'file': 'xtp/include/votca/xtp/eigen.h', 'ast_nodes': sum(rvc.node_count(f) for k in ('AxA', 'xx', 'xy', 'xz', 'yy', 'yz', 'zz') for f in fns.get(k, []))}]
    for o in obs:
        o['functions'] = mf
    return obs


def job_deriv(rb, seed):
    """VSiteA<9>(A, B): the rows of the interaction vector are derivatives of the potential row with respect to the position of site A:
    V(1..3) = grad_A V(0)  (energy of a dipole in a potential: mu . grad phi), and V(4..8) are the real-spherical combinations of the Hessian
    (energy of a traceless quadrupole: (1/3) Theta : grad grad phi), i.e. V20 = phi_zz/2, V21c = phi_xz/sqrt3, V21s = phi_yz/sqrt3,
    V22c = (phi_xx - phi_yy)/(2 sqrt3), V22s = phi_xy/sqrt3.  Together with E == q1 q2/R and exchange symmetry this pins every tensor."""
    rvc.reset()
    fns = fns_all()
    F = 'eeInteractor::VSiteA<9>'
    v9 = [f for f in fns['VSiteA'] if '9, 1' in f['type']['qualType']]
    if not v9:
        raise core.Undecided('front end: VSiteA<9> instantiation not found')
    obs = []
    Vs = []
    for k in range(3):
        A, B = mk_site('a', 2), mk_site('b', rb)
        pk = A['pos'].g(k)
        A['pos'].p(k, 0, D(pk.v, 1))
        ex = mk_exec(fns, {})
        Vs.append(ex.call_fn(v9[0], [A, B], ex.this))
    V = Vs[0]
    s3 = rvc.d_sqrt(D(3)).v
    for k in range(3):
        obs.append(rvc.identity('C15.deriv/rankB%d/grad.%s' % (rb, CO[k]), F, 'V(%d) == d V(0) / d posA.%s  (dipole row = gradient of the potential row)' % (1 + k, CO[k]), V.g(1 + k).v, Vs[k].g(0).t, seed))
    def h(i, j):          # phi_ij = d V(1+i) / d posA_j
        return Vs[j].g(1 + i).t
    hess = [('20', V.g(4).v, h(2, 2) / 2), ('21c', V.g(5).v, h(0, 2) / s3), ('21s', V.g(6).v, h(1, 2) / s3), ('22c', V.g(7).v, (h(0, 0) - h(1, 1)) / (2 * s3)), ('22s', V.g(8).v, h(0, 1) / s3)]
    for nm, lhs, rhs in hess:
        obs.append(rvc.identity('C15.deriv/rankB%d/hess.%s' % (rb, nm), F, 'quadrupole row T%s == real-spherical combination of the Hessian of the potential row' % nm, lhs, rhs, seed))
    obs.append(rvc.identity('C15.deriv/rankB%d/hess.symmetric' % rb, F, 'Hessian symmetric: d V(1)/d y == d V(2)/d x', h(0, 1), h(1, 0), seed))
    obs.append(rvc.identity('C15.deriv/rankB%d/laplace' % rb, F, 'the potential row is harmonic: trace of the Hessian == 0', h(0, 0) + h(1, 1) + h(2, 2), sp.Integer(0), seed))
    mf = [{'name': 'eeInteractor::VSiteA<9>', 'file': 'xtp/src/libxtp/eeinteractor.cc', 'ast_nodes': rvc.node_count(v9[0])}]
    for o in obs:
        o['functions'] = mf
    return obs


def job_field(r1, r2, seed):
    """ApplyStaticField_site: the vector added to site2.V() is the derivative of the returned energy with respect to site2's dipole components"""
    rvc.reset()
    fns = fns_all()
    F = 'eeInteractor::ApplyStaticField_site'
    obs = []
    for inst in fns['ApplyStaticField_site']:
        for k in range(3):
            S1, S2 = mk_site('a', r1), mk_site('b', max(r2, 1))
            q = S2['Q'].g(1 + k)
            S2['Q'].p(1 + k, 0, D(q.v, 1))         # tangent seed on the dipole component k of site 2
            ex = mk_exec(fns, {})
            e = D.lift(ex.call_fn(inst, [S1, S2], ex.this))
            added = S2['V'].g(k).v + S2['V_noE'].g(k).v        # exactly one of the two accumulators is used by an instantiation
            obs.append(rvc.identity('C15.field/ranks%d%d/inst%s/%s' % (r1, r2, inst.get('id', '')[-4:], CO[k]), F,
                                    'field accumulated on site 2 (component %s) == d(pair energy)/d(dipole component %s of site 2)' % (CO[k], CO[k]), added, e.t, seed))
    mf = [{'name': 'eeInteractor::ApplyStaticField_site', 'file': 'xtp/src/libxtp/eeinteractor.cc', 'ast_nodes': rvc.node_count(fns['ApplyStaticField_site'][0])}]
    for o in obs:
        o['functions'] = mf
    return obs


def job_thole(seed):
    rvc.reset()
    fns = fns_all()
    F = 'eeInteractor::FillTholeInteraction'
    fn = fns['FillTholeInteraction'][0]
    obs = []
    P = rvc.Paths()
    while True:
        P.start()
        rvc.CTX.base = []
        rvc.CTX.rad = []
        S1, S2 = mk_site('a', 1), mk_site('b', 1)
        damp = sp.Symbol('alpha', positive=True)
        g1, g2 = sp.Symbol('g1', positive=True), sp.Symbol('g2', positive=True)
        ex = mk_exec(fns, {})
        ex.cb.update({'decide': P.decide, 'getSqrtInvEigenDamp': lambda st: D(g1 if st['tag'] == 'a' else g2)})
        ex.this['expdamping_'] = D(damp)
        T = ex.call_fn(fn, [S1, S2], ex.this)
        tag = 'p%d' % P.count
        for i in range(3):
            for j in range(i + 1, 3):
                obs.append(rvc.identity('C15.thole/%s/sym%d%d' % (tag, i, j), F, 'damped dipole-dipole tensor is symmetric', T.g(i, j).v, T.g(j, i).v, seed))
        a = S2['pos'] - S1['pos']
        R = rvc.d_sqrt(a.squaredNorm()).v
        E = rvc.ufun('E')
        exps = [x for x in sp.preorder_traversal(sum(T.g(i, j).v for i in range(3) for j in range(3))) if getattr(x, 'func', None) == E]
        au3 = damp * R ** 3 * g1 * g2
        if not exps:       # undamped branch (au3 >= 40)
            obs.append(rvc.identity('C15.thole/%s/traceless' % tag, F, 'undamped limit: the tensor is traceless', T.trace().v, sp.Integer(0), seed))
            for i in range(3):
                for j in range(i, 3):
                    exp = ((1 if i == j else 0) - 3 * a.g(i).v * a.g(j).v / R ** 2) / R ** 3
                    obs.append(rvc.identity('C15.thole/%s/undamped%d%d' % (tag, i, j), F, 'undamped limit: T == (1 - 3 a a^T)/R^3', T.g(i, j).v, exp, seed))
            obs.append(rvc.logic('C15.thole/%s/branch' % tag, F, 'the undamped branch is taken only for au3 >= 40', rvc.to_z3(au3) >= 40, pc=P.pc, extra=rvc.rad_facts()))
        else:
            e = E(sp.expand(-au3))
            l3, l5 = (1 - e) / R ** 3, (1 - (1 + au3) * e) / R ** 3
            for i in range(3):
                for j in range(i, 3):
                    exp = (l3 if i == j else 0) - 3 * l5 * a.g(i).v * a.g(j).v / R ** 2
                    obs.append(rvc.identity('C15.thole/%s/damped%d%d' % (tag, i, j), F, 'damped branch: T == lambda3 1 - 3 lambda5 a a^T with lambda3 = (1-exp(-au3))/R^3, lambda5 = (1-(1+au3)exp(-au3))/R^3',
                                            T.g(i, j).v, exp, seed))
        if not P.next():
            break
    mf = [{'name': F, 'file': 'xtp/src/libxtp/eeinteractor.cc', 'ast_nodes': rvc.node_count(fn)}]
    for o in obs:
        o['functions'] = mf
    return obs


def job_rotate(seed):
    """StaticSite: the spherical <-> Cartesian quadrupole conversions are inverse to each other (the Cartesian tensor is symmetric and traceless), and Rotate turns position, dipole and
    quadrupole tensor with the same rotation: r' = ref + R (r - ref), d' = R d, theta' = R theta R^T"""
    rvc.reset()
    rel = 'xtp/src/libxtp/staticsite.cc'
    fns = rvc.functions(rvc.ast(rel, 'StaticSite::'))
    for need in ('CalculateCartesianMultipole', 'CalculateSphericalMultipole', 'Rotate'):
        if need not in fns:
            raise core.Undecided('front end: StaticSite::%s not found' % need)
    mfs = [{'name': 'StaticSite::' + k, 'file': rel, 'ast_nodes': rvc.node_count(fns[k][0])} for k in ('CalculateCartesianMultipole', 'CalculateSphericalMultipole', 'Rotate')]
    obs = []
    Q = Mx.sym('Q', 9)
    def cart(this):
        ex = Exec({}, {}, fns, this)
        return ex.call_fn(fns['CalculateCartesianMultipole'][0], [], this)
    def sph(theta):
        ex = Exec({}, {}, fns, None)
        return ex.call_fn(fns['CalculateSphericalMultipole'][0], [theta], None)
    this = {'Q_': Q.copy(), 'rank_': 2}
    th = cart(this)
    for i in range(3):
        for j in range(i):
            o = rvc.identity('C15.rotate/cartesian.symmetric%d%d' % (i, j), 'StaticSite::CalculateCartesianMultipole', 'the Cartesian quadrupole tensor is symmetric', th.g(i, j).v, th.g(j, i).v, seed); o['functions'] = mfs; obs.append(o)
    o = rvc.identity('C15.rotate/cartesian.traceless', 'StaticSite::CalculateCartesianMultipole', 'the Cartesian quadrupole tensor is traceless', th.g(0, 0).v + th.g(1, 1).v + th.g(2, 2).v, 0, seed); o['functions'] = mfs; obs.append(o)
    back = sph(th)
    names = ['Q20', 'Q21c', 'Q21s', 'Q22c', 'Q22s']
    for k in range(5):
        o = rvc.identity('C15.rotate/roundtrip.%s' % names[k], 'StaticSite::CalculateSphericalMultipole', 'spherical(Cartesian(Q)) == Q for component %s: the two conversions are inverse' % names[k], back.g(k, 0).v, Q.g(4 + k, 0).v, seed)
        o['functions'] = mfs; obs.append(o)
    # Rotate with an arbitrary matrix R (the identities are linear in R: no orthogonality needed)
    R = Mx.sym('R', 3, 3)
    pos, ref = Mx.sym('pos', 3), Mx.sym('ref', 3)
    this = {'Q_': Q.copy(), 'rank_': 2, 'pos_': pos.copy()}
    ex = Exec({'R': R, 'refPos': ref}, {'exec_functions': ('CalculateSphericalMultipole', 'CalculateCartesianMultipole')}, fns, this)
    try:
        ex.stmt(rvc.body_of(fns['Rotate'][0]))
    except Ret:
        pass
    expp = ref + R * (pos - ref)
    for c in range(3):
        o = rvc.identity('C15.rotate/position.%s' % 'xyz'[c], 'StaticSite::Rotate', "position: r' = ref + R (r - ref)", this['pos_'].g(c, 0).v, expp.g(c, 0).v, seed); o['functions'] = mfs; obs.append(o)
    d = Mx.vec([Q.g(1 + c, 0).v for c in range(3)])
    expd = R * d
    for c in range(3):
        o = rvc.identity('C15.rotate/dipole.%d' % c, 'StaticSite::Rotate', "dipole components: d' = R d (in the site's component order)", this['Q_'].g(1 + c, 0).v, expd.g(c, 0).v, seed); o['functions'] = mfs; obs.append(o)
    th0 = cart({'Q_': Q.copy(), 'rank_': 2})
    th1 = cart({'Q_': this['Q_'].copy(), 'rank_': 2})
    expt = R * th0 * R.transpose()
    # only for traceless results the spherical form can hold the tensor: R theta R^T is traceless for orthogonal R; compare the five independent combinations the spherical form stores
    exps = sph(expt)
    gots = sph(th1)
    for k in range(5):
        o = rvc.identity('C15.rotate/quadrupole.%s' % names[k], 'StaticSite::Rotate', "quadrupole: the stored components are those of R theta R^T (component %s)" % names[k], gots.g(k, 0).v, exps.g(k, 0).v, seed)
        o['functions'] = mfs; obs.append(o)
    return obs


def job_polar(seed):
    """induced-dipole terms: CalcPolar_stat_Energy_site = mu_ind . grad(phi_static); ApplyInducedField_site adds T^T mu_ind(site1) to site 2;
    CalcPolarEnergy_site(polar, polar): E_indu_indu = mu1^T T mu2, E_indu_stat = both induced-static terms"""
    rvc.reset()
    fns = fns_all()
    for need in ('CalcPolar_stat_Energy_site', 'ApplyInducedField_site', 'CalcPolarEnergy_site'):
        if need not in fns:
            raise core.Undecided('front end: eeInteractor::%s not found' % need)
    obs = []
    v4 = [f for f in fns['VSiteA'] if '4, 1' in f['type']['qualType']][0]
    def polar(tag, rank):
        st = mk_site(tag, rank)
        st['mu'] = Mx.sym(tag + 'mu', 3)
        return st
    def ex_for(P=None):
        ex = mk_exec(fns, {})
        ex.cb.update({'Induced_Dipole': lambda st: st['mu'], 'getSqrtInvEigenDamp': lambda st: D(sp.Symbol('g' + st['tag'], positive=True)),
                      'decl': lambda e, vd, ty, inner: ({'E_indu_indu': D(0), 'E_indu_stat': D(0)} if ty.endswith('E_terms') else NotImplemented),
                      'E_indu_indu': lambda o: rvc.Ref(lambda: o['E_indu_indu'], lambda v: o.__setitem__('E_indu_indu', D.lift(v))),
                      'E_indu_stat': lambda o: rvc.Ref(lambda: o['E_indu_stat'], lambda v: o.__setitem__('E_indu_stat', D.lift(v)))})
        ex.this['expdamping_'] = D(sp.Symbol('alpha', positive=True))
        if P is not None:
            ex.cb['decide'] = P.decide
        return ex
    F = 'eeInteractor::CalcPolar_stat_Energy_site'
    for r2 in range(3):
        S1, S2 = polar('a', 1), mk_site('b', r2)
        ex = ex_for()
        e = D.lift(ex.call_fn(fns['CalcPolar_stat_Energy_site'][0], [S1, S2], ex.this))
        V = ex_for().call_fn(v4, [S1, S2], ex.this)
        obs.append(rvc.identity('C15.polar/stat.rank%d' % r2, F, 'induced-static energy == mu_ind(site1) . gradient of the static potential of site 2 at site 1 (rows 1..3 of VSiteA<4>)', e.v,
                                sum(S1['mu'].g(k).v * V.g(1 + k).v for k in range(3)), seed))
    # ApplyInducedField_site: both instantiations, both damping branches
    for inst in fns['ApplyInducedField_site']:
        P = rvc.Paths()
        while True:
            P.start()
            rvc.CTX.base, rvc.CTX.rad = [], []
            S1, S2 = polar('a', 1), polar('b', 1)
            ex = ex_for(P)
            e = ex.call_fn(inst, [S1, S2], ex.this)
            T = ex_for(P).call_fn(fns['FillTholeInteraction'][0], [S1, S2], ex.this)
            for k in range(3):
                added = S2['V'].g(k).v + S2['V_noE'].g(k).v
                obs.append(rvc.identity('C15.polar/induced-field.inst%s.p%d.%s' % (inst.get('id', '')[-4:], P.count, CO[k]), 'eeInteractor::ApplyInducedField_site',
                                        'field added to site 2 == (Thole tensor)^T . induced dipole of site 1', added, sum(T.g(j, k).v * S1['mu'].g(j).v for j in range(3)), seed))
            if not P.next():
                break
    # CalcPolarEnergy_site(polar, polar)
    pp = [f for f in fns['CalcPolarEnergy_site'] if all('PolarSite' in p_['type']['qualType'] for p_ in f['inner'] if p_.get('kind') == 'ParmVarDecl')]
    if not pp:
        raise core.Undecided('front end: CalcPolarEnergy_site(PolarSite, PolarSite) not found')
    P = rvc.Paths()
    while True:
        P.start()
        rvc.CTX.base, rvc.CTX.rad = [], []
        S1, S2 = polar('a', 1), polar('b', 1)
        ex = ex_for(P)
        val = ex.call_fn(pp[0], [S1, S2], ex.this)
        T = ex_for(P).call_fn(fns['FillTholeInteraction'][0], [S1, S2], ex.this)
        e1 = D.lift(ex_for(P).call_fn(fns['CalcPolar_stat_Energy_site'][0], [S1, S2], ex.this)).v
        e2 = D.lift(ex_for(P).call_fn(fns['CalcPolar_stat_Energy_site'][0], [S2, S1], ex.this)).v
        obs.append(rvc.identity('C15.polar/energy.indu_indu.p%d' % P.count, 'eeInteractor::CalcPolarEnergy_site', 'E_indu_indu == mu1^T T mu2', D.lift(val['E_indu_indu']).v,
                                sum(S1['mu'].g(i).v * T.g(i, j).v * S2['mu'].g(j).v for i in range(3) for j in range(3)), seed))
        obs.append(rvc.identity('C15.polar/energy.indu_stat.p%d' % P.count, 'eeInteractor::CalcPolarEnergy_site', 'E_indu_stat == induced(1)-static(2) + induced(2)-static(1)', D.lift(val['E_indu_stat']).v, e1 + e2, seed))
        if not P.next():
            break
    mf = [{'name': 'eeInteractor::' + k, 'file': 'xtp/src/libxtp/eeinteractor.cc', 'ast_nodes': rvc.node_count(fns[k][0])} for k in ('CalcPolar_stat_Energy_site', 'ApplyInducedField_site', 'CalcPolarEnergy_site')]
    for o in obs:
        o['functions'] = mf
    return obs


def collect(obs):
    seen = set(f['name'] for f in META['functions'])
    for o in obs:
        for f in o.pop('functions', []) or []:
            if f['name'] not in seen:
                seen.add(f['name'])
                META['functions'].append(f)


def run(tier, seed, only=None):
    jobs = [(job_sym, (a, b, seed)) for a in range(3) for b in range(3)] + [(job_field, (a, b, seed)) for a in range(3) for b in (1, 2)] + [(job_thole, (seed,)), (job_polar, (seed,)), (job_rotate, (seed,))] + [(job_deriv, (rb, seed)) for rb in range(3)]
    if only:
        jobs = [j for j in jobs if re.search(only, j[0].__name__ + str(j[1]))]
    obs = core.pmap(jobs)
    collect(obs)
    return obs, META
