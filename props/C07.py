"""C07 - every analytic derivative equals the derivative of its value function (DESIGN.md section 5, C07)"""
import os, time
import sympy as sp
from vlib import core, rvc, native
from vlib.core import Ob
from vlib.rvc import D, Mx, Exec, Ret, SInt

META = {
    'level': 'proof',
    'functions': [],
    'trusted_base': ['clang 14 AST = the code g++ compiles', 'RVC executor (vlib/rvc.py) and its Eigen fixed-size algebra contracts (dot, cross, norm, normalize, +,-,*,/)',
                     'calculus rules of the dual numbers: sum, product, quotient, sqrt, acos, exp, integer pow', 'sympy Poly arithmetic over Q',
                     'machine arithmetic treated as mathematical (real numbers, no rounding)'],
    'assumptions': ['Topology::getDist(i,j) returns r_j - r_i up to a lattice vector that is locally constant (away from the half-box switch)'],
    'not_decided': ['rotation invariance', 'tabulated potential equals the function on the grid (file I/O)', 'singular geometries', 'IEEE cancellation near 0 and pi'],
}
COMP = 'xyz'


def bead_syms(n):
    return [Mx.sym('r%d' % i, 3) for i in range(n)]


def interaction_run(fn, nb, seedcomp=None, bead_arg=None, decide=None, opaque=()):
    """execute EvaluateVar/Grad of an interaction. Contract of Topology::getDist(i,j): an arbitrary vector u_ij = r_j - r_i (+ lattice
    vector, locally constant) whose derivative with respect to bead b is (delta_jb - delta_ib)*Identity.  The connection vectors of
    different pairs are independent unknowns as long as the pairs form no cycle (checked); seedcomp=(bead,k) seeds the tangent."""
    vecs, edges = {}, []
    def getDist(top, i, j):
        key = (min(i, j), max(i, j))
        if key not in vecs:
            # acyclicity of the pair graph => the u_ij are independent
            comp = {x: x for x in range(nb)}
            def find(x):
                while comp[x] != x: x = comp[x]
                return x
            for (a, b) in edges: comp[find(a)] = find(b)
            if find(key[0]) == find(key[1]):
                raise rvc.Unsupported('getDist pairs form a cycle: vectors not independent')
            edges.append(key)
            m = Mx(3, 1)
            for k in range(3):
                t = 0
                if seedcomp is not None and seedcomp[1] == k:
                    t = (1 if seedcomp[0] == key[1] else 0) - (1 if seedcomp[0] == key[0] else 0)
                m.p(k, 0, D(sp.Symbol('u%d%d%s' % (key[0], key[1], COMP[k]), real=True), t))
            vecs[key] = m
        v = vecs[key]
        return v.copy() if (i, j) == key else -v
    def opaque_value(name, v):
        """generalise the plane normals u_ab x u_bc of consecutive connection vectors (by VALUE, whatever the local is called) to arbitrary vectors n1, n2 with their exact tangents"""
        if not opaque or not isinstance(v, Mx) or v.r * v.c != 3 or v.base is not None:
            return None
        keys = sorted(vecs)
        for idx, (ka, kb) in enumerate(zip(keys, keys[1:])):
            c = vecs[ka].cross(vecs[kb])
            if all(rvc.nf_zero(v.g(i).v - c.g(i).v) for i in range(3)):
                return opaque_vec(v, 'n%d' % (idx + 1))
        return None
    def getBead(top, i):
        """contract of Topology::getBead(i)->getPos(): the raw position r_i.  It is related to the connection vectors only up to a lattice vector
        (u_ij = r_j - r_i + L), so code that mixes raw positions with getDist cannot satisfy the gradient contract for every L: r_i are independent symbols"""
        i = rvc._i(i)
        class BeadM:
            def call(s_, name, args):
                if name in ('getPos', 'Pos'):
                    m = Mx(3, 1)
                    for k in range(3):
                        t = 1 if (seedcomp is not None and seedcomp == (i, k)) else 0
                        m.p(k, 0, D(sp.Symbol('pos%d%s' % (i, COMP[k]), real=True), t))
                    return m
                raise rvc.Unsupported('Bead::' + name)
        return BeadM()
    cb = {'getDist': getDist, 'opaque_value': opaque_value, 'getBead': getBead}
    if decide:
        cb['decide'] = decide
    this = {'beads_': list(range(nb))}
    env = {'top': 'TOPOLOGY'}
    if bead_arg is not None:
        env['bead'] = bead_arg
    ex = Exec(env, cb, {}, this)
    try:
        ex.stmt(rvc.body_of(fn))
    except Ret as r:
        return r.v, vecs
    raise rvc.Unsupported('no return')


def replay_interaction(cls, nb, obs):
    """replay refuted interaction obligations on the real classes: bead positions rebuilt from the pair vectors of the witness"""
    bad = [o for o in obs if o['status'] == core.REFUTED and o.get('witness')]
    if not bad:
        return
    try:
        exe = native.build('C07.interaction', open(os.path.join(core.VERIF, 'contracts', 'C07', 'replay_interaction.cc')).read(), [], extra=native.libs(), libs=native.libs())
    except core.Undecided as e:
        for o in bad:
            o['replay'] = {'reproduced': False, 'error': str(e)}
        return
    for o in bad:
        w = o['witness']
        pos = [[0.0, 0.0, 0.0]]
        try:
            for i in range(nb - 1):
                pos.append([pos[i][k] + float(sp.Rational(w['u%d%d%s' % (i, i + 1, COMP[k])])) for k in range(3)])
        except KeyError:
            o['replay'] = {'reproduced': False, 'error': 'witness lacks pair vectors'}
            continue
        args = [{'IBond': 'bond', 'IAngle': 'angle', 'IDihedral': 'dihedral'}[cls]] + [repr(x) for p in pos for x in p]
        rc, out, err = native.execute(exe, args)
        o['replay'] = {'reproduced': rc == 1, 'cmd': exe + ' ' + ' '.join(args), 'rc': rc, 'stdout': out[-1500:], 'stderr': err[-500:],
                       'against': 'real interaction.h + libvotca_csg built from the working tree; Grad vs Richardson central difference of EvaluateVar'}


def opaque_vec(v, name):
    """generalise an intermediate vector: fresh symbols for the values, exact tangents kept (sound for a forall-claim)"""
    out = Mx(3, 1)
    for i in range(3):
        out.p(i, 0, D(sp.Symbol('%s%s' % (name, COMP[i]), real=True), v.g(i).t))
    return out


def job_interaction(cls, nb, seed, only_sign=None):
    """Grad(b).e_k == d EvaluateVar / d r_b,k for all b,k ; sum_b Grad(b) == 0"""
    rvc.reset()
    docs = rvc.ast('csg/src/libcsg/topology.cc', cls + '::')
    fns = rvc.functions(docs)
    if 'EvaluateVar' not in fns or 'Grad' not in fns:
        raise core.Undecided('front end: %s::EvaluateVar/Grad not found' % cls)
    ev, gr = fns['EvaluateVar'][0], fns['Grad'][0]
    META_F = [{'name': cls + '::EvaluateVar', 'file': 'csg/include/votca/csg/interaction.h', 'ast_nodes': rvc.node_count(ev)},
              {'name': cls + '::Grad', 'file': 'csg/include/votca/csg/interaction.h', 'ast_nodes': rvc.node_count(gr)}]
    obs = []
    signs, opq = [None], ()
    if cls == 'IDihedral':
        signs = [True, False] if only_sign is None else [only_sign]   # the branch (v1.n2 < 0): both signs are proved separately
        opq = ('n1', 'n2')       # normal vectors generalised to arbitrary vectors (exact tangents kept): keeps the normal forms small
    nodes0 = rvc.CTX.nodes
    for sg in signs:
        dec = (lambda c, sg=sg: sg) if sg is not None else None
        tag = '' if sg is None else ('/neg' if sg else '/pos')
        grads = {b: interaction_run(gr, nb, None, b, dec, opq)[0] for b in range(nb)}
        for b in range(nb):
            for k in range(3):
                val, _ = interaction_run(ev, nb, (b, k), None, dec, opq)
                conc = None
                if opq:
                    conc = lambda b=b, k=k, dec=dec: (interaction_run(gr, nb, None, b, dec)[0].g(k).v, interaction_run(ev, nb, (b, k), None, dec)[0].t)
                oid = 'C07.%s.grad%s/bead%d.%s' % (cls, tag, b, COMP[k])
                obs.append(rvc.identity(oid, '%s::Grad' % cls, 'Grad(bead %d).%s == d EvaluateVar / d r_%d.%s' % (b, COMP[k], b, COMP[k]),
                                        grads[b].g(k).v, val.t, seed, concrete=conc))
        for k in range(3):
            tot = sum((grads[b].g(k).v for b in range(nb)), sp.Integer(0))
            conc = None
            if opq:
                conc = lambda k=k, dec=dec: (sum((interaction_run(gr, nb, None, b, dec)[0].g(k).v for b in range(nb)), sp.Integer(0)), sp.Integer(0))
            obs.append(rvc.identity('C07.%s.sum%s/%s' % (cls, tag, COMP[k]), '%s::Grad' % cls, 'sum over beads of Grad.%s == 0' % COMP[k], tot, sp.Integer(0), seed, concrete=conc))
    val, _ = interaction_run(ev, nb, (0, 0), None, (lambda c: True) if cls == 'IDihedral' else None, opq)
    obs.append(rvc.canary('C07.%s%s' % (cls, '' if only_sign is None else ('.neg' if only_sign else '.pos')), '%s::Grad' % cls, val.t, val.t, seed))
    if rvc.CTX.nodes == nodes0:
        raise core.Undecided('vacuity: no AST node executed')
    for o in obs:
        o['functions'] = META_F
    replay_interaction(cls, nb, obs)
    return obs


def pot_exec(fn, args, lam, extra_this, P, seeds=None, cb_extra=None):
    """run a PotentialFunction method with symbolic parameters lam (list of sympy symbols), tangent seed on lam[seeds]"""
    lv = Mx(len(lam), 1)
    for i, l in enumerate(lam):
        lv.p(i, 0, D(l, 1 if seeds == i else 0))
    this = dict(extra_this, lam_=lv)
    cb = {'decide': P.decide}
    cb.update(cb_extra or {})
    ex = Exec(args, cb, {}, this)
    P.start()
    try:
        ex.stmt(rvc.body_of(fn))
    except Ret as r:
        return D.lift(r.v) if not isinstance(r.v, Mx) else r.v
    raise rvc.Unsupported('no return')


def job_potential(cls, relpath, nlam, seed):
    """CalculateDF(i,r) == dF/dlam_i ; CalculateD2F(i,j,r) == d DF(i)/dlam_j ; D2F symmetric ; all zero outside [min,cut]"""
    import z3
    rvc.reset()
    docs = rvc.ast(relpath, cls + '::Calculate')
    fns = rvc.functions(docs)
    for need in ('CalculateF', 'CalculateDF', 'CalculateD2F'):
        if need not in fns:
            raise core.Undecided('front end: %s::%s not found' % (cls, need))
    F, DF, D2F = fns['CalculateF'][0], fns['CalculateDF'][0], fns['CalculateD2F'][0]
    mf = [{'name': '%s::%s' % (cls, k), 'file': relpath, 'ast_nodes': rvc.node_count(fns[k][0])} for k in ('CalculateF', 'CalculateDF', 'CalculateD2F')]
    lam = [sp.Symbol('lam%d' % i, real=True) for i in range(nlam)]
    r, mn, cut = sp.Symbol('r', positive=True), sp.Symbol('rmin', positive=True), sp.Symbol('rcut', positive=True)
    obs = []
    regions = {'inside': [z3.Real('r') >= z3.Real('rmin'), z3.Real('r') <= z3.Real('rcut')], 'below': [z3.Real('r') < z3.Real('rmin')], 'above': [z3.Real('r') > z3.Real('rcut')]}
    pname = lambda *a: [p for p in a]
    for reg, base in regions.items():
        rvc.CTX.base = [z3.Real('r') > 0, z3.Real('rmin') > 0, z3.Real('rcut') > z3.Real('rmin')] + base
        this = {'min_': D(mn), 'cut_off_': D(cut)}
        if not rvc.satisfiable():
            raise core.Undecided('vacuity: region %s unsatisfiable' % reg)
        def runp(fn, argvals, seeds=None):
            P = rvc.Paths()
            names = rvc.params_of(fn)
            env = dict(zip(names, argvals))
            v = pot_exec(fn, env, lam, this, P, seeds)
            if P.next():
                raise rvc.Unsupported('unexpected second path in %s' % fn['name'])
            return v
        for i in range(nlam):
            fval = runp(F, [D(r)], i)
            df = runp(DF, [i, D(r)])
            obs.append(rvc.identity('C07.%s.DF/%s/%d' % (cls, reg, i), cls + '::CalculateDF', 'CalculateDF(%d,r) == dCalculateF/dlam_%d (%s [min,cut])' % (i, i, reg), df.v, fval.t, seed))
            for j in range(nlam):
                dfi = runp(DF, [i, D(r)], j)
                d2 = runp(D2F, [i, j, D(r)])
                obs.append(rvc.identity('C07.%s.D2F/%s/%d.%d' % (cls, reg, i, j), cls + '::CalculateD2F', 'CalculateD2F(%d,%d,r) == dCalculateDF(%d)/dlam_%d (%s)' % (i, j, i, j, reg), d2.v, dfi.t, seed))
                if j > i:
                    d2t = runp(D2F, [j, i, D(r)])
                    obs.append(rvc.identity('C07.%s.D2Fsym/%s/%d.%d' % (cls, reg, i, j), cls + '::CalculateD2F', 'CalculateD2F(%d,%d) == CalculateD2F(%d,%d) (%s)' % (i, j, j, i, reg), d2.v, d2t.v, seed))
        if reg != 'inside':
            fval = runp(F, [D(r)])
            obs.append(rvc.identity('C07.%s.F0/%s' % (cls, reg), cls + '::CalculateF', 'CalculateF(r) == 0 %s [min,cut]' % reg, fval.v, sp.Integer(0), seed))
        else:
            fval = runp(F, [D(r)], 0)
            obs.append(rvc.canary('C07.%s' % cls, cls + '::CalculateDF', fval.t, fval.t, seed))
    for o in obs:
        o['functions'] = mf
    return obs


def job_cbspl(seed, nbreak=5):
    """PotentialFunctionCBSPL: CalculateDF(i,r) == dCalculateF/dlam_(i+nexcl) for every knot window (bounded: nbreak = %d break points)"""
    import z3
    rvc.reset()
    cls = 'PotentialFunctionCBSPL'
    relpath = 'csg/src/libcsg/potentialfunctions/potentialfunctioncbspl.cc'
    fns = rvc.functions(rvc.ast(relpath, cls + '::Calculate'))
    F, DF, D2F = fns['CalculateF'][0], fns['CalculateDF'][0], fns['CalculateD2F'][0]
    mf = [{'name': '%s::%s' % (cls, k), 'file': relpath, 'ast_nodes': rvc.node_count(fns[k][0])} for k in ('CalculateF', 'CalculateDF', 'CalculateD2F')]
    nlam = nbreak + 2
    lam = [sp.Symbol('lam%d' % i, real=True) for i in range(nlam)]
    r, dr, cut = sp.Symbol('r', positive=True), sp.Symbol('dr', positive=True), sp.Symbol('rcut', positive=True)
    M = Mx.sym('M', 4, 4)
    obs = []
    bound = 'nbreak = %d break points (%d coefficients); r, dr, cutoff, lam, M symbolic' % (nbreak, nlam)
    for inside in (True, False):
        for k in (range(nbreak + 1) if inside else [0]):       # k = trunc(r/dr): contract of the (Index) cast, enumerated
            for nexcl in (0, 1, 2):
                rvc.CTX.base = [z3.Real('r') > 0, z3.Real('dr') > 0, z3.Real('rcut') > 0,
                                (z3.Real('r') <= z3.Real('rcut')) if inside else (z3.Real('r') > z3.Real('rcut')),
                                z3.Real('r') >= k * z3.Real('dr'), z3.Real('r') < (k + 1) * z3.Real('dr')]
                this = {'cut_off_': D(cut), 'dr_': D(dr), 'nbreak_': nbreak, 'nexcl_': nexcl, 'M_': M}
                cbx = {'to_int': lambda v, k=k: k}
                def runp(fn, argvals, seeds=None):
                    P = rvc.Paths()
                    v = pot_exec(fn, dict(zip(rvc.params_of(fn), argvals)), lam, this, P, seeds, cbx)
                    if P.next():
                        raise rvc.Unsupported('unexpected second path in %s' % fn['name'])
                    return v
                for i in range(nlam - nexcl):
                    fval = runp(F, [D(r)], i + nexcl)
                    df = runp(DF, [i, D(r)])
                    tag = ('in.k%d' % k) if inside else 'out'
                    obs.append(rvc.identity('C07.CBSPL.DF/%s/nexcl%d/%d' % (tag, nexcl, i), cls + '::CalculateDF',
                                            'CalculateDF(%d,r) == dCalculateF/dlam_(%d+%d), trunc(r/dr)=%d, %s cutoff' % (i, i, nexcl, k, 'inside' if inside else 'beyond'),
                                            df.v, fval.t, seed, bound=bound))
                    if i == 0:
                        d2 = runp(D2F, [i, i, D(r)])
                        dfi = runp(DF, [i, D(r)], i + nexcl)
                        obs.append(rvc.identity('C07.CBSPL.D2F/%s/nexcl%d' % (tag, nexcl), cls + '::CalculateD2F', 'CalculateD2F == d CalculateDF/dlam (linear in lam => 0)', d2.v, dfi.t, seed, bound=bound))
    fval = runp(F, [D(r)], 0)
    for o in obs:
        o['functions'] = mf
    return obs


def job_cbspl_allN(seed):
    """PotentialFunctionCBSPL for ANY number of break points: CalculateDF(i, r) == d CalculateF / d lam_(i + nexcl) with a symbolic knot window index and a symbolic parameter index
    (enumerated by the offset of the parameter relative to the window: before, one of the four window coefficients, after)"""
    import z3
    rvc.reset()
    cls = 'PotentialFunctionCBSPL'
    relpath = 'csg/src/libcsg/potentialfunctions/potentialfunctioncbspl.cc'
    fns = rvc.functions(rvc.ast(relpath, cls + '::Calculate'))
    F, DF = fns['CalculateF'][0], fns['CalculateDF'][0]
    mf = [{'name': '%s::%s' % (cls, k), 'file': relpath, 'ast_nodes': rvc.node_count(fns[k][0]), 'route': 'RVC (symbolic window and parameter index)'} for k in ('CalculateF', 'CalculateDF')]
    r, dr, cut = sp.Symbol('r', positive=True), sp.Symbol('dr', positive=True), sp.Symbol('rcut', positive=True)
    M = Mx.sym('M', 4, 4)
    w, nex = sp.Symbol('w', integer=True, nonnegative=True), sp.Symbol('nexcl', integer=True, nonnegative=True)      # w = the knot window index the code computes
    obs = []
    dsym = sp.Symbol('doff', integer=True)
    for off in (-1, 0, 1, 2, 3, 4, 'before', 'after'):               # i + nexcl - w; 'before' / 'after': any offset <= -1 / >= 4
        sym_off = isinstance(off, str)
        kind = off
        if sym_off:
            off = dsym
        class Lam:
            """lam_: coefficient vector of symbolic length; the tangent seed sits on the coefficient with index i + nexcl"""
            def call(s_, name, args):
                if name == 'segment':
                    st = SInt.ex(args[0])
                    out = Mx(4, 1)
                    for j in range(4):
                        k = sp.expand(st + j - w)
                        if not k.is_Integer:
                            raise rvc.Unsupported('segment start %s is not the window index' % st)
                        out.p(j, 0, D(sp.Symbol('lam[w%+d]' % int(k), real=True), 1 if (not sym_off and int(k) == off) else 0))
                    return out
                raise rvc.Unsupported('lam_.' + name)
        P = rvc.Paths(); P.start()
        rvc.CTX.base = [z3.Real('r') > 0, z3.Real('dr') > 0, z3.Real('rcut') > 0, z3.Real('r') <= z3.Real('rcut'), z3.Int('w') >= 0, z3.Int('nexcl') >= 0] + ([z3.Int('doff') <= -1] if kind == 'before' else ([z3.Int('doff') >= 4] if kind == 'after' else []))
        this = {'cut_off_': D(cut), 'dr_': D(dr), 'nbreak_': SInt(sp.Symbol('nbreak', integer=True)), 'nexcl_': SInt(nex), 'M_': M, 'lam_': Lam()}
        cb = {'decide': P.decide, 'to_int': lambda v: SInt(sp.Symbol('q', integer=True)), 'min': lambda a, b: SInt(w)}      # indx = min(trunc(r/dr), nbreak-2) =: w, an arbitrary window
        def run(fn, args):
            ex = Exec(dict(zip(rvc.params_of(fn), args)), cb, {}, this)
            try:
                ex.stmt(rvc.body_of(fn))
            except Ret as rr:
                return D.lift(rr.v)
            raise rvc.Unsupported('no return')
        fval = run(F, [D(r)])
        df = run(DF, [SInt(w + off - nex), D(r)])          # the parameter index i with i + nexcl = w + off
        if P.next():
            raise rvc.Unsupported('unexpected second path')
        o = rvc.identity('C07.CBSPL.allN/DF.offset%s' % (kind if sym_off else '%+d' % off), cls + '::CalculateDF', 'CalculateDF(i, r) == d CalculateF / d lam_(i + nexcl) when i + nexcl is %s the four coefficients of the knot window, for any number of break points' % ('outside' if sym_off or not (0 <= off <= 3) else 'one of'),
                         df.v, fval.t, seed)
        o['functions'] = mf
        obs.append(o)
    return obs


def job_spline_deriv(which, seed):
    """for every spline type CalculateDerivative == d/dr Calculate: the C12 spline jobs, restricted to their derivative obligations"""
    from props import C12
    fn = {'cubic': C12.job_cubic_interval, 'akima': C12.job_akima, 'linear': C12.job_linspline}[which]
    out = []
    for o in fn(seed):
        if o['id'].endswith('/deriv') or o['id'].endswith('/canary'):
            o['id'] = o['id'].replace('C12.', 'C07.spline.', 1)
            out.append(o)
    if not any(o['id'].endswith('/deriv') for o in out):
        raise core.Undecided('vacuity: no spline derivative obligation generated for ' + which)
    if which == 'cubic':          # the unbounded form (arbitrary interval of a grid of arbitrary size), all three spline kinds
        for o in C12.job_deriv_allN(seed):
            o['id'] = o['id'].replace('C12.', 'C07.spline.', 1)
            out.append(o)
    return out


def collect(obs):
    seen = set()
    for o in obs:
        for f in o.pop('functions', []) or []:
            if f['name'] not in seen:
                seen.add(f['name'])
                META['functions'].append(f)


def run(tier, seed, only=None):
    PF = 'csg/src/libcsg/potentialfunctions/'
    jobs = [(job_interaction, ('IBond', 2, seed)), (job_interaction, ('IAngle', 3, seed)), (job_interaction, ('IDihedral', 4, seed, True)), (job_interaction, ('IDihedral', 4, seed, False)),
            (job_potential, ('PotentialFunctionLJ126', PF + 'potentialfunctionlj126.cc', 2, seed)),
            (job_potential, ('PotentialFunctionLJG', PF + 'potentialfunctionljg.cc', 5, seed)),
            (job_cbspl, (seed,)), (job_cbspl_allN, (seed,)), (job_spline_deriv, ('cubic', seed)), (job_spline_deriv, ('akima', seed)), (job_spline_deriv, ('linear', seed))]
    if only:
        import re
        jobs = [j for j in jobs if re.search(only, str(j[1][0]) + j[0].__name__)]
    obs = core.pmap(jobs)
    collect(obs)
    return obs, META
