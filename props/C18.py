"""C18 - selection patterns, ranges and index lists denote exactly what they say (DESIGN.md section 5, C18)"""
import os, re, time
import sympy as sp
import z3
from vlib import core, ccv, rvc, native
from vlib.core import Ob
from vlib.rvc import D, Mx, Exec, Ret, Thrown, SInt

CDIR = os.path.join(core.VERIF, 'contracts', 'C18')
META = {
    'level': 'proof', 'functions': [],
    'trusted_base': ['CBMC 6.11 (C / C++ front ends, dfcc loop-contract instrumentation, SAT back end)', 'RVC executor + z3 (Int) for ParseBlock / operator<< / CreateIndexString',
                     'string splitting (Tokenizer, boost), std::stoi, std::to_string, std::set (sorted, duplicate-free) as assumed contracts'],
    'assumptions': ['RangeParser values within the std::stoi range (|v| <= 2^31) so that begin*stride cannot overflow a 64-bit Index'],
    'not_decided': ['Tokenizer / boost string splitting', 'BeadList beyond two beads (the loop treats beads alike); std::string to const char* conversion in front of wildcmp',
                    'IndexParser::CreateIndexVector (lexical_cast / try-catch string parsing)'],
}
SIG_WILD = r'int\s+wildcmp\s*\(\s*const\s+char\s*\*\s*wild\s*,\s*const\s+char\s*\*\s*string\s*\)'


def wild_extract():
    ex = ccv.extract('tools/src/libtools/tokenizer.cc', SIG_WILD)
    if ccv.count_loops(ex) != 3:
        raise core.Undecided('extraction drift: wildcmp has %d loops, the contract knows 3' % ccv.count_loops(ex))
    return ex


def job_wild_spec(N):
    ex = wild_extract()
    info = dict(ex.info(), name='wildcmp(const char*, const char*)', route='CCV (C mode, body verbatim, nullptr by macro)', dropped='namespaces only')
    tu = open(os.path.join(CDIR, 'wildcmp_spec.h')).read() + '\nint wildcmp(const char *wild, const char *string)\n{' + ex.body + '}\n'
    obs = ccv.build_and_check('C18.wildcmp.spec.N%d' % N, 'wildcmp', {'w.c': tu}, 'h_wild', defines=['N=%d' % N], unwind=N * N + 2 * N + 4, timeout=1500,
                              expect_fail=['canary'], bound='pattern and string buffers of %d symbolic bytes each (all shorter strings included)' % N,
                              route_note='equivalence with the recursive glob specification', replay=replay_wild)
    for o in obs:
        o['functions'] = [info]
    return obs


def replay_wild(o):
    w = o['witness']
    def s(name):
        v = w.get(name)
        if isinstance(v, list):
            b = []
            for c in v:
                c = int(c) & 0xff
                if c == 0:
                    break
                b.append(c)
            return b
        return None
    pat, st = s('w'), s('s')
    if pat is None or st is None:
        return {'reproduced': False, 'error': 'witness has no in_w/in_s arrays: %s' % sorted(w)[:8]}
    prog = r'''#include <cstdio>
#include <cstdlib>
#include "votca/tools/tokenizer.h"
static int spec(const char *w, const char *s) { if (*w == 0) return *s == 0; if (*w == '*') return spec(w + 1, s) || (*s != 0 && spec(w, s + 1)); if (*s == 0) return 0; if (*w == '?' || *w == *s) return spec(w + 1, s + 1); return 0; }
int main(int argc, char **argv) { char w[64] = {0}, s[64] = {0}; int nw = atoi(argv[1]); for (int i = 0; i < nw; i++) w[i] = (char)atoi(argv[2 + i]); int ns = atoi(argv[2 + nw]); for (int i = 0; i < ns; i++) s[i] = (char)atoi(argv[3 + nw + i]);
  int r = votca::tools::wildcmp(w, s), e = spec(w, s); printf("wildcmp=%d spec=%d\n", r, e); return (r != 0) != (e != 0); }
'''
    exe = native.build('C18.wildcmp', prog, ['tools/src/libtools/tokenizer.cc'])
    args = [len(pat)] + pat + [len(st)] + st
    rc, out, err = native.execute(exe, args)
    return {'reproduced': rc != 0, 'cmd': exe + ' ' + ' '.join(map(str, args)), 'pattern_bytes': pat, 'string_bytes': st, 'rc': rc, 'stdout': out[-300:], 'stderr': err[-600:],
            'against': 'real tokenizer.cc with ASan+UBSan'}


def job_wild_safety():
    ex = wild_extract()
    info = dict(ex.info(), name='wildcmp(const char*, const char*)', route='CCV (C mode, loop contracts inserted after the three while headers)', dropped='namespaces only')
    # the invariants speak about the two back-track pointers by ROLE, not by name: the local that is set to the pattern position after a '*'
    # and the local that is set to string + 1 (a rename of these locals must not make the proof fail)
    clean = ccv.strip_map(ex.body)
    m_mp, m_cp = re.search(r'\b(\w+)\s*=\s*wild\s*;', clean), re.search(r'\b(\w+)\s*=\s*string\s*\+\s*1\s*;', clean)
    if not m_mp or not m_cp:
        raise core.Undecided('extraction drift: the back-track pointers of wildcmp (x = wild; y = string + 1;) were not found')
    for k in range(3):
        inv = open(os.path.join(CDIR, 'wildcmp.loop%d.inv' % k)).read().replace('@MP@', m_mp.group(1)).replace('@CP@', m_cp.group(1))
        ccv.insert_loop_contract(ex, k, inv, kind='while')
    tu = open(os.path.join(CDIR, 'wildcmp_safety.h')).read() + '\nint wildcmp(const char *wild, const char *string)\n{' + ex.body + '}\n' + open(os.path.join(CDIR, 'wildcmp_safety_harness.c')).read()
    obs = ccv.build_and_check('C18.wildcmp.safety', 'wildcmp', {'w.c': tu}, 'h_safe', loops=True, defines=['VERIF_MAXLEN=1000'], timeout=900,
                              need=['loop-invariant', 'loop-decreases', 'pointer'], route_note='memory safety and termination for all string lengths <= 1000 by loop contracts')
    for o in obs:
        o['functions'] = [info]
    return obs


def job_range_step():
    ex = ccv.extract('tools/src/libtools/rangeparser.cc', r'RangeParser::iterator\s*&\s*RangeParser::iterator::operator\+\+\s*\(\s*\)')
    info = dict(ex.info(), name='RangeParser::iterator::operator++', route='CCV (CBMC C++ mode, verbatim body in a stub class; std::list iterator = raw pointer)',
                dropped='class declaration (stub), namespaces')
    tu = open(os.path.join(CDIR, 'rangeparser_step.cpp.in')).read().replace('@BODY@', ex.body)
    obs = ccv.build_and_check('C18.range.step', 'RangeParser::iterator::operator++', {'step.cpp': tu}, 'h_step', cxx_std='c++11', unwind=4, timeout=900,
                              expect_fail=['canary'], route_note='loop-free step contract; the harness loop runs over the constant 3 block slots', replay=replay_range)
    for o in obs:
        o['functions'] = [info]
    return obs


def replay_range(o):
    w = o['witness']
    try:
        n, k, c = int(w['n']), int(w['k']), int(w['c'])
        blocks = [(int(w['b'][i]), int(w['s'][i]), int(w['e'][i])) for i in range(n)]
    except Exception as e:
        return {'reproduced': False, 'error': 'witness incomplete: %s %s' % (e, sorted(w)[:10])}
    prog = r'''#include <cstdio>
#include <cstdlib>
#include <vector>
#include "votca/tools/rangeparser.h"
using namespace votca::tools;
int main(int argc, char **argv) { int n = atoi(argv[1]); RangeParser rp; std::vector<long> exp;
  for (int i = 0; i < n; i++) { long b = atol(argv[2 + 3 * i]), s = atol(argv[3 + 3 * i]), e = atol(argv[4 + 3 * i]); rp.Add(b, e, s);
    long cnt = 0; for (long v = b; s > 0 ? v <= e : v >= e; v += s) { exp.push_back(v); if (++cnt > 100000) break; } }
  size_t j = 0; long steps = 0; int bad = 0;
  for (RangeParser::iterator it = rp.begin(); it != rp.end(); ++it) { if (j >= exp.size() || *it != exp[j]) { printf("BAD element %zu: got %ld expected %s\n", j, *it, j < exp.size() ? "other" : "end"); bad = 1; break; } ++j; if (++steps > 200000) { printf("BAD does not terminate\n"); bad = 1; break; } }
  if (!bad && j != exp.size()) { printf("BAD enumerated %zu of %zu elements\n", j, exp.size()); bad = 1; }
  printf(bad ? "MISMATCH\n" : "OK %zu elements\n", j); return bad; }
'''
    # shrink huge ranges: keep the failing step near the start (same block shape: begin at c so that the first step is the failing one)
    bl = list(blocks)
    b, s_, e = bl[k]
    bl[k] = (c, s_, e if abs(e - c) <= 50 * abs(s_) else c + 50 * s_)
    bl = [(bb, ss, ee if abs(ee - bb) <= 50 * abs(ss) else bb + 50 * ss) for bb, ss, ee in bl]
    exe = native.build('C18.range', prog, ['tools/src/libtools/rangeparser.cc', 'tools/src/libtools/tokenizer.cc'])
    args = [len(bl)] + [x for t in bl for x in t]
    rc, out, err = native.execute(exe, args, timeout=60)
    return {'reproduced': rc not in (0,), 'cmd': exe + ' ' + ' '.join(map(str, args)), 'rc': rc, 'stdout': (out or '')[-400:], 'stderr': (err or '')[-400:],
            'against': 'real RangeParser (rangeparser.h/.cc) with ASan+UBSan; blocks truncated to <= 50 steps around the failing position'}


def job_parseblock(seed):
    """RangeParser::ParseBlock on the real AST: tokens and std::stoi results are symbolic; accepted  <=>  1..3 tokens, stride != 0 and
    (end - begin) has the sign of the stride or is 0;  operator<<: the printed form re-parses to a block with the same enumeration"""
    rvc.reset()
    rel = 'tools/src/libtools/rangeparser.cc'
    docs = rvc.ast(rel, 'RangeParser')
    fns = rvc.functions(docs)
    if 'ParseBlock' not in fns:
        raise core.Undecided('front end: RangeParser::ParseBlock not found')
    fn = fns['ParseBlock'][0]
    obs = []
    F = 'RangeParser::ParseBlock'
    B = 2 ** 31
    for ntok in range(0, 5):
        P = rvc.Paths()
        while True:
            P.start()
            vals = [sp.Symbol('t%d' % i, integer=True) for i in range(ntok)]
            rvc.CTX.base = [z3.And(z3.Int('t%d' % i) >= -B, z3.Int('t%d' % i) < B) for i in range(ntok)]
            toks = [{'tok': i} for i in range(ntok)]
            blocks = []
            def decl(ex, vd, ty, inner):
                if ty.endswith('block_t'):
                    return {'begin_': SInt(rvc.fresh('uninit_i', integer=True)), 'end_': SInt(rvc.fresh('uninit_i', integer=True)), 'stride_': SInt(rvc.fresh('uninit_i', integer=True))}
                if 'vector<' in ty and 'string' in ty:
                    return toks           # contract of Tokenizer(str, ":").ToVector(): some list of tokens
                return NotImplemented
            ndiv = [0]
            def int_div(a, b2):
                """C integer division (truncation toward zero) by its contract: a = q*b + r, |r| < |b|, r has the sign of a (or is 0); a zero divisor is undefined behaviour"""
                ae, be = SInt.ex(a), SInt.ex(b2)
                if P.decide(sp.Eq(be, 0)):
                    raise rvc.Unsupported('integer division by zero is reachable')
                k = ndiv[0]; ndiv[0] += 1
                q, r = z3.Int('divq%d' % k), z3.Int('divr%d' % k)
                za, zb2 = rvc.to_z3(ae), rvc.to_z3(be)
                P.pc.extend([za == q * zb2 + r, z3.If(zb2 > 0, z3.And(r < zb2, r > -zb2), z3.And(r < -zb2, r > zb2)), z3.Implies(za >= 0, r >= 0), z3.Implies(za <= 0, r <= 0)])
                return SInt(sp.Symbol('divq%d' % k, integer=True))
            cb = {'decide': P.decide, 'decl': decl, 'stoi': lambda t, *a: SInt(vals[t['tok']]), 'int_div': int_div}
            this = {'blocks_': blocks}
            ex = Exec({'str': 'STR'}, cb, fns, this)
            status = 'accepted'
            try:
                ex.stmt(rvc.body_of(fn))
            except Ret:
                pass
            except Thrown:
                status = 'thrown'
            tag = 'ntok%d.p%d' % (ntok, P.count)
            if ntok < 1 or ntok > 3:
                obs.append(Ob('C18.range.parse/%s/reject' % tag, F, '%d tokens: rejected' % ntok, 'RVC', 'symbolic execution', core.PROVED if status == 'thrown' and not blocks else core.REFUTED, 0, status,
                              witness=None if status == 'thrown' else {'tokens': ntok}))
            else:
                b = vals[0]
                st = vals[1] if ntok == 3 else sp.Integer(1)
                e = vals[0] if ntok == 1 else vals[-1]
                zb, zs, ze = rvc.to_z3(b), rvc.to_z3(st), rvc.to_z3(e)
                valid = z3.Or(z3.And(zs > 0, zb <= ze), z3.And(zs < 0, zb >= ze))
                if status == 'accepted':
                    ok_struct = len(blocks) == 1 and all(rvc.nf_zero(SInt.ex(blocks[0][k]) - v) for k, v in (('begin_', b), ('stride_', st), ('end_', e)))
                    obs.append(Ob('C18.range.parse/%s/block' % tag, F, 'accepted: exactly one block (begin, stride, end) = tokens appended', 'RVC', 'normal form', core.PROVED if ok_struct else core.REFUTED, 0, str(blocks)[:200],
                                  witness=None if ok_struct else {'blocks': str(blocks)[:200]}))
                    obs.append(rvc.logic('C18.range.parse/%s/accept-valid' % tag, F, 'accepted => stride != 0 and (end - begin) has the sign of the stride or is 0 (empty-step expressions are rejected)', valid, pc=P.pc))
                else:
                    obs.append(rvc.logic('C18.range.parse/%s/reject-invalid' % tag, F, 'rejected => the block is not a valid range (no valid expression is refused)', z3.Not(valid), pc=P.pc))
            if not P.next():
                break
    # operator<<: format selection re-parses to the same enumeration
    fo = rvc.functions(rvc.ast(rel, 'votca::tools::operator<<'))
    opf = [f for f in fo.get('operator<<', []) if any('RangeParser' in p_['type']['qualType'] for p_ in f['inner'] if p_.get('kind') == 'ParmVarDecl')]
    if not opf:
        raise core.Undecided('front end: operator<<(ostream&, const RangeParser&) not found')
    P = rvc.Paths()
    while True:
        P.start()
        b, st, e = [sp.Symbol(n, integer=True) for n in ('b', 's', 'e')]
        zb, zs, ze = z3.Int('b'), z3.Int('s'), z3.Int('e')
        rvc.CTX.base = [z3.Or(z3.And(zs > 0, zb <= ze), z3.And(zs < 0, zb >= ze))]       # a valid block
        out = []
        rp = {'blocks_': [{'begin_': SInt(b), 'stride_': SInt(st), 'end_': SInt(e)}]}
        def construct(ex, n, ty, args):
            if 'iterator' in ty and len(args) == 1:
                return rvc.rval(ex.expr(args[0]))
            return NotImplemented
        cb = {'decide': P.decide, 'ostream_write': out.append, 'construct': construct}
        ex = Exec({'out': 'ostream', 'rp': rp}, cb, fns, None)
        try:
            ex.stmt(rvc.body_of(opf[0]))
        except Ret:
            pass
        toks = [x for x in out if x != ':' and x != ',']
        seps = [x for x in out if x == ':']
        tag = 'p%d' % P.count
        okfmt = len(toks) == len(seps) + 1 and 1 <= len(toks) <= 3
        obs.append(Ob('C18.range.print/%s/format' % tag, 'operator<<(ostream, RangeParser)', 'printed form is 1..3 integers separated by ":"', 'RVC', 'symbolic execution', core.PROVED if okfmt else core.REFUTED, 0, str(out),
                      witness=None if okfmt else {'printed': str(out)}))
        if okfmt:
            tz = [rvc.to_z3(SInt.ex(t)) for t in toks]
            rb, rs, re_ = tz[0], (tz[1] if len(tz) == 3 else z3.IntVal(1)), (tz[0] if len(tz) == 1 else tz[-1])
            # same enumeration: same begin, and either the same stride and end, or both blocks consist of the single element begin
            # (a block is a single element exactly when one more stride leaves it - linear, no division needed)
            single = z3.Or(z3.And(zs > 0, zb + zs > ze), z3.And(zs < 0, zb + zs < ze))
            rsingle = z3.Or(z3.And(rs > 0, rb <= re_, rb + rs > re_), z3.And(rs < 0, rb >= re_, rb + rs < re_))
            same = z3.And(rb == zb, z3.Or(z3.And(rs == zs, re_ == ze), z3.And(single, rsingle)))
            obs.append(rvc.logic('C18.range.print/%s/roundtrip' % tag, 'operator<<(ostream, RangeParser)', 'parse(print(block)) enumerates the same sequence as block', same, pc=P.pc))
        if not P.next():
            break
    for o in obs:
        if o['status'] == core.REFUTED and o['id'].startswith('C18.range.parse') and isinstance(o.get('witness'), dict) and 't0' in o['witness']:
            try:
                o['replay'] = replay_parse(o['witness'])
            except core.Undecided as e_:
                o['replay'] = {'reproduced': False, 'error': str(e_)}
    for o in obs:
        if o['status'] == core.REFUTED and o['id'].startswith('C18.range.print') and isinstance(o.get('witness'), dict) and all(k in o['witness'] for k in 'bse'):
            try:
                o['replay'] = replay_print(o['witness'])
            except core.Undecided as e_:
                o['replay'] = {'reproduced': False, 'error': str(e_)}
    mf = [{'name': 'RangeParser::ParseBlock', 'file': rel, 'ast_nodes': rvc.node_count(fn)}, {'name': 'operator<<(std::ostream&, const RangeParser&)', 'file': 'tools/include/votca/tools/rangeparser.h', 'ast_nodes': rvc.node_count(opf[0])}]
    for o in obs:
        o['functions'] = mf
    return obs


def replay_print(w):
    """the verifier's block (b, s, e) through the real printer and back through the real parser: both enumerations must agree"""
    text = '%d:%d:%d' % (int(w['b']), int(w['s']), int(w['e']))
    prog = r"""#include <cstdio>
#include <sstream>
#include <vector>
#include "votca/tools/rangeparser.h"
using namespace votca::tools;
static std::vector<long> seq(RangeParser &rp) { std::vector<long> v; for (RangeParser::iterator it = rp.begin(); it != rp.end(); ++it) { if (v.size() > 100000) break; v.push_back(*it); } return v; }
int main(int argc, char **argv) { RangeParser a; a.Parse(argv[1]); std::stringstream ss; ss << a; RangeParser b;
  try { b.Parse(ss.str()); } catch (std::exception &e) { printf("printed '%s' is rejected: %s\n", ss.str().c_str(), e.what()); return 1; }
  std::vector<long> x = seq(a), y = seq(b); printf("block %s printed as '%s': %zu elements before, %zu after\n", argv[1], ss.str().c_str(), x.size(), y.size()); return x == y ? 0 : 1; }
"""
    exe = native.build('C18.print', prog, ['tools/src/libtools/rangeparser.cc', 'tools/src/libtools/tokenizer.cc'])
    rc, out, err = native.execute(exe, [text], timeout=60)
    return {'reproduced': rc == 1, 'cmd': '%s %s' % (exe, text), 'rc': rc, 'stdout': out[:300], 'against': 'real RangeParser::Parse, operator<< and iterator with ASan+UBSan', 'input_from': 'verifier witness'}


def replay_parse(w):
    toks = [int(w['t%d' % i]) for i in range(3) if 't%d' % i in w]
    text = ':'.join(str(t) for t in toks)
    b, st, e = toks[0], (toks[1] if len(toks) == 3 else 1), (toks[0] if len(toks) == 1 else toks[-1])
    valid = (st > 0 and b <= e) or (st < 0 and b >= e)
    prog = r'''#include <cstdio>
#include <stdexcept>
#include "votca/tools/rangeparser.h"
using namespace votca::tools;
int main(int argc, char **argv) { RangeParser rp; try { rp.Parse(argv[1]); } catch (std::exception &) { printf("REJECTED\n"); return 0; }
  printf("ACCEPTED"); long n = 0; for (RangeParser::iterator it = rp.begin(); it != rp.end(); ++it) { if (++n > 1000) { printf(" NONTERMINATING"); break; } printf(" %ld", *it); } printf("\n"); return 0; }
'''
    exe = native.build('C18.parse', prog, ['tools/src/libtools/rangeparser.cc', 'tools/src/libtools/tokenizer.cc'])
    rc, out, err = native.execute(exe, [text], timeout=60)
    acc = out.startswith('ACCEPTED')
    exp = []
    if valid:
        v = b
        while (v <= e if st > 0 else v >= e) and len(exp) < 1001:
            exp.append(v)
            v += st
    got = out.split()[1:] if acc else None
    bad = (acc != valid) or (acc and valid and len(exp) <= 1000 and got != [str(x) for x in exp])
    return {'reproduced': bool(bad), 'cmd': '%s %s' % (exe, text), 'stdout': out[:300], 'expected': 'valid range' if valid else 'must be rejected', 'against': 'real RangeParser::Parse with ASan+UBSan'}


class SymStr:
    """std::string model for the run-length printer: a sequence of pieces (literal text or symbolic integers)"""
    def __init__(s, pieces=()):
        s.p = list(pieces)
    def __add__(s, o):
        return SymStr(s.p + (o.p if isinstance(o, SymStr) else [o]))
    def __radd__(s, o):
        return SymStr([o] + s.p)


def job_indexstring(seed, n):
    """xtp::IndexParser::CreateIndexString run-length loop on the real AST for n sorted distinct symbolic indices (std::set = assumed contract):
    the emitted runs are maximal, disjoint, in order, and their union is exactly the input set"""
    rvc.reset()
    rel = 'xtp/src/libxtp/IndexParser.cc'
    fns = rvc.functions(rvc.ast(rel, 'IndexParser::CreateIndexString'))
    if 'CreateIndexString' not in fns:
        raise core.Undecided('front end: IndexParser::CreateIndexString not found')
    fn = fns['CreateIndexString'][0]
    obs = []
    F = 'IndexParser::CreateIndexString'
    bound = '%d distinct indices (values symbolic)' % n
    P = rvc.Paths(budget=5000)
    while True:
        P.start()
        xs = [sp.Symbol('x%d' % i, integer=True) for i in range(n)]
        rvc.CTX.base = [z3.Int('x%d' % i) < z3.Int('x%d' % (i + 1)) for i in range(n - 1)]     # contract of std::set: sorted, duplicate-free
        sorted_unique = [SInt(x) for x in xs]
        def decl(ex, vd, ty, inner):
            if re.search(r'\bset<', ty):
                return 'SET'
            if vd['name'] == 'sorted_unique':
                return sorted_unique
            if 'string' in ty and 'vector' not in ty:
                return SymStr()
            return NotImplemented
        def adjacent_difference(b, e, out):
            src, dst = b.lst, out.lst
            for i in range(b.i, e.i):
                dst[out.i + i - b.i] = src[i] if i == b.i else SInt(SInt.ex(src[i]) - SInt.ex(src[i - 1]))
            return None
        cb = {'decide': P.decide, 'decl': decl, 'adjacent_difference': adjacent_difference, 'to_string': lambda v: SymStr([v]), 'trim': lambda *a: None,
              'empty': lambda o: len(o) == 0 if isinstance(o, list) else False}
        ex = Exec({'indeces': 'INPUT'}, cb, {}, None)
        ret = None
        try:
            ex.stmt(rvc.body_of(fn))
        except Ret as r:
            ret = r.v
        if not isinstance(ret, SymStr):
            raise rvc.Unsupported('CreateIndexString returned %r' % type(ret))
        # parse the pieces into runs:  v " "   |   v ":" v " "
        runs, i, p, okfmt = [], 0, ret.p, True
        while i < len(p):
            if i + 3 < len(p) and p[i + 1] == ':' and p[i + 3] == ' ':
                runs.append((p[i], p[i + 2])); i += 4
            elif i + 1 < len(p) and p[i + 1] == ' ':
                runs.append((p[i], p[i])); i += 2
            else:
                okfmt = False
                break
        tag = 'n%d.p%d' % (n, P.count)
        obs.append(Ob('C18.index.string/%s/format' % tag, F, 'output is a space separated list of "v" and "a:b" items', 'RVC', 'symbolic execution', core.BOUNDED if okfmt else core.REFUTED, 0, str(p)[:200], bound=bound,
                      witness=None if okfmt else {'pieces': str(p)[:300]}))
        if okfmt:
            zx = [z3.Int('x%d' % k) for k in range(n)]
            zr = [(rvc.to_z3(SInt.ex(a)), rvc.to_z3(SInt.ex(b))) for a, b in runs]
            cl = []
            for (a, b) in zr:
                cl.append(a <= b)
            for k in range(len(zr) - 1):
                cl.append(zr[k][1] + 1 < zr[k + 1][0])          # disjoint, ordered and maximal (a gap of at least one missing index between runs)
            for k in range(n):
                cl.append(z3.Or(*[z3.And(a <= zx[k], zx[k] <= b) for a, b in zr]) if zr else z3.BoolVal(False))      # every input index is covered
            # nothing else is covered: total length of the runs equals n
            tot = sum((b - a + 1 for a, b in zr), z3.IntVal(0))
            cl.append(tot == n)
            obs.append(rvc.logic('C18.index.string/%s/runs' % tag, F, 'runs are well-formed, ordered, separated by gaps (maximal), cover every index and nothing else', z3.And(*cl), pc=P.pc, bound=bound))
        if not P.next():
            break
    mf = [{'name': F, 'file': rel, 'ast_nodes': rvc.node_count(fn)}]
    for o in obs:
        o['functions'] = mf
    return obs


def collect(obs):
    seen = set(f['name'] + f.get('route', '') for f in META['functions'])
    for o in obs:
        for f in o.pop('functions', []) or []:
            if f['name'] + f.get('route', '') not in seen:
                seen.add(f['name'] + f.get('route', ''))
                META['functions'].append(f)


def job_beadlist(seed, n=2):
    """BeadList::Generate / GenerateInSphericalSubvolume: a bead is selected exactly when wildcmp(pattern, its type) holds - its name for a "name:" selection, the
    pattern being the text after the prefix - (and, for the sub-volume, its minimum-image distance from the reference point is <= the radius); selected beads appear
    once each in topology order and the return value is their number.  wildcmp enters as an arbitrary predicate (every truth table over the pattern/string pairs
    the code could form is enumerated), so a call with the wrong pattern or the wrong string is seen."""
    import itertools
    rvc.reset()
    rel = 'csg/src/libcsg/beadlist.cc'
    fns = rvc.functions(rvc.ast(rel, 'BeadList::Generate'))
    obs = []
    for fname in ('Generate', 'GenerateInSphericalSubvolume'):
        if fname not in fns:
            raise core.Undecided('front end: BeadList::%s not found' % fname)
        fn = fns[fname][0]
        F = 'BeadList::' + fname
        sub = fname != 'Generate'
        mf = [{'name': F, 'file': rel, 'ast_nodes': rvc.node_count(fn), 'route': 'RVC'}]
        for select, byname, pat in (('X*', False, 'X*'), ('name:X*', True, 'X*'), ('name:', True, ''), ('nam', False, 'nam'), ('name', False, 'name')):
            strings = ['T%d' % i for i in range(n)] + ['N%d' % i for i in range(n)]
            pats = sorted(set([select, pat]))
            keys = [(p_, s_) for p_ in pats for s_ in strings]
            dists = list(itertools.product((1, 2, 3), repeat=n)) if sub else [None]
            bad, runs = None, 0
            for bits in itertools.product((False, True), repeat=len(keys)):
                W = dict(zip(keys, bits))
                for dd in dists:
                    runs += 1
                    beads = [{'__class__': 'Bead', 'id': i, 'type': 'T%d' % i, 'name': 'N%d' % i, 'pos': Mx.vec([i, 0, 0])} for i in range(n)]
                    calls = []
                    def wild(p_, s_):
                        calls.append((p_, s_))
                        if (p_, s_) not in W:
                            raise rvc.Unsupported('wildcmp(%r, %r): arguments outside the enumerated pattern/string pairs' % (p_, s_))
                        return W[(p_, s_)]
                    class Conn:
                        def __init__(s, d): s.d = d
                        def norm(s): return D(s.d)
                    top = {'__class__': 'Topology'}
                    cb = {'wildcmp': wild, 'Beads': lambda t: beads, 'getType': lambda b: b['type'], 'getName': lambda b: b['name'], 'getPos': lambda b: b['pos'],
                          'BCShortestConnection': lambda t, a, b: Conn(dd[[x['pos'] for x in beads].index(b)] if dd else 0), 'size': lambda o: len(o['beads_']) if isinstance(o, dict) else len(o)}
                    this = {'__class__': 'BeadList', 'beads_': [], 'topology_': None}
                    env = {'top': top, 'select': select}
                    if sub:
                        env.update({'ref': Mx.vec([0, 0, 0]), 'radius': D(2)})
                    ex = Exec(env, cb, {}, this)
                    ret = None
                    try:
                        ex.stmt(rvc.body_of(fn))
                    except Ret as r:
                        ret = r.v
                    want = [b for i, b in enumerate(beads) if W[(pat, b['name'] if byname else b['type'])] and (not sub or dd[i] <= 2)]
                    got = this['beads_']
                    if [b['id'] for b in got] != [b['id'] for b in want] or rvc._i(ret) != len(want):
                        bad = {'select': select, 'wildcmp_true_for': [k for k in keys if W[k]], 'distances': dd, 'radius': 2, 'selected_ids': [b['id'] for b in got], 'expected_ids': [b['id'] for b in want], 'returned': str(ret), 'wildcmp_calls': calls[:6]}
                        break
                if bad:
                    break
            tag = '%s/%s' % (fname, select.replace(':', '_').replace('*', 'S') or 'EMPTY')
            o = Ob('C18.beadlist/' + tag, F, 'bead selected iff wildcmp(%r, bead %s)%s; topology order, once each; returns the count' % (pat, 'name' if byname else 'type', ' and its minimum-image distance from ref is <= radius' if sub else ''),
                   'RVC', 'symbolic execution, wildcmp as an arbitrary predicate (%d truth tables%s)' % (2 ** len(keys), ' x %d distance patterns' % len(dists) if sub else ''), core.REFUTED if bad else core.BOUNDED, 0,
                   'runs: %d' % runs, witness=bad, bound='%d beads' % n)
            o['functions'] = mf
            obs.append(o)
    badobs = [o for o in obs if o['status'] == core.REFUTED and o['id'].startswith('C18.beadlist/')]
    if badobs:
        try:
            exe = native.build('C18.beadlist', open(os.path.join(CDIR, 'replay_beadlist.cc')).read(), [], sanitize=False, opt='-O1', libs=native.libs())
            rc, out, err = native.execute(exe, [], timeout=60)
            for o in badobs:
                o['replay'] = {'reproduced': rc == 1, 'cmd': exe, 'rc': rc, 'stdout': (out or '')[-700:], 'stderr': (err or '')[-300:], 'input_from': 'fixed topology and selections in the domain of the contract',
                               'against': 'real BeadList::Generate / GenerateInSphericalSubvolume (libvotca_csg from the working tree) against a brute-force selection with the real wildcmp'}
        except core.Undecided as e:
            for o in badobs:
                o['replay'] = {'reproduced': False, 'error': str(e)}
    return obs


def run(tier, seed, only=None):
    Ns = (3, 4) if tier == 'quick' else (4, 5, 6)
    jobs = [(job_wild_spec, (n,)) for n in Ns] + [(job_wild_safety, ()), (job_range_step, ()), (job_parseblock, (seed,)), (job_beadlist, (seed,))] + [(job_indexstring, (seed, n)) for n in ((1, 2, 3, 4) if tier == 'quick' else (1, 2, 3, 4, 5, 6))]
    if only:
        jobs = [j for j in jobs if re.search(only, j[0].__name__ + str(j[1]))]
    obs = core.pmap(jobs)
    collect(obs)
    return obs, META
