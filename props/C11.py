"""C11 - option handling (partial): the merge of user input over defaults and its checks (DESIGN.md section 5, C11)

Decided: OptionsHandler::CheckUserInput, OverwriteDefaultsWithUserInput, RemoveOptional, CheckRequired, InjectDefaultsAsValues and the order in which
ProcessUserInput applies them, executed from the AST of optionshandler.cc over small description/user trees, with tools::Property by an assumed
contract (ordered children, last-wins lookup by name, attributes, deep copy on add).  The expected result is computed from the property statement, not
from the code.  The choice / type validation (RecursivelyCheckOptions, GetPropertyChoices, IsValidOption, IsValidCast<T>) is executed on enumerated (choices, value) pairs.
NOT decided: XML loading/printing (expat), link resolution against the shipped files, typed access as<T> itself."""
import os, re, time, itertools, copy
import sympy as sp
from vlib import core, rvc, native
from vlib.core import Ob
from vlib.rvc import D, Mx, Exec, Ret, Thrown, SInt

REL = 'tools/src/libtools/optionshandler.cc'
CDIR = os.path.join(core.VERIF, 'contracts', 'C11')
META = {
    'level': 'other', 'functions': [],
    'trusted_base': ['clang 14 AST = the code g++ compiles', 'RVC executor (concrete trees: every obligation is bounded by the enumerated description and user trees)',
                     'ASSUMED contract of tools::Property: ordered child list, get/exists by name (last child of that name), Select(name) = children of that name in order, add() appends a deep copy, '
                     'deleteChildren(pred) removes exactly the children satisfying pred, string attributes; std::map<string,Index> iterates in key order; std::none_of by its definition'],
    'assumptions': ['the description tree after link resolution is given (LoadDefaults / ResolveLinks are ghost events)'],
    'not_decided': ['XML round trip (expat loader, printer, special characters)', 'link resolution and the ~40 shipped option files', 'typed access as<T> itself (Property::as<T> is an assumed contract in the choice validation)', 'trees beyond the enumerated ones'],
    'explanation': 'partial: the user-over-default merge and its rejections on enumerated small trees, relative to an assumed Property contract',
}


class P(list):
    """tools::Property by its assumed contract; the list holds the children in order"""
    def __init__(s, name, value='', attrs=None, children=(), path=''):
        list.__init__(s, [])
        s.name_, s.value_, s.attrs, s.path_ = name, value, dict(attrs or {}), path
        for c in children:
            s.add(c)
    def clone(s, path=None):
        q = P(s.name_, s.value_, s.attrs, (), s.path_ if path is None else path)
        for c in s:
            q.add(c)
        return q
    def _childpath(s):
        return (s.path_ + '.' + s.name_) if s.path_ else s.name_
    # --- contract
    def name(s): return s.name_
    def path(s): return s.path_
    def value(s): return rvc.Ref(lambda: s.value_, lambda v: setattr(s, 'value_', v))
    def hasAttribute(s, k): return k in s.attrs
    def getAttribute(s, k):
        if k not in s.attrs:
            raise Thrown('std::runtime_error')
        return s.attrs[k]
    def setAttribute(s, k, v): s.attrs[k] = v
    def deleteAttribute(s, k): s.attrs.pop(k, None)
    def HasChildren(s): return len(s) > 0
    def exists(s, key):
        try:
            s.get(key); return True
        except Thrown:
            return False
    def get(s, key):
        cur = s
        for part in key.split('.'):
            hit = [c for c in cur if c.name_ == part]
            if not hit:
                raise Thrown('std::runtime_error')
            cur = hit[-1]                      # map_: last child of that name wins
        return cur
    def add(s, other, value=None):
        if isinstance(other, P):
            c = other.clone(s._childpath())
            c._repath()
        else:
            c = P(other, value or '', None, (), s._childpath())
        list.append(s, c)
        return c
    def _repath(s):
        for c in s:
            c.path_ = s._childpath(); c._repath()
    def Select(s, flt): return [c for c in s if c.name_ == flt]
    def deleteChildren(s, cond):
        keep = [c for c in s if not cond(c)]
        del s[:]
        list.extend(s, keep)


def tree(spec, name='options', path=''):
    """spec: (value, attrs, [(childname, spec), ...])"""
    value, attrs, kids = spec
    p = P(name, value, attrs, (), path)
    for (kn, ks) in kids:
        list.append(p, tree(ks, kn, p._childpath()))
    return p


def leaves(p, pre=''):
    out = []
    here = (pre + '.' + p.name_) if pre else p.name_
    if not len(p):
        out.append((here, p.value_))
    for c in p:
        out.extend(leaves(c, here))
    return out


RESERVED = ('OPTIONAL', 'REQUIRED')


def spec_resolve(dflt, user, path):
    """the resolved options according to the property statement; returns a list of (path, value) leaves or raises ValueError(reason)"""
    here = (path + '.' + dflt.name_) if path else dflt.name_
    out = []
    if 'unchecked' in dflt.attrs:
        # nothing inside is checked: the user's subtree is taken as it is (the declared children keep their defaults unless the user names them)
        if user is not None:
            for c in user:
                out.extend(leaves(c, here))
        declared = [c for c in dflt if user is None or not [u for u in user if u.name_ == c.name_]]
        for c in declared:
            out.extend(spec_resolve(c, None, here))
        if not len(dflt) and (user is None or not len(user)):
            out.append((here, user.value_ if user is not None else ''))
        return out
    if user is not None:
        for u in user:
            if not [c for c in dflt if c.name_ == u.name_]:
                raise ValueError('undeclared option %s.%s' % (here, u.name_))
    if not len(dflt):                                   # declared leaf
        d = dflt.attrs.get('default')
        if user is not None:
            return [(here, user.value_)]
        if d == 'OPTIONAL':
            return []
        if d == 'REQUIRED':
            raise ValueError('missing required option %s' % here)
        return [(here, d if d is not None else dflt.value_)]
    if 'list' in dflt.attrs and user is None:
        # a list section the user does not mention at all keeps its declared element(s) with their defaults ("every other declared leaf with its default")
        for c in dflt:
            out.extend(spec_resolve(c, None, here))
        return out
    if 'list' in dflt.attrs:
        for tag in sorted(set(c.name_ for c in dflt)):
            tmpl = [c for c in dflt if c.name_ == tag][-1]
            for u in ([x for x in user if x.name_ == tag] if user is not None else []):
                out.extend(spec_resolve(tmpl, u, here))
        return out
    # a section the user did not mention at all: OPTIONAL sections disappear, the others keep their defaults
    if user is None and dflt.attrs.get('default') == 'OPTIONAL':
        return []
    for c in dflt:
        us = [x for x in user if x.name_ == c.name_] if user is not None else []
        out.extend(spec_resolve(c, us[-1] if us else None, here))
    return out


def fns_all():
    fns = rvc.functions(rvc.ast(REL, 'OptionsHandler::'))
    for need in ('ProcessUserInput', 'CheckUserInput', 'OverwriteDefaultsWithUserInput', 'RemoveOptional', 'CheckRequired', 'InjectDefaultsAsValues'):
        if need not in fns:
            raise core.Undecided('front end: OptionsHandler::%s not found' % need)
    return fns


class TagMap(list):
    """std::map<std::string, Index>: operator[] default-inserts 0; iteration in key order (assumed contract)"""
    def index_ref(s, idx):
        k = idx[0]
        hit = [e for e in s if e['first'] == k]
        if not hit:
            e = {'first': k, 'second': 0}
            list.append(s, e)
            list.sort(s, key=lambda x: x['first'])
            hit = [e]
        e = hit[0]
        return rvc.Ref(lambda: e['second'], lambda v: e.__setitem__('second', rvc._i(v)))


# description trees (after link resolution) and user inputs; L = leaf with default
def L(default=None, **attrs):
    a = dict(attrs)
    if default is not None:
        a['default'] = default
    return ('', a, [])

DESCRIPTIONS = {
    'plain': ('', {}, [('calc', ('', {}, [('a', L('1')), ('b', L('x')), ('sec', ('', {}, [('c', L('2.5')), ('d', L('OPTIONAL'))]))]))]),
    'required': ('', {}, [('calc', ('', {}, [('a', L('REQUIRED')), ('b', L('7'))]))]),
    'optional-section': ('', {}, [('calc', ('', {}, [('a', L('1')), ('opt', ('', {'default': 'OPTIONAL'}, [('e', L('5'))]))]))]),
    'list': ('', {}, [('calc', ('', {}, [('a', L('1')), ('items', ('', {'list': ''}, [('item', ('', {}, [('n', L('0')), ('m', L('OPTIONAL'))]))]))]))]),
    'unchecked': ('', {}, [('calc', ('', {}, [('a', L('1')), ('free', ('', {'unchecked': ''}, []))]))]),
    'required-nested': ('', {}, [('calc', ('', {}, [('a', L('1')), ('sec', ('', {'default': 'REQUIRED'}, [('x', L('REQUIRED')), ('y', L('2')), ('deep', ('', {}, [('z', L('REQUIRED'))]))]))]))]),
}
U = lambda v='', kids=(): (v, {}, list(kids))
USERS = {
    'plain': [('none', U('', [('calc', U())])), ('a', U('', [('calc', U('', [('a', U('9'))]))])), ('nested', U('', [('calc', U('', [('sec', U('', [('c', U('3')), ('d', U('yes'))]))]))])),
              ('empty-value', U('', [('calc', U('', [('b', U(''))]))])), ('undeclared', U('', [('calc', U('', [('zz', U('1'))]))])), ('undeclared-nested', U('', [('calc', U('', [('sec', U('', [('q', U('1'))]))]))]))],
    'required': [('given', U('', [('calc', U('', [('a', U('3'))]))])), ('missing', U('', [('calc', U('', [('b', U('8'))]))]))],
    'optional-section': [('absent', U('', [('calc', U('', [('a', U('2'))]))])), ('present', U('', [('calc', U('', [('opt', U('', [('e', U('6'))]))]))])), ('present-empty', U('', [('calc', U('', [('opt', U())]))]))],
    'list': [('not-mentioned', U('', [('calc', U('', [('a', U('2'))]))])), ('zero', U('', [('calc', U('', [('items', U())]))])), ('one', U('', [('calc', U('', [('items', U('', [('item', U('', [('n', U('4'))]))]))]))])),
             ('two', U('', [('calc', U('', [('items', U('', [('item', U('', [('n', U('4'))])), ('item', U('', [('m', U('k'))]))]))]))])),
             ('undeclared-in-item', U('', [('calc', U('', [('items', U('', [('item', U('', [('zz', U('4'))]))]))]))]))],
    'required-nested': [('complete', U('', [('calc', U('', [('sec', U('', [('x', U('5')), ('deep', U('', [('z', U('6'))]))]))]))])), ('inner-missing', U('', [('calc', U('', [('sec', U('', [('y', U('3')), ('deep', U('', [('z', U('6'))]))]))]))])),
                        ('deep-missing', U('', [('calc', U('', [('sec', U('', [('x', U('5'))]))]))])), ('section-missing', U('', [('calc', U('', [('a', U('2'))]))]))],
    'unchecked': [('inside', U('', [('calc', U('', [('free', U('', [('maxcore', U('3000')), ('deep', U('', [('er', U('1'))]))]))]))])), ('untouched', U('', [('calc', U('', [('a', U('2'))]))])),
                  ('outside', U('', [('calc', U('', [('zz', U('1'))]))]))],
}


def run_process(fns, dflt, user):
    """ProcessUserInput with LoadDefaults (and the link resolution inside it) and RecursivelyCheckOptions as ghost events"""
    ev = []
    work = dflt.clone()
    work._repath()
    cb = {'LoadDefaults': lambda o, n: (ev.append('load'), work)[1], 'RecursivelyCheckOptions': lambda o, p: ev.append('choices'),
          'none_of': lambda a, b, f: not any(rvc.rval(f(x)) for x in a.lst[a.i:b.i]),
          'decl': lambda ex_, vd, ty, inner: (TagMap() if re.search(r'map<(std::)?(__cxx11::)?(basic_)?string', ty + vd['type'].get('desugaredQualType', '')) else NotImplemented),
          'exec_functions': ('CheckUserInput', 'OverwriteDefaultsWithUserInput', 'RemoveOptional', 'CheckRequired', 'InjectDefaultsAsValues')}
    this = {'__class__': 'OptionsHandler', 'reserved_keywords_': list(RESERVED), 'defaults_path_': 'PATH', 'additional_choices_': []}
    ex = Exec({'user_input': user, 'calcname': 'calc'}, cb, fns, this)
    try:
        ex.stmt(rvc.body_of(fns['ProcessUserInput'][0]))
    except Ret as r:
        return 'ok', r.v, ev
    except Thrown:
        return 'rejected', None, ev
    return 'ok', None, ev


def job_merge(seed):
    rvc.reset()
    fns = fns_all()
    obs = []
    mfs = [{'name': 'OptionsHandler::' + k, 'file': REL, 'ast_nodes': rvc.node_count(fns[k][0])} for k in ('ProcessUserInput', 'CheckUserInput', 'OverwriteDefaultsWithUserInput', 'RemoveOptional', 'CheckRequired', 'InjectDefaultsAsValues')]
    for dn, dspec in DESCRIPTIONS.items():
        for un, uspec in USERS[dn]:
            dflt = tree(('', {}, [('options', dspec)]), '')          # the document root holds one child <options>
            user = tree(('', {}, [('options', uspec)]), '')
            try:
                exp = sorted(spec_resolve(dflt.get('options'), user.get('options'), ''))
                exp_status = 'ok'
            except ValueError as e:
                exp, exp_status = str(e), 'rejected'
            status, res, ev = run_process(fns, dflt, user)
            got = sorted(leaves(res.get('options'))) if (status == 'ok' and isinstance(res, P) and res.exists('options')) else None
            if got is not None:
                # a declared SECTION that ends up without children (a list the user emptied) is not an option leaf
                def sections(p, pre=''):
                    here = (pre + '.' + p.name_) if pre else p.name_
                    return ([here] if len(p) else []) + [x for c in p for x in sections(c, here)]
                secs = set(sections(dflt.get('options')))
                got = [g for g in got if not (g[0] in secs and g[1] == '')]
            if exp_status == 'rejected':
                ok = status == 'rejected'
                clause = 'rejected with an error: %s' % exp
            else:
                ok = status == 'ok' and got == exp
                clause = 'accepted; the resolved options hold each user-supplied leaf with the user\'s value, every other declared leaf with its default (OPTIONAL ones the user left out absent), and nothing else'
            o = Ob('C11.merge/%s.%s' % (dn, un), 'OptionsHandler::ProcessUserInput', clause, 'RVC', 'symbolic execution (concrete trees)', core.BOUNDED if ok else core.REFUTED, 0,
                   'expected %s %s; got %s %s' % (exp_status, exp if exp_status == 'ok' else '', status, got), bound='description "%s", user input "%s"' % (dn, un),
                   witness=None if ok else {'description': dn, 'user_input': un, 'expected': str(exp)[:400], 'got_status': status, 'got': str(got)[:400]})
            o['functions'] = mfs
            obs.append(o)
            if not ok and dn == 'unchecked':
                replay_unchecked(o)
            okev = ev[:1] == ['load'] and (status == 'rejected' or ev[-1:] == ['choices'])
            o2 = Ob('C11.order/%s.%s' % (dn, un), 'OptionsHandler::ProcessUserInput', 'the description is loaded first; the choice/type validation runs last, on the merged tree', 'RVC', 'symbolic execution', core.BOUNDED if okev else core.REFUTED, 0, str(ev),
                    bound='description "%s", user input "%s"' % (dn, un), witness=None if okev else {'events': str(ev)})
            o2['functions'] = mfs
            obs.append(o2)
    return obs


class TokList(list):
    def ToVector(s): return list(s)


NPOS = 1 << 62


def job_choices(seed):
    """RecursivelyCheckOptions / GetPropertyChoices / IsValidOption / IsValidCast<T>, executed from the AST on one leaf with a `choices` attribute:
    accepted exactly when the value is inside the declared choices / type.  Property::as<T> and Tokenizer enter by assumed contracts."""
    rvc.reset()
    fns = rvc.functions(rvc.ast(REL, 'OptionsHandler::'))
    # IsValidOption and the IsValidCast<T> instantiations it refers to must come from ONE dump (declaration ids are per clang run): the filter 'IsValid' matches both
    fns.update({k: v for k, v in rvc.functions(rvc.ast(REL, 'IsValid')).items() if k in ('IsValidCast', 'IsValidOption')})
    for need in ('RecursivelyCheckOptions', 'GetPropertyChoices', 'IsValidOption', 'IsValidCast'):
        if need not in fns:
            raise core.Undecided('front end: %s not found in optionshandler.cc' % need)
    mfs = [{'name': ('OptionsHandler::' if k != 'IsValidCast' else '') + k, 'file': REL, 'ast_nodes': rvc.node_count(fns[k][0])} for k in ('RecursivelyCheckOptions', 'GetPropertyChoices', 'IsValidOption', 'IsValidCast')]
    def num(v, kind):
        try:
            return (float(v) if kind == 'float' else int(v))
        except ValueError:
            return None
    # (choices attribute, value) -> accepted?   -- from the property statement: one of the listed words; several of the bracketed words; a literal of the declared type
    CASES = []
    for v, ok in (('a', True), ('c', True), ('d', False), ('a,b', False), ('a b', False), ('ab', False), ('', False)):
        CASES.append(('a,b,c', v, ok))
    for v, ok in (('a', True), ('a,b', True), ('c a', True), ('a,d', False), ('d', False), ('ab', False)):
        CASES.append(('[a,b,c]', v, ok))
    for v, ok in (('true', True), ('false', True), ('maybe', False), ('1.5', False)):
        CASES.append(('bool', v, ok))
    for v, ok in (('1.5', True), ('-1.5', True), ('3', True), ('abc', False), ('', False)):
        CASES.append(('float', v, ok))
    for v, ok in (('1.5', True), ('0', True), ('-1.5', False), ('abc', False)):
        CASES.append(('float+', v, ok))
    for v, ok in (('3', True), ('-3', True), ('1.5', False), ('abc', False)):
        CASES.append(('int', v, ok))
    for v, ok in (('3', True), ('0', True), ('-3', False), ('1.5', False)):
        CASES.append(('int+', v, ok))
    obs = []
    for nested in (False, True):
      for extra in ((), ('special',)):
        for att, val, ok_exp in CASES:
            if (nested or extra) and not (att in ('a,b,c', '[a,b,c]', 'int+')):
                continue
            leaf = P('opt', val, {'choices': att})
            free = P('other', 'anything', {})            # a leaf without choices is not validated
            root = P('options', '', {}, [P('calc', '', {}, [free, P('sec', '', {}, [leaf])] if nested else [free, leaf])])
            root._repath()
            def as_(obj, n, *a):
                ty = n['type']['qualType'].replace('const ', '')
                v = obj.value_.strip()
                if 'string' in ty:
                    return v
                if ty == 'bool':
                    if v in ('true', 'TRUE', '1', 'yes'): return True
                    if v in ('false', 'FALSE', '0', 'no'): return False
                    raise Thrown('std::runtime_error')
                if ty == 'double':
                    x = num(v, 'float')
                    if x is None: raise Thrown('std::runtime_error')
                    return D(sp.Rational(v))
                if ty in ('long', 'votca::Index', 'Index', 'int'):
                    x = num(v, 'int')
                    if x is None: raise Thrown('std::runtime_error')
                    return x
                raise rvc.Unsupported('Property::as<%s>' % ty)
            def construct(ex_, nn, ty, args):
                if 'Tokenizer' in ty:
                    a = [rvc.rval(ex_.expr(x)) for x in args]
                    return TokList([t for t in re.split('[%s]' % re.escape(a[1]), a[0]) if t])
                return NotImplemented
            def find(a, *rest):
                if isinstance(a, str):
                    i = a.find(rest[0])
                    return NPOS if i < 0 else i
                b, x = rest
                for i in range(a.i, b.i):
                    if a.lst[i] == x:
                        return rvc.ListIt(a.lst, i)
                return rvc.ListIt(a.lst, b.i)
            cb = {'as@': as_, 'getAttribute': lambda o_, k: o_.getAttribute(k), 'construct': construct, 'decl': lambda ex_, vd, ty, inner: (construct(ex_, vd, ty, [c for c in (inner[0].get('inner') or [])]) if 'Tokenizer' in ty else NotImplemented),
                  'find': find, 'cbegin': lambda v: rvc.ListIt(v, 0), 'cend': lambda v: rvc.ListIt(v, len(v)), 'global': lambda nm: NPOS if nm == 'npos' else (_ for _ in ()).throw(rvc.Unsupported('global ' + nm)),
                  'ostream_write': lambda *a: None, 'str': lambda o_: 'message',
                  'exec_functions': ('RecursivelyCheckOptions', 'GetPropertyChoices', 'IsValidOption', 'IsValidCast')}
            this = {'__class__': 'OptionsHandler', 'reserved_keywords_': list(RESERVED), 'defaults_path_': 'PATH', 'additional_choices_': list(extra)}
            ex = Exec({'p': root}, cb, fns, this)
            status = 'accepted'
            try:
                ex.stmt(rvc.body_of(fns['RecursivelyCheckOptions'][0]))
            except Ret:
                pass
            except Thrown:
                status = 'rejected'
            exp = 'accepted' if (ok_exp or val in extra) else 'rejected'
            tag = '%s%s%s/%s=%s' % ('nested.' if nested else '', 'extra.' if extra else '', att.replace(',', '_'), 'value', val.replace(' ', '_') or 'EMPTY')
            o = Ob('C11.choices/' + tag, 'OptionsHandler::RecursivelyCheckOptions', 'a leaf declared with choices="%s" and the value "%s" is %s (a value outside the declared choices / type is rejected)' % (att, val, exp), 'RVC', 'symbolic execution (concrete trees)',
                   core.BOUNDED if status == exp else core.REFUTED, 0, 'expected %s, got %s' % (exp, status), bound='one leaf, choices "%s", value "%s"' % (att, val),
                   witness=None if status == exp else {'choices': att, 'value': val, 'expected': exp, 'got': status})
            o['functions'] = mfs
            obs.append(o)
            if status != exp:
                replay_choices(o, att, val, exp)
    return obs


def replay_choices(o, att, val, exp):
    try:
        exe = native.build('C11.choices', open(os.path.join(CDIR, 'replay_choices.cc')).read(), [], sanitize=False, opt='-O1', libs=native.libs())
    except core.Undecided as e:
        o['replay'] = {'reproduced': False, 'error': str(e)}
        return
    d = os.path.join(core.VERIF, 'build', 'tmp', 'c11c_%d' % os.getpid())
    os.makedirs(d, exist_ok=True)
    open(os.path.join(d, 'calc_choices.xml'), 'w').write('<options>\n  <calc_choices help="test">\n    <opt help="o" default="%s" choices="%s"/>\n  </calc_choices>\n</options>\n' % ({'a,b,c': 'a', '[a,b,c]': 'a', 'bool': 'true'}.get(att, '1'), att))
    rc, out, err = native.execute(exe, [d + '/', val, exp], timeout=60)
    o['replay'] = {'reproduced': rc == 1, 'cmd': '%s %s/ "%s" %s' % (exe, d, val, exp), 'rc': rc, 'stdout': (out or '')[-600:], 'stderr': (err or '')[-300:],
                   'against': 'real OptionsHandler::ProcessUserInput (libvotca_tools from the working tree) on a description with one leaf declared choices="%s", user value "%s"' % (att, val)}


def replay_unchecked(o):
    try:
        exe = native.build('C11.unchecked', open(os.path.join(CDIR, 'replay_unchecked.cc')).read(), [], sanitize=False, opt='-O1', libs=native.libs())
    except core.Undecided as e:
        o['replay'] = {'reproduced': False, 'error': str(e)}
        return
    d = os.path.join(core.VERIF, 'build', 'tmp', 'c11_%d' % os.getpid())
    os.makedirs(d, exist_ok=True)
    open(os.path.join(d, 'calc_unchecked.xml'), 'w').write('<options>\n  <calc_unchecked help="test">\n    <a help="a" default="1"/>\n    <free help="package specific keywords can be added here" unchecked=""/>\n  </calc_unchecked>\n</options>\n')
    rc, out, err = native.execute(exe, [d + '/'], timeout=60)
    o['replay'] = {'reproduced': rc == 1, 'cmd': '%s %s/' % (exe, d), 'rc': rc, 'stdout': (out or '')[-600:], 'stderr': (err or '')[-300:],
                   'against': 'real OptionsHandler::ProcessUserInput (libvotca_tools from the working tree) on a description with an unchecked section, user option free.maxcore = 3000'}


def collect(obs):
    seen = set(f['name'] for f in META['functions'])
    for o in obs:
        for f in o.pop('functions', []) or []:
            if f['name'] not in seen:
                seen.add(f['name'])
                META['functions'].append(f)


def run(tier, seed, only=None):
    jobs = [(job_merge, (seed,)), (job_choices, (seed,))]
    obs = core.pmap(jobs)
    if only:
        obs = [o for o in obs if re.search(only, o['id']) or o['status'] == core.UNDECIDED]
    collect(obs)
    return obs, META
