"""C13 - histograms conserve weight and never write outside their bins (DESIGN.md section 5, C13)"""
import os, re
import time
import sympy as sp
import z3
from vlib import core, ccv, native, rvc
from vlib.rvc import D, Mx, Exec, Ret, SInt
from vlib.core import Ob

CDIR = os.path.join(core.VERIF, 'contracts', 'C13')
META = {
    'level': 'proof',
    'functions': [],
    'trusted_base': ['CBMC 6.11 (goto-cc C front end, dfcc contract instrumentation, SAT back end, IEEE-754 float_bv encoding)',
                     'CBMC built-in models of floor(), isnan(), isinf()', 'RVC executor + z3 for the which-bin / range obligations (real arithmetic, floor and numeric_limits by contract)'],
    'assumptions': [],
    'not_decided': ['csg_density / tabulatedpotential.cc callers', 'weight conservation over a whole stream (follows from the per-call frame by induction; not machine-checked)'],
}


def conformance(header_rel, decls):
    """every member the stub declares must be declared in the real header with the stated type"""
    src = ccv.strip_map(open(os.path.join(core.REPO, header_rel)).read())
    for typ, name in decls:
        if not re.search(r'\b%s\s+%s\b' % (typ, re.escape(name)), src):
            raise core.Undecided('declaration conformance: %s %s not found in %s' % (typ, name, header_rel))


def replay_process(ob):
    w = ob['witness']
    need = ['min_', 'step_', 'nbins_', 'periodic_', 'v', 'scale']
    if any(k not in w for k in need):
        return {'reproduced': False, 'error': 'witness incomplete: %r' % sorted(w)}
    if w['nbins_'] > 10000000:
        return {'reproduced': False, 'error': 'witness needs %d bins, not replayed' % w['nbins_']}
    exe = native.build('C13.process', open(os.path.join(CDIR, 'replay_process.cc')).read(),
                       ['tools/src/libtools/histogramnew.cc', 'tools/src/libtools/table.cc', 'tools/src/libtools/tokenizer.cc'], ndebug=False)
    args = [float(w['min_']).hex(), float(w['step_']).hex(), int(w['nbins_']), 1 if w['periodic_'] else 0, float(w['v']).hex(), float(w['scale']).hex()]
    rc, out, err = native.execute(exe, args)
    return {'reproduced': rc != 0, 'cmd': exe + ' ' + ' '.join(map(str, args)), 'rc': rc, 'stdout': out[-500:], 'stderr': err[-1500:],
            'against': 'real HistogramNew (histogramnew.cc, table.cc) with ASan+UBSan, Eigen assertions on'}


def process_ccv(tier):
    ex = ccv.extract('tools/src/libtools/histogramnew.cc', r'void\s+HistogramNew::Process\s*\(\s*const\s+double\s*&\s*v\s*,\s*double\s+scale\s*\)')
    conformance('tools/include/votca/tools/histogramnew.h', [('double', 'min_'), ('double', 'step_'), ('bool', 'periodic_'), ('Index', 'nbins_'), ('Table', 'data_')])
    META['functions'].append(dict(ex.info(), name='HistogramNew::Process', route='CCV (C mode, macro env)',
                                  dropped='C++ signature line (reference parameter v becomes a value), namespaces, class declaration (stub struct)'))
    contract = open(os.path.join(CDIR, 'process.contract.h')).read()
    tu = contract + '\nvoid HistogramNew_Process(struct HistogramNew *self, const double v, double scale, Index k1, Index k2)\n{' + ex.body + '}\n' + '''
#undef y
#undef data_
double in_v, in_scale; Index in_k1, in_k2; struct HistogramNew *in_self;
void h_process(void) {
  HistogramNew_Process(in_self, in_v, in_scale, in_k1, in_k2);
  __CPROVER_assert(0, "canary: reachable after the call");
}
'''
    maxbins = '1000000000'
    return ccv.build_and_check('C13.process', 'HistogramNew::Process', {'process.c': tu}, 'h_process', enforce='HistogramNew_Process',
                               defines=['VERIF_MAXBINS=' + maxbins], small_defines=['VERIF_MAXBINS=16'], replay=replay_process, timeout=1500, expect_fail=['canary'], need=['postcondition', 'frame'],
                               route_note='verbatim body, all finite v, nbins <= 1e9, both modes')


BIG = 9 * 10 ** 18


def job_process_logic(seed):
    """HistogramNew::Process over the reals (RVC): which bin is hit. floor by its contract; symbolic nbins; C99 % ; all paths"""
    rvc.reset()
    rel = 'tools/src/libtools/histogramnew.cc'
    fns = rvc.functions(rvc.ast(rel, 'HistogramNew::Process'))
    if 'Process' not in fns:
        raise core.Undecided('front end: HistogramNew::Process not found')
    fn = fns['Process'][0]
    F = 'HistogramNew::Process'
    obs = []
    v, mn, st, sc = sp.symbols('v hmin step scale', real=True)
    nb, kf = sp.Symbol('nbins', integer=True), sp.Symbol('kf', integer=True)
    zk, zn = z3.Int('kf'), z3.Int('nbins')
    for periodic in (False, True):
        P = rvc.Paths()
        while True:
            P.start()
            rvc.CTX.base = [z3.Real('step') > 0, zn >= 1, zn < BIG]     # a histogram cannot have 9e18 bins in memory
            writes = []
            kt = sp.Symbol('ktrunc', integer=True)
            ks = sp.Symbol('kspec', integer=True)
            zt, zs = z3.Int('ktrunc'), z3.Int('kspec')
            xs = rvc.to_z3((v - mn) / st + sp.Rational(1, 2))
            # specification integer: the bin position nearest to v, k* = floor((v - min)/step + 1/2)  (independent of the code)
            rvc.CTX.base += [z3.ToReal(zs) <= xs, xs < z3.ToReal(zs) + 1]
            code_ints = []
            def floor_c(x):
                x = D.lift(x)
                zx = rvc.to_z3(sp.together(x.v))
                rvc.CTX.base += [z3.ToReal(zk) <= zx, zx < z3.ToReal(zk) + 1]      # contract of floor
                return D(kf)
            def to_int(x):
                # contract of a double -> Index conversion: truncation toward zero
                zx = rvc.to_z3(sp.together(D.lift(x).v))
                rvc.CTX.base += [z3.Or(z3.And(zx >= 0, z3.ToReal(zt) <= zx, zx < z3.ToReal(zt) + 1), z3.And(zx < 0, z3.ToReal(zt) - 1 < zx, zx <= z3.ToReal(zt)))]
                return SInt(kt)
            def y_ref(tbl, i):
                return rvc.Ref(lambda: D(sp.Function('y')(SInt.ex(i))), lambda val, i=i: writes.append((i, val)))
            this = {'min_': D(mn), 'step_': D(st), 'nbins_': SInt(nb), 'periodic_': periodic, 'data_': 'TABLE'}
            ex = Exec({'v': D(v), 'scale': D(sc)}, {'decide': P.decide, 'floor': floor_c, 'to_int': to_int, 'y': y_ref}, {}, this)
            try:
                ex.stmt(rvc.body_of(fn))
            except Ret:
                pass
            tag = '%s.p%d' % ('periodic' if periodic else 'plain', P.count)
            x = (v - mn) / st
            repres = z3.And(zs > -BIG, zs < BIG)       # bin position representable as an index (the code drops anything beyond +-9e18 bins)
            if writes:
                if len(writes) != 1:
                    obs.append(Ob('C13.process.logic/%s/one-write' % tag, F, 'exactly one bin is written', 'RVC', 'symbolic execution', core.REFUTED, 0, str(len(writes)), witness={'writes': len(writes)}))
                idx, val = writes[0]
                zi = rvc.to_z3(SInt.ex(idx))
                obs.append(rvc.logic('C13.process.logic/%s/in-range' % tag, F, 'written index lies in [0, nbins)', z3.And(zi >= 0, zi < zn), pc=P.pc, small=[zn <= 16]))
                # which integer does the written index derive from? (the floor result, or the truncated cast)
                isyms = [x for x in SInt.ex(idx).free_symbols if x in (kf, kt)]
                if len(isyms) != 1:
                    obs.append(Ob('C13.process.logic/%s/position' % tag, F, 'the written index derives from one bin position computed from v', 'RVC', 'symbolic execution', core.REFUTED, 0, str(SInt.ex(idx)), witness={'index': str(SInt.ex(idx))}))
                    if not P.next():
                        break
                    continue
                kc, zc = isyms[0], (zk if isyms[0] == kf else zt)
                obs.append(rvc.logic('C13.process.logic/%s/nearest' % tag, F, 'the bin position used by the code is k* = floor((v - min)/step + 1/2): the bin whose centre min + k* step is nearest to v', zc == zs, pc=P.pc, small=[zn <= 16]))
                if periodic:
                    # congruence by exact division: every (a mod n) is a - n*q for an integer q, so index - k must be a polynomial multiple of nbins
                    qs = []
                    def demod(e):
                        e = sp.sympify(e)
                        if isinstance(e, sp.Mod):
                            q = sp.Symbol('q%d' % len(qs), integer=True); qs.append(q)
                            return demod(e.args[0]) - e.args[1] * q
                        if e.args:
                            return e.func(*[demod(a) for a in e.args])
                        return e
                    diff = sp.expand(demod(SInt.ex(idx)) - kc)
                    ok = sp.rem(diff, nb, nb) == 0
                    obs.append(Ob('C13.process.logic/%s/wrap' % tag, F, 'periodic: written index is congruent to the bin position k modulo nbins (index - k is an exact multiple of nbins)', 'RVC',
                                  'polynomial division (sympy)', core.PROVED if ok else core.REFUTED, 0, 'index - k = %s' % diff, witness=None if ok else {'index_minus_k': str(diff)}))
                else:
                    obs.append(rvc.logic('C13.process.logic/%s/accept' % tag, F, 'non-periodic: written index IS the bin position k* (so 0 <= k* < nbins: within half a step of the range)', zi == zs, pc=P.pc))
                obs.append(rvc.identity('C13.process.logic/%s/weight' % tag, F, 'the bin is incremented by exactly the weight', val.v - sp.Function('y')(SInt.ex(idx)), sc, seed))
            else:
                if periodic:
                    obs.append(rvc.logic('C13.process.logic/%s/discard' % tag, F, 'periodic: a value is dropped only if its bin position is not representable (|k| >= 9e18)', z3.Not(repres), pc=P.pc))
                else:
                    obs.append(rvc.logic('C13.process.logic/%s/discard' % tag, F, 'non-periodic: a value is dropped only if its bin position k* is outside [0, nbins)', z3.Or(zs < 0, zs >= zn), pc=P.pc))
            if not P.next():
                break
    bad = [o for o in obs if o['status'] == core.REFUTED and isinstance(o.get('witness'), dict) and 'v' in o['witness']]
    if bad:
        import math
        try:
            exe = native.build('C13.process', open(os.path.join(CDIR, 'replay_process.cc')).read(),
                               ['tools/src/libtools/histogramnew.cc', 'tools/src/libtools/table.cc', 'tools/src/libtools/tokenizer.cc'], ndebug=False)
            for o in bad:
                w = o['witness']
                f = lambda k, d: float(sp.Rational(str(w[k]))) if k in w else d
                vv, mnv, stv, nbv = f('v', 0.0), f('hmin', 0.0), f('step', 1.0), int(f('nbins', 4))
                per = 'periodic' in o['id']
                if nbv > 1000000:
                    o['replay'] = {'reproduced': False, 'error': 'witness needs %d bins' % nbv}
                    continue
                rc, out, err = native.execute(exe, [repr(mnv), repr(stv), nbv, 1 if per else 0, repr(vv), '1.0'])
                kstar = math.floor((vv - mnv) / stv + 0.5)
                exp = (kstar % nbv) if per else (kstar if 0 <= kstar < nbv else None)
                got = [int(l.split('=')[1]) for l in out.splitlines() if l.startswith('changed_bin=')]
                ok = (got == ([] if exp is None else [exp])) and rc == 0
                o['replay'] = {'reproduced': not ok, 'cmd': '%s %r %r %d %d %r 1.0' % (exe, mnv, stv, nbv, per, vv), 'expected_bin': exp, 'changed_bins': got, 'rc': rc,
                               'against': 'real HistogramNew::Process; expected bin = floor((v-min)/step + 1/2), wrapped modulo nbins in periodic mode'}
        except core.Undecided as e:
            for o in bad:
                o['replay'] = {'reproduced': False, 'error': str(e)}
    mf = [{'name': F, 'file': rel, 'ast_nodes': rvc.node_count(fn), 'route': 'RVC'}]
    for o in obs:
        o['functions'] = mf
    return obs


def job_initialize(seed):
    rvc.reset()
    rel = 'tools/src/libtools/histogramnew.cc'
    fns = rvc.functions(rvc.ast(rel, 'HistogramNew::Initialize_'))
    if 'Initialize_' not in fns:
        raise core.Undecided('front end: HistogramNew::Initialize_ not found')
    fn = fns['Initialize_'][0]
    F = 'HistogramNew::Initialize_'
    obs = []
    mn, mx = sp.symbols('hmin hmax', real=True)
    for periodic in (False, True):
        for n in (1, 2, 3, 6):
            xs = {}
            table = {'n': None}
            def resize(t, k):
                table['n'] = rvc._i(k)
            def x_ref(t, i):
                i = rvc._i(i)
                return rvc.Ref(lambda: xs[i], lambda val, i=i: xs.__setitem__(i, val))
            cb = {'resize': resize, 'x': x_ref, 'y': lambda t: rvc.Ref(lambda: None, lambda v: table.__setitem__('y', v)), 'yerr': lambda t: rvc.Ref(lambda: None, lambda v: table.__setitem__('yerr', v)),
                  'flags': lambda t: rvc.Ref(lambda: None, lambda v: table.__setitem__('flags', v)),
                  'construct': lambda ex, nn, ty, args: ('FLAGS' if 'vector<char' in ty else NotImplemented)}
            this = {'min_': D(mn), 'max_': D(mx), 'step_': D(0), 'nbins_': n, 'periodic_': periodic, 'data_': 'TABLE'}
            ex = Exec({}, cb, {}, this)
            try:
                ex.stmt(rvc.body_of(fn))
            except Ret:
                pass
            tag = '%s.n%d' % ('periodic' if periodic else 'plain', n)
            bound = 'nbins = %d' % n
            exp_step = sp.Integer(1) if n == 1 else ((mx - mn) / n if periodic else (mx - mn) / (n - 1))
            obs.append(rvc.identity('C13.init/%s/step' % tag, F, 'step = (max-min)/(n-1), (max-min)/n when periodic, 1 for a single bin', this['step_'].v, exp_step, seed, bound=bound))
            okn = table['n'] == n and sorted(xs) == list(range(n)) and isinstance(table.get('y'), Mx) and table['y'].r == n and all(rvc.nf_zero(e.v) for e in table['y'].flat())
            obs.append(Ob('C13.init/%s/size' % tag, F, 'table resized to nbins, every centre written once, contents zeroed', 'RVC', 'symbolic execution', core.BOUNDED if okn else core.REFUTED, 0, '', bound=bound,
                          witness=None if okn else {'n': table['n'], 'written': sorted(xs)}))
            for i in sorted(xs):
                obs.append(rvc.identity('C13.init/%s/centre%d' % (tag, i), F, 'bin centre x_i == min + i*step', xs[i].v, mn + i * exp_step, seed, bound=bound))
    mf = [{'name': F, 'file': rel, 'ast_nodes': rvc.node_count(fn), 'route': 'RVC'}]
    for o in obs:
        o['functions'] = mf
    return obs


def job_initialize_allN(seed):
    """HistogramNew::Initialize_ for EVERY bin count n >= 2: the loop over the bins is closed by the invariant v == min + i*step (body and increment executed once for a symbolic i)"""
    rvc.reset()
    rel = 'tools/src/libtools/histogramnew.cc'
    fns = rvc.functions(rvc.ast(rel, 'HistogramNew::Initialize_'))
    if 'Initialize_' not in fns:
        raise core.Undecided('front end: HistogramNew::Initialize_ not found')
    fn = fns['Initialize_'][0]
    F = 'HistogramNew::Initialize_'
    stmts = rvc.body_of(fn)['inner']
    loops = [k for k, st in enumerate(stmts) if st['kind'] == 'ForStmt']
    if len(loops) != 1:
        raise core.Undecided('HistogramNew::Initialize_: one loop over the bins expected')
    mf = [{'name': F, 'file': rel, 'ast_nodes': rvc.node_count(fn), 'route': 'RVC (symbolic bin count, loop closed by an invariant)'}]
    obs = []
    mn, mx = sp.symbols('hmin hmax', real=True)
    nsym, isym = sp.Symbol('nbins', integer=True, positive=True), sp.Symbol('i', integer=True, nonnegative=True)
    for periodic in (False, True):
        P = rvc.Paths(); P.start()
        rvc.CTX.base = [z3.Int('nbins') >= 2, z3.Int('i') >= 0, z3.Int('i') < z3.Int('nbins')]
        ev, writes = [], []
        cb = {'decide': P.decide, 'resize': lambda t, k: ev.append(('resize', rvc.SInt.ex(k))), 'x': lambda t, i: rvc.Ref(lambda: None, lambda val, i=i: writes.append((rvc.SInt.ex(i), D.lift(val).v))),
              'y': lambda t: rvc.Ref(lambda: None, lambda v: ev.append(('y', v))), 'yerr': lambda t: rvc.Ref(lambda: None, lambda v: ev.append(('yerr', v))), 'flags': lambda t: rvc.Ref(lambda: None, lambda v: ev.append(('flags', v))),
              'Zero': lambda k: ('zero', rvc.SInt.ex(k)), 'construct': lambda ex_, nn, ty, args: (('flags', [rvc.rval(ex_.expr(a)) for a in args]) if 'vector<char' in ty else NotImplemented)}
        this = {'min_': D(mn), 'max_': D(mx), 'step_': D(rvc.fresh('uninit')), 'nbins_': rvc.SInt(nsym), 'periodic_': periodic, 'data_': 'TABLE'}
        ex = Exec({}, cb, {}, this)
        for st in stmts[:loops[0]]:
            ex.stmt(st)
        tag = 'periodic' if periodic else 'plain'
        step = this['step_'].v
        exp_step = (mx - mn) / nsym if periodic else (mx - mn) / (nsym - 1)
        o = rvc.identity('C13.init.allN/%s/step' % tag, F, 'step = (max-min)/(n-1), (max-min)/n when periodic, for every n >= 2', step, exp_step, seed); o['functions'] = mf; obs.append(o)
        loop = stmts[loops[0]]
        carried = [k for k, v in ex.env.items() if isinstance(v, D)]
        ok0 = len(carried) == 1 and rvc.nf_zero(ex.env[carried[0]].v - mn) and ev == [('resize', nsym)]
        o = Ob('C13.init.allN/%s/entry' % tag, F, 'the table is resized to n bins and the running centre starts at min (invariant v == min + i*step holds for i = 0)', 'RVC', 'symbolic execution', core.PROVED if ok0 else core.REFUTED, 0, '%s %s' % (carried, ev), witness=None if ok0 else {})
        o['functions'] = mf; obs.append(o)
        if not ok0:
            continue
        vname = carried[0]
        iname = [v.get('name') for v in (loop['inner'][0].get('inner') or []) if v.get('kind') == 'VarDecl']
        iname = iname[0] if iname else 'i'
        ex.env[iname] = rvc.SInt(isym)
        ex.env[vname] = D(mn + isym * step)               # the invariant at the head of iteration i
        ex.stmt(loop['inner'][4])
        ex.expr(loop['inner'][3])                          # the increment expression(s)
        okw = len(writes) == 1 and sp.expand(writes[0][0] - isym) == 0
        o = Ob('C13.init.allN/%s/one-write' % tag, F, 'iteration i writes the centre of bin i and nothing else', 'RVC', 'symbolic execution', core.PROVED if okw else core.REFUTED, 0, str(writes)[:200], witness=None if okw else {})
        o['functions'] = mf; obs.append(o)
        if okw:
            o = rvc.identity('C13.init.allN/%s/centre' % tag, F, 'centre of bin i == min + i*step for every bin of every histogram', writes[0][1], mn + isym * exp_step, seed); o['functions'] = mf; obs.append(o)
        oki = sp.expand(rvc.SInt.ex(ex.env[iname]) - isym - 1) == 0
        o = rvc.identity('C13.init.allN/%s/invariant' % tag, F, 'after the increment the invariant holds for i+1: v == min + (i+1)*step', ex.env[vname].v, mn + (isym + 1) * step, seed); o['functions'] = mf; obs.append(o)
        o = Ob('C13.init.allN/%s/counter' % tag, F, 'the bin counter advances by one', 'RVC', 'symbolic execution', core.PROVED if oki else core.REFUTED, 0, str(ex.env[iname]), witness=None if oki else {})
        o['functions'] = mf; obs.append(o)
        ev[:] = []
        for st in stmts[loops[0] + 1:]:
            ex.stmt(st)
        okz = [e[0] for e in ev] == ['y', 'yerr', 'flags'] and all(e[1] == ('zero', nsym) for e in ev[:2]) and ev[2][1][0] == 'flags' and rvc.SInt.ex(ev[2][1][1][0]) == nsym
        o = Ob('C13.init.allN/%s/contents' % tag, F, 'bin contents and errors are n zeros, n flags are set', 'RVC', 'symbolic execution', core.PROVED if okz else core.REFUTED, 0, str(ev)[:200], witness=None if okz else {})
        o['functions'] = mf; obs.append(o)
    return obs


def job_normalize(seed, n=3):
    rvc.reset()
    rel = 'tools/src/libtools/histogramnew.cc'
    fns = rvc.functions(rvc.ast(rel, 'HistogramNew::Normalize'))
    fn = fns['Normalize'][0]
    F = 'HistogramNew::Normalize'
    obs = []
    st = sp.Symbol('step', positive=True)
    P = rvc.Paths()
    bound = '%d bins' % n
    while True:
        P.start()
        rvc.CTX.base = [z3.Real('step') > 0]
        ys = Mx.vec([sp.Symbol('y%d' % i, real=True) for i in range(n)])
        y0 = [e.v for e in ys.flat()]
        signs = []
        def cwiseAbs(m):
            out = []
            for e in m.flat():
                pos = P.decide(sp.Ge(e.v, 0))
                signs.append(pos)
                out.append(e if pos else -e)
            return Mx.vec(out)
        ex = Exec({}, {'decide': P.decide, 'y': lambda t: ys, 'cwiseAbs': cwiseAbs}, {}, {'data_': 'TABLE', 'step_': D(st)})
        try:
            ex.stmt(rvc.body_of(fn))
        except Ret:
            pass
        tag = 'p%d' % P.count
        S = sum((a if sgn else -a) for a, sgn in zip(y0, signs))
        # precondition: total weight non-zero
        for i in range(n):
            obs.append(rvc.identity('C13.normalize/%s/ratio%d' % (tag, i), F, "y_i' == y_i / (sum|y| * step): bin ratios unchanged", ys.g(i).v, y0[i] / (S * st), seed, bound=bound))
        integ = sum((ys.g(i).v if signs[i] else -ys.g(i).v) for i in range(n)) * st
        obs.append(rvc.identity('C13.normalize/%s/integral' % tag, F, "sum|y'| * step == 1 on this sign pattern", integ, sp.Integer(1), seed, bound=bound))
        if not P.next():
            break
    mf = [{'name': F, 'file': rel, 'ast_nodes': rvc.node_count(fn), 'route': 'RVC'}]
    for o in obs:
        o['functions'] = mf
    return obs


class Stop(Exception):
    pass


def job_legacy_range(seed, shapes=((1,), (2,), (1, 2), (3,))):
    """legacy Histogram::ProcessData, automatic range: after the range loops min_ == min(data) and max_ == max(data) for data of any sign"""
    rvc.reset()
    rel = 'tools/src/libtools/histogram.cc'
    fns = rvc.functions(rvc.ast(rel, 'Histogram::ProcessData'))
    if 'ProcessData' not in fns:
        raise core.Undecided('front end: Histogram::ProcessData not found')
    fn = fns['ProcessData'][0]
    F = 'Histogram::ProcessData (automatic range)'
    obs = []
    DMAX, DMIN = sp.Symbol('DBL_MAX', positive=True), sp.Symbol('DBL_MIN', positive=True)
    for shape in shapes:
        n = sum(shape)
        bound = 'data arrays of lengths %s' % (shape,)
        P = rvc.Paths(budget=5000)
        while True:
            P.start()
            vals = [sp.Symbol('d%d' % i, real=True) for i in range(n)]
            # contract of numeric_limits<double>: max() bounds every finite double, min() is the smallest POSITIVE normal double, lowest() = -max()
            rvc.CTX.base = [z3.Real('DBL_MIN') > 0, z3.Real('DBL_MAX') > z3.Real('DBL_MIN')] + [z3.And(z3.Real('d%d' % i) <= z3.Real('DBL_MAX'), z3.Real('d%d' % i) >= -z3.Real('DBL_MAX')) for i in range(n)]
            data, k = [], 0
            for ln in shape:
                data.append([D(vv) for vv in vals[k:k + ln]])
                k += ln
            opts = {'n_': 11, 'auto_interval_': True, 'extend_interval_': False, 'min_': D(0), 'max_': D(1), 'periodic_': False, 'normalize_': False, 'scale_': 'no'}
            this = {'options_': opts, 'pdf_': [], 'min_': D(0), 'max_': D(0), 'interval_': D(0)}
            def nl(name, ty):
                return {'max': D(DMAX), 'min': D(DMIN), 'lowest': D(-DMAX)}[name]
            def floor_stop(x):
                raise Stop()
            ex = Exec({'data': data}, {'decide': P.decide, 'numeric_limits': nl, 'floor': floor_stop}, {}, this)
            try:
                ex.stmt(rvc.body_of(fn))
            except Stop:
                pass
            except Ret:
                pass
            tag = 's%s.p%d' % ('_'.join(map(str, shape)), P.count)
            zmin, zmax = rvc.to_z3(this['min_'].v), rvc.to_z3(this['max_'].v)
            zv = [z3.Real('d%d' % i) for i in range(n)]
            obs.append(rvc.logic('C13.legacy.range/%s/cover' % tag, F, 'every data value lies in [min_, max_]', z3.And(*[z3.And(zmin <= x, x <= zmax) for x in zv]), pc=P.pc, bound=bound))
            obs.append(rvc.logic('C13.legacy.range/%s/tight' % tag, F, 'min_ and max_ are attained by data values (the range covers EXACTLY the data, for any sign of the data)',
                                 z3.And(z3.Or(*[zmin == x for x in zv]), z3.Or(*[zmax == x for x in zv])), pc=P.pc, bound=bound))
            if not P.next():
                break
    bad = [o for o in obs if o['status'] == core.REFUTED and isinstance(o.get('witness'), dict)]
    if bad:
        try:
            exe = native.build('C13.legacy', open(os.path.join(CDIR, 'replay_legacy_range.cc')).read(), ['tools/src/libtools/histogram.cc'])
            for o in bad:
                w = o['witness']
                vals = [w[k] for k in sorted(w) if k.startswith('d') and k[1:].isdigit()]
                args = [repr(float(sp.Rational(str(x)))) for x in vals]
                rc, out, err = native.execute(exe, args)
                o['replay'] = {'reproduced': rc == 1, 'cmd': exe + ' ' + ' '.join(args), 'rc': rc, 'stdout': out[-300:], 'stderr': err[-300:], 'against': 'real Histogram::ProcessData (histogram.cc) with ASan+UBSan'}
        except core.Undecided as e:
            for o in bad:
                o['replay'] = {'reproduced': False, 'error': str(e)}
    mf = [{'name': 'Histogram::ProcessData', 'file': rel, 'ast_nodes': rvc.node_count(fn), 'route': 'RVC (range loops; execution stops at the first floor() of the binning loop)'}]
    for o in obs:
        o['functions'] = mf
    return obs


def job_legacy_normalize(seed, sizes=(1, 2, 3)):
    """legacy Histogram::Normalize (public; reached from ProcessData with normalize_, also after the bond / angle scaling, i.e. on non-integer contents):
    afterwards interval_ * sum(pdf_) == 1 and every bin is the old bin divided by interval_ * sum(old).  std::accumulate / std::transform enter by their
    contracts; the accumulator of std::accumulate has the type of its initial value."""
    rvc.reset()
    rel = 'tools/src/libtools/histogram.cc'
    fns = rvc.functions(rvc.ast(rel, 'Histogram::Normalize'))
    if 'Normalize' not in fns:
        raise core.Undecided('front end: Histogram::Normalize not found')
    fn = fns['Normalize'][0]
    F = 'Histogram::Normalize'
    obs = []
    for n in sizes:
        bound = '%d bins' % n
        h = sp.Symbol('interval', positive=True)
        p0 = [sp.Symbol('p%d' % i, nonnegative=True) for i in range(n)]
        rvc.CTX.base = [z3.Real('interval') > 0] + [z3.Real('p%d' % i) >= 0 for i in range(n)] + [sum(z3.Real('p%d' % i) for i in range(n)) > 0]
        this = {'pdf_': [D(v) for v in p0], 'interval_': D(h), 'min_': D(0), 'max_': D(1)}
        conv = []
        def to_integral(v, ty):
            # contract of a double -> integer conversion of a non-negative value: truncation, t <= v < t + 1
            t = sp.Symbol('t%d' % len(conv), integer=True, nonnegative=True)
            zt = z3.Int('t%d' % len(conv))
            conv.append(z3.And(z3.ToReal(zt) <= rvc.to_z3(D.lift(v).v), rvc.to_z3(D.lift(v).v) < z3.ToReal(zt) + 1, zt >= 0))
            return D(t)
        ex = Exec({}, {'to_integral': to_integral}, {}, this)
        try:
            ex.stmt(rvc.body_of(fn))
        except Ret:
            pass
        tag = 'n%d' % n
        S = sum(p0)
        if len(this['pdf_']) != n:
            obs.append(Ob('C13.legacy.normalize/%s/size' % tag, F, 'the number of bins is unchanged', 'RVC', 'symbolic execution', core.REFUTED, 0, 'bins after: %d' % len(this['pdf_']), witness={'bins_after': len(this['pdf_'])}, bound=bound))
            continue
        after = [D.lift(v).v for v in this['pdf_']]
        if not conv:
            for i in range(n):
                obs.append(rvc.identity('C13.legacy.normalize/%s/ratio%d' % (tag, i), F, "bin_i' == bin_i / (interval * sum(bins)): bin ratios unchanged", after[i], p0[i] / (S * h), seed, bound=bound))
            obs.append(rvc.identity('C13.legacy.normalize/%s/integral' % tag, F, "interval * sum(bins') == 1 for any non-negative contents with a positive sum (also non-integer ones: bond / angle scaling)", h * sum(after), sp.Integer(1), seed, bound=bound))
        else:
            # a conversion happened inside: decide with z3 over the conversion contract (cleared of the division: interval * sum(bins') == 1  <=>  sum(bins') * interval == 1)
            zs = sum(rvc.to_z3(a) for a in after) * z3.Real('interval')
            o = rvc.logic('C13.legacy.normalize/%s/integral' % tag, F, "interval * sum(bins') == 1 for any non-negative contents with a positive sum (also non-integer ones: bond / angle scaling)",
                          zs == 1, pc=conv + [rvc.to_z3(sp.Symbol('t%d' % (len(conv) - 1), integer=True)) > 0], bound=bound, small=[z3.Real('interval') == 1] + [z3.Real('p%d' % i) * 4 == z3.ToReal(z3.Int('q%d' % i)) for i in range(n)])
            o['detail'] = (o.get('detail') or '') + '; %d double -> integer conversions inside the sum (std::accumulate with an integral accumulator)' % len(conv)
            obs.append(o)
    bad = [o for o in obs if o['status'] == core.REFUTED]
    if bad:
        try:
            exe = native.build('C13.legacy.norm', open(os.path.join(CDIR, 'replay_legacy_normalize.cc')).read(), ['tools/src/libtools/histogram.cc'])
            rc, out, err = native.execute(exe, [])
            for o in bad:
                o['replay'] = {'reproduced': rc == 1, 'cmd': exe, 'rc': rc, 'stdout': out[-500:], 'stderr': err[-300:], 'input_from': 'fixed inputs in the domain of the contract (bond / angle scaling with normalisation; normalising twice)',
                               'against': 'real Histogram::ProcessData / Normalize (histogram.cc) with ASan+UBSan'}
        except core.Undecided as e:
            for o in bad:
                o['replay'] = {'reproduced': False, 'error': str(e)}
    mf = [{'name': 'Histogram::Normalize', 'file': rel, 'ast_nodes': rvc.node_count(fn), 'route': 'RVC'}]
    for o in obs:
        o['functions'] = mf
    return obs


def collect(obs):
    seen = set(f['name'] + f.get('route', '') for f in META['functions'])
    for o in obs:
        for f in o.pop('functions', []) or []:
            if f['name'] + f.get('route', '') not in seen:
                seen.add(f['name'] + f.get('route', ''))
                META['functions'].append(f)


def run(tier, seed, only=None):
    jobs = [(process_ccv, (tier,)), (job_process_logic, (seed,)), (job_initialize, (seed,)), (job_initialize_allN, (seed,)), (job_normalize, (seed,)), (job_legacy_range, (seed,)), (job_legacy_normalize, (seed,))]
    if only:
        import re as _re
        jobs = [j for j in jobs if _re.search(only, j[0].__name__)]
    obs = core.pmap(jobs)
    collect(obs)
    return obs, META
