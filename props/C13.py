"""C13 - histograms conserve weight and never write outside their bins (DESIGN.md section 5, C13)"""
import os, re
from vlib import core, ccv, native
from vlib.core import Ob

CDIR = os.path.join(core.VERIF, 'contracts', 'C13')
META = {
    'level': 'proof',
    'functions': [],
    'trusted_base': ['CBMC 6.11 (goto-cc C front end, dfcc contract instrumentation, SAT back end, IEEE-754 float_bv encoding)',
                     'CBMC built-in models of floor(), isnan(), isinf()'],
    'assumptions': [],
    'not_decided': ['csg_density / tabulatedpotential.cc callers', 'weight conservation over a whole stream (follows from the per-call frame by induction; not machine-checked)'],
}


def conformance(header_rel, decls):
    """every member the stub declares must be declared in the real header with the stated type"""
    src = ccv.strip_map(open(os.path.join(core.REPO, header_rel)).read())
    for typ, name in decls:
        if not re.search(r'\b%s\s+%s\b' % (typ, re.escape(name)), src):
            raise core.Undecided('declaration conformance: %s %s not found in %s' % (typ, name, header_rel))


def replay_process(ob):
    w = ob['witness']
    need = ['min_', 'step_', 'nbins_', 'periodic_', 'v', 'scale']
    if any(k not in w for k in need):
        return {'reproduced': False, 'error': 'witness incomplete: %r' % sorted(w)}
    if w['nbins_'] > 10000000:
        return {'reproduced': False, 'error': 'witness needs %d bins, not replayed' % w['nbins_']}
    exe = native.build('C13.process', open(os.path.join(CDIR, 'replay_process.cc')).read(),
                       ['tools/src/libtools/histogramnew.cc', 'tools/src/libtools/table.cc', 'tools/src/libtools/tokenizer.cc'], ndebug=False)
    args = [float(w['min_']).hex(), float(w['step_']).hex(), int(w['nbins_']), 1 if w['periodic_'] else 0, float(w['v']).hex(), float(w['scale']).hex()]
    rc, out, err = native.execute(exe, args)
    return {'reproduced': rc != 0, 'cmd': exe + ' ' + ' '.join(map(str, args)), 'rc': rc, 'stdout': out[-500:], 'stderr': err[-1500:],
            'against': 'real HistogramNew (histogramnew.cc, table.cc) with ASan+UBSan, Eigen assertions on'}


def process_ccv(tier):
    ex = ccv.extract('tools/src/libtools/histogramnew.cc', r'void\s+HistogramNew::Process\s*\(\s*const\s+double\s*&\s*v\s*,\s*double\s+scale\s*\)')
    conformance('tools/include/votca/tools/histogramnew.h', [('double', 'min_'), ('double', 'step_'), ('bool', 'periodic_'), ('Index', 'nbins_'), ('Table', 'data_')])
    META['functions'].append(dict(ex.info(), name='HistogramNew::Process', route='CCV (C mode, macro env)',
                                  dropped='C++ signature line (reference parameter v becomes a value), namespaces, class declaration (stub struct)'))
    contract = open(os.path.join(CDIR, 'process.contract.h')).read()
    tu = contract + '\nvoid HistogramNew_Process(struct HistogramNew *self, const double v, double scale, Index k1, Index k2)\n{' + ex.body + '}\n' + '''
#undef y
#undef data_
double in_v, in_scale; Index in_k1, in_k2; struct HistogramNew *in_self;
void h_process(void) {
  HistogramNew_Process(in_self, in_v, in_scale, in_k1, in_k2);
  __CPROVER_assert(0, "canary: reachable after the call");
}
'''
    maxbins = '1000000000'
    return ccv.build_and_check('C13.process', 'HistogramNew::Process', {'process.c': tu}, 'h_process', enforce='HistogramNew_Process',
                               defines=['VERIF_MAXBINS=' + maxbins], small_defines=['VERIF_MAXBINS=16'], replay=replay_process, timeout=1500, expect_fail=['canary'], need=['postcondition', 'frame'],
                               route_note='verbatim body, all finite v, nbins <= 1e9, both modes')


def run(tier, seed, only=None):
    jobs = [(process_ccv, (tier,))]
    obs = core.pmap(jobs)
    return obs, META
