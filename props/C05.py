"""C05 - threaded trajectory analysis is schedule- and thread-count-independent (DESIGN.md section 5, C05)"""
import os, re
from vlib import core, ccv, native
from vlib.core import Ob

CDIR = os.path.join(core.VERIF, 'contracts', 'C05')
META = {
    'level': 'other', 'functions': [],
    'trusted_base': ['CBMC 6.11 C++ front end, SAT back end, its sequentially consistent thread semantics for the interleaving runs',
                     'stub classes of contracts/C05/stub.h standing for csgapplication.h (member names/signatures checked against the header)',
                     'tools::Mutex::Lock/Unlock are pthread_mutex_lock/unlock wrappers (mutex.cc, trusted); Thread::Start/WaitDone = pthread_create/join'],
    'assumptions': ['TrajectoryReader::NextFrame, EvalConfiguration, MergeWorker, TopologyMap::Apply enter as ghost events (their bodies are not verified here)'],
    'not_decided': ['deadlock freedom is argued from the sequential token contracts, not machine-checked', 'interleavings of more than 2 workers or 3 frames',
                    'byte-identity of output files (needs determinism of MergeWorker)', 'weak memory (pthread mutexes give SC for data-race-free code)'],
    'explanation': 'Sequential protocol contracts of ProcessData / Worker::Run are proved on every path for every worker id and thread count <= 4 (deductive, unbounded in frames); '
                   'the global lemma (exclusive reader/merge, frames in file order, merge order) is checked over all interleavings of 2 workers + main for small frame counts (bounded).',
}
SIG_PD = r'bool\s+CsgApplication::ProcessData\s*\(\s*Worker\s*\*\s*worker\s*\)'
SIG_RUN = r'void\s+CsgApplication::Worker::Run\s*\(\s*\)'


def conformance():
    h = ccv.strip_map(open(os.path.join(core.REPO, 'csg/include/votca/csg/csgapplication.h')).read())
    need = [r'threadsMutexesIn_', r'threadsMutexesOut_', r'tools::Mutex\s+traj_readerMutex_', r'Index\s+nframes_', r'bool\s+is_first_frame_', r'Index\s+nthreads_', r'bool\s+do_mapping_',
            r'traj_reader_', r'virtual\s+bool\s+SynchronizeThreads\s*\(', r'bool\s+ProcessData\s*\(\s*Worker', r'MergeWorker\s*\(\s*Worker', r'Index\s+getId\s*\(', r'Topology\s+top_\s*,\s*top_cg_', r'map_']
    for pat in need:
        if not re.search(pat, h):
            raise core.Undecided('declaration conformance: /%s/ not found in csgapplication.h' % pat)


def bodies():
    pd = ccv.extract('csg/src/libcsg/csgapplication.cc', SIG_PD)
    run = ccv.extract('csg/src/libcsg/csgapplication.cc', SIG_RUN)
    conformance()
    info = [dict(pd.info(), name='CsgApplication::ProcessData', route='CCV (CBMC C++ mode, verbatim body against stub classes)', dropped='class declarations (stubs), namespaces'),
            dict(run.info(), name='CsgApplication::Worker::Run', route='CCV (CBMC C++ mode, verbatim body against stub classes)', dropped='class declarations (stubs), namespaces')]
    return pd, run, info


def job_seq_pd():
    pd, run, info = bodies()
    files = {'stub.h': open(os.path.join(CDIR, 'stub.h')).read(), 'mon.c': open(os.path.join(CDIR, 'seq_monitor.c')).read(),
             'pd.cpp': open(os.path.join(CDIR, 'seq_pd.cpp.in')).read().replace('@BODY_PD@', pd.body)}
    obs = ccv.build_and_check('C05.seq.ProcessData', 'CsgApplication::ProcessData', files, 'h_pd', cxx_std='c++11', defines=['VERIF_MAXT=4'], unwind=6, timeout=900,
                              expect_fail=['canary'], route_note='every path, every id < nthreads <= 4, any frame budget, both modes, mapping on/off')
    for o in obs:
        o['functions'] = info
    return obs


def job_seq_run():
    pd, run, info = bodies()
    files = {'stub.h': open(os.path.join(CDIR, 'stub.h')).read(), 'mon.c': open(os.path.join(CDIR, 'seq_monitor.c')).read(),
             'run.cpp': open(os.path.join(CDIR, 'seq_run.cpp.in')).read().replace('@BODY_RUN@', run.body)}
    obs = ccv.build_and_check('C05.seq.WorkerRun', 'CsgApplication::Worker::Run', files, 'h_run', cxx_std='c++11', defines=['VERIF_MAXT=4', 'VERIF_ITER=3'], unwind=6, timeout=900,
                              expect_fail=['canary'], bound='at most 3 loop iterations (ProcessData by its contract stub; iterations carry no program state)',
                              route_note='caller checked against the callee contract stub')
    for o in obs:
        o['functions'] = info
    return obs


# counts are 'at least one' (None): after all rules NO pointer expression may be left (checked below), which is the real drift guard
RPTR_PD = [('R-ptr getId', r'worker->getId\(\)', 'verif_wid__', None),
           ('R-ptr In.Lock', r'threadsMutexesIn_\[([^\]]+)\]->Lock\(\)', r'Mutex_Lock(&In[\1])', None),
           ('R-ptr In.Unlock', r'threadsMutexesIn_\[([^\]]+)\]->Unlock\(\)', r'Mutex_Unlock(&In[\1])', None),
           ('R-ptr reader.Lock', r'traj_readerMutex_\.Lock\(\)', 'Mutex_Lock(&traj_readerMutex_)', None),
           ('R-ptr reader.Unlock', r'traj_readerMutex_\.Unlock\(\)', 'Mutex_Unlock(&traj_readerMutex_)', None),
           ('R-ptr NextFrame', r'traj_reader_->NextFrame\(worker->top_\)', 'NextFrame(verif_wid__)', None),
           ('R-ptr Apply', r'worker->map_->Apply\(\)', 'Apply(verif_wid__)', None),
           ('R-ptr Eval2', r'worker->EvalConfiguration\(&worker->top_cg_,\s*&worker->top_\)', 'Eval(verif_wid__)', None),
           ('R-ptr Eval1', r'worker->EvalConfiguration\(&worker->top_\)', 'Eval(verif_wid__)', None)]
RPTR_RUN = [('R-ptr ProcessData', r'app_->ProcessData\(this\)', 'ProcessData(verif_wid__)', None),
            ('R-ptr Sync', r'app_->SynchronizeThreads\(\)', 'SynchronizeThreads()', None),
            ('R-ptr getId', r'(?<![>\w])getId\(\)', 'verif_wid__', None),
            ('R-ptr Out.Lock', r'app_->threadsMutexesOut_\[([^\]]+)\]->Lock\(\)', r'Mutex_Lock(&Out[\1])', None),
            ('R-ptr Out.Unlock', r'app_->threadsMutexesOut_\[([^\]]+)\]->Unlock\(\)', r'Mutex_Unlock(&Out[\1])', None),
            ('R-ptr Merge', r'app_->MergeWorker\(this\)', 'MergeWorker(verif_wid__)', None),
            ('R-ptr nthreads', r'app_->nthreads_', 'nthreads_', None)]


def job_conc(nt, nf, sync, budget=None):
    """all interleavings of nt workers + main; nf frames after seeking; frame budget symbolic in [-1, nf+1].  C mode, bodies after counted R-ptr rewrites."""
    pd, run, info = bodies()
    # identifiers the C harness owns in the scope the bodies are spliced into: a local of the real code with one of these names would silently
    # change the meaning of the harness (observed with a harmless rename of a local to `wid`) - that is drift, not a violation
    reserved = ('verif_wid__', 'In', 'Out', 'Mutex_Lock', 'Mutex_Unlock', 'NextFrame', 'Apply', 'Eval', 'MergeWorker', 'ProcessData', 'Worker_Run', 'worker_frame', 'next_frame', 'merged', 'evaluated')
    for ex in (pd, run):
        clean = ccv.strip_map(ex.body)
        for m in re.finditer(r'[A-Za-z_][A-Za-z_0-9]*', clean):
            if m.group(0) in reserved:
                k = m.start() - 1
                while k >= 0 and clean[k] in ' \t\n':
                    k -= 1
                if not (k >= 0 and (clean[k] == '.' or clean[k - 1:k + 1] in ('->', '::'))):
                    raise core.Undecided('extraction drift: the body of %s uses the identifier %s, which the harness reserves' % (ex.sig, m.group(0)))
    for name, pat, rep, cnt in RPTR_PD:
        ccv.rule(pd, name, pat, rep, cnt)
    for name, pat, rep, cnt in RPTR_RUN:
        ccv.rule(run, name, pat, rep, cnt)
    for ex in (pd, run):
        left = re.findall(r'->|\bworker\b|\bapp_\b|\bthis\b', ccv.strip_map(ex.body))
        if left:
            raise core.Undecided('extraction drift: %d pointer expressions left after R-ptr in %s' % (len(left), ex.sig))
    info = [dict(pd.info(), name='CsgApplication::ProcessData', route='CCV (C mode, body after counted R-ptr rewrites, CBMC threads)', dropped='C++ object indirections (worker->, app_->, unique_ptr), class declarations'),
            dict(run.info(), name='CsgApplication::Worker::Run', route='CCV (C mode, body after counted R-ptr rewrites, CBMC threads)', dropped='C++ object indirections, class declarations')]
    tu = open(os.path.join(CDIR, 'conc_c.c.in')).read().replace('@BODY_PD@', pd.body).replace('@BODY_RUN@', run.body)
    bt = 'any' if budget is None else ('none' if budget < 0 else str(budget))
    obs = ccv.build_and_check('C05.conc.nt%d.nf%d.%s.budget-%s' % (nt, nf, 'ordered' if sync else 'unordered', bt), 'CsgApplication::ProcessData + Worker::Run (threads)', {'conc.c': tu}, 'h_conc',
                              defines=['NT=%d' % nt, 'NF=%d' % nf, 'SYNC=%d' % (1 if sync else 0)] + ([] if budget is None else ['BUDGET=(%d)' % budget]), unwind=max(nf + 2, nt + 1), timeout=3000,
                              checks=['--bounds-check', '--pointer-check'], solver='minisat',
                              bound='%d worker threads + main, %d frames, frame budget %s, %s mode; all interleavings (sequential consistency)' % (nt, nf, 'symbolic in [-1,%d]' % (nf + 1) if budget is None else bt, 'ordered' if sync else 'unordered'),
                              route_note='CBMC threads, mutex = atomic test-and-set with blocking by assumption')
    for o in obs:
        o['functions'] = info
    replay_schedule(obs, nt, sync)
    return obs


def replay_schedule(obs, nt, sync):
    """native replay of a refuted interleaving obligation: the REAL threaded CsgApplication (libvotca_csg built from the working tree) on a
    7-frame trajectory, worker 0 delayed by 150 ms to force the schedule in which another worker reaches the reader first"""
    bad = [o for o in obs if o['status'] == core.REFUTED]
    if not bad:
        return
    try:
        L = native.libs()
        exe = native.build('C05.schedule', open(os.path.join(CDIR, 'replay_schedule.cc')).read(), [], sanitize=False, opt='-O1', extra=['-pthread', '-march=native'], libs=L + ['-pthread'])
    except core.Undecided as e:
        for o in bad:
            o['replay'] = {'reproduced': False, 'error': str(e)}
        return
    for o in bad:
        w = o.get('witness') or {}
        budget = w.get('budget', -1)
        tried, rep = [], None
        for args in ([nt, 1 if sync else 0, 150, budget, 0], [nt, 1 if sync else 0, 0, budget, 0], [nt, 1 if sync else 0, 150, -1, 0], [max(nt, 3), 1 if sync else 0, 150, budget, 0]):
            rc, out, err = native.execute(exe, args, timeout=180)
            tried.append(' '.join(map(str, args)))
            if rc != 0:
                rep = {'reproduced': True, 'cmd': '%s %s' % (exe, ' '.join(map(str, args))), 'rc': rc, 'stderr': (err or '')[-600:],
                       'against': 'real CsgApplication::Run/ProcessData/Worker::Run (libvotca_csg from the working tree), threads=%s, %s mode, worker 0 delayed %s ms, --nframes %s' % (args[0], 'ordered' if sync else 'unordered', args[2], args[3])}
                break
        o['replay'] = rep or {'reproduced': False, 'tried': tried, 'note': 'the native runs processed exactly the expected frames (the violating interleaving was not hit by the delayed-worker schedules tried)'}


def collect(obs):
    seen = set(f['name'] + f.get('route', '') for f in META['functions'])
    for o in obs:
        for f in o.pop('functions', []) or []:
            if f['name'] + f.get('route', '') not in seen:
                seen.add(f['name'] + f.get('route', ''))
                META['functions'].append(f)


def run(tier, seed, only=None):
    # ordered mode: symbolic frame budget; unordered mode: without a budget and with a symbolic budget (the latter was finding F11, fixed in 829ed8356)
    if tier == 'quick':
        confs = [(2, 1, True, None), (2, 2, True, None), (2, 2, False, -1), (2, 2, False, None)]
    else:
        confs = [(2, f, True, None) for f in (1, 2, 3)] + [(2, f, False, -1) for f in (1, 2, 3)] + [(2, f, False, None) for f in (1, 2, 3)] + [(1, 3, True, None), (1, 3, False, None)]
    jobs = [(job_seq_pd, ()), (job_seq_run, ())] + [(job_conc, c) for c in confs]
    if only:
        jobs = [j for j in jobs if re.search(only, j[0].__name__ + str(j[1]))]
    obs = core.pmap(jobs)
    collect(obs)
    return obs, META
