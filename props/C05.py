"""C05 - threaded trajectory analysis is schedule- and thread-count-independent (DESIGN.md section 5, C05)"""
import os, re
from vlib import core, ccv, native
from vlib.core import Ob

CDIR = os.path.join(core.VERIF, 'contracts', 'C05')
META = {
    'level': 'other', 'functions': [],
    'trusted_base': ['CBMC 6.11 C++ front end, SAT back end, its sequentially consistent thread semantics for the interleaving runs',
                     'stub classes of contracts/C05/stub.h standing for csgapplication.h (member names/signatures checked against the header)',
                     'tools::Mutex::Lock/Unlock are pthread_mutex_lock/unlock wrappers (mutex.cc, trusted); Thread::Start/WaitDone = pthread_create/join'],
    'assumptions': ['TrajectoryReader::NextFrame, EvalConfiguration, MergeWorker, TopologyMap::Apply enter as ghost events (their bodies are not verified here)'],
    'not_decided': ['deadlock freedom is argued from the sequential token contracts, not machine-checked', 'interleavings of more than 2 workers or 3 frames',
                    'byte-identity of output files (needs determinism of MergeWorker)', 'weak memory (pthread mutexes give SC for data-race-free code)'],
    'explanation': 'Sequential protocol contracts of ProcessData / Worker::Run are proved on every path for every worker id and thread count <= 4 (deductive, unbounded in frames); '
                   'their ring precondition is discharged on the AST of the real CsgApplication::Run for every thread count (RVC, loops by per-iteration contracts; --nt >= 1 assumed); '
                   'the global lemma (exclusive reader/merge, frames in file order, merge order) is checked over all interleavings of 2 workers + main for small frame counts (bounded).',
}
SIG_PD = r'bool\s+CsgApplication::ProcessData\s*\(\s*Worker\s*\*\s*worker\s*\)'
SIG_RUN = r'void\s+CsgApplication::Worker::Run\s*\(\s*\)'


def conformance():
    h = ccv.strip_map(open(os.path.join(core.REPO, 'csg/include/votca/csg/csgapplication.h')).read())
    need = [r'threadsMutexesIn_', r'threadsMutexesOut_', r'tools::Mutex\s+traj_readerMutex_', r'Index\s+nframes_', r'bool\s+is_first_frame_', r'Index\s+nthreads_', r'bool\s+do_mapping_',
            r'traj_reader_', r'virtual\s+bool\s+SynchronizeThreads\s*\(', r'bool\s+ProcessData\s*\(\s*Worker', r'MergeWorker\s*\(\s*Worker', r'Index\s+getId\s*\(', r'Topology\s+top_\s*,\s*top_cg_', r'map_']
    for pat in need:
        if not re.search(pat, h):
            raise core.Undecided('declaration conformance: /%s/ not found in csgapplication.h' % pat)


def bodies():
    pd = ccv.extract('csg/src/libcsg/csgapplication.cc', SIG_PD)
    run = ccv.extract('csg/src/libcsg/csgapplication.cc', SIG_RUN)
    conformance()
    info = [dict(pd.info(), name='CsgApplication::ProcessData', route='CCV (CBMC C++ mode, verbatim body against stub classes)', dropped='class declarations (stubs), namespaces'),
            dict(run.info(), name='CsgApplication::Worker::Run', route='CCV (CBMC C++ mode, verbatim body against stub classes)', dropped='class declarations (stubs), namespaces')]
    return pd, run, info


def job_seq_pd():
    pd, run, info = bodies()
    files = {'stub.h': open(os.path.join(CDIR, 'stub.h')).read(), 'mon.c': open(os.path.join(CDIR, 'seq_monitor.c')).read(),
             'pd.cpp': open(os.path.join(CDIR, 'seq_pd.cpp.in')).read().replace('@BODY_PD@', pd.body)}
    obs = ccv.build_and_check('C05.seq.ProcessData', 'CsgApplication::ProcessData', files, 'h_pd', cxx_std='c++11', defines=['VERIF_MAXT=4'], unwind=6, timeout=900,
                              expect_fail=['canary'], route_note='every path, every id < nthreads <= 4, any frame budget, both modes, mapping on/off')
    for o in obs:
        o['functions'] = info
    return obs


def job_seq_run():
    pd, run, info = bodies()
    files = {'stub.h': open(os.path.join(CDIR, 'stub.h')).read(), 'mon.c': open(os.path.join(CDIR, 'seq_monitor.c')).read(),
             'run.cpp': open(os.path.join(CDIR, 'seq_run.cpp.in')).read().replace('@BODY_RUN@', run.body)}
    obs = ccv.build_and_check('C05.seq.WorkerRun', 'CsgApplication::Worker::Run', files, 'h_run', cxx_std='c++11', defines=['VERIF_MAXT=4', 'VERIF_ITER=3'], unwind=6, timeout=900,
                              expect_fail=['canary'], bound='at most 3 loop iterations (ProcessData by its contract stub; iterations carry no program state)',
                              route_note='caller checked against the callee contract stub')
    for o in obs:
        o['functions'] = info
    return obs


# counts are 'at least one' (None): after all rules NO pointer expression may be left (checked below), which is the real drift guard
RPTR_PD = [('R-ptr getId', r'worker->getId\(\)', 'verif_wid__', None),
           ('R-ptr In.Lock', r'threadsMutexesIn_\[([^\]]+)\]->Lock\(\)', r'Mutex_Lock(&In[\1])', None),
           ('R-ptr In.Unlock', r'threadsMutexesIn_\[([^\]]+)\]->Unlock\(\)', r'Mutex_Unlock(&In[\1])', None),
           ('R-ptr reader.Lock', r'traj_readerMutex_\.Lock\(\)', 'Mutex_Lock(&traj_readerMutex_)', None),
           ('R-ptr reader.Unlock', r'traj_readerMutex_\.Unlock\(\)', 'Mutex_Unlock(&traj_readerMutex_)', None),
           ('R-ptr NextFrame', r'traj_reader_->NextFrame\(worker->top_\)', 'NextFrame(verif_wid__)', None),
           ('R-ptr Apply', r'worker->map_->Apply\(\)', 'Apply(verif_wid__)', None),
           ('R-ptr Eval2', r'worker->EvalConfiguration\(&worker->top_cg_,\s*&worker->top_\)', 'Eval(verif_wid__)', None),
           ('R-ptr Eval1', r'worker->EvalConfiguration\(&worker->top_\)', 'Eval(verif_wid__)', None)]
RPTR_RUN = [('R-ptr ProcessData', r'app_->ProcessData\(this\)', 'ProcessData(verif_wid__)', None),
            ('R-ptr Sync', r'app_->SynchronizeThreads\(\)', 'SynchronizeThreads()', None),
            ('R-ptr getId', r'(?<![>\w])getId\(\)', 'verif_wid__', None),
            ('R-ptr Out.Lock', r'app_->threadsMutexesOut_\[([^\]]+)\]->Lock\(\)', r'Mutex_Lock(&Out[\1])', None),
            ('R-ptr Out.Unlock', r'app_->threadsMutexesOut_\[([^\]]+)\]->Unlock\(\)', r'Mutex_Unlock(&Out[\1])', None),
            ('R-ptr Merge', r'app_->MergeWorker\(this\)', 'MergeWorker(verif_wid__)', None),
            ('R-ptr nthreads', r'app_->nthreads_', 'nthreads_', None)]


def job_run_setup(seed='0'):
    """the ring precondition of the worker contracts is established by CsgApplication::Run (RVC on the clang AST of the real function): one worker per thread with ids 0..nthreads_-1,
    one pre-locked input and output mutex per worker, slot 0 released once, and nthreads_ - the ring modulus of ProcessData / Worker::Run - not written after the options were read.
    Loops are closed by per-iteration contracts (symbolic loop counter, arbitrary vector prefix), so the result holds for every thread count."""
    import sympy as sp, z3
    from vlib import rvc
    from vlib.rvc import Exec, SInt
    rvc.reset()
    REL = 'csg/src/libcsg/csgapplication.cc'
    fns = rvc.functions(rvc.ast(REL, 'CsgApplication'))
    F = 'CsgApplication::Run'
    runs = [f for f in fns.get('Run', []) if any(n.get('kind') == 'ForStmt' for n in rvc.walk(f))]
    if len(runs) != 1:
        raise core.Undecided('front end: CsgApplication::Run not found (%d candidates)' % len(runs))
    run = runs[0]
    mf = [{'name': F, 'file': REL, 'ast_nodes': rvc.node_count(run), 'route': 'RVC (clang AST; worker-creation, mutex and release statements executed symbolically, loops by per-iteration contracts; frame by AST scan)'}]
    obs = []
    def ob(oid, clause, ok, note, witness=None, backend='symbolic execution'):
        o = Ob('C05.run.setup/' + oid, F, clause, 'RVC', backend, core.PROVED if ok else core.REFUTED, 0, note, witness=None if ok else (witness or {}))
        o['functions'] = mf
        obs.append(o)
    def members(n):
        return set(x.get('name') for x in rvc.walk(n) if x.get('kind') == 'MemberExpr')
    # ---- frame: nthreads_ is read-only outside EvaluateOptions (every occurrence is an rvalue read, or the left side of an assignment inside EvaluateOptions)
    bad, writes = [], 0
    for name, lst in fns.items():
        for f in lst:
            def scan(n, parent, fname):
                nonlocal writes
                if n.get('kind') == 'MemberExpr' and n.get('name') == 'nthreads_':
                    read = parent is not None and parent.get('kind') == 'ImplicitCastExpr' and parent.get('castKind') == 'LValueToRValue'
                    if not read:
                        if fname == 'EvaluateOptions' and parent is not None and parent.get('kind') == 'BinaryOperator' and parent.get('opcode') == '=' and parent['inner'][0] is n:
                            writes += 1
                        else:
                            bad.append('%s line %s' % (fname, rvc.src_line(n)))
                for c in n.get('inner', []) or []:
                    if isinstance(c, dict):
                        scan(c, n, fname)
            scan(f, None, name)
    ob('frame.nthreads', 'the ring modulus nthreads_ is written only while the options are evaluated: Run, ProcessData and Worker::Run only read it (frame condition)', not bad and writes >= 1,
       'writes in EvaluateOptions: %d; other non-read uses: %s' % (writes, bad or 'none'), {'writes_or_references': bad}, backend='AST scan (lvalue uses of the member)')
    body = rvc.body_of(run)
    fors = [n for n in rvc.walk(body) if n.get('kind') == 'ForStmt']
    fork = [f for f in fors if 'ForkWorker' in members(f)]
    mtx = [f for f in fors if 'threadsMutexesIn_' in members(f)]
    if len(fork) != 1 or len(mtx) != 1:
        raise core.Undecided('Run: one worker-creation loop and one mutex loop expected, found %d / %d' % (len(fork), len(mtx)))
    fork, mtx = fork[0], mtx[0]
    # ---- frame: the worker list and the two rings change only where the contracts below look
    ringbad = []
    def scan_calls(n, inloop):
        if n.get('kind') == 'CXXMemberCallExpr' or n.get('kind') == 'CXXOperatorCallExpr':
            me = [x for x in rvc.walk(n['inner'][0]) if x.get('kind') == 'MemberExpr'] if n.get('kind') == 'CXXMemberCallExpr' else []
            if me and me[0].get('name') and len(me) >= 2 and me[1].get('name') in ('myWorkers_', 'threadsMutexesIn_', 'threadsMutexesOut_') and me[0]['inner'][0] is not None:
                meth, vec = me[0]['name'], me[1]['name']
                base = me[0]['inner'][0]
                while base.get('kind') in rvc.TRANSPARENT:
                    base = base['inner'][0]
                direct = base is me[1]
                if direct:
                    if meth in ('push_back', 'emplace_back'):
                        okp = (vec == 'myWorkers_' and inloop in (None, 'fork')) or (vec != 'myWorkers_' and inloop == 'mtx')
                        if not okp:
                            ringbad.append('%s.%s line %s' % (vec, meth, rvc.src_line(n)))
                    elif meth not in ('back', 'size', 'clear', 'begin', 'end', 'empty', 'front'):
                        ringbad.append('%s.%s line %s' % (vec, meth, rvc.src_line(n)))
        for c in n.get('inner', []) or []:
            if isinstance(c, dict):
                scan_calls(c, 'fork' if c is fork else ('mtx' if c is mtx else (inloop if c.get('kind') not in ('ForStmt', 'WhileStmt', 'DoStmt', 'CXXForRangeStmt') else (inloop or 'other'))))
    scan_calls(body, None)
    ob('frame.rings', 'workers are appended only at the master creation and in the worker-creation loop, ring mutexes only in the mutex loop; nothing is erased or resized before the join',
       not ringbad, 'offending calls: %s' % (ringbad or 'none'), {'calls': ringbad}, backend='AST scan (member calls on myWorkers_/threadsMutexesIn_/threadsMutexesOut_)')

    class Vec:
        def __init__(s, name, n): s.name, s.n, s.pushed, s.first = name, n, [], None
        def call(s, name, args):
            if name == 'size': return SInt(s.n + len(s.pushed))
            if name in ('push_back', 'emplace_back'):
                s.pushed.append(args[0]); return None
            if name == 'back':
                if not s.pushed: raise rvc.Unsupported(s.name + '.back() of the arbitrary prefix')
                return s.pushed[-1]
            raise rvc.Unsupported(s.name + '.' + name)
        def index_ref(s, idx):
            i = rvc._i(idx[0])
            if i != 0: raise rvc.Unsupported('%s[%s]' % (s.name, i))
            if s.first is None: s.first = Mutex()
            return s.first
    class Mutex:
        def __init__(s): s.ev = []
        def call(s, name, args): s.ev.append(name)
    class Opts:
        def index_ref(s, idx): return s
        def call(s, name, args): return 'file'
    nt, k, t = sp.Symbol('nthreads', integer=True), sp.Symbol('nworkers', integer=True), sp.Symbol('thread', integer=True)
    def world(threaded, sync, P):
        this = {'myWorkers_': Vec('myWorkers_', k), 'nthreads_': SInt(nt), 'do_mapping_': False, 'threadsMutexesIn_': Vec('threadsMutexesIn_', k), 'threadsMutexesOut_': Vec('threadsMutexesOut_', k)}
        def worker(*a):
            return {'__class__': 'Worker', 'app_': None, 'id_': SInt(sp.Symbol('unset_id', integer=True)), 'map_': None, 'top_': 'TOP', 'top_cg_': 'TOPCG'}
        cb = {'exec_classes': ('Worker',), 'decide': P.decide, 'DoThreaded': lambda o=None: threaded, 'SynchronizeThreads': lambda o=None: sync, 'ForkWorker': worker,
              'make_unique': lambda *a: (Mutex() if threaded else worker()), 'ReadTopology': lambda *a: None, 'CheckMoleculeNaming': lambda *a: None, 'OptionsMap': lambda *a: Opts()}
        return this, cb
    def loop_parts(f):
        init, _, cond, inc, lbody = f['inner']
        return init, cond, inc, lbody
    # ---- master worker: id 0
    top = [c for c in body['inner'] if isinstance(c, dict)]
    mi = [i for i, c in enumerate(top) if c.get('kind') == 'IfStmt' and 'ForkWorker' in members(c) and not any(x.get('kind') == 'ForStmt' for x in rvc.walk(c))]
    if len(mi) != 1:
        raise core.Undecided('Run: master worker creation not found')
    P = rvc.Paths(); P.start()
    this, cb = world(True, True, P)
    ex = Exec({'reader': 'READER', 'cg': 'CG'}, cb, fns, this)
    j = mi[0]
    ex.stmt(top[j])
    while j + 1 < len(top) and 'myWorkers_' in members(top[j + 1]) and top[j + 1].get('kind') != 'DeclStmt':
        j += 1
        ex.stmt(top[j])
    pw = this['myWorkers_'].pushed
    ok = len(pw) == 1 and sp.expand(SInt.ex(pw[0]['id_'])) == 0 and pw[0]['app_'] is this
    ob('master', 'the first worker is created once, belongs to this application and has id 0', ok, 'pushed %d worker(s), id %s' % (len(pw), pw[0]['id_'] if pw else '-'), {'id': str(pw[0]['id_']) if pw else None})
    # ---- worker-creation loop: per-iteration contract
    init, cond, inc, lbody = loop_parts(fork)
    P = rvc.Paths()
    seen_true = seen_false = False
    while True:
        P.start()
        rvc.CTX.base = []
        this, cb = world(True, True, P)
        ex = Exec({'reader': 'READER', 'cg': 'CG'}, cb, fns, this)
        ex.stmt(init)
        v0 = ex.env[[x for x in rvc.walk(init) if x.get('kind') == 'VarDecl'][0]['name']]
        lv = [x for x in rvc.walk(init) if x.get('kind') == 'VarDecl'][0]['name']
        ob('fork.init.p%d' % P.count, 'worker ids of the forked workers start at 1', sp.expand(SInt.ex(v0)) == 1, 'initial counter %s' % v0, {'init': str(v0)})
        ex.env[lv] = SInt(t)
        c = ex.truth(ex.expr(cond))
        zt, zn = z3.Int('thread'), z3.Int('nthreads')
        if c:
            seen_true = True
            o = rvc.logic('C05.run.setup/fork.guard.enter.p%d' % P.count, F, 'a worker is forked only while its id is below nthreads_', zt < zn, pc=P.pc); o['functions'] = mf; obs.append(o)
            ex.stmt(lbody)
            pw = this['myWorkers_'].pushed
            ok = len(pw) == 1 and sp.expand(SInt.ex(pw[0]['id_']) - t) == 0 and pw[0]['app_'] is this
            ob('fork.body.p%d' % P.count, 'one pass of the loop appends exactly one worker, which belongs to this application and whose id is the loop counter', ok,
               'pushed %d worker(s), id %s' % (len(pw), pw[0]['id_'] if pw else '-'), {'pushed': len(pw), 'id': str(pw[0]['id_']) if pw else None})
            ex.expr(inc)
            ob('fork.step.p%d' % P.count, 'the loop counter grows by exactly one per pass (ids are consecutive)', sp.expand(SInt.ex(ex.env[lv]) - t - 1) == 0, 'counter after the pass: %s' % ex.env[lv], {'next': str(ex.env[lv])})
        else:
            seen_false = True
            o = rvc.logic('C05.run.setup/fork.guard.exit.p%d' % P.count, F, 'the loop stops only when the id has reached nthreads_ (one worker per thread: ids 0..nthreads_-1)', zt >= zn, pc=P.pc); o['functions'] = mf; obs.append(o)
        if not P.next():
            break
    ob('fork.paths', 'vacuity guard: both the continuing and the terminating side of the loop condition were explored', seen_true and seen_false, 'enter=%s exit=%s' % (seen_true, seen_false))
    # ---- mutex loop: per-iteration contract, ordered and unordered mode
    init, cond, inc, lbody = loop_parts(mtx)
    for sync in (True, False):
        P = rvc.Paths()
        while True:
            P.start()
            rvc.CTX.base = []
            this, cb = world(True, sync, P)
            ex = Exec({}, cb, fns, this)
            ex.stmt(init)
            lv = [x for x in rvc.walk(init) if x.get('kind') == 'VarDecl'][0]['name']
            tag = '%s.p%d' % ('ordered' if sync else 'unordered', P.count)
            ob('mutex.init.' + tag, 'the mutex loop starts at worker 0', sp.expand(SInt.ex(ex.env[lv])) == 0, 'initial counter %s' % ex.env[lv], {'init': str(ex.env[lv])})
            ex.env[lv] = SInt(t)
            c = ex.truth(ex.expr(cond))
            zt, zk = z3.Int('thread'), z3.Int('nworkers')
            if c:
                o = rvc.logic('C05.run.setup/mutex.guard.enter.' + tag, F, 'one pass per worker', zt < zk, pc=P.pc); o['functions'] = mf; obs.append(o)
                ex.stmt(lbody)
                pin, pout = this['threadsMutexesIn_'].pushed, this['threadsMutexesOut_'].pushed
                if sync:
                    ok = len(pin) == 1 and len(pout) == 1 and pin[0] is not pout[0] and pin[0].ev == ['Lock'] and pout[0].ev == ['Lock']
                    ob('mutex.body.' + tag, 'ordered mode: one pass appends exactly one input and one output mutex and locks each once (every ring slot starts locked)', ok,
                       'in: %s out: %s' % ([m.ev for m in pin], [m.ev for m in pout]), {'in': str([m.ev for m in pin]), 'out': str([m.ev for m in pout])})
                else:
                    ob('mutex.body.' + tag, 'unordered mode: no ring mutex is created', not pin and not pout, 'in %d out %d' % (len(pin), len(pout)), {'in': len(pin), 'out': len(pout)})
                ex.expr(inc)
                ob('mutex.step.' + tag, 'the loop counter grows by exactly one per pass', sp.expand(SInt.ex(ex.env[lv]) - t - 1) == 0, 'counter after the pass: %s' % ex.env[lv], {'next': str(ex.env[lv])})
            else:
                o = rvc.logic('C05.run.setup/mutex.guard.exit.' + tag, F, 'the loop stops only after the last worker (ring length == number of workers == nthreads_)', zt >= zk, pc=P.pc); o['functions'] = mf; obs.append(o)
            if not P.next():
                break
    # ---- slot 0 of both rings is released exactly once, nothing else is unlocked by the main thread
    rel = [n for n in rvc.walk(body) if n.get('kind') == 'IfStmt' and 'threadsMutexesIn_' in members(n) and 'Unlock' in members(n) and not any(x.get('kind') in ('ForStmt', 'CXXForRangeStmt') for x in rvc.walk(n))]
    ok, note = False, 'release statement not found'
    if len(rel) == 1:
        P = rvc.Paths(); P.start()
        this, cb = world(True, True, P)
        Exec({}, cb, fns, this).stmt(rel[0])
        fi, fo = this['threadsMutexesIn_'].first, this['threadsMutexesOut_'].first
        ok = fi is not None and fo is not None and fi.ev == ['Unlock'] and fo.ev == ['Unlock']
        note = 'slot 0 events: in %s out %s' % (fi.ev if fi else None, fo.ev if fo else None)
        P2 = rvc.Paths(); P2.start()
        this2, cb2 = world(True, False, P2)
        Exec({}, cb2, fns, this2).stmt(rel[0])
        ok = ok and this2['threadsMutexesIn_'].first is None and this2['threadsMutexesOut_'].first is None
    unl = [rvc.src_line(n) for n in rvc.walk(body) if n.get('kind') == 'CXXMemberCallExpr' and 'Unlock' in members(n['inner'][0]) and members(n['inner'][0]) & {'threadsMutexesIn_', 'threadsMutexesOut_'}]
    ob('release', 'after the workers are started the main thread releases slot 0 of the input and of the output ring exactly once (ordered mode) and no other ring slot', ok and len(unl) == 2, note + '; ring unlock calls in Run at lines %s' % unl,
       {'note': note, 'unlock_lines': str(unl)})
    # native replay of a broken set-up: the real threaded application with fewer frames than threads (a ring whose length differs from the modulus starves or deadlocks there)
    for o in obs:
        if o['status'] == core.REFUTED:
            o['witness'] = dict(o.get('witness') or {}, budget=2)
    replay_schedule(obs, 4, True)
    return obs


def job_conc(nt, nf, sync, budget=None):
    """all interleavings of nt workers + main; nf frames after seeking; frame budget symbolic in [-1, nf+1].  C mode, bodies after counted R-ptr rewrites."""
    pd, run, info = bodies()
    # identifiers the C harness owns in the scope the bodies are spliced into: a local of the real code with one of these names would silently
    # change the meaning of the harness (observed with a harmless rename of a local to `wid`) - that is drift, not a violation
    reserved = ('verif_wid__', 'In', 'Out', 'Mutex_Lock', 'Mutex_Unlock', 'NextFrame', 'Apply', 'Eval', 'MergeWorker', 'ProcessData', 'Worker_Run', 'worker_frame', 'next_frame', 'merged', 'evaluated')
    for ex in (pd, run):
        clean = ccv.strip_map(ex.body)
        for m in re.finditer(r'[A-Za-z_][A-Za-z_0-9]*', clean):
            if m.group(0) in reserved:
                k = m.start() - 1
                while k >= 0 and clean[k] in ' \t\n':
                    k -= 1
                if not (k >= 0 and (clean[k] == '.' or clean[k - 1:k + 1] in ('->', '::'))):
                    raise core.Undecided('extraction drift: the body of %s uses the identifier %s, which the harness reserves' % (ex.sig, m.group(0)))
    for name, pat, rep, cnt in RPTR_PD:
        ccv.rule(pd, name, pat, rep, cnt)
    for name, pat, rep, cnt in RPTR_RUN:
        ccv.rule(run, name, pat, rep, cnt)
    for ex in (pd, run):
        left = re.findall(r'->|\bworker\b|\bapp_\b|\bthis\b', ccv.strip_map(ex.body))
        if left:
            raise core.Undecided('extraction drift: %d pointer expressions left after R-ptr in %s' % (len(left), ex.sig))
    info = [dict(pd.info(), name='CsgApplication::ProcessData', route='CCV (C mode, body after counted R-ptr rewrites, CBMC threads)', dropped='C++ object indirections (worker->, app_->, unique_ptr), class declarations'),
            dict(run.info(), name='CsgApplication::Worker::Run', route='CCV (C mode, body after counted R-ptr rewrites, CBMC threads)', dropped='C++ object indirections, class declarations')]
    tu = open(os.path.join(CDIR, 'conc_c.c.in')).read().replace('@BODY_PD@', pd.body).replace('@BODY_RUN@', run.body)
    bt = 'any' if budget is None else ('none' if budget < 0 else str(budget))
    obs = ccv.build_and_check('C05.conc.nt%d.nf%d.%s.budget-%s' % (nt, nf, 'ordered' if sync else 'unordered', bt), 'CsgApplication::ProcessData + Worker::Run (threads)', {'conc.c': tu}, 'h_conc',
                              defines=['NT=%d' % nt, 'NF=%d' % nf, 'SYNC=%d' % (1 if sync else 0)] + ([] if budget is None else ['BUDGET=(%d)' % budget]), unwind=max(nf + 2, nt + 1), timeout=3000,
                              checks=['--bounds-check', '--pointer-check'], solver='minisat',
                              bound='%d worker threads + main, %d frames, frame budget %s, %s mode; all interleavings (sequential consistency)' % (nt, nf, 'symbolic in [-1,%d]' % (nf + 1) if budget is None else bt, 'ordered' if sync else 'unordered'),
                              route_note='CBMC threads, mutex = atomic test-and-set with blocking by assumption')
    for o in obs:
        o['functions'] = info
    replay_schedule(obs, nt, sync)
    return obs


def replay_schedule(obs, nt, sync):
    """native replay of a refuted interleaving obligation: the REAL threaded CsgApplication (libvotca_csg built from the working tree) on a
    7-frame trajectory, worker 0 delayed by 150 ms to force the schedule in which another worker reaches the reader first"""
    bad = [o for o in obs if o['status'] == core.REFUTED]
    if not bad:
        return
    try:
        L = native.libs()
        exe = native.build('C05.schedule', open(os.path.join(CDIR, 'replay_schedule.cc')).read(), [], sanitize=False, opt='-O1', extra=['-pthread', '-march=native'], libs=L + ['-pthread'])
    except core.Undecided as e:
        for o in bad:
            o['replay'] = {'reproduced': False, 'error': str(e)}
        return
    for o in bad:
        w = o.get('witness') or {}
        budget = w.get('budget', -1)
        tried, rep = [], None
        for args in ([nt, 1 if sync else 0, 150, budget, 0], [nt, 1 if sync else 0, 0, budget, 0], [nt, 1 if sync else 0, 150, -1, 0], [max(nt, 3), 1 if sync else 0, 150, budget, 0]):
            rc, out, err = native.execute(exe, args, timeout=180)
            tried.append(' '.join(map(str, args)))
            if rc != 0:
                rep = {'reproduced': True, 'cmd': '%s %s' % (exe, ' '.join(map(str, args))), 'rc': rc, 'stderr': (err or '')[-600:],
                       'against': 'real CsgApplication::Run/ProcessData/Worker::Run (libvotca_csg from the working tree), threads=%s, %s mode, worker 0 delayed %s ms, --nframes %s' % (args[0], 'ordered' if sync else 'unordered', args[2], args[3])}
                break
        o['replay'] = rep or {'reproduced': False, 'tried': tried, 'note': 'the native runs processed exactly the expected frames (the violating interleaving was not hit by the delayed-worker schedules tried)'}


def collect(obs):
    seen = set(f['name'] + f.get('route', '') for f in META['functions'])
    for o in obs:
        for f in o.pop('functions', []) or []:
            if f['name'] + f.get('route', '') not in seen:
                seen.add(f['name'] + f.get('route', ''))
                META['functions'].append(f)


def run(tier, seed, only=None):
    # ordered mode: symbolic frame budget; unordered mode: without a budget and with a symbolic budget (the latter was finding F11, fixed in 829ed8356)
    if tier == 'quick':
        confs = [(2, 1, True, None), (2, 2, True, None), (2, 2, False, -1), (2, 2, False, None)]
    else:
        confs = [(2, f, True, None) for f in (1, 2, 3)] + [(2, f, False, -1) for f in (1, 2, 3)] + [(2, f, False, None) for f in (1, 2, 3)] + [(1, 3, True, None), (1, 3, False, None)]
    jobs = [(job_seq_pd, ()), (job_seq_run, ()), (job_run_setup, ())] + [(job_conc, c) for c in confs]
    if only:
        jobs = [j for j in jobs if re.search(only, j[0].__name__ + str(j[1]))]
    obs = core.pmap(jobs)
    collect(obs)
    return obs, META
