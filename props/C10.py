"""C10 - every job in a shared job file is executed exactly once and never lost (partial; DESIGN.md section 5, C10)"""
import os, re, itertools, copy
import sympy as sp
from vlib import core, rvc
from vlib.core import Ob
from vlib.rvc import Exec, Ret, Thrown, ListIt, SInt

META = {
    'level': 'other', 'functions': [],
    'trusted_base': ['clang 14 AST of progressobserver.cc / job.cc (instantiation ProgObserver<std::vector<Job>>)', 'RVC executor (control flow, containers, iterators as models)',
                     'ghost event log behind the callee contracts: file_lock::lock/unlock, LOAD_JOBS, WRITE_JOBS, tools::Mutex::Lock/Unlock, Job accessors (isAvailable, getHost, setStatus, Reset, UpdateFrom ...)'],
    'assumptions': ['whole-function event order: job lists of at most 3 jobs, enumerated status / host combinations (bounded); assignment loop: any list length (per-iteration contract); one process at a time'],
    'not_decided': ['interleavings of several processes at the load/modify/write steps', 'crash points inside WRITE_JOBS (file or backup complete at every instant)', 'XML (de)serialisation of jobs',
                    'boost::interprocess::file_lock itself', 'the lemma "exclusive lock + load-merge-write under the lock => exactly once across processes" is an argument over these contracts, not machine-checked'],
    'explanation': 'Sequential ghost-state contracts of LockProgFile / SyncWithProgFile / RequestNextJob / UPDATE_JOBS checked on every path of the real bodies for all job lists up to a small bound (enumerated): lock mode, '
                   'lock -> load -> merge -> backup -> assign -> write -> unlock order, cache and maxjobs limits, at-most-once assignment inside one process, merge rule. Inter-process schedules and crash points are NOT decided.',
}
LEVELS = {'error': 0, 'warning': 1, 'info': 2, 'debug': 3}
ME = 'me:1'


class MapModel:
    def __init__(s, keys):
        s.keys = set(keys)
    def call(s, name, args):
        if name == 'count':
            return 1 if args[0] in s.keys else 0
        if name == 'size':
            return len(s.keys)
        raise rvc.Unsupported('map::' + name)


def mkjob(i, status, host):
    return {'id': i, 'status': status, 'host': host, 'touched': []}


def fns_all():
    fns = rvc.functions(rvc.ast('xtp/src/libxtp/progressobserver.cc', 'ProgObserver'))
    upd = rvc.functions(rvc.ast('xtp/src/libxtp/job.cc', 'UPDATE_JOBS'))
    for k, v in upd.items():
        fns.setdefault(k, []).extend(v)
    for need in ('SyncWithProgFile', 'RequestNextJob', 'LockProgFile', 'ReleaseProgFile', 'UPDATE_JOBS'):
        if need not in fns:
            raise core.Undecided('front end: %s not found' % need)
    return fns


def mk(fns, jobs, ext, cache, maxjobs, started, restart_stats=(), restart_hosts=(), scan=0, toproc=None, nextpos=None, more=True):
    log = []
    held = {'mode': None}       # ghost: the lock this PROCESS holds on the lock file.  Contract of boost::interprocess::file_lock over POSIX fcntl record locks:
                                # lock() acquires, unlock() releases, and DESTROYING ANY file_lock object of the same file closes a descriptor of that file, which drops every lock the process holds on it
    def fl_lock(f, mode):
        held['mode'] = mode; log.append(('flock', mode))
    def fl_unlock(f, mode):
        held['mode'] = None; log.append(('funlock', mode))
    def fl_destroy(o):
        if o.get('__class__') == 'file_lock':
            if held['mode'] is not None:
                log.append(('lock-dropped-by-destructor',))
            held['mode'] = None
    def jcb(name):
        return name
    cb = {
        'enum': lambda n: LEVELS.get(n, n), 'getLogger': lambda t: 'LOGGER', 'getReportLevel': lambda l: -1, 'isMaverick': lambda t: True,
        'Lock': lambda m: log.append(('mutex.lock',)), 'Unlock': lambda m: log.append(('mutex.unlock',)),
        'lock': lambda f: fl_lock(f, 'exclusive'), 'lock_sharable': lambda f: fl_lock(f, 'shared'),
        'unlock': lambda f: fl_unlock(f, 'exclusive'), 'unlock_sharable': lambda f: fl_unlock(f, 'shared'), 'destroy': fl_destroy,
        'LOAD_JOBS': lambda path: (log.append(('load', path, held['mode'])), [dict(j, touched=[]) for j in ext])[1],
        'WRITE_JOBS': lambda js, path: log.append(('write', path, js, [(j['id'], j['status'], j['host']) for j in js], held['mode'])),
        'GenerateHost': lambda o=None: ME, 'GenerateTime': lambda o=None: 'T',
        'isAvailable': lambda j: j['status'] == 'AVAILABLE', 'getStatusStr': lambda j: j['status'], 'getStatus': lambda j: j['status'], 'getHost': lambda j: j['host'] or '', 'hasHost': lambda j: j['host'] is not None,
        'getId': lambda j: j['id'], 'Reset': lambda j: j['touched'].append('reset'), 'setStatus': lambda j, s_: (j.__setitem__('status', s_), j['touched'].append('status'))[1],
        'setHost': lambda j, h: (j.__setitem__('host', h), j['touched'].append('host'))[1], 'setTime': lambda j, t: j['touched'].append('time'),
        'UpdateFrom': lambda j, o: (j.__setitem__('status', o['status']), j.__setitem__('host', o['host']), j['touched'].append('updatefrom'), log.append(('merge', j['id'])))[2],
        'construct': lambda ex, n, ty, args: ({'__class__': 'file_lock'} if 'file_lock' in ty else NotImplemented),
        'exec_functions': ('UPDATE_JOBS',),
    }
    this = {'jobs_': jobs, 'metajit_': ListIt(jobs, scan), 'jobsToProc_': toproc if toproc is not None else [], 'nextjit_': None, 'progFile_': 'jobs.xml', 'lockFile_': 'jobs.lock', 'flock_': {'__class__': 'file_lock', 'from': 'an earlier LockProgFile call of this process (released)'},
            'cacheSize_': cache, 'maxJobs_': maxjobs, 'startJobsCount_': started, 'restartMode_': bool(restart_stats or restart_hosts), 'restart_stats_': MapModel(restart_stats),
            'restart_hosts_': MapModel(restart_hosts), 'moreJobsAvailable_': more, 'lockThread_': 'MUTEX', 'jobsReported_': 0}
    this['nextjit_'] = ListIt(this['jobsToProc_'], len(this['jobsToProc_']) if nextpos is None else nextpos)
    ex = Exec({'thread': 'THREAD'}, cb, fns, this)
    return ex, this, log


def check_sync(tag, this, log, before, ext, cache, maxjobs, started, rs, rh, scan):
    """postconditions of SyncWithProgFile on one run; returns list of (name, ok, detail)"""
    kinds = [e[0] for e in log]
    out = []
    order = [k for k in kinds if k in ('flock', 'load', 'write', 'funlock')]
    out.append(('order', order == ['flock', 'load', 'write', 'write', 'funlock'], 'events %s' % order))
    out.append(('lock-mode', ('flock', 'exclusive') in log and ('funlock', 'exclusive') in log, 'lock events %s' % [e for e in log if e[0] in ('flock', 'funlock')]))
    io = [e for e in log if e[0] in ('load', 'write')]
    out.append(('lock-held', bool(io) and all(e[-1] == 'exclusive' for e in io) and ('lock-dropped-by-destructor',) not in log,
                'the exclusive lock is held by this process at every load/write of the job file (file_lock contract over POSIX record locks: destroying another file_lock object of the same file drops it): %s' % [(e[0], e[-1]) for e in io]))
    writes = [e for e in log if e[0] == 'write']
    if len(writes) == 2:
        out.append(('write-targets', writes[0][1] == 'jobs.xml~' and writes[1][1] == 'jobs.xml' and writes[0][2] is this['jobs_'] and writes[1][2] is this['jobs_'], 'backup first, then the job file, both from jobs_'))
        merges_before_backup = all(log.index(e) < log.index(writes[0]) for e in log if e[0] == 'merge')
        out.append(('merge-before-backup', merges_before_backup, ''))
    jobs, tp = this['jobs_'], this['jobsToProc_']
    out.append(('cache', len(tp) <= cache, '%d jobs cached, cache size %d' % (len(tp), cache)))
    out.append(('maxjobs', this['startJobsCount_'] <= maxjobs and this['startJobsCount_'] == started + len(tp), 'started %d of max %d' % (this['startJobsCount_'], maxjobs)))
    out.append(('scan-advances', this['metajit_'].i >= scan and this['metajit_'].i <= len(jobs), 'scan position %d -> %d' % (scan, this['metajit_'].i)))
    # state after the merge (what the assignment loop saw)
    merged = []
    for b, e in zip(before, ext):
        merged.append(dict(b) if not (e['host'] is not None and e['host'] != ME) else dict(b, status=e['status'], host=e['host']))
    ids = [j['id'] for j in tp]
    out.append(('once', len(ids) == len(set(ids)) and all(any(j is k for k in jobs) for j in tp), 'assigned ids %s' % ids))
    ok_elig, ok_mark, ok_rest = True, True, True
    for pos, (j, m) in enumerate(zip(jobs, merged)):
        elig = m['status'] == 'AVAILABLE' or (bool(rs or rh) and (m['status'] in rs or (m['host'] or '') in rh))
        if any(j is k for k in tp):
            ok_elig &= elig and pos >= scan
            ok_mark &= j['status'] == 'ASSIGNED' and j['host'] == ME
        else:
            ok_rest &= (j['status'], j['host']) == (m['status'], m['host'])
    out.append(('eligible', ok_elig, 'every assigned job was AVAILABLE or matched the restart pattern, and lay at or after the scan position'))
    out.append(('marked', ok_mark, 'every assigned job is ASSIGNED to this host before the job file is written'))
    out.append(('others-untouched', ok_rest, 'jobs that were not assigned keep their merged state'))
    # greedy completeness: the scan stops only at the end, at the cache limit or at the maxjobs limit
    stopped_ok = this['metajit_'].i == len(jobs) or len(tp) == cache or this['startJobsCount_'] == maxjobs
    out.append(('no-early-stop', stopped_ok, ''))
    skipped_ok = True
    for pos in range(scan, this['metajit_'].i):
        m = merged[pos]
        elig = m['status'] == 'AVAILABLE' or (bool(rs or rh) and (m['status'] in rs or (m['host'] or '') in rh))
        if elig and not any(jobs[pos] is k for k in tp):
            skipped_ok = False
    out.append(('no-skip', skipped_ok, 'no eligible job inside the scanned range is skipped (never lost)'))
    if len(writes) == 2:
        out.append(('written-state', writes[1][3] == [(j['id'], j['status'], j['host']) for j in jobs], 'the job file carries the state with the new assignments'))
    return out


STATES = [('AVAILABLE', None), ('ASSIGNED', ME), ('ASSIGNED', 'other:2'), ('COMPLETE', 'other:2'), ('FAILED', ME), ('FAILED', 'other:2')]


def job_sync(nj, seed):
    rvc.reset()
    fns = fns_all()
    F = 'ProgObserver::SyncWithProgFile'
    bound = '%d jobs, enumerated states, cache 1..3, maxjobs, restart patterns' % nj
    fails, nrun = {}, 0
    names = None
    for st in itertools.product(range(len(STATES)), repeat=nj):
        for ext_var in (0, 1):                       # external file: identical, or other processes progressed (job 0 taken by another host)
            for cache, maxjobs, started in ((1, 5, 0), (2, 5, 0), (3, 2, 1), (2, 1, 1)):
                for rs, rh in (((), ()), (('FAILED',), ()), ((), ('other:2',))):
                    for scan in (0, min(1, nj)):
                        jobs = [mkjob(i, *STATES[s]) for i, s in enumerate(st)]
                        ext = [dict(j) for j in jobs]
                        if ext_var and nj:
                            ext[0] = dict(ext[0], status='COMPLETE', host='other:2')
                        before = [dict(j) for j in jobs]
                        ex, this, log = mk(fns, jobs, ext, cache, maxjobs, started, rs, rh, scan)
                        try:
                            ex.call_fn(fns['SyncWithProgFile'][0], ['THREAD'], this)
                        except Thrown:
                            fails.setdefault('no-throw', []).append({'states': st})
                            continue
                        nrun += 1
                        res = check_sync('', this, log, before, ext, cache, maxjobs, started, rs, rh, scan)
                        names = [r[0] for r in res]
                        for name, ok, detail in res:
                            if not ok:
                                fails.setdefault(name, []).append({'states': [STATES[s] for s in st], 'ext_changed': ext_var, 'cache': cache, 'maxjobs': maxjobs, 'started': started, 'restart': [rs, rh], 'scan': scan, 'detail': detail})
    obs = []
    clause = {'order': 'event order is lock, load, (merge), write(backup), (assignments), write(job file), unlock', 'lock-mode': 'the inter-process file lock is taken and released in EXCLUSIVE mode',
              'write-targets': 'backup is written before the job file, both from the merged in-memory list', 'merge-before-backup': 'the merge with the external file happens before the backup is written',
              'cache': 'at most cacheSize jobs are cached', 'maxjobs': 'startJobsCount_ never exceeds maxJobs_ and counts exactly the assigned jobs', 'scan-advances': 'the scan position only advances',
              'once': 'no job is assigned twice', 'eligible': 'only AVAILABLE jobs (or jobs matching the restart pattern) at or after the scan position are assigned', 'marked': 'assigned jobs are ASSIGNED to this host before the file is written',
              'others-untouched': 'jobs that are not assigned are not modified', 'no-early-stop': 'the scan stops only at the end of the list, the cache limit or the maxjobs limit', 'no-skip': 'no eligible job inside the scanned range is skipped',
              'written-state': 'the written job file carries the new assignments'}
    for name in (names or []):
        bad = fails.get(name, [])
        obs.append(Ob('C10.sync.n%d/%s' % (nj, name), F, clause.get(name, name), 'RVC', 'symbolic execution of the AST over enumerated job lists', core.BOUNDED if not bad else core.REFUTED, 0,
                      '%d runs' % nrun, bound=bound, witness=bad[0] if bad else None))
    if nrun == 0:
        raise core.Undecided('vacuity: no run completed')
    mf = [{'name': 'ProgObserver<std::vector<Job>>::' + k, 'file': 'xtp/src/libxtp/progressobserver.cc', 'ast_nodes': rvc.node_count(fns[k][0])} for k in ('SyncWithProgFile', 'LockProgFile', 'ReleaseProgFile')] + \
         [{'name': 'UPDATE_JOBS', 'file': 'xtp/src/libxtp/job.cc', 'ast_nodes': rvc.node_count(fns['UPDATE_JOBS'][0])}]
    for o in obs:
        o['functions'] = mf
    return obs


def job_request(seed):
    """RequestNextJob: thread mutex held from entry to exit on every path; each cached job handed out at most once; null iff none left after one sync"""
    rvc.reset()
    fns = fns_all()
    F = 'ProgObserver::RequestNextJob'
    fails, nrun = {}, 0
    for nj in (0, 1, 2, 3):
        for st in itertools.product((0, 1), repeat=nj):            # 0 = AVAILABLE, 1 = COMPLETE elsewhere
            for cache in (1, 2):
                for more in (True, False):
                    jobs = [mkjob(i, *(STATES[0] if s == 0 else STATES[3])) for i, s in enumerate(st)]
                    ext = [dict(j) for j in jobs]
                    ex, this, log = mk(fns, jobs, ext, cache, 10, 0, more=more)
                    got = []
                    for call in range(nj + 2):
                        del log[:]
                        r = ex.call_fn(fns['RequestNextJob'][0], ['THREAD'], this)
                        nrun += 1
                        kinds = [e[0] for e in log]
                        ok_mutex = kinds[:1] == ['mutex.lock'] and kinds[-1:] == ['mutex.unlock'] and kinds.count('mutex.lock') == 1 and kinds.count('mutex.unlock') == 1
                        if not ok_mutex:
                            fails.setdefault('mutex', []).append({'events': kinds})
                        if kinds.count('load') > 1:
                            fails.setdefault('one-sync', []).append({'events': kinds})
                        if r is not None:
                            if any(r is g for g in got):
                                fails.setdefault('once', []).append({'job': r['id']})
                            if not (r['status'] == 'ASSIGNED' and r['host'] == ME):
                                fails.setdefault('assigned', []).append({'job': r['id'], 'status': r['status']})
                            got.append(r)
                        else:
                            left = [j for j in jobs if j['status'] == 'AVAILABLE']
                            if left and more and this['startJobsCount_'] < 10:
                                fails.setdefault('null-iff-none', []).append({'available_left': [j['id'] for j in left]})
                    exp = [j['id'] for j, s in zip(jobs, st) if s == 0] if more else []
                    if [g['id'] for g in got] != exp:
                        fails.setdefault('all-delivered', []).append({'got': [g['id'] for g in got], 'expected': exp})
    clause = {'mutex': 'the thread mutex is acquired first and released last, exactly once, on every path', 'one-sync': 'at most one synchronisation with the job file per request',
              'once': 'no cached job is handed out twice', 'assigned': 'a handed-out job is ASSIGNED to this host', 'null-iff-none': 'null is returned only if no job is left after one synchronisation',
              'all-delivered': 'every AVAILABLE job is handed out exactly once, in list order, over successive requests'}
    obs = [Ob('C10.request/%s' % k, F, v, 'RVC', 'symbolic execution of the AST over enumerated job lists', core.BOUNDED if k not in fails else core.REFUTED, 0, '%d calls' % nrun,
              bound='<= 3 jobs, cache 1..2', witness=fails.get(k, [None])[0]) for k, v in clause.items()]
    mf = [{'name': 'ProgObserver<std::vector<Job>>::RequestNextJob', 'file': 'xtp/src/libxtp/progressobserver.cc', 'ast_nodes': rvc.node_count(fns['RequestNextJob'][0])}]
    for o in obs:
        o['functions'] = mf
    return obs


def job_update(seed):
    """UPDATE_JOBS: sizes or ids differ => throws; otherwise job k is overwritten from the file iff the file's job k has a host different from this one"""
    rvc.reset()
    fns = fns_all()
    F = 'UPDATE_JOBS'
    fails, nrun = {}, 0
    for nj in (0, 1, 2):
        for st in itertools.product(range(len(STATES)), repeat=nj):
            for st_int in itertools.product(range(len(STATES)), repeat=nj):      # the in-memory copy may be in any state too (same status, other owner ...)
                for mode in ('same', 'short', 'ids'):
                    if mode != 'same' and st_int != tuple([0] * nj):
                        continue
                    to = [mkjob(i, *STATES[s]) for i, s in enumerate(st_int)]
                    to0 = [dict(j) for j in to]
                    frm = [mkjob(i, *STATES[s]) for i, s in enumerate(st)]
                    if mode == 'short':
                        frm = frm[:-1] if frm else [mkjob(0, 'AVAILABLE', None)]
                    if mode == 'ids' and frm:
                        frm[-1] = dict(frm[-1], id=99)
                    if mode == 'ids' and not frm:
                        continue
                    ex, this, log = mk(fns, to, frm, 1, 1, 0)
                    try:
                        ex.call_fn(fns['UPDATE_JOBS'][0], [frm, to, ME], None)
                        thrown = False
                    except Thrown:
                        thrown = True
                    nrun += 1
                    if (mode != 'same') != thrown:
                        fails.setdefault('sync-error', []).append({'mode': mode, 'thrown': thrown})
                    if mode == 'same':
                        for t, t0, f in zip(to, to0, frm):
                            foreign = f['host'] is not None and f['host'] != ME
                            if foreign and (t['status'], t['host']) != (f['status'], f['host']):
                                fails.setdefault('merge-rule', []).append({'file_job': (f['status'], f['host']), 'memory_job_before': (t0['status'], t0['host']), 'memory_job_after': (t['status'], t['host'])})
                            if not foreign and (t['status'], t['host']) != (t0['status'], t0['host']):
                                fails.setdefault('merge-rule', []).append({'file_job': (f['status'], f['host']), 'memory_job_before': (t0['status'], t0['host']), 'memory_job_after': (t['status'], t['host'])})
    clause = {'sync-error': 'different sizes or ids are reported as an error (the in-memory list is out of sync)',
              'merge-rule': 'after the merge job k carries the file\'s record whenever the file\'s job k belongs to another host (results reported by another process are never lost), and is untouched otherwise'}
    obs = [Ob('C10.update/%s' % k, F, v, 'RVC', 'symbolic execution of the AST over enumerated job lists', core.BOUNDED if k not in fails else core.REFUTED, 0, '%d runs' % nrun, bound='<= 2 jobs, every state pair',
              witness=fails.get(k, [None])[0]) for k, v in clause.items()]
    mf = [{'name': 'UPDATE_JOBS', 'file': 'xtp/src/libxtp/job.cc', 'ast_nodes': rvc.node_count(fns['UPDATE_JOBS'][0])}]
    for o in obs:
        o['functions'] = mf
    return obs


def job_sync_inductive(seed):
    """the assignment loop of SyncWithProgFile for job lists of ANY length: one pass of the while loop from its head, for an arbitrary scan position, an arbitrary job state and arbitrary
    counters (per-iteration contract).  By induction: cache and maxjobs limits, only eligible jobs assigned, none skipped, each at most once, the scan only advances."""
    import z3
    rvc.reset()
    fns = fns_all()
    fn = fns['SyncWithProgFile'][0]
    F = 'ProgObserver::SyncWithProgFile'
    wl = [n for n in rvc.walk(rvc.body_of(fn)) if n.get('kind') == 'WhileStmt']
    if len(wl) != 1:
        raise core.Undecided('SyncWithProgFile: one assignment loop expected, found %d' % len(wl))
    cond, body = wl[0]['inner'][0], wl[0]['inner'][1]
    mfs = [{'name': F, 'file': 'xtp/src/libxtp/progressobserver.cc', 'ast_nodes': rvc.node_count(fn), 'route': 'RVC, assignment loop closed by a per-iteration contract (unbounded job list)'}]
    obs = []
    k, c, s_, m, p, n = [sp.Symbol(x, integer=True) for x in ('cached', 'cacheSize', 'started', 'maxJobs', 'pos', 'njobs')]
    zk, zc, zs, zm, zp, zn = [z3.Int(x) for x in ('cached', 'cacheSize', 'started', 'maxJobs', 'pos', 'njobs')]
    for status, host in STATES:
        for rs, rh in (((), ()), (('FAILED',), ()), ((), ('other:2',))):
            P = rvc.Paths()
            while True:
                P.start()
                rvc.CTX.base = [zk >= 0, zc >= 0, zs >= 0, zm >= 0, zp >= 0, zp <= zn, zk <= zc, zs <= zm]        # the loop invariant at the head of an iteration
                job = {'status': status, 'host': host, 'touched': []}
                pushed = []
                class Cache:
                    def call(s2, name, args):
                        if name == 'size': return SInt(k + len(pushed))
                        if name == 'push_back':
                            pushed.append(args[0]); return None
                        raise rvc.Unsupported('jobsToProc_.' + name)
                class It(rvc.ListIt):
                    def __init__(s2, pos): s2.pos = pos; s2.lst, s2.i = [], 0
                    def deref(s2):
                        if P.decide(sp.Ge(s2.pos, n)):
                            raise rvc.Unsupported('dereference of the end iterator')
                        return job
                    def advance(s2, d): s2.pos = s2.pos + d; return s2
                    def __eq__(s2, o): return sp.Eq(s2.pos, o.pos) if isinstance(o, It) else False
                    def __ne__(s2, o): return sp.Ne(s2.pos, o.pos) if isinstance(o, It) else True
                it = It(p)
                cb = {'enum': lambda nn: LEVELS.get(nn, nn), 'decide': P.decide, 'getLogger': lambda t: 'LOGGER', 'getReportLevel': lambda l: -1, 'end': lambda o: It(n),
                      'GenerateHost': lambda o=None: ME, 'GenerateTime': lambda o=None: 'T',
                      'isAvailable': lambda j: j['status'] == 'AVAILABLE', 'getStatusStr': lambda j: j['status'], 'getHost': lambda j: j['host'] or '',
                      'Reset': lambda j: j['touched'].append('reset'), 'setStatus': lambda j, v: (j.__setitem__('status', v), j['touched'].append('status'))[1],
                      'setHost': lambda j, h: (j.__setitem__('host', h), j['touched'].append('host'))[1], 'setTime': lambda j, t: j['touched'].append('time')}
                this = {'jobs_': 'JOBS', 'metajit_': it, 'jobsToProc_': Cache(), 'maxJobs_': SInt(m), 'startJobsCount_': SInt(s_), 'restartMode_': bool(rs or rh), 'restart_stats_': MapModel(rs), 'restart_hosts_': MapModel(rh)}
                ex = Exec({'thread': 'THREAD', 'cacheSize': SInt(c)}, cb, fns, this)
                outcome = 'exit'
                if ex.truth(ex.expr(cond)):
                    try:
                        ex.stmt(body); outcome = 'next'
                    except rvc.Brk:
                        outcome = 'break'
                tag = '%s.%s.%s.p%d' % (status, (host or 'none').replace(':', ''), 'rs' if rs else ('rh' if rh else 'norestart'), P.count)
                elig = status == 'AVAILABLE' or (bool(rs or rh) and (status in rs or (host or '') in rh))
                room = z3.And(zk < zc, zp < zn, zs < zm)
                if outcome == 'next':
                    o = rvc.logic('C10.sync.ind/%s/guard' % tag, F, 'the loop body runs only while the cache has room, jobs remain to be scanned and the job limit is not reached', room, pc=P.pc); o['functions'] = mfs; obs.append(o)
                    assigned = len(pushed) == 1 and pushed[0] is job
                    okA = assigned == elig and (not assigned or (job['status'] == 'ASSIGNED' and job['host'] == ME and set(job['touched']) >= {'reset', 'status', 'host', 'time'})) and (assigned or not job['touched'])
                    o = Ob('C10.sync.ind/%s/assign' % tag, F, 'the scanned job is assigned exactly when it is AVAILABLE or matches the restart pattern; an assigned job is reset, marked ASSIGNED to this host with a time stamp and cached once; any other job is not touched',
                           'RVC', 'symbolic execution', core.PROVED if okA else core.REFUTED, 0, 'eligible=%s assigned=%s touched=%s' % (elig, assigned, job['touched']), witness=None if okA else {'status': status, 'host': host, 'restart': str((rs, rh))})
                    o['functions'] = mfs; obs.append(o)
                    okC = sp.expand(SInt.ex(this['startJobsCount_']) - s_ - (1 if assigned else 0)) == 0 and sp.expand(this['metajit_'].pos - p - 1) == 0
                    o = Ob('C10.sync.ind/%s/counters' % tag, F, 'the started-jobs counter grows by one per assignment, the scan position by exactly one per pass (no job is skipped or scanned twice)', 'RVC', 'symbolic execution',
                           core.PROVED if okC else core.REFUTED, 0, 'started %s pos %s' % (this['startJobsCount_'], this['metajit_'].pos), witness=None if okC else {})
                    o['functions'] = mfs; obs.append(o)
                    o = rvc.logic('C10.sync.ind/%s/invariant' % tag, F, 'the limits hold again after the pass: cached <= cacheSize, started <= maxJobs, position <= number of jobs',
                                  z3.And(zk + len(pushed) <= zc, zs + (1 if assigned else 0) <= zm, zp + 1 <= zn), pc=P.pc); o['functions'] = mfs; obs.append(o)
                else:
                    o = rvc.logic('C10.sync.ind/%s/stop' % tag, F, 'the loop stops only when the cache is full, every job has been scanned, or the job limit is reached (no early stop)', z3.Not(room), pc=P.pc); o['functions'] = mfs; obs.append(o)
                    okN = not pushed and not job['touched']
                    o = Ob('C10.sync.ind/%s/stop-clean' % tag, F, 'a stopping pass assigns nothing', 'RVC', 'symbolic execution', core.PROVED if okN else core.REFUTED, 0, '', witness=None if okN else {}); o['functions'] = mfs; obs.append(o)
                if not P.next():
                    break
    return obs


def job_report(seed):
    """ReportJobDone: the result is recorded under the thread mutex and NOTHING of the assignment state changes (started-jobs counter, cache, scan position): the --maxjobs quota counts
    jobs ever started by this process, whatever their outcome"""
    rvc.reset()
    fns = fns_all()
    if 'ReportJobDone' not in fns:
        raise core.Undecided('front end: ProgObserver::ReportJobDone not found')
    fn = fns['ReportJobDone'][0]
    F = 'ProgObserver::ReportJobDone'
    obs = []
    for outcome in ('COMPLETE', 'FAILED'):
        log = []
        started, reported = sp.Symbol('started', integer=True, nonnegative=True), sp.Symbol('reported', integer=True, nonnegative=True)
        job = {'status': 'ASSIGNED', 'host': ME, 'touched': []}
        res = {'status': outcome}
        cb = {'enum': lambda nn: LEVELS.get(nn, nn), 'getLogger': lambda t: 'LOGGER', 'getReportLevel': lambda l: -1, 'isMaverick': lambda t: True, 'Lock': lambda m_: log.append('lock'), 'Unlock': lambda m_: log.append('unlock'),
              'GenerateHost': lambda o=None: ME, 'GenerateTime': lambda o=None: 'T', 'ostream_write': lambda *a: None,
              'UpdateFromResult': lambda j, r_: (j.__setitem__('status', r_['status']), j['touched'].append('result'), log.append('update'))[1], 'setTime': lambda j, t: j['touched'].append('time'), 'setHost': lambda j, h: (j.__setitem__('host', h), j['touched'].append('host'))[1],
              'getStatus': lambda r_: r_['status'], 'getStatusStr': lambda r_: r_['status'], 'isFailed': lambda r_: r_['status'] == 'FAILED', 'isComplete': lambda r_: r_['status'] == 'COMPLETE'}
        frame = {'jobs_': 'JOBS', 'metajit_': 'SCAN-POSITION', 'jobsToProc_': 'CACHE', 'nextjit_': 'NEXT', 'maxJobs_': SInt(sp.Symbol('maxJobs', integer=True)), 'startJobsCount_': SInt(started), 'cacheSize_': 3, 'moreJobsAvailable_': True,
                 'restartMode_': False}
        this = dict(frame, lockThread_='MUTEX', jobsReported_=SInt(reported))
        ex = Exec({'job': job, 'res': res, 'thread': 'THREAD'}, cb, fns, this)
        try:
            ex.stmt(rvc.body_of(fn))
        except Ret:
            pass
        changed = [k for k, v in frame.items() if (sp.expand(SInt.ex(this[k]) - SInt.ex(v)) != 0 if isinstance(v, SInt) else this[k] is not v and this[k] != v)]
        ok = not changed
        o = Ob('C10.report/%s/frame' % outcome, F, 'reporting a %s job leaves the started-jobs counter, the job limit, the cache and the scan position unchanged' % outcome, 'RVC', 'symbolic execution', core.PROVED if ok else core.REFUTED, 0, 'changed: %s' % changed,
               witness=None if ok else {'outcome': outcome, 'changed': str(changed), 'startJobsCount_': str(this['startJobsCount_'])})
        o['functions'] = [{'name': F, 'file': 'xtp/src/libxtp/progressobserver.cc', 'ast_nodes': rvc.node_count(fn)}]; obs.append(o)
        ok2 = log[:1] == ['lock'] and log[-1:] == ['unlock'] and log.count('lock') == 1 and log.count('unlock') == 1 and 'update' in log and job['status'] == outcome and sp.expand(SInt.ex(this['jobsReported_']) - reported - 1) == 0
        o = Ob('C10.report/%s/record' % outcome, F, 'the result is copied into the job, time and host are stamped and the reported counter grows by one, all under the thread mutex (taken and released once)', 'RVC', 'symbolic execution', core.PROVED if ok2 else core.REFUTED, 0, str(log),
               witness=None if ok2 else {'log': str(log)})
        o['functions'] = [{'name': F, 'file': 'xtp/src/libxtp/progressobserver.cc', 'ast_nodes': rvc.node_count(fn)}]; obs.append(o)
    return obs


def collect(obs):
    seen = set(f['name'] for f in META['functions'])
    for o in obs:
        for f in o.pop('functions', []) or []:
            if f['name'] not in seen:
                seen.add(f['name'])
                META['functions'].append(f)


def run(tier, seed, only=None):
    jobs = [(job_sync, (n, seed)) for n in ((0, 1, 2) if tier == 'quick' else (0, 1, 2, 3))] + [(job_request, (seed,)), (job_update, (seed,)), (job_sync_inductive, (seed,)), (job_report, (seed,))]
    if only:
        jobs = [j for j in jobs if re.search(only, j[0].__name__ + str(j[1]))]
    obs = core.pmap(jobs)
    collect(obs)
    return obs, META
