"""C01 - coarse-grained mapping is the weighted, periodic-image-aware linear map (DESIGN.md section 5, C01)"""
import os, re, time, itertools
import sympy as sp
import z3
from vlib import core, rvc, native
from vlib.core import Ob
from vlib.rvc import D, Mx, Exec, Ret, Thrown, SInt

META = {
    'level': 'proof', 'functions': [],
    'explanation': 'Deductive obligations (identities in exact real arithmetic, path logic by z3) generated from the AST of the real Map_Sphere::Initialize / Apply; coordinates, weights, boxes and presence patterns are symbolic, the number of parent beads is enumerated up to a bound, so every obligation is reported as bounded (coverage.bounded) and none is counted as an unbounded proof.',
    'trusted_base': ['clang 14 AST = the code g++ compiles', 'RVC executor with feasibility-checked path forking (z3), Eigen Vector3d algebra contracts',
                     'callee contracts: BoundaryCondition::BCShortestConnection and getShortestBoxDimension by their C02 contracts (proved in check C02), Bead getters as symbolic fields, '
                     'Tokenizer / Property access as value sources, std::accumulate/transform/copy/vector as models', 'machine arithmetic treated as mathematical'],
    'assumptions': ['weights with non-zero sum (d with non-zero sum when given)'],
    'not_decided': ['parent counts above the bound', 'CGMoleculeDef / CGEngine XML plumbing, the csg_map executable and file formats', 'IEEE rounding ("to rounding" clauses are proved exactly over the reals)',
                    'Map_Ellipsoid orientation axes (eigen decomposition)'],
}
CO = 'xyz'


class Tok:
    def __init__(s, key):
        s.key = key
    def call(s, name, args):
        if name == 'ToVector':
            return list(s.src(s.key))
        raise rvc.Unsupported('Tokenizer::' + name)


class Prop:
    def __init__(s, path):
        s.path = path


def map_fns():
    fns = rvc.functions(rvc.ast('csg/src/libcsg/map.cc', 'Map_Sphere'))
    for need in ('Initialize', 'Apply', 'AddElem'):
        if need not in fns:
            raise core.Undecided('front end: Map_Sphere::%s not found' % need)
    return fns


def run_initialize(fns, n, has_d, P):
    w = [sp.Symbol('w%d' % i, real=True) for i in range(n)]
    d = [sp.Symbol('dd%d' % i, real=True) for i in range(n)]
    names = ['B%d' % i for i in range(n)]
    def tokens(key):
        if key == ('value', 'weights'): return [D(x) for x in w]
        if key == ('value', 'd'): return [D(x) for x in d]
        if key == ('value', 'beads'): return list(names)
        raise rvc.Unsupported('tokens of %s' % (key,))
    def decl(ex, vd, ty, inner):
        if 'Tokenizer' in ty:
            ce = inner[0]
            while ce['kind'] not in ('CXXConstructExpr', 'CXXTemporaryObjectExpr'):
                ce = ce['inner'][0]
            t = Tok(rvc.rval(ex.expr(ce['inner'][0]))); t.src = tokens
            return t
        if 'element_t' in ty:
            return {'in_': None, 'weight_': D(0), 'force_weight_': D(0)}
        return NotImplemented
    def construct(ex, nn, ty, args):
        if 'Tokenizer' in ty:
            t = Tok(rvc.rval(ex.expr(args[0]))); t.src = tokens
            return t
        if 'basic_string' in nn['type'].get('desugaredQualType', ty) or ty in ('std::string', 'string'):
            return rvc.rval(ex.expr(args[0])) if args else ''
        return NotImplemented
    cb = {'decide': P.decide, 'decl': decl, 'construct': construct, 'get': lambda p, key: Prop(key), 'value': lambda p: ('value', p.path),
          'exists': lambda p, key: has_d if key == 'd' else True, 'as': lambda p: 'str', 'getBeadByName': lambda mol, nm: names.index(nm), 'getBead': lambda mol, i: {'bead': i}}
    this = {'matrix_': [], 'in_': None, 'out_': None, 'opts_map_': None, 'opts_bead_': None}
    ex = Exec({'in': 'MOL', 'out': 'OUT', 'opts_bead': Prop('bead'), 'opts_map': Prop('map')}, cb, fns, this)
    status = 'ok'
    try:
        ex.stmt(rvc.body_of(fns['Initialize'][0]))
    except Ret:
        pass
    except Thrown:
        status = 'thrown'
    return status, this['matrix_'], w, d


def job_init(n, has_d, seed):
    rvc.reset()
    fns = map_fns()
    F = 'Map_Sphere::Initialize'
    bound = '%d parent beads' % n
    obs = []
    P = rvc.Paths()
    while True:
        P.start()
        S = sum(sp.Symbol('w%d' % i, real=True) for i in range(n))
        Sd = sum(sp.Symbol('dd%d' % i, real=True) for i in range(n))
        rvc.CTX.base = [rvc.to_z3(sp.Ne(S, 0))] + ([rvc.to_z3(sp.Ne(Sd, 0))] if has_d else [])
        status, mat, w, d = run_initialize(fns, n, has_d, P)
        tag = 'n%d.%s.p%d' % (n, 'd' if has_d else 'nod', P.count)
        zw = [z3.Real('w%d' % i) for i in range(n)]
        zd = [z3.Real('dd%d' % i) for i in range(n)]
        if status == 'thrown':
            # the only legitimate rejection: some weight is zero while its d coefficient is not
            claim = z3.Or(*[z3.And(zw[i] == 0, zd[i] != 0) for i in range(n)]) if has_d else z3.BoolVal(False)
            obs.append(rvc.logic('C01.init/%s/throw' % tag, F, 'Initialize rejects only when some weight is zero while its d coefficient is non-zero', claim, pc=P.pc, bound=bound))
        else:
            ok = len(mat) == n and all(e['in_'] == {'bead': i} for i, e in enumerate(mat))
            obs.append(Ob('C01.init/%s/parents' % tag, F, 'one matrix entry per parent bead, in order', 'RVC', 'symbolic execution', core.BOUNDED if ok else core.REFUTED, 0, '', bound=bound, witness=None if ok else {'entries': len(mat)}))
            obs.append(rvc.identity('C01.init/%s/norm' % tag, F, 'normalised weights sum to one', sum(D.lift(e['weight_']).v for e in mat), sp.Integer(1), seed, bound=bound))
            for i, e in enumerate(mat):
                obs.append(rvc.identity('C01.init/%s/weight%d' % (tag, i), F, 'weight_i == w_i / sum(w)', D.lift(e['weight_']).v, w[i] / S, seed, bound=bound))
                sol = z3.Solver(); sol.add(*rvc.CTX.base); sol.add(*P.pc); sol.add(zw[i] != 0)
                wzero = sol.check() == z3.unsat        # on this path w_i is known to be zero
                expect = sp.Integer(0) if wzero else ((d[i] / Sd) / (w[i] / S) if has_d else sp.Integer(1))
                obs.append(rvc.identity('C01.init/%s/fweight%d' % (tag, i), F, 'force weight_i == (d_i/sum d)/(w_i/sum w) (1 without d; 0 for a zero weight)', D.lift(e['force_weight_']).v, expect, seed, bound=bound))
                if not wzero:
                    obs.append(rvc.logic('C01.init/%s/wnz%d' % (tag, i), F, 'the division by weight_i happens only where w_i != 0', zw[i] != 0, pc=P.pc, bound=bound))
        if not P.next():
            break
    mf = [{'name': 'Map_Sphere::Initialize', 'file': 'csg/src/libcsg/map.cc', 'ast_nodes': rvc.node_count(fns['Initialize'][0])}, {'name': 'Map_Sphere::AddElem', 'file': 'csg/src/libcsg/map.cc', 'ast_nodes': rvc.node_count(fns['AddElem'][0])}]
    for o in obs:
        o['functions'] = mf
    return obs


class NormVec(Mx):
    """contract of BCShortestConnection(r0, r_i): an arbitrary vector u_i whose norm is the (non-negative) symbol d_i"""
    def norm(s):
        return D(s.dn)

    def copy(s):
        c = NormVec(s.r, s.c, [[s.g(i, j) for j in range(s.c)] for i in range(s.r)])
        c.dn = s.dn
        return c


class PosTok:
    """position of a non-first parent: may only be handed to BCShortestConnection (structural check: nothing else reads parent positions)"""
    def __init__(s, i):
        s.i = i


class StopExec(Exception):
    pass


def run_apply(fns, n, haspos, hasvel, hasf, boxtype, P, method='Apply', ellipsoid=False):
    w = [sp.Symbol('w%d' % i, real=True) for i in range(n)]
    fw = [sp.Symbol('fw%d' % i, real=True) for i in range(n)]
    m = [sp.Symbol('m%d' % i, positive=True) for i in range(n)]
    r0 = Mx.sym('r0', 3)
    vel = [Mx.sym('v%d' % i, 3) for i in range(n)]
    frc = [Mx.sym('f%d' % i, 3) for i in range(n)]
    u = [Mx.sym('u%d' % i, 3) for i in range(n)]
    dn = [sp.Symbol('dist%d' % i, nonnegative=True) for i in range(n)]
    hmin = sp.Symbol('hmin', positive=True)
    rvc.CTX.base = [z3.Real(x.name) >= 0 for x in dn] + [z3.Real('hmin') > 0]
    if haspos[0]:
        rvc.CTX.base.append(z3.Real('dist0') == 0)        # bc(r0, r0) = 0 (C02: antisymmetry)
    beads = [{'i': i} for i in range(n)]
    out = {'parents': []}
    rpos = [r0] + [Mx.sym('rr%d' % i, 3) for i in range(1, n)]
    def getPos(b):
        if ellipsoid:
            return rpos[b['i']]       # the ellipsoid map also reads parent positions for its orientation (not claimed): no structural check here
        return r0 if b['i'] == 0 else PosTok(b['i'])
    def bcsc(bc, a, b):
        i = 0 if b is r0 else b.i if isinstance(b, PosTok) else ([k for k in range(n) if b is rpos[k]] or [None])[0]
        if i is None or (a is not r0 and not (isinstance(a, Mx) and all(rvc.nf_zero(a.g(k).v - (r0.g(k).v if haspos[0] else 0)) for k in range(3)))):
            raise rvc.Unsupported('BCShortestConnection called with unexpected arguments')
        if i == 0:
            v = NormVec(3, 1); v.dn = sp.Integer(0)       # bc(r0, r0) = 0
            return v
        v = NormVec(3, 1, [[u[i].g(k)] for k in range(3)]); v.dn = dn[i]
        return v
    cb = {'decide': P.decide, 'enum': lambda nm: {'typeAuto': 0, 'typeTriclinic': 1, 'typeOrthorhombic': 2, 'typeOpen': 3}[nm],
          'HasPos': lambda b: haspos[b['i']], 'HasVel': lambda b: hasvel[b['i']], 'HasF': lambda b: hasf[b['i']],
          'getPos': getPos, 'getVel': lambda b: vel[b['i']], 'getF': lambda b: frc[b['i']],
          'getMass': lambda b: D(m[b['i']]), 'getId': lambda b: b['i'], 'getName': lambda b: 'name%d' % b['i'], 'getMoleculeId': lambda b: 0,
          'ClearParentBeads': lambda o: o['parents'].clear(), 'AddParentBead': lambda o, i: o['parents'].append(i),
          'setMass': lambda o, v: o.__setitem__('mass', v), 'setPos': lambda o, v: o.__setitem__('pos', v),
          'setVel': lambda o, v: o.__setitem__('vel', v), 'setF': lambda o, v: o.__setitem__('f', v),
          'BCShortestConnection': bcsc, 'getBoxType': lambda bc: boxtype, 'getShortestBoxDimension': lambda bc: D(hmin), 'lexical_cast': lambda *a: 'str',
          'setU': lambda o, v: None, 'setV': lambda o, v: None, 'setW': lambda o, v: None}
    def decl(ex_, vd, ty, inner):
        if 'SelfAdjointEigenSolver' in ty:
            raise StopExec()          # the orientation part (eigen decomposition) is not claimed
        return NotImplemented
    cb['decl'] = decl
    matrix = [{'in_': beads[i], 'weight_': D(w[i]), 'force_weight_': D(fw[i])} for i in range(n)]
    this = {'matrix_': matrix, 'out_': out}
    ex = Exec({'bc': 'BC'}, cb, fns, this)
    status = 'ok'
    try:
        ex.stmt(rvc.body_of(fns[method][0]))
    except Ret:
        pass
    except Thrown:
        status = 'thrown'
    except StopExec:
        pass
    return status, out, dict(w=w, fw=fw, m=m, r0=r0, vel=vel, frc=frc, u=u, dn=dn, hmin=hmin)


def job_apply(n, boxtype, flags, seed, ellipsoid=False):
    """Map_Sphere::Apply for n parents; flags = (pos, vel, f) presence pattern: 'all', 'none', 'mixed'"""
    rvc.reset()
    fns = map_fns() if not ellipsoid else rvc.functions(rvc.ast('csg/src/libcsg/map.cc', 'Map_Ellipsoid'))
    if 'Apply' not in fns:
        raise core.Undecided('front end: Apply not found')
    F = 'Map_Ellipsoid::Apply' if ellipsoid else 'Map_Sphere::Apply'
    bound = '%d parent beads' % n
    pat = {'all': ([True] * n, [True] * n, [True] * n), 'none': ([False] * n, [False] * n, [False] * n),
           'mixed': ([True] * n, [i % 2 == 0 for i in range(n)], [i % 2 == 1 for i in range(n)]),
           'firstless': ([False] + [True] * (n - 1), [True] * n, [False] * n)}[flags]
    haspos, hasvel, hasf = pat
    obs = []
    P = rvc.Paths()
    while True:
        P.start()
        status, out, sy = run_apply(fns, n, haspos, hasvel, hasf, boxtype, P, ellipsoid=ellipsoid)
        tag = '%sn%d.box%d.%s.p%d' % ('ell.' if ellipsoid else '', n, boxtype, flags, P.count)
        zd = [z3.Real(x.name) for x in sy['dn']]
        posidx = [i for i in range(n) if haspos[i]]
        far = z3.Or(*[zd[i] > z3.Real('hmin') / 2 for i in posidx]) if posidx else z3.BoolVal(False)
        if boxtype == 3:
            obs.append(Ob('C01.apply/%s/open' % tag, F, 'open box: never rejected', 'RVC', 'symbolic execution', core.BOUNDED if status == 'ok' else core.REFUTED, 0, status, bound=bound, witness=None if status == 'ok' else {'status': status}))
        elif status == 'thrown':
            obs.append(rvc.logic('C01.apply/%s/reject' % tag, F, 'rejected only if some parent is farther than half the shortest box height from the first parent', far, pc=P.pc, bound=bound))
        else:
            obs.append(rvc.logic('C01.apply/%s/accept' % tag, F, 'mapped only if every parent is within half the shortest box height of the first parent (never silently mapped)', z3.Not(far), pc=P.pc, bound=bound))
        if status == 'ok':
            w, fw = sy['w'], sy['fw']
            if not ellipsoid:
                obs.append(rvc.identity('C01.apply/%s/mass' % tag, F, 'mass == sum of parent masses', D.lift(out['mass']).v, sum(sy['m']), seed, bound=bound))
            okp = out['parents'] == list(range(n))
            obs.append(Ob('C01.apply/%s/parents' % tag, F, 'parent ids recorded once each, in order', 'RVC', 'symbolic execution', core.BOUNDED if okp else core.REFUTED, 0, str(out['parents']), bound=bound, witness=None if okp else {'parents': str(out['parents'])}))
            for key, has in (('pos', any(haspos)), ('vel', any(hasvel)), ('f', any(hasf))):
                okset = (key in out) == has
                obs.append(Ob('C01.apply/%s/set-%s' % (tag, key), F, '%s is set iff some parent carries it' % key, 'RVC', 'symbolic execution', core.BOUNDED if okset else core.REFUTED, 0, '', bound=bound, witness=None if okset else {'set': key in out}))
            for k in range(3):
                if 'pos' in out:
                    r0k = sy['r0'].g(k).v if haspos[0] else sp.Integer(0)
                    exp = sum(w[i] * ((sy['u'][i].g(k).v if i else sp.Integer(0)) + r0k) for i in range(n) if haspos[i])
                    obs.append(rvc.identity('C01.apply/%s/pos.%s' % (tag, CO[k]), F, 'position == sum_i weight_i (r0 + bc(r0, r_i)): each parent at the image nearest to the first parent', out['pos'].g(k).v, exp, seed, bound=bound))
                if 'vel' in out:
                    obs.append(rvc.identity('C01.apply/%s/vel.%s' % (tag, CO[k]), F, 'velocity == sum_i weight_i v_i', out['vel'].g(k).v, sum(w[i] * sy['vel'][i].g(k).v for i in range(n) if hasvel[i]), seed, bound=bound))
                if 'f' in out:
                    obs.append(rvc.identity('C01.apply/%s/force.%s' % (tag, CO[k]), F, 'force == sum_i force_weight_i f_i', out['f'].g(k).v, sum(fw[i] * sy['frc'][i].g(k).v for i in range(n) if hasf[i]), seed, bound=bound))
        if not P.next():
            break
    mf = [{'name': F, 'file': 'csg/src/libcsg/map.cc', 'ast_nodes': rvc.node_count(fns['Apply'][0])}]
    for o in obs:
        o['functions'] = mf
    return obs


assigned_names = rvc.assigned_names


def job_apply_inductive(boxtype, seed):
    """Map_Sphere::Apply for ANY number of parents: each loop is closed by a per-iteration contract (the loop body is executed once for an arbitrary element and an
    arbitrary value of every loop-carried variable), the code before / between / after the loops runs on symbolic accumulated values.  Hoare rule: initial value
    + per-iteration update => accumulated value; the composition is the rule, every premise is an obligation here."""
    rvc.reset()
    fns = map_fns()
    fn = fns['Apply'][0]
    F = 'Map_Sphere::Apply'
    stmts = rvc.body_of(fn)['inner']
    loops = [i for i, st in enumerate(stmts) if st['kind'] == 'CXXForRangeStmt']
    if len(loops) != 2:
        raise core.Undecided('Map_Sphere::Apply: expected two loops over the parents, found %d' % len(loops))
    obs = []
    mfs = [{'name': F, 'file': 'csg/src/libcsg/map.cc', 'ast_nodes': rvc.node_count(fn), 'route': 'RVC, loops closed by per-iteration contracts (unbounded parent count)'}]
    def ob(oid, clause, ok, detail=''):
        o = Ob(oid, F, clause, 'RVC', 'symbolic execution + exact normal form (loop closed by a per-iteration contract)', core.PROVED if ok else core.REFUTED, 0, detail, witness=None if ok else {'detail': detail[:500]})
        o['functions'] = mfs
        obs.append(o)
    nsym = sp.Symbol('nparents', integer=True, positive=True)
    r0 = Mx.sym('r0', 3)
    hmin = sp.Symbol('hmin', positive=True)
    def make_elem(tag, haspos, hasvel, hasf, first=False):
        e = {'tag': tag, 'w': sp.Symbol('w_' + tag, real=True), 'fw': sp.Symbol('fw_' + tag, real=True), 'm': sp.Symbol('m_' + tag, positive=True), 'u': Mx.sym('u_' + tag, 3), 'dn': sp.Symbol('dist_' + tag, nonnegative=True),
             'v': Mx.sym('v_' + tag, 3), 'F': Mx.sym('F_' + tag, 3), 'haspos': haspos, 'hasvel': hasvel, 'hasf': hasf, 'first': first}
        e['bead'] = {'elem': e}
        e['entry'] = {'in_': e['bead'], 'weight_': D(e['w']), 'force_weight_': D(e['fw'])}
        return e
    for hp0 in (True, False):
      for hpk in (True, False):
        P = rvc.Paths()
        while True:
            P.start()
            e0 = make_elem('first', hp0, True, True, first=True)
            ek = make_elem('k', hpk, True, True)
            estar = make_elem('far', True, True, True)
            rvc.CTX.base = [z3.Int('nparents') >= 1, z3.Real('hmin') > 0] + [z3.Real('dist_' + t) >= 0 for t in ('first', 'k', 'far')] + [z3.Real('pre_max_bead_dist') >= 0]
            out = {'parents': [], 'events': []}
            matrix = ['MATRIX']
            def getPos(b):
                e = b['elem']
                return r0 if e['first'] else PosTok(e['tag'])
            def bcsc(bc, a, b):
                if not (a is r0 or (isinstance(a, Mx) and all(rvc.nf_zero(a.g(k).v - (r0.g(k).v if hp0 else 0)) for k in range(3)))):
                    raise rvc.Unsupported('BCShortestConnection called with an unexpected first argument')
                if b is r0:
                    v = NormVec(3, 1); v.dn = sp.Integer(0)
                    return v
                if not isinstance(b, PosTok):
                    raise rvc.Unsupported('BCShortestConnection called with an unexpected second argument')
                e = {'k': ek, 'far': estar, 'first': e0}[b.i]
                v = NormVec(3, 1, [[e['u'].g(k)] for k in range(3)]); v.dn = e['dn']
                return v
            cb = {'decide': P.decide, 'enum': lambda nm: {'typeAuto': 0, 'typeTriclinic': 1, 'typeOrthorhombic': 2, 'typeOpen': 3}[nm],
                  'size': lambda o: SInt(nsym) if o is matrix else len(o), 'front': lambda o: e0['entry'], 'at': lambda o, i: e0['entry'] if rvc._i(i) == 0 else (_ for _ in ()).throw(rvc.Unsupported('matrix_.at(%r)' % (i,))),
                  'HasPos': lambda b: b['elem']['haspos'], 'HasVel': lambda b: b['elem']['hasvel'], 'HasF': lambda b: b['elem']['hasf'],
                  'getPos': getPos, 'getVel': lambda b: b['elem']['v'], 'getF': lambda b: b['elem']['F'], 'getMass': lambda b: D(b['elem']['m']), 'getId': lambda b: 'id_' + b['elem']['tag'],
                  'getName': lambda b: 'name_' + b['elem']['tag'], 'getMoleculeId': lambda b: 0,
                  'ClearParentBeads': lambda o: o['events'].append('clear'), 'AddParentBead': lambda o, i: o['events'].append(('parent', i)),
                  'setMass': lambda o, v: o.__setitem__('mass', v), 'setPos': lambda o, v: o.__setitem__('pos', v), 'setVel': lambda o, v: o.__setitem__('vel', v), 'setF': lambda o, v: o.__setitem__('f', v),
                  'BCShortestConnection': bcsc, 'getBoxType': lambda bc: boxtype, 'getShortestBoxDimension': lambda bc: D(hmin), 'lexical_cast': lambda *a: 'str', 'ostream_write': lambda *a: None}
            ex = Exec({'bc': 'BC'}, cb, fns, {'matrix_': matrix, 'out_': out})
            tag = 'box%d.first%s.k%s.p%d' % (boxtype, 'pos' if hp0 else 'nopos', 'pos' if hpk else 'nopos', P.count)
            # ---- prefix
            for st in stmts[:loops[0]]:
                ex.stmt(st)
            init = {k: ex.env[k] for k in assigned_names(stmts[loops[0]]) | assigned_names(stmts[loops[1]]) if k in ex.env}
            z = lambda v: (all(rvc.nf_zero(x.v) for x in v.flat()) if isinstance(v, Mx) else (v is False if isinstance(v, bool) else rvc.nf_zero(D.lift(v).v)))
            scal = {k: v for k, v in init.items() if isinstance(v, (D, Mx, bool))}
            ok0 = all(z(v) for k, v in scal.items())
            ob('C01.apply.ind/%s/init' % tag, 'before the first parent every accumulator (mass, weighted position, velocity, force, largest parent distance, presence flags) is zero / false; the parent list of the output bead is cleared',
               ok0 and out['events'] == ['clear'], 'initial %s events %s' % ({k: str(v)[:40] for k, v in scal.items()}, out['events']))
            # ---- loop 1, one arbitrary iteration
            def havoc(names):
                pre = {}
                for k in names:
                    v = ex.env.get(k)
                    if isinstance(v, Mx):
                        pre[k] = Mx.sym('pre_' + k, 3)
                    elif isinstance(v, bool):
                        pre[k] = v                       # flags are handled by running both values below
                    elif isinstance(v, D):
                        pre[k] = D(sp.Symbol('pre_' + k, real=True))
                    elif isinstance(v, dict) and 'elem' in v:
                        pre[k] = estar['bead']           # 'the parent seen so far that is farthest away': some earlier element
                    else:
                        pre[k] = v
                    ex.env[k] = pre[k].copy() if isinstance(pre[k], Mx) else pre[k]
                return pre
            loop1 = stmts[loops[0]]
            a1 = sorted(k for k in assigned_names(loop1) if k in ex.env)
            flags1 = [k for k in a1 if isinstance(ex.env[k], bool)]
            res1 = []
            for fv in itertools.product((False, True), repeat=len(flags1)):
                pre = havoc(a1)
                for k, b in zip(flags1, fv):
                    ex.env[k] = b; pre[k] = b
                out['events'] = []
                var = loop1['inner'][6]['inner'][0]['name']
                ex.env[var] = ek['entry']
                ex.stmt(loop1['inner'][7])
                res1.append((pre, {k: ex.env[k] for k in a1}, list(out['events'])))
            good = True
            det = []
            for pre, post, evs in res1:
                for k in a1:
                    a, b = pre[k], post[k]
                    if isinstance(a, Mx):
                        exp = [a.g(c).v + (ek['w'] * (ek['u'].g(c).v + (r0.g(c).v if hp0 else 0)) if hpk else 0) for c in range(3)]
                        okk = all(rvc.nf_zero(b.g(c).v - exp[c]) for c in range(3))
                    elif isinstance(a, bool):
                        okk = b == (a or hpk)
                    elif isinstance(a, D):
                        if rvc.nf_zero(b.v - a.v - ek['m']):
                            okk = True                                           # the mass accumulator
                        else:                                                   # the largest-distance accumulator: max(pre, |bc(r0, r_k)|)
                            zb, za, zd = rvc.to_z3(b.v), rvc.to_z3(a.v), z3.Real('dist_k')
                            claim = z3.And(zb >= za, z3.Or(zb == za, zb == zd), zb >= zd) if hpk else (zb == za)
                            okk = rvc.logic('x', 'x', 'x', claim, pc=P.pc)['status'] == core.PROVED
                    else:
                        okk = (b is a) or (isinstance(b, dict) and b.get('elem') in (ek, estar))
                    good = good and okk
                    det.append('%s:%s' % (k, okk))
                good = good and evs == [('parent', 'id_k')]
            masses = [k for k in a1 if isinstance(res1[0][0][k], D) and rvc.nf_zero(res1[0][1][k].v - res1[0][0][k].v - ek['m'])]
            ob('C01.apply.ind/%s/loop1' % tag, 'one pass of the first loop for an arbitrary parent k and arbitrary accumulated values: mass += m_k; position += w_k (r0 + bc(r0, r_k)) if the parent has a position; largest distance = max(old, |bc(r0, r_k)|); '
               'position flag |= HasPos(k); the parent id is recorded once; nothing else changes', good and len(masses) == 1, ' '.join(det))
            # ---- between the loops: accumulated values are arbitrary (largest distance >= 0)
            pre = havoc(a1)
            thrown = False
            try:
                for st in stmts[loops[0] + 1:loops[1]]:
                    ex.stmt(st)
            except Thrown:
                thrown = True
            dists = [k for k in a1 if isinstance(pre[k], D) and k not in masses]
            if len(dists) == 1:
                zd = z3.Real('pre_' + dists[0])
                claim = (z3.BoolVal(not thrown) if boxtype == 3 else ((zd > z3.Real('hmin') / 2) if thrown else z3.Not(zd > z3.Real('hmin') / 2)))
                o = rvc.logic('C01.apply.ind/%s/reject' % tag, F, 'for a closed box the mapping is rejected exactly when the largest parent distance exceeds half the shortest box dimension; never for an open box', claim, pc=P.pc)
                o['functions'] = mfs
                obs.append(o)
            else:
                ob('C01.apply.ind/%s/reject' % tag, 'one largest-distance accumulator', False, str(dists))
            if not thrown:
                # ---- loop 2, one arbitrary iteration (velocity / force presence: all four patterns)
                loop2 = stmts[loops[1]]
                a2 = sorted(k for k in assigned_names(loop2) if k in ex.env)
                flags2 = [k for k in a2 if isinstance(ex.env[k], bool)]
                good2, det2 = True, []
                for hv, hf in itertools.product((False, True), repeat=2):
                    ek['hasvel'], ek['hasf'] = hv, hf
                    for fv in itertools.product((False, True), repeat=len(flags2)):
                        pre2 = havoc(a2)
                        for k, b in zip(flags2, fv):
                            ex.env[k] = b; pre2[k] = b
                        ex.env[loop2['inner'][6]['inner'][0]['name']] = ek['entry']
                        ex.stmt(loop2['inner'][7])
                        nvec = 0
                        for k in a2:
                            a, b = pre2[k], ex.env[k]
                            if isinstance(a, Mx):
                                isv = all(rvc.nf_zero(b.g(c).v - a.g(c).v - (ek['w'] * ek['v'].g(c).v if hv else 0)) for c in range(3))
                                isf = all(rvc.nf_zero(b.g(c).v - a.g(c).v - (ek['fw'] * ek['F'].g(c).v if hf else 0)) for c in range(3))
                                okk = isv or isf
                                nvec += 1
                            elif isinstance(a, bool):
                                okk = b in ((a or hv), (a or hf))
                            else:
                                okk = b is a or b == a
                            good2 = good2 and okk
                            det2.append('%s:%s' % (k, okk))
                        good2 = good2 and nvec == 2
                ob('C01.apply.ind/%s/loop2' % tag, 'one pass of the second loop for an arbitrary parent: velocity += w_k v_k if it has one, force += fw_k F_k if it has one (force weights, not position weights), flags |= presence; nothing else changes', good2, ' '.join(det2[:12]))
                # ---- suffix on arbitrary accumulated values, every flag pattern
                allacc = sorted(set(a1) | set(a2))
                flagsS = [k for k in allacc if isinstance(ex.env.get(k), bool)]
                goodS, detS = True, []
                for fv in itertools.product((False, True), repeat=len(flagsS)):
                    preS = havoc(allacc)
                    for k, b in zip(flagsS, fv):
                        ex.env[k] = b; preS[k] = b
                    for k in ('mass', 'pos', 'vel', 'f'):
                        out.pop(k, None)
                    try:
                        for st in stmts[loops[1] + 1:]:
                            ex.stmt(st)
                    except Ret:
                        pass
                    # every output is one of the accumulators, unchanged; set iff its flag
                    vecs = {k: preS[k] for k in allacc if isinstance(preS[k], Mx)}
                    def which(v):
                        return [k for k, a in vecs.items() if isinstance(v, Mx) and all(rvc.nf_zero(v.g(c).v - a.g(c).v) for c in range(3))]
                    okm = 'mass' in out and any(rvc.nf_zero(D.lift(out['mass']).v - preS[k].v) for k in masses)
                    nset = sum(1 for k in ('pos', 'vel', 'f') if k in out)
                    oks = all(len(which(out[k])) == 1 for k in ('pos', 'vel', 'f') if k in out) and len(set(tuple(which(out[k])) for k in ('pos', 'vel', 'f') if k in out)) == nset and nset == sum(1 for b in fv if b)
                    goodS = goodS and okm and oks
                    detS.append('%s->%s' % (fv, sorted(k for k in ('mass', 'pos', 'vel', 'f') if k in out)))
                ob('C01.apply.ind/%s/outputs' % tag, 'after the loops the output bead gets the accumulated mass, and the accumulated position / velocity / force unchanged (no further scaling), each exactly when its presence flag is set', goodS, ' '.join(detS))
            if not P.next():
                break
    return obs


class SymVec:
    """std::vector of symbolic length: every element is 'the generic element' e (an expression in a per-element symbol); size is a symbolic integer.
    Sound for code that treats all elements alike (std::accumulate / transform / copy and loops whose body only touches index i)."""
    def __init__(s, size, elem):
        s.size_, s.elem = size, elem
    def call(s, name, args):
        if name == 'size': return s.size_
        if name == 'begin': return ('it', s, 'begin')
        if name == 'end': return ('it', s, 'end')
        if name == 'resize':
            s.size_ = args[0]; s.elem = D(rvc.fresh('uninit')); return None
        if name == 'empty': raise rvc.Unsupported('empty() of a vector of symbolic length')
        raise rvc.Unsupported('vector::' + name)
    def index_ref(s, idx):
        return rvc.Ref(lambda: s.elem, lambda v: setattr(s, 'elem', v))


def job_init_inductive(has_d, seed):
    """Map_Sphere::Initialize for ANY number of parents: std::accumulate / transform / copy by their contracts on vectors of symbolic length, the two index loops by per-iteration contracts"""
    rvc.reset()
    fns = map_fns()
    fn = fns['Initialize'][0]
    F = 'Map_Sphere::Initialize'
    mfs = [{'name': F, 'file': 'csg/src/libcsg/map.cc', 'ast_nodes': rvc.node_count(fn), 'route': 'RVC, vectors of symbolic length, loops closed by per-iteration contracts (unbounded parent count)'}]
    obs = []
    stmts = rvc.body_of(fn)['inner']
    loops = [i for i, st in enumerate(stmts) if st['kind'] == 'ForStmt']
    if len(loops) != 2:
        raise core.Undecided('Map_Sphere::Initialize: expected two index loops, found %d' % len(loops))
    wi, di, Sw, Sd = sp.Symbol('w_i', real=True), sp.Symbol('d_i', real=True), sp.Symbol('S_w', real=True), sp.Symbol('S_d', real=True)
    nb, nw, nd = [sp.Symbol(k, integer=True, nonnegative=True) for k in ('n_beads', 'n_weights', 'n_d')]
    isym = sp.Symbol('i', integer=True, nonnegative=True)
    P = rvc.Paths()
    while True:
        P.start()
        rvc.CTX.base = [z3.Int(k) >= 0 for k in ('n_beads', 'n_weights', 'n_d', 'i')] + [z3.Real('S_w') != 0, z3.Real('S_d') != 0]
        added = []
        sums = []
        def tokens(key):
            if key == ('value', 'weights'): return SymVec(SInt(nw), D(wi))
            if key == ('value', 'd'): return SymVec(SInt(nd), D(di))
            if key == ('value', 'beads'): return SymVec(SInt(nb), 'NAME_i')
            raise rvc.Unsupported('tokens of %s' % (key,))
        class TokS(Tok):
            def call(s_, name, args):
                if name == 'ToVector': return tokens(s_.key)
                raise rvc.Unsupported('Tokenizer::' + name)
        def decl(ex_, vd, ty, inner):
            if 'Tokenizer' in ty:
                ce = inner[0]
                while ce['kind'] not in ('CXXConstructExpr', 'CXXTemporaryObjectExpr'):
                    ce = ce['inner'][0]
                return TokS(rvc.rval(ex_.expr(ce['inner'][0])))
            if re.search(r'vector<double', ty) and (not inner or not inner[0].get('inner')):
                return SymVec(0, D(rvc.fresh('uninit')))
            return NotImplemented
        def construct(ex_, nn, ty, args):
            if 'Tokenizer' in ty:
                return TokS(rvc.rval(ex_.expr(args[0])))
            if 'basic_string' in nn['type'].get('desugaredQualType', ty) or ty in ('std::string', 'string'):
                return rvc.rval(ex_.expr(args[0])) if args else ''
            return NotImplemented
        def accumulate(a, b, init):
            if not (isinstance(a, tuple) and a[0] == 'it' and a[2] == 'begin' and b[1] is a[1] and b[2] == 'end'):
                raise rvc.Unsupported('std::accumulate over something else than a whole vector')
            e = D.lift(a[1].elem).v
            if e == wi: sums.append('w'); return D.lift(init) + D(Sw)
            if e == di: sums.append('d'); return D.lift(init) + D(Sd)
            raise rvc.Unsupported('std::accumulate over a vector whose element is %s' % e)
        def transform(a, b, dst, f):
            if not (a[2] == 'begin' and b[1] is a[1] and b[2] == 'end' and dst[2] == 'begin'):
                raise rvc.Unsupported('std::transform over something else than whole vectors')
            dst[1].elem = rvc.rval(f(a[1].elem))
        def copy(a, b, dst):
            if not (a[2] == 'begin' and b[1] is a[1] and b[2] == 'end' and dst[2] == 'begin'):
                raise rvc.Unsupported('std::copy over something else than whole vectors')
            dst[1].elem = a[1].elem
        cb = {'decide': P.decide, 'decl': decl, 'construct': construct, 'get': lambda p, key: Prop(key), 'value': lambda p: ('value', p.path), 'exists': lambda p, key: has_d if key == 'd' else True, 'as': lambda p: 'str',
              'getBeadByName': lambda mol, nm: SInt(sp.Symbol('iin', integer=True)) if nm == 'NAME_i' else (_ for _ in ()).throw(rvc.Unsupported('getBeadByName(%r)' % (nm,))),
              'getBead': lambda mol, k: ('bead', SInt.ex(k)), 'AddElem': lambda o, b, w_, f_: added.append((b, D.lift(w_).v, D.lift(f_).v)), 'accumulate': accumulate, 'transform': transform, 'copy': copy}
        this = {'matrix_': [], 'in_': None, 'out_': None, 'opts_map_': None, 'opts_bead_': None}
        ex = Exec({'in': 'MOL', 'out': 'OUT', 'opts_bead': Prop('bead'), 'opts_map': Prop('map')}, cb, fns, this)
        tag = '%s.p%d' % ('d' if has_d else 'nod', P.count)
        status = 'ok'
        rvc.CTX.base.append(z3.Int('iin') >= -5)
        try:
            for st in stmts[:loops[0]]:
                ex.stmt(st)
            # loop 1 (force weights) for an arbitrary index
            l1 = stmts[loops[0]]
            iname = l1['inner'][0]['inner'][0]['name']
            ex.env[iname] = SInt(isym)
            ex.stmt(l1['inner'][4])
            # loop 2 (AddElem) for an arbitrary index
            for st in stmts[loops[0] + 1:loops[1]]:
                ex.stmt(st)
            l2 = stmts[loops[1]]
            ex.env[l2['inner'][0]['inner'][0]['name']] = SInt(isym)
            ex.stmt(l2['inner'][4])
        except Thrown:
            status = 'thrown'
        except Ret:
            pass
        zw, zd = z3.Real('w_i'), z3.Real('d_i')
        sizes_ok = z3.And(z3.Int('n_beads') == z3.Int('n_weights'), z3.Int('n_beads') == z3.Int('n_d')) if has_d else (z3.Int('n_beads') == z3.Int('n_weights'))
        if status == 'thrown':
            claim = z3.Or(z3.Not(sizes_ok), z3.And(zw == 0, zd != 0) if has_d else z3.BoolVal(False), z3.Int('iin') < 0)
            o = rvc.logic('C01.init.ind/%s/reject' % tag, F, 'an error is raised only for mismatching counts, a parent with weight 0 but d != 0, or an unknown bead name', claim, pc=P.pc)
            o['functions'] = mfs; obs.append(o)
        else:
            o = rvc.logic('C01.init.ind/%s/accept' % tag, F, 'accepted only with matching counts, no parent with weight 0 and d != 0, known bead names', z3.And(sizes_ok, z3.Not(z3.And(zw == 0, zd != 0)) if has_d else z3.BoolVal(True), z3.Int('iin') >= 0), pc=P.pc)
            o['functions'] = mfs; obs.append(o)
            ok = len(added) == 1 and added[0][0] == ('bead', sp.Symbol('iin', integer=True))
            o = Ob('C01.init.ind/%s/element' % tag, F, 'parent i contributes exactly one map element, for the bead its name resolves to', 'RVC', 'symbolic execution', core.PROVED if ok else core.REFUTED, 0, str(added)[:200], witness=None if ok else {})
            o['functions'] = mfs; obs.append(o)
            if ok:
                o = rvc.identity('C01.init.ind/%s/weight' % tag, F, 'weight of parent i == w_i / sum_j w_j (so the weights sum to one)', added[0][1], wi / Sw, seed)
                o['functions'] = mfs; obs.append(o)
                wzero = rvc.logic('x', 'x', 'x', zw == 0, pc=P.pc)['status'] == core.PROVED
                expf = sp.Integer(0) if wzero else ((di / Sd) / (wi / Sw) if has_d else sp.Integer(1))
                o = rvc.identity('C01.init.ind/%s/fweight' % tag, F, 'force weight of parent i == (d_i / sum d) / (w_i / sum w) (1 without a d vector; 0 for a parent of weight 0)', added[0][2], expf, seed)
                o['functions'] = mfs; obs.append(o)
            okS = sums == (['w', 'd'] if has_d else ['w'])
            o = Ob('C01.init.ind/%s/sums' % tag, F, 'the normalisations use the sum of the weights and (if given) the sum of the d coefficients, each computed once over the whole vector', 'RVC', 'symbolic execution', core.PROVED if okS else core.REFUTED, 0, str(sums), witness=None if okS else {})
            o['functions'] = mfs; obs.append(o)
        if not P.next():
            break
    return obs


def job_topmap(seed):
    """TopologyMap::Apply: step, time and box of the output topology are set from the input BEFORE the bead maps run, and the maps get the OUTPUT boundary"""
    rvc.reset()
    fns = rvc.functions(rvc.ast('csg/src/libcsg/topologymap.cc', 'TopologyMap::Apply'))
    if 'Apply' not in fns:
        raise core.Undecided('front end: TopologyMap::Apply not found')
    ev = []
    tin, tout = {'id': 'in'}, {'id': 'out'}
    # the output topology may hold ANY earlier box (a previous frame): type and volume are arbitrary and may coincide with the input's
    cb = {'getStep': lambda t: ('step', t['id']), 'getTime': lambda t: ('time', t['id']), 'getBox': lambda t: ('box', t['id']),
          'setStep': lambda t, v: ev.append(('setStep', t['id'], v)), 'setTime': lambda t, v: ev.append(('setTime', t['id'], v)), 'setBox': lambda t, v: ev.append(('setBox', t['id'], v)),
          'getBoundary': lambda t: ('bc', t['id']), 'Apply': lambda m, bc: ev.append(('map', m['k'], bc)),
          'getBoxType': lambda t: 'SAME-TYPE', 'BoxVolume': lambda t: D(sp.Symbol('same_volume', positive=True))}      # the worst case for a conditional copy: same type, same volume, different box
    ex = Exec({}, cb, {}, {'in_': tin, 'out_': tout, 'maps_': [{'k': 0}, {'k': 1}]})
    try:
        ex.stmt(rvc.body_of(fns['Apply'][0]))
    except Ret:
        pass
    exp = [('setStep', 'out', ('step', 'in')), ('setTime', 'out', ('time', 'in')), ('setBox', 'out', ('box', 'in')), ('map', 0, ('bc', 'out')), ('map', 1, ('bc', 'out'))]
    ok = sorted(map(str, ev[:3])) == sorted(map(str, exp[:3])) and ev[3:] == exp[3:]
    o = Ob('C01.topmap/order', 'TopologyMap::Apply', 'step, time and box are copied from the input topology before any bead map runs; every molecule map is applied once, in order, with the output topology\'s boundary', 'RVC',
           'symbolic execution', core.PROVED if ok else core.REFUTED, 0, str(ev), witness=None if ok else {'events': str(ev)})
    o['functions'] = [{'name': 'TopologyMap::Apply', 'file': 'csg/src/libcsg/topologymap.cc', 'ast_nodes': rvc.node_count(fns['Apply'][0])}]
    return [o]


def job_consequences(n, seed):
    """from the formulas above + the Initialize normalisation + the C02 lemmas: lattice-shift invariance, translation equivariance, convex hull"""
    rvc.reset()
    obs = []
    F = 'Map_Sphere::Apply (consequences)'
    bound = '%d parent beads' % n
    w = [sp.Symbol('w%d' % i, real=True) for i in range(n)]
    S = sum(w)
    wt = [x / S for x in w]                         # Initialize: weight_i = w_i / sum w  (proved in C01.init)
    r0, t = sp.Symbol('r0'), sp.Symbol('t')
    u = [sp.Integer(0)] + [sp.Symbol('u%d' % i) for i in range(1, n)]
    pos = sum(wt[i] * (r0 + u[i]) for i in range(n))
    # translation: every position + t; bc(r0 + t, r_i + t) = bc(r0, r_i) (C02 translation lemma) => u unchanged, r0 -> r0 + t
    pos_t = sum(wt[i] * (r0 + t + u[i]) for i in range(n))
    obs.append(rvc.identity('C01.conseq/n%d/translation' % n, F, 'rigid translation of all atoms by t moves the mapped position by t (uses sum weight_i = 1)', pos_t, pos + t, seed, bound=bound))
    # lattice shift of a non-first parent: bc(r0, r_j + n.box) = bc(r0, r_j) (C02 shift lemma): u_j unchanged and r_j is read nowhere else (PosTok structural check)
    obs.append(Ob('C01.conseq/n%d/shift' % n, F, 'displacing a non-first parent by a whole box vector leaves every output unchanged: parent positions reach the outputs only through BCShortestConnection(r0, r_j), which is shift invariant (C02)',
                  'RVC', 'structural check in the executor (PosTok) + C02 lemma', core.BOUNDED, 0, 'a parent position used outside BCShortestConnection aborts the execution', bound=bound))
    # convex hull: weights >= 0, sum 1: min_i x_i <= sum weight_i x_i <= max_i x_i, per coordinate
    zw = [z3.Real('cw%d' % i) for i in range(n)]
    zx = [z3.Real('cx%d' % i) for i in range(n)]
    comb = sum((zw[i] * zx[i] for i in range(n)), z3.RealVal(0))
    base = [x >= 0 for x in zw] + [sum(zw, z3.RealVal(0)) == 1]
    rvc.CTX.base = base
    hi = z3.And(*[z3.Implies(z3.And(*[zx[j] >= zx[k] for k in range(n)]), comb <= zx[j]) for j in range(n)])
    lo = z3.And(*[z3.Implies(z3.And(*[zx[j] <= zx[k] for k in range(n)]), comb >= zx[j]) for j in range(n)])
    obs.append(rvc.logic('C01.conseq/n%d/hull' % n, F, 'non-negative normalised weights: each coordinate of the mapped position lies between the smallest and the largest unwrapped parent coordinate', z3.And(hi, lo), timeout_ms=60000, bound=bound))
    return obs


def collect(obs):
    seen = set(f['name'] for f in META['functions'])
    for o in obs:
        for f in o.pop('functions', []) or []:
            if f['name'] not in seen:
                seen.add(f['name'])
                META['functions'].append(f)


def run(tier, seed, only=None):
    ns = (1, 2, 3) if tier == 'quick' else (1, 2, 3, 4)
    jobs = []
    for n in ns:
        for has_d in (False, True):
            jobs.append((job_init, (n, has_d, seed)))
        for box in (2, 3):
            for fl in ('all', 'mixed'):
                jobs.append((job_apply, (n, box, fl, seed)))
        jobs.append((job_apply, (n, 1, 'none', seed)))
        if n > 1:
            jobs.append((job_apply, (n, 1, 'firstless', seed)))
        jobs.append((job_consequences, (n, seed)))
        if n >= 2:
            jobs.append((job_apply, (n, 2, 'all', seed, True)))
            jobs.append((job_apply, (n, 3, 'mixed', seed, True)))
    jobs.append((job_topmap, (seed,)))
    for bt in (1, 2, 3):
        jobs.append((job_apply_inductive, (bt, seed)))
    for hd in (False, True):
        jobs.append((job_init_inductive, (hd, seed)))
    if only:
        jobs = [j for j in jobs if re.search(only, j[0].__name__ + str(j[1]))]
    obs = core.pmap(jobs)
    collect(obs)
    return obs, META
