"""C02 - periodic distances obey the minimum-image convention (DESIGN.md section 5, C02)"""
import os, re, time
import sympy as sp
import z3
from vlib import core, rvc, native
from vlib.core import Ob
from vlib.rvc import D, Mx, Exec, Ret, SInt

META = {
    'level': 'proof', 'functions': [],
    'trusted_base': ['clang 14 AST = the code g++ compiles', 'RVC executor (vlib/rvc.py): Eigen fixed-size algebra, Array vs Matrix semantics from the AST type',
                     'contract of std::round / Array::round: an integer k with |x - k| <= 1/2, round(-x) = -round(x), round(x + m) = round(x) + m for integer m',
                     'z3 (Real/Int) for the inequality obligations, sympy Poly over Q for the identities', 'machine arithmetic treated as mathematical'],
    'assumptions': ['orthorhombic: positive diagonal; triclinic: lower-triangular column form a=(ax,0,0), b=(bx,by,0), c=(cx,cy,cz) with positive diagonal',
                    'box volume/height obligations: right-handed box (det > 0) for the height'],
    'not_decided': ['IEEE rounding ("to rounding" clauses are proved exactly over the reals)',
                    'exact ties |x - k| = 1/2 are resolved by the contract either way (the code rounds half away from zero)'],
}
CO = 'xyz'


class RoundCtx:
    """contract of round(): fresh integer k per call with |x - k| <= 1/2; instance lemmas for negated and integer-shifted arguments"""

    def __init__(s):
        s.calls = []     # (k expr, x expr)

    def one(s, x):
        x = D.lift(x)
        xv = sp.cancel(sp.together(x.v))
        for k, xo in s.calls:
            d = sp.cancel(xv - xo)
            if d == 0:
                return D(k)
            if sp.expand(d).is_integer:          # round(x + m) = round(x) + m
                return D(k + sp.expand(d))
            d2 = sp.cancel(xv + xo)
            if d2 == 0:                           # round(-x) = -round(x)   (half away from zero is odd)
                return D(-k)
            if sp.expand(d2).is_integer:
                return D(-k + sp.expand(d2))
        k = sp.Symbol('k%d' % len(s.calls), integer=True)
        s.calls.append((k, xv))
        zx, zk = rvc.to_z3(xv), z3.ToReal(z3.Int(k.name))
        rvc.CTX.base += [zx - zk <= z3.RealVal(1) / 2, zk - zx <= z3.RealVal(1) / 2]
        return D(k)

    def __call__(s, *a):
        v = a[-1]
        if isinstance(v, Mx):
            out = v._map(lambda e: s.one(e))
            return out
        return s.one(v)


def boxes():
    ax, by, cz = sp.symbols('ax by cz', positive=True)
    bx, cx, cy = sp.symbols('bx cx cy', real=True)
    tri = Mx(3, 3, [[D(ax), D(bx), D(cx)], [D(0), D(by), D(cy)], [D(0), D(0), D(cz)]])
    ortho = Mx(3, 3, [[D(ax), D(0), D(0)], [D(0), D(by), D(0)], [D(0), D(0), D(cz)]])
    return {'triclinic': tri, 'orthorhombic': ortho}, (ax, by, cz)


def bc_fn(kind):
    rel = {'triclinic': 'csg/src/libcsg/triclinicbox.cc', 'orthorhombic': 'csg/src/libcsg/orthorhombicbox.cc', 'open': 'csg/src/libcsg/openbox.cc'}[kind]
    cls = {'triclinic': 'TriclinicBox', 'orthorhombic': 'OrthorhombicBox', 'open': 'OpenBox'}[kind]
    fns = rvc.functions(rvc.ast(rel, cls + '::BCShortestConnection'))
    if 'BCShortestConnection' not in fns:
        raise core.Undecided('front end: %s::BCShortestConnection not found' % cls)
    fn = fns['BCShortestConnection'][0]
    return fn, {'name': cls + '::BCShortestConnection', 'file': rel, 'ast_nodes': rvc.node_count(fn)}


def run_bc(fn, box, ri, rj, rc):
    ex = Exec({'r_i': ri, 'r_j': rj}, {'round': rc}, {}, {'box_': box})
    try:
        ex.stmt(rvc.body_of(fn))
    except Ret as r:
        return r.v
    raise rvc.Unsupported('no return')


def job_bc(kind, seed):
    rvc.reset()
    fn, mf = bc_fn(kind)
    obs = []
    F = mf['name']
    a, b = Mx.sym('p', 3), Mx.sym('q', 3)     # the two points (names must not collide with the box symbols ax, bx, ...)
    if kind == 'open':
        res = run_bc(fn, None, a, b, RoundCtx())
        for i in range(3):
            obs.append(rvc.identity('C02.open/diff.%s' % CO[i], F, 'open box: result == r_j - r_i', res.g(i).v, b.g(i).v - a.g(i).v, seed))
        for o in obs:
            o['functions'] = [mf]
        return obs
    bx, (ax, by, cz) = boxes()
    box = bx[kind]
    rvc.CTX.base = [z3.Real('ax') > 0, z3.Real('by') > 0, z3.Real('cz') > 0]
    rc = RoundCtx()
    res = run_bc(fn, box, a, b, rc)
    ks = [k for k, _ in rc.calls]
    if len(ks) == 0:
        # the body does not go through round() at all (e.g. a compare-and-select fold): the lattice form cannot be read off, but the brick and
        # shortest-image clauses are still plain first-order obligations over the piecewise result and are decided by z3 directly
        return direct_bc(kind, fn, mf, box, res, a, b, (ax, by, cz))
    if len(ks) != 3:
        raise core.Undecided('expected 3 round() calls, saw %d' % len(ks))
    # Q-lattice: result = r_j - r_i - sum_m n_m box_m with integer n_m (the n_m are read off as the coefficients of the integer symbols)
    for i in range(3):
        diff = sp.expand(res.g(i).v - (b.g(i).v - a.g(i).v))
        P = sp.Poly(diff, *ks)
        lin = P.total_degree() <= 1 and P.eval({k: 0 for k in ks}) == 0
        obs.append(Ob('C02.%s/lattice.form.%s' % (kind, CO[i]), F, 'result - (r_j - r_i) is linear and homogeneous in the three integers returned by round()', 'RVC', 'sympy Poly', core.PROVED if lin else core.REFUTED, 0,
                      str(diff)[:200], witness=None if lin else {'expr': str(diff)}))
    # each integer multiplies exactly one box vector (up to sign): coefficient vector of k_m is -box.col(c_m)
    cols_used = []
    for k in ks:
        coef = [sp.expand(res.g(i).v).coeff(k) for i in range(3)]
        match = [c for c in range(3) if all(rvc.nf_zero(coef[i] + box.g(i, c).v) for i in range(3))]
        cols_used.append(match[0] if match else None)
        obs.append(Ob('C02.%s/lattice.vector.%s' % (kind, k), F, 'the coefficient vector of integer %s is minus one box vector' % k, 'RVC', 'normal form', core.PROVED if match else core.REFUTED, 0,
                      'coefficient %s' % coef, witness=None if match else {'coef': str(coef)}))
    obs.append(Ob('C02.%s/lattice.all' % kind, F, 'the three integers multiply the three different box vectors', 'RVC', 'normal form',
                  core.PROVED if sorted(c for c in cols_used if c is not None) == [0, 1, 2] else core.REFUTED, 0, str(cols_used), witness={'cols': str(cols_used)}))
    # Q-brick: |result_x| <= ax/2, |result_y| <= by/2, |result_z| <= cz/2
    half = [ax / 2, by / 2, cz / 2]
    for i in range(3):
        e = sp.expand(res.g(i).v)
        obs.append(rvc.logic('C02.%s/brick.%s' % (kind, CO[i]), F, '|result.%s| <= half the diagonal box element (inside the minimum-image brick)' % CO[i],
                             z3.And(rvc.to_z3(e) <= rvc.to_z3(half[i]), rvc.to_z3(e) >= -rvc.to_z3(half[i]))))
    # canary: a tighter brick must be refuted
    c = rvc.logic('C02.%s/canary' % kind, F, 'canary: |result.x| <= ax/4 must NOT be provable', z3.And(rvc.to_z3(sp.expand(res.g(0).v)) <= rvc.to_z3(ax / 4), rvc.to_z3(sp.expand(res.g(0).v)) >= -rvc.to_z3(ax / 4)))
    obs.append(Ob('C02.%s/canary' % kind, F, c['clause'], 'RVC', c['backend'], core.PROVED if c['status'] == core.REFUTED else core.UNDECIDED, c['wall_s'], 'canary refuted as required' if c['status'] == core.REFUTED else 'vacuity: canary not refuted'))
    # Q-anti: bc(b,a) == -bc(a,b)   (round(-x) = -round(x))
    res2 = run_bc(fn, box, b, a, rc)
    for i in range(3):
        obs.append(rvc.identity('C02.%s/anti.%s' % (kind, CO[i]), F, 'bc(r_j, r_i) == -bc(r_i, r_j)', res2.g(i).v, -res.g(i).v, seed))
    # Q-shift: moving either point by a whole lattice vector does not change the result   (round(x + m) = round(x) + m)
    n = [sp.Symbol('n%d' % i, integer=True) for i in range(3)]
    shift = Mx.vec([sum(n[m] * box.g(i, m).v for m in range(3)) for i in range(3)])
    res3 = run_bc(fn, box, a, b + shift, rc)
    res4 = run_bc(fn, box, a + shift, b, rc)
    for i in range(3):
        obs.append(rvc.identity('C02.%s/shift_j.%s' % (kind, CO[i]), F, 'bc(r_i, r_j + n.box) == bc(r_i, r_j) for every integer vector n', res3.g(i).v, res.g(i).v, seed))
        obs.append(rvc.identity('C02.%s/shift_i.%s' % (kind, CO[i]), F, 'bc(r_i + n.box, r_j) == bc(r_i, r_j) for every integer vector n', res4.g(i).v, res.g(i).v, seed))
    # translation: bc depends on the two points only through their difference
    tv = Mx.sym('t', 3)
    res5 = run_bc(fn, box, a + tv, b + tv, rc)
    for i in range(3):
        obs.append(rvc.identity('C02.%s/translate.%s' % (kind, CO[i]), F, 'bc(r_i + t, r_j + t) == bc(r_i, r_j) for every translation t', res5.g(i).v, res.g(i).v, seed))
    if len(rc.calls) != 3:
        obs.append(Ob('C02.%s/lemma-instances' % kind, F, 'every round() call of the swapped / shifted runs is an instance of the oddness / integer-shift lemma', 'RVC', 'normal form', core.REFUTED, 0,
                      '%d unrelated round() arguments' % (len(rc.calls) - 3), witness={'calls': str(rc.calls[3:])[:300]}))
    # Q-short (orthorhombic): no other image is shorter, component by component
    if kind == 'orthorhombic':
        m = z3.Int('m_img')
        for i in range(3):
            e, L = rvc.to_z3(sp.expand(res.g(i).v)), rvc.to_z3([ax, by, cz][i])
            obs.append(rvc.logic('C02.orthorhombic/shortest.%s' % CO[i], F, 'for every integer m: |result.%s + m L| >= |result.%s| (shortest of all images)' % (CO[i], CO[i]),
                                 (e + z3.ToReal(m) * L) * (e + z3.ToReal(m) * L) >= e * e, timeout_ms=60000))
    for o in obs:
        o['functions'] = [mf]
    replay_bc(kind, obs)
    return obs


def direct_bc(kind, fn, mf, box, res, a, b, diag):
    F = mf['name']
    obs = [Ob('C02.%s/lattice.form' % kind, F, 'result - (r_j - r_i) is an integer combination of box vectors', 'RVC', 'none', core.UNDECIDED, 0,
              'the body makes no round() call; the integer multipliers are not syntactically available')]
    for i in range(3):
        e = rvc.to_z3(res.g(i).v)
        h = rvc.to_z3(diag[i] / 2)
        obs.append(rvc.logic('C02.%s/brick.%s' % (kind, CO[i]), F, '|result.%s| <= half the diagonal box element (inside the minimum-image brick)' % CO[i], z3.And(e <= h, e >= -h)))
    if kind == 'orthorhombic':
        m = z3.Int('m_img')
        for i in range(3):
            e, L = rvc.to_z3(res.g(i).v), rvc.to_z3(diag[i])
            obs.append(rvc.logic('C02.orthorhombic/shortest.%s' % CO[i], F, 'for every integer m: |result.%s + m L| >= |result.%s| (shortest of all images)' % (CO[i], CO[i]),
                                 (e + z3.ToReal(m) * L) * (e + z3.ToReal(m) * L) >= e * e, timeout_ms=60000))
    for o in obs:
        o['functions'] = [mf]
    replay_bc(kind, obs)
    return obs


def replay_bc(kind, obs):
    bad = [o for o in obs if o['status'] == core.REFUTED]
    if not bad:
        return
    try:
        exe = native.build('C02.bc', open(os.path.join(core.VERIF, 'contracts', 'C02', 'replay_bc.cc')).read(),
                           ['csg/src/libcsg/triclinicbox.cc', 'csg/src/libcsg/orthorhombicbox.cc', 'csg/src/libcsg/openbox.cc', 'csg/src/libcsg/boundarycondition.cc'])
    except core.Undecided as e:
        for o in bad:
            o['replay'] = {'reproduced': False, 'error': str(e)}
        return
    import random
    for o in bad:
        w = o.get('witness') or {}
        def num(k, dflt):
            try:
                return float(sp.Rational(str(w[k]))) if k in w else dflt
            except Exception:
                return dflt
        rng = random.Random(hash(o['id']) & 0xffff)
        tried = []
        # first the verifier's own witness, then a few seeded points of the precondition domain (structural obligations carry no input)
        cands = [[num('ax', 2.0), num('bx', 0.7), num('cx', -0.6), num('by', 3.0), num('cy', 1.1), num('cz', 2.5)] + [num('p' + c, 0.3) for c in CO] + [num('q' + c, 7.9) for c in CO] +
                 [num('n0', 1), num('n1', -2), num('n2', 3)]]
        for _ in range(8):
            cands.append([2.0, rng.uniform(-1, 1), rng.uniform(-1, 1), 3.0, rng.uniform(-1.5, 1.5), 2.5] + [rng.uniform(-20, 20) for _ in range(6)] + [rng.randint(-3, 3) for _ in range(3)])
        rep = None
        for c in cands:
            args = [kind] + [repr(x) for x in c]
            rc, out, err = native.execute(exe, args)
            tried.append(' '.join(args))
            if rc == 1:
                rep = {'reproduced': True, 'cmd': exe + ' ' + ' '.join(args), 'rc': rc, 'stdout': out[-800:], 'against': 'real TriclinicBox/OrthorhombicBox/OpenBox/BoundaryCondition sources with ASan+UBSan',
                       'input_from': 'verifier witness' if c is cands[0] else 'seeded search in the precondition domain'}
                break
        o['replay'] = rep or {'reproduced': False, 'tried': tried[:3], 'note': 'no native mismatch on the witness or 8 seeded points'}


def job_short_triclinic(seed):
    """triclinic boxes satisfying the GROMACS reduction conditions: an image shorter than half the smallest diagonal element is the reported one"""
    rvc.reset()
    obs = []
    F = 'TriclinicBox::BCShortestConnection'
    ax, by, cz, bx, cx, cy = [z3.Real(n) for n in ('ax', 'by', 'cz', 'bx', 'cx', 'cy')]
    base = [ax > 0, by > 0, cz > 0, bx <= ax / 2, bx >= -ax / 2, cx <= ax / 2, cx >= -ax / 2, cy <= by / 2, cy >= -by / 2]
    # v: the reported vector (inside the brick), w = v + n0 a + n1 b + n2 c another image with |w| < hmin/2 where hmin <= min(ax,by,cz): then n = 0
    v = [z3.Real('v' + c) for c in CO]
    n = [z3.Int('n%d' % i) for i in range(3)]
    w = [v[0] + z3.ToReal(n[0]) * ax + z3.ToReal(n[1]) * bx + z3.ToReal(n[2]) * cx, v[1] + z3.ToReal(n[1]) * by + z3.ToReal(n[2]) * cy, v[2] + z3.ToReal(n[2]) * cz]
    brick = [v[0] <= ax / 2, v[0] >= -ax / 2, v[1] <= by / 2, v[1] >= -by / 2, v[2] <= cz / 2, v[2] >= -cz / 2]
    h = z3.Real('h')
    short = [h > 0, h <= ax, h <= by, h <= cz] + [w[i] < h / 2 for i in range(3)] + [w[i] > -h / 2 for i in range(3)]
    rvc.CTX.base = base
    # z component forces n2 = 0, then y forces n1 = 0, then x forces n0 = 0 (three linear steps once the previous integer is fixed)
    obs.append(rvc.logic('C02.triclinic/short.n2', F, 'an image with |w_z| < h/2 <= cz/2 of a vector in the brick has n2 = 0', n[2] == 0, extra=brick + short, timeout_ms=60000))
    obs.append(rvc.logic('C02.triclinic/short.n1', F, 'with n2 = 0 and |w_y| < h/2 <= by/2: n1 = 0', n[1] == 0, extra=brick + short + [n[2] == 0], timeout_ms=60000))
    obs.append(rvc.logic('C02.triclinic/short.n0', F, 'with n2 = n1 = 0 and |w_x| < h/2 <= ax/2: n0 = 0', n[0] == 0, extra=brick + short + [n[2] == 0, n[1] == 0], timeout_ms=60000))
    return obs


def job_volume_height(seed):
    rvc.reset()
    rel = 'csg/src/libcsg/boundarycondition.cc'
    fns = rvc.functions(rvc.ast(rel, 'BoundaryCondition::'))
    obs = []
    B = Mx.sym('B', 3, 3)
    M = sp.Matrix([[B.g(i, j).v for j in range(3)] for i in range(3)])
    det = sp.expand(M.det())
    rvc.CTX.base = []
    # BoxVolume = |det(box)|
    fn = fns['BoxVolume'][0]
    P = rvc.Paths()
    while True:
        P.start()
        ex = Exec({}, {'decide': P.decide}, {}, {'box_': B})
        try:
            ex.stmt(rvc.body_of(fn))
            raise rvc.Unsupported('no return')
        except Ret as r:
            v = D.lift(r.v).v
        obs.append(rvc.identity('C02.volume/square.p%d' % P.count, 'BoundaryCondition::BoxVolume', 'BoxVolume^2 == det(box)^2', v ** 2, det ** 2, seed))
        obs.append(rvc.logic('C02.volume/sign.p%d' % P.count, 'BoundaryCondition::BoxVolume', 'BoxVolume >= 0', rvc.to_z3(sp.expand(v)) >= 0, pc=P.pc))
        if not P.next():
            break
    # getShortestBoxDimension: each candidate is det / |cross product of the other two box vectors| (= height of the parallelepiped for det > 0)
    # boxes in the lower-triangular column form the library uses (a = (ax,0,0), b = (bx,by,0), c = (cx,cy,cz), positive diagonal)
    bxs, (sax, sby, scz) = boxes()
    B = bxs['triclinic']
    M = sp.Matrix([[B.g(i, j).v for j in range(3)] for i in range(3)])
    det = sp.expand(M.det())
    fn = fns['getShortestBoxDimension'][0]
    cands = {}
    P = rvc.Paths()
    npaths = 0
    while True:
        P.start()
        rvc.CTX.rad = []
        rvc.CTX.base = []
        # first path: real expressions (for the height identities); the min-selection logic is explored with la, lb, lc generalised to
        # arbitrary reals (contract-directed opaque intermediates), which keeps the path conditions linear for z3
        ex = Exec({}, {'decide': P.decide, 'getBoxType': lambda o: 'typeTriclinic', 'enum': lambda n: n, 'opaque': {'la', 'lb', 'lc'}}, {}, {'box_': B})
        try:
            ex.stmt(rvc.body_of(fn))
            raise rvc.Unsupported('no return')
        except Ret as r:
            v = D.lift(r.v).v
        npaths += 1
        if not all(k in ex.env for k in ('la', 'lb', 'lc')):
            # the body no longer has the three named heights: structure-independent obligation only (value is one of the three heights)
            cols = [B.col(j) for j in range(3)]
            areas = [cols[1].cross(cols[2]).squaredNorm().v, cols[2].cross(cols[0]).squaredNorm().v, cols[0].cross(cols[1]).squaredNorm().v]
            hit = [rvc.nf_zero(v ** 2 * ar - det ** 2) for ar in areas]
            o = rvc.identity('C02.height/one-of.p%d' % npaths, 'BoundaryCondition::getShortestBoxDimension', 'returned value^2 * (base area)^2 == det(box)^2 for one of the three faces (value is a height of the parallelepiped)',
                             sp.expand((v ** 2 * areas[0] - det ** 2) * (v ** 2 * areas[1] - det ** 2) * (v ** 2 * areas[2] - det ** 2)) if not any(hit) else sp.Integer(0), sp.Integer(0), seed)
            obs.append(o)
            if not P.next():
                break
            continue
        la, lb, lc = [D.lift(ex.env[k]).v for k in ('la', 'lb', 'lc')]
        cols = [B.col(j) for j in range(3)]
        areas = [cols[1].cross(cols[2]).squaredNorm().v, cols[2].cross(cols[0]).squaredNorm().v, cols[0].cross(cols[1]).squaredNorm().v]
        if npaths == 1:
            exr = Exec({}, {'decide': lambda c: True, 'getBoxType': lambda o: 'typeTriclinic', 'enum': lambda n: n}, {}, {'box_': B})
            try:
                exr.stmt(rvc.body_of(fn))
            except Ret:
                pass
            rla, rlb, rlc = [D.lift(exr.env[k]).v for k in ('la', 'lb', 'lc')]
            for nm, l, ar in (('a', rla, areas[0]), ('b', rlb, areas[1]), ('c', rlc, areas[2])):
                obs.append(rvc.identity('C02.height/l%s.square' % nm, 'BoundaryCondition::getShortestBoxDimension', 'l%s^2 * |cross product|^2 == det(box)^2 (height = volume / base area)' % nm, l ** 2 * ar, det ** 2, seed))
                obs.append(rvc.identity('C02.height/l%s.sign' % nm, 'BoundaryCondition::getShortestBoxDimension', 'l%s * |cross product| == det(box) (positive for right-handed boxes)' % nm, l * sp.sqrt(ar) if False else l * rvc.d_sqrt(D(ar)).v, det, seed))
        # the returned value is one of the three and not larger than the others on this path
        isone = [rvc.nf_zero(v - l) for l in (la, lb, lc)]
        obs.append(Ob('C02.height/min.one.p%d' % npaths, 'BoundaryCondition::getShortestBoxDimension', 'returned value is one of la, lb, lc', 'RVC', 'normal form', core.PROVED if any(isone) else core.REFUTED, 0, str(isone),
                      witness=None if any(isone) else {'value': str(v)[:200]}))
        for nm, l in (('a', la), ('b', lb), ('c', lc)):
            obs.append(rvc.logic('C02.height/min.le_%s.p%d' % (nm, npaths), 'BoundaryCondition::getShortestBoxDimension', 'returned value <= l%s on this path of the two std::min' % nm,
                                 rvc.to_z3(v) <= rvc.to_z3(l), pc=P.pc))
        if not P.next():
            break
    mf = [{'name': 'BoundaryCondition::BoxVolume', 'file': rel, 'ast_nodes': rvc.node_count(fns['BoxVolume'][0])},
          {'name': 'BoundaryCondition::getShortestBoxDimension', 'file': rel, 'ast_nodes': rvc.node_count(fns['getShortestBoxDimension'][0])}]
    for o in obs:
        o['functions'] = mf
    return obs


def job_dispatch(seed):
    """Topology::setBox constructs the boundary class named by the box type and hands it the box"""
    rvc.reset()
    rel = 'csg/src/libcsg/topology.cc'
    fns = rvc.functions(rvc.ast(rel, 'Topology::setBox'))
    if 'setBox' not in fns:
        raise core.Undecided('front end: Topology::setBox not found')
    fn = fns['setBox'][0]
    obs = []
    expect = {'typeTriclinic': 'TriclinicBox', 'typeOrthorhombic': 'OrthorhombicBox', 'typeOpen': 'OpenBox'}
    enumv = {'typeAuto': 0, 'typeTriclinic': 1, 'typeOrthorhombic': 2, 'typeOpen': 3}
    for auto in (False, True):
        for t, cls in expect.items():
            rec = {}
            box = Mx.sym('B', 3, 3)
            def setBox(obj, b):
                rec['cls'], rec['box'] = obj.get('__class__'), b
            cb = {'enum': lambda n: enumv[n], 'autoDetectBoxType': lambda o, b: enumv[t], 'setBox': setBox}
            this = {'bc_': None}
            ex = Exec({'box': box, 'boxtype': enumv['typeAuto'] if auto else enumv[t]}, cb, {}, this)
            try:
                ex.stmt(rvc.body_of(fn))
            except Ret:
                pass
            ok = rec.get('cls') == cls and rec.get('box') is not None and all(rvc.nf_zero(rec['box'].g(i, j).v - box.g(i, j).v) for i in range(3) for j in range(3))
            obs.append(Ob('C02.dispatch/%s%s' % ('auto.' if auto else '', t), 'Topology::setBox', 'box type %s%s constructs %s and passes the box on unchanged' % (t, ' (auto-detected)' if auto else '', cls), 'RVC',
                          'symbolic execution (control flow)', core.PROVED if ok else core.REFUTED, 0, str(rec.get('cls')), witness=None if ok else {'constructed': str(rec.get('cls'))}))
    mf = [{'name': 'Topology::setBox', 'file': 'csg/include/votca/csg/topology.h', 'ast_nodes': rvc.node_count(fn)}]
    for o in obs:
        o['functions'] = mf
    return obs


def job_topology(seed):
    """Topology: getDist(i, j) = bc(r_i, r_j) in this order; BCShortestConnection / BoxVolume / ShortestBoxSize forward to the boundary object;
    autoDetectBoxType: zero matrix -> open, diagonal -> orthorhombic, anything else -> triclinic (isApproxToConstant(0) is exact: |x| <= p*min(|x|,0))"""
    rvc.reset()
    rel = 'csg/src/libcsg/topology.cc'
    fns = rvc.functions(rvc.ast(rel, 'Topology::'))
    obs = []
    calls = []
    pos = {0: Mx.sym('p', 3), 1: Mx.sym('q', 3)}
    bcobj = {'__class__': 'BC'}
    cb = {'getBead': lambda t, i: {'i': i}, 'getPos': lambda b: pos[b['i']],
          'BCShortestConnection': lambda o, a, b: (calls.append((o, a, b)), Mx.sym('res', 3))[1], 'BoxVolume': lambda o: (calls.append(('vol', o)), D(sp.Symbol('V')))[1],
          'getShortestBoxDimension': lambda o: (calls.append(('h', o)), D(sp.Symbol('H')))[1]}
    this = {'bc_': bcobj}
    for need in ('getDist', 'BoxVolume', 'ShortestBoxSize', 'autoDetectBoxType', 'BCShortestConnection'):
        if need not in fns:
            raise core.Undecided('front end: Topology::%s not found' % need)
    # Topology::BCShortestConnection (inline in topology.h) forwards to bc_
    ex = Exec({'bead1': 0, 'bead2': 1}, cb, {'BCShortestConnection': fns['BCShortestConnection']}, this)
    del cb['BCShortestConnection']
    cb['BCShortestConnection'] = lambda o, a, b: (calls.append((o, a, b)), Mx.sym('res', 3))[1] if o is bcobj else NotImplemented
    def bc_call(o, a, b):
        if o is bcobj:
            calls.append((o, a, b))
            return Mx.sym('res', 3)
        return ex.call_fn(fns['BCShortestConnection'][0], [a, b], this)
    cb['BCShortestConnection'] = bc_call
    try:
        ex.stmt(rvc.body_of(fns['getDist'][0]))
        r = None
    except Ret as rr:
        r = rr.v
    ok = len(calls) == 1 and calls[0][0] is bcobj and calls[0][1] is pos[0] and calls[0][2] is pos[1] and isinstance(r, Mx)
    obs.append(Ob('C02.topology/getDist', 'Topology::getDist', 'getDist(i, j) is the boundary object\'s shortest connection from bead i to bead j (argument order r_i, r_j), returned unchanged', 'RVC', 'symbolic execution',
                  core.PROVED if ok else core.REFUTED, 0, '', witness=None if ok else {'calls': len(calls)}))
    for nm, key in (('BoxVolume', 'vol'), ('ShortestBoxSize', 'h')):
        del calls[:]
        ex = Exec({}, cb, {}, this)
        try:
            ex.stmt(rvc.body_of(fns[nm][0]))
            r = None
        except Ret as rr:
            r = rr.v
        ok = calls == [(key, bcobj)] and isinstance(r, D) and r.v == sp.Symbol('V' if key == 'vol' else 'H')
        obs.append(Ob('C02.topology/%s' % nm, 'Topology::' + nm, 'forwards to the boundary object and returns its value', 'RVC', 'symbolic execution', core.PROVED if ok else core.REFUTED, 0, '', witness=None if ok else {'calls': str(calls)}))
    # autoDetectBoxType
    enumv = {'typeAuto': 0, 'typeTriclinic': 1, 'typeOrthorhombic': 2, 'typeOpen': 3}
    cases = {'zero': (Mx(3, 3), 3), 'diagonal': (Mx(3, 3, [[D(sp.Symbol('ax', positive=True)), D(0), D(0)], [D(0), D(sp.Symbol('by', positive=True)), D(0)], [D(0), D(0), D(sp.Symbol('cz', positive=True))]]), 2)}
    for (i, j) in ((0, 1), (0, 2), (1, 2), (1, 0), (2, 0), (2, 1)):
        m = Mx(3, 3, [[D(sp.Symbol('ax', positive=True)), D(0), D(0)], [D(0), D(sp.Symbol('by', positive=True)), D(0)], [D(0), D(0), D(sp.Symbol('cz', positive=True))]])
        m.p(i, j, D(sp.Symbol('off', positive=True)))
        cases['offdiag%d%d' % (i, j)] = (m, 1)
    def approx0(m, c, *a):
        if not (isinstance(c, int) and c == 0) and not (isinstance(c, D) and c.v == 0):
            raise rvc.Unsupported('isApproxToConstant with a non-zero constant')
        vals = [e.v for e in m.flat()]
        if all(v == 0 for v in vals): return True
        if any(v.is_positive or v.is_negative for v in vals): return False
        raise rvc.Unsupported('isApproxToConstant on entries of unknown sign')
    def asDiagonal(m):
        out = Mx(m.r, m.r)
        for k in range(m.r):
            out.p(k, k, m.g(k))
        return out
    for nm, (box, exp) in cases.items():
        cbx = {'enum': lambda n: enumv[n], 'isApproxToConstant': approx0, 'asDiagonal': asDiagonal}
        ex = Exec({'box': box}, cbx, {}, this)
        try:
            ex.stmt(rvc.body_of(fns['autoDetectBoxType'][0]))
            r = None
        except Ret as rr:
            r = rr.v
        obs.append(Ob('C02.topology/autodetect.%s' % nm, 'Topology::autoDetectBoxType', 'auto-detected box type: zero matrix -> open, diagonal -> orthorhombic, any off-diagonal element -> triclinic', 'RVC', 'symbolic execution',
                      core.PROVED if r == exp else core.REFUTED, 0, str(r), witness=None if r == exp else {'case': nm, 'returned': str(r)}))
    mf = [{'name': 'Topology::' + k, 'file': rel, 'ast_nodes': rvc.node_count(fns[k][0])} for k in ('getDist', 'BoxVolume', 'ShortestBoxSize', 'autoDetectBoxType', 'BCShortestConnection')]
    for o in obs:
        o['functions'] = mf
    return obs


def collect(obs):
    seen = set(f['name'] for f in META['functions'])
    for o in obs:
        for f in o.pop('functions', []) or []:
            if f['name'] not in seen:
                seen.add(f['name'])
                META['functions'].append(f)


def run(tier, seed, only=None):
    jobs = [(job_bc, ('triclinic', seed)), (job_bc, ('orthorhombic', seed)), (job_bc, ('open', seed)), (job_volume_height, (seed,)), (job_dispatch, (seed,)), (job_short_triclinic, (seed,)), (job_topology, (seed,))]
    if only:
        jobs = [j for j in jobs if re.search(only, j[0].__name__ + str(j[1]))]
    obs = core.pmap(jobs)
    collect(obs)
    return obs, META
