"""C06 - inverse solvers: the algebra around the Eigen decompositions (DESIGN.md section 5, C06)

Decided here (partial claim): csg_imc_solve's regularised solve and table splitting; linalg_constrained_qrsolve (constraints hold exactly,
residual gradient orthogonal to the constraint null-space).  NOT decided: the first sentence of the property (csg_fmatch reproduces force
functions within fitting tolerance) - an end-to-end numerical statement outside this technique; the spline fit rows it rests on are C12."""
import os, re, time
import sympy as sp
import z3
from vlib import core, rvc, native
from vlib.core import Ob
from vlib.rvc import D, Mx, Exec, Ret, Thrown, SInt

META = {
    'level': 'other', 'functions': [],
    'trusted_base': ['clang 14 AST = the code g++ compiles', 'RVC executor; exact normal form of rational functions with radicals (sympy) + 50-digit numeric cross-check',
                     'ASSUMED contracts of Eigen: HouseholderQR(M).householderQ() is an orthogonal Q with M = Q R, R upper triangular; HouseholderQR(M).solve(b) returns z with M^T (M z - b) = 0; '
                     'SelfAdjointEigenSolver(M) returns orthogonal V and e with M = V diag(e) V^T; dense products, transpose, blocks as mathematical matrices',
                     'orthogonal matrices are parametrised (2x2: (c, sqrt(1-c^2)) with either determinant; 3x3: Euler-Rodrigues (1,a,b,c)/norm with either determinant): all orthogonal matrices except rotations by exactly 180 degrees',
                     'machine arithmetic treated as mathematical'],
    'assumptions': ['full-row-rank constraint matrix, no (approximately) zero column in A (the routine throws otherwise)', 'well-posed regularised problem: |eigenvalue + r| >= 1e-12 for every eigenvalue (otherwise the tool builds a pseudo-inverse and says so)'],
    'not_decided': ['csg_fmatch end to end (block splitting, bonded/non-bonded assembly, fitting tolerance)', 'numerical stability / conditioning of the decompositions', 'sizes beyond the enumerated shapes', 'imcio file parsing'],
    'explanation': 'partial: the matrix algebra of the two solver routines for all real entries of the enumerated shapes, relative to assumed contracts of the Eigen decompositions',
}


def ortho2(tag, sigma, tau=1):
    c = sp.Symbol('c_' + tag, real=True)
    s = tau * rvc.d_sqrt(D(1 - c * c)).v
    return Mx(2, 2, [[D(c), D(-sigma * s)], [D(s), D(sigma * c)]]), {c: (-0.95, 0.95)}


def ortho3(tag, sigma):
    a, b, c = [sp.Symbol('%s_%s' % (k, tag), real=True) for k in 'abc']
    n = 1 + a * a + b * b + c * c
    M = [[1 + a * a - b * b - c * c, 2 * (a * b - c), 2 * (a * c + b)], [2 * (a * b + c), 1 - a * a + b * b - c * c, 2 * (b * c - a)], [2 * (a * c - b), 2 * (b * c + a), 1 - a * a - b * b + c * c]]
    return Mx(3, 3, [[D(M[i][j] / n * (sigma if j == 2 else 1)) for j in range(3)] for i in range(3)]), {}


def ortho(n, tag, sigma):
    return ortho2(tag, sigma) if n == 2 else ortho3(tag, sigma)


def mx_equal(a, b):
    return a.r == b.r and a.c == b.c and all(rvc.nf_zero(a.g(i, j).v - b.g(i, j).v) for i in range(a.r) for j in range(a.c))


class QRObj:
    """HouseholderQR object under its assumed contract"""
    def __init__(s, M, Q, log):
        s.M, s.Q, s.log = M, Q, log
    def householderQ(s):
        if s.Q is None:
            raise rvc.Unsupported('householderQ() of a decomposition whose factor is not part of the contract instance')
        return s.Q.copy()
    def solve(s, b):
        z = Mx.sym('z%d_' % len(s.log), s.M.c)
        s.log.append((s.M.copy(), b.copy(), z))
        return z.copy()


def qr_fns():
    fns = rvc.functions(rvc.ast('tools/src/libtools/linalg.cc', 'linalg_constrained_qrsolve'))
    if 'linalg_constrained_qrsolve' not in fns:
        raise core.Undecided('front end: linalg_constrained_qrsolve not found')
    return fns


def job_qrsolve(n, k, m, sigma, seed):
    """n unknowns, k constraints, m rows"""
    rvc.reset()
    fns = qr_fns()
    fn = fns['linalg_constrained_qrsolve'][0]
    F = 'linalg_constrained_qrsolve'
    bound = '%d unknowns, %d constraints, %d rows, det Q = %+d' % (n, k, m, sigma)
    tag = 'n%dk%dm%d%s' % (n, k, m, 'p' if sigma > 0 else 'm')
    Q, dom = ortho(n, 'q', sigma)
    R = Mx(n, k, [[D(sp.Symbol('R%d%d' % (i, j), real=True)) if i <= j else D(0) for j in range(k)] for i in range(n)])
    constr = (Q * R).transpose()
    A = Mx.sym('A', m, n)
    b = Mx.sym('b', m)
    log, made = [], []
    def decl(ex_, vd, ty, inner):
        if 'HouseholderQR' in ty:
            arg = rvc.rval(ex_.expr(inner[0]['inner'][0])) if inner and inner[0].get('inner') else None
            if not isinstance(arg, Mx):
                raise rvc.Unsupported('HouseholderQR constructed from %r' % type(arg))
            o = QRObj(arg.copy(), Q if mx_equal(arg, Q * R) else None, log)
            made.append(o)
            return o
        return NotImplemented
    obs = []
    for zero_col in (False, True):
        cb = {'decl': decl, 'isApproxToConstant': lambda col, v, tol: zero_col}
        ex = Exec({'A': A.copy(), 'b': b.copy(), 'constr': constr.copy()}, cb, {}, None)
        res, thrown = None, False
        try:
            ex.stmt(rvc.body_of(fn))
        except Ret as r:
            res = r.v
        except Thrown:
            thrown = True
        if zero_col:
            ok = thrown
            obs.append(Ob('C06.qrsolve/%s/zero-column' % tag, F, 'a design matrix with an (approximately) zero column is rejected', 'RVC', 'symbolic execution', core.BOUNDED if ok else core.REFUTED, 0, '', witness=None if ok else {}, bound=bound))
            continue
        if thrown or not isinstance(res, Mx) or res.r != n or res.c != 1:
            obs.append(Ob('C06.qrsolve/%s/result' % tag, F, 'returns a vector with one entry per unknown', 'RVC', 'symbolic execution', core.REFUTED, 0, 'thrown=%s result=%r' % (thrown, res), witness={}, bound=bound))
            continue
        x = res
        cx = constr * x
        for i in range(k):
            obs.append(rvc.identity('C06.qrsolve/%s/constraint%d' % (tag, i), F, 'constraint row %d holds exactly: (constr x)_%d == 0' % (i, i), cx.g(i, 0).v, 0, seed, domain=dom, bound=bound))
        ok = len(log) == 1
        obs.append(Ob('C06.qrsolve/%s/one-solve' % tag, F, 'exactly one unconstrained least-squares solve', 'RVC', 'symbolic execution', core.BOUNDED if ok else core.REFUTED, 0, 'solves=%d' % len(log), witness=None if ok else {}, bound=bound))
        if not ok:
            continue
        A2, b2, z = log[0]
        normal = A2.transpose() * (A2 * z - b2)          # == 0 by the contract of solve()
        grad = A.transpose() * (A * x - b)
        ok = A2.c == n - k
        obs.append(Ob('C06.qrsolve/%s/dof' % tag, F, 'the reduced problem has (unknowns - constraints) free parameters', 'RVC', 'symbolic execution', core.BOUNDED if ok else core.REFUTED, 0, 'cols=%d' % A2.c, witness=None if ok else {}, bound=bound))
        if not ok:
            continue
        for j in range(n - k):
            nvec = Q.col(k + j)      # basis vector of the null-space of constr (constr Q = [R1^T 0])
            lhs = (nvec.transpose() * grad).scalar()
            obs.append(rvc.identity('C06.qrsolve/%s/nullspace%d' % (tag, j), F, 'residual gradient A^T(Ax-b) is orthogonal to null-space direction %d of the constraints (equals the normal-equation residual that solve() zeroes)' % j,
                                    D.lift(lhs).v, normal.g(j, 0).v, seed, domain=dom, bound=bound))
    for o in obs:
        o['functions'] = [{'name': F, 'file': 'tools/src/libtools/linalg.cc', 'ast_nodes': rvc.node_count(fn)}]
    return obs


class OptVal:
    def __init__(s, v): s.v = v
    def call(s, name, args):
        if name == 'as':
            return s.v
        raise rvc.Unsupported('option value method ' + name)


class OptMap:
    def __init__(s, d): s.d = d
    def index_ref(s, idx):
        k = idx[0]
        if k not in s.d:
            raise rvc.Unsupported('option %r is not part of the contract instance' % (k,))
        return OptVal(s.d[k])
    def count(s, k): return 1 if k in s.d else 0


class TableM:
    """votca::tools::Table as a pair of vectors + flags (assumed contract of the container; Load/Save are ghost events)"""
    def __init__(s, files, saved):
        s.x_, s.y_, s.f_, s.files, s.saved = Mx(0, 1), Mx(0, 1), [], files, saved
    def Load(s, name):
        if name not in s.files:
            raise rvc.Unsupported('Table::Load(%r): not a file of the contract instance' % (name,))
        s.x_, s.y_ = s.files[name][0].copy(), s.files[name][1].copy()
        s.f_ = ['i'] * s.x_.r
    def size(s): return s.x_.r
    def resize(s, n):
        n = rvc._i(n)
        s.x_ = Mx(n, 1, [[D(rvc.fresh('uninit'))] for _ in range(n)]); s.y_ = Mx(n, 1, [[D(rvc.fresh('uninit'))] for _ in range(n)]); s.f_ = ['?'] * n
    def _el(s, v, a):
        i = rvc._i(a[0])
        if not (isinstance(i, int) and 0 <= i < v.r):
            s.saved.append(('__out_of_range__', [(i, v.r)]))      # ghost event: element access outside the table
            return D(rvc.fresh('oob'))
        return v.eref(i)
    def x(s, *a):
        return s.x_ if not a else s._el(s.x_, a)
    def y(s, *a):
        return s.y_ if not a else s._el(s.y_, a)
    def push_back(s, x, y, f):
        s.x_ = Mx.vec([e.v for e in s.x_.flat()] + [D.lift(x).v]); s.y_ = Mx.vec([e.v for e in s.y_.flat()] + [D.lift(y).v]); s.f_.append(f)
    def Save(s, name):
        s.saved.append((name, [(a.v, b.v, f) for a, b, f in zip(s.x_.flat(), s.y_.flat(), s.f_)]))


class ESObj:
    def __init__(s, V, e): s.V, s.e = V, e
    def eigenvalues(s): return s.e
    def eigenvectors(s): return s.V


def job_imcsolve(n, su, sv, tv, seed):
    """csg_imc_solve: (A^T A + r I) y = -A^T b for every real n x n matrix A = U diag(sig) V^T (singular value decomposition: every matrix has one)"""
    rvc.reset()
    fns = rvc.functions(rvc.ast('csg/src/tools/csg_imc_solve.cc', 'CG_IMC_solve'))
    if 'Run' not in fns:
        raise core.Undecided('front end: CG_IMC_solve::Run not found')
    fn = fns['Run'][0]
    F = 'CG_IMC_solve::Run'
    tag = 'n%d%s%s%s' % (n, 'p' if su > 0 else 'm', 'p' if sv > 0 else 'm', 'p' if tv > 0 else 'm')
    bound = '%d x %d matrix; orthogonal factors with det U = %+d, det V = %+d%s' % (n, n, su, sv, (', sin sign %+d' % tv) if n == 2 else '')
    if n == 2:
        U, d1 = ortho2('u', su); V, d2 = ortho2('v', sv, tv)
    else:
        U, d1 = ortho3('u', su); V, d2 = ortho3('v', sv)
    dom = dict(d1); dom.update(d2)
    sig = [sp.Symbol('sig%d' % i, real=True) for i in range(n)]
    reg = sp.Symbol('reg', positive=True)
    dom[reg] = (0.1, 2.0)
    Sg = Mx(n, n, [[D(sig[i]) if i == j else D(0) for j in range(n)] for i in range(n)])
    A = U * Sg * V.transpose()
    bx, by = Mx.sym('bx', n), Mx.sym('by', n)
    E = Mx.vec([g * g for g in sig])
    VEVt = V * Mx(n, n, [[D(sig[i] ** 2) if i == j else D(0) for j in range(n)] for i in range(n)]) * V.transpose()
    UEUt = U * Mx(n, n, [[D(sig[i] ** 2) if i == j else D(0) for j in range(n)] for i in range(n)]) * U.transpose()
    ranges = [{'first': 'A-A', 'second': list(range(1, n))}, {'first': 'B-B', 'second': [n]}]
    saved = []
    files = {'IMCFILE': (bx, by)}
    solver_arg = []
    def decl(ex_, vd, ty, inner):
        if 'SelfAdjointEigenSolver' in ty:
            arg = rvc.rval(ex_.expr(inner[0]['inner'][0]))
            arg = arg.selfadjointViewLower()        # contract of SelfAdjointEigenSolver: only the lower triangle of its argument is referenced
            solver_arg.append(arg.copy())
            if mx_equal(arg, VEVt):
                return ESObj(V.copy(), E.copy())
            if mx_equal(arg, UEUt):
                return ESObj(U.copy(), E.copy())
            raise rvc.Unsupported('SelfAdjointEigenSolver of a matrix that is neither A^T A nor A A^T: no decomposition in the contract instance')
        if re.search(r'\bTable\b', ty):
            return TableM(files, saved)
        return NotImplemented
    P = rvc.Paths()
    obs = []
    while True:
        P.start()
        rvc.CTX.base = [z3.Real('reg') > 0] + [z3.Real('sig%d' % i) * z3.Real('sig%d' % i) + z3.Real('reg') >= z3.RealVal('1e-12') for i in range(n)]
        del saved[:]
        cb = {'decide': P.decide, 'decl': decl, 'OptionsMap': lambda *a: OptMap({'imcfile': 'IMCFILE', 'gmcfile': 'GMCFILE', 'idxfile': 'IDXFILE', 'regularization': D(reg)}),
              'imcio_read_matrix': lambda f: A.copy() if f == 'GMCFILE' else None, 'imcio_read_index': lambda f: [dict(r) for r in ranges] if f == 'IDXFILE' else None,
              'ostream_write': lambda *a: None}
        ex = Exec({}, cb, {}, {'__class__': 'CG_IMC_solve'})
        try:
            ex.stmt(rvc.body_of(fn))
        except Ret:
            pass
        t = 'p%d' % P.count
        xs = ex.env.get('x')
        if not isinstance(xs, TableM) or xs.y_.r != n:
            obs.append(Ob('C06.imcsolve/%s.%s/result' % (tag, t), F, 'a solution vector with one entry per row of the input table', 'RVC', 'symbolic execution', core.REFUTED, 0, '', witness={}, bound=bound))
        else:
            y = xs.y_
            I = Mx(n, n, [[D(1 if i == j else 0) for j in range(n)] for i in range(n)])
            lhs = (A.transpose() * A + I * D(reg)) * y + A.transpose() * by
            for i in range(n):
                obs.append(rvc.identity('C06.imcsolve/%s.%s/normal%d' % (tag, t, i), F, 'row %d of (A^T A + r I) x + A^T b == 0' % i, lhs.g(i, 0).v, 0, seed, domain=dom, bound=bound))
            ok = all(rvc.nf_zero(xs.x_.g(i, 0).v - bx.g(i, 0).v) for i in range(n))
            obs.append(Ob('C06.imcsolve/%s.%s/grid' % (tag, t), F, 'the solution table carries the grid of the input table', 'RVC', 'symbolic execution', core.BOUNDED if ok else core.REFUTED, 0, '', witness=None if ok else {}, bound=bound))
            exp = [(r['first'] + '.dpot.imc', [(bx.g(k - 1, 0).v, y.g(k - 1, 0).v, 'i') for k in r['second']]) for r in ranges]
            oob = [e for e in saved if e[0] == '__out_of_range__']
            obs.append(Ob('C06.imcsolve/%s.%s/in-range' % (tag, t), F, 'every table element access is inside the table', 'RVC', 'symbolic execution', core.BOUNDED if not oob else core.REFUTED, 0, '', witness=None if not oob else {'access': str(oob[:3])}, bound=bound))
            ok = len(saved) == len(exp) and all(a[0] == b[0] and len(a[1]) == len(b[1]) and all(rvc.nf_zero(p[0] - q[0]) and rvc.nf_zero(p[1] - q[1]) and p[2] == q[2] for p, q in zip(a[1], b[1])) for a, b in zip(saved, exp))
            obs.append(Ob('C06.imcsolve/%s.%s/split' % (tag, t), F, 'one <name>.dpot.imc table per index entry, holding exactly rows r-1 of the solution for r in its range, in order, flag i', 'RVC', 'symbolic execution',
                          core.BOUNDED if ok else core.REFUTED, 0, 'saved=%s' % [s_[0] for s_ in saved], witness=None if ok else {'saved': str(saved)[:400]}, bound=bound))
        if not P.next():
            break
    ok = P.count == 1
    obs.append(Ob('C06.imcsolve/%s/paths' % tag, F, 'under the well-posedness precondition (|eigenvalue + r| >= 1e-12) exactly one path (no pseudo-inverse)', 'RVC', 'symbolic execution + z3', core.BOUNDED if ok else core.REFUTED, 0, 'paths=%d' % P.count, witness=None if ok else {}, bound=bound))
    for o in obs:
        o['functions'] = [{'name': F, 'file': 'csg/src/tools/csg_imc_solve.cc', 'ast_nodes': rvc.node_count(fn)}]
    return obs


class NBM(list):
    """NBList model: the pair list is given (the search itself is C03); Generate/setCutoff are ghost events"""
    def __init__(s, pairs, log): list.__init__(s, pairs); s.log = log
    def setCutoff(s, c): s.log.append(('cutoff', c))
    def Generate(s, *a): s.log.append(('generate', len(a)))


class Obj:
    def __init__(s, **kw): s.__dict__.update(kw)
    def call(s, name, args):
        f = s.__dict__.get('m_' + name)
        if f is None:
            raise rvc.Unsupported('method %s of a model object' % name)
        return f(*args)


class RowVec:
    """b_ with symbolic row numbers: the writes are recorded"""
    def __init__(s): s.w = []
    def index_ref(s, idx):
        return rvc.Ref(lambda: (_ for _ in ()).throw(rvc.Unsupported('read of b_')), lambda v, i=idx[0]: s.w.append((SInt.ex(i), D.lift(v).v)))
    def setZero(s): s.w.append(('zero', None))


def implied(claim, pc):
    return rvc.logic('x', 'x', 'x', claim, pc=pc)['status'] == core.PROVED


def fm_fns():
    fns = rvc.functions(rvc.ast('csg/src/tools/csg_fmatch.cc', 'CGForceMatching'))
    for need in ('EvalBonded', 'EvalNonbonded', 'EvalConfiguration'):
        if need not in fns:
            raise core.Undecided('front end: CGForceMatching::%s not found' % need)
    return fns


def fm_this(extra=None):
    off, N, fc, mp = [sp.Symbol(k, integer=True, nonnegative=True) for k in ('off', 'N', 'fc', 'mp')]
    this = {'__class__': 'CGForceMatching', 'least_sq_offset_': SInt(off), 'nbeads_': SInt(N), 'frame_counter_': SInt(fc), 'A_': 'A_', 'b_': RowVec()}
    this.update(extra or {})
    return this, (off, N, fc, mp)


def row_of(off, N, fc, comp, bead):
    """the layout the property anchor names: 3*nbeads rows per frame, x block, y block, z block"""
    return off + 3 * N * fc + comp * N + bead


def job_fmatch_rows(seed):
    """design-matrix rows: model force of every interaction lands in the row of its bead/component, with Newton's third law for pairs; reference forces land in the same rows"""
    rvc.reset()
    fns = fm_fns()
    obs = []
    F = 'CGForceMatching::'
    def mf(name):
        return [{'name': F + name, 'file': 'csg/src/tools/csg_fmatch.cc', 'ast_nodes': rvc.node_count(fns[name][0])}]
    def ob(oid, fn, clause, ok, detail='', bound=None):
        o = Ob(oid, F + fn, clause, 'RVC', 'symbolic execution + exact integer/real normal form', (core.BOUNDED if bound else core.PROVED) if ok else core.REFUTED, 0, detail, witness=None if ok else {'detail': detail[:600]}, bound=bound)
        o['functions'] = mf(fn)
        obs.append(o)
    # the loops over pairs / interactions / beads carry no state from one pass to the next (no local declared outside a loop is assigned inside it): what holds for
    # the generic pairs and interaction below holds for every element of lists of any length
    def carried(fname):
        body = rvc.body_of(fns[fname][0])
        out = set()
        def outer_decls(node, acc):
            for st in node.get('inner', []) or []:
                if st.get('kind') == 'DeclStmt':
                    acc |= set(v.get('name') for v in st.get('inner', []) if v.get('kind') == 'VarDecl')
        decls = set(); outer_decls(body, decls)
        for st in body.get('inner', []) or []:
            if st.get('kind') in ('CXXForRangeStmt', 'ForStmt'):
                out |= rvc.assigned_names(st['inner'][-1]) & decls
        return out
    nostate = {k: carried(k) for k in ('EvalNonbonded', 'EvalBonded')}
    for k, v in nostate.items():
        ob('C06.fmatch.%s/no-carried-state' % ('nonbonded' if k == 'EvalNonbonded' else 'bonded'), k, 'no local declared outside the loop over the %s is assigned inside it (the passes are independent)' % ('pairs' if k == 'EvalNonbonded' else 'interactions'), not v, str(sorted(v)))
    NB_BOUND = None if not nostate['EvalNonbonded'] else '2 pairs'
    B_BOUND = None if not nostate['EvalBonded'] else 'one interaction'
    # --- non-bonded
    for same in (True, False):
        this, (off, N, fc, mp) = fm_this()
        calls, log = [], []
        ids = [sp.Symbol(k, integer=True, nonnegative=True) for k in ('i0', 'j0', 'i1', 'j1')]
        rv = [Mx.sym('ra', 3), Mx.sym('rb', 3)]
        dist = [rvc.d_sqrt(r.squaredNorm()) for r in rv]
        pairs = [Obj(m_first=lambda k=k: Obj(m_getId=lambda k=k: SInt(ids[2 * k])), m_second=lambda k=k: Obj(m_getId=lambda k=k: SInt(ids[2 * k + 1])), m_dist=lambda k=k: dist[k], m_r=lambda k=k: rv[k].copy()) for k in range(2)]
        spline = Obj(m_AddToFitMatrix=lambda M, x, o1, o2, sc: calls.append((M, D.lift(x).v, SInt.ex(o1), SInt.ex(o2), D.lift(sc).v)))
        opts = Obj(m_get=lambda k: Obj(m_as=lambda: D(sp.Symbol('cut', positive=True)) if k == 'fmatch.max' else 'simple'), m_exists=lambda k: False)
        sinfo = {'Spline': spline, 'matr_pos': SInt(mp), 'type1': 'A', 'type2': 'A' if same else 'B', 'options_': opts}
        this['options_'] = opts
        def decl(ex_, vd, ty, inner):
            if ty.endswith('BeadList'):
                return Obj(m_Generate=lambda *a: log.append(('beadlist', a[1])))
            if 'unique_ptr' in ty and (not inner or not inner[0].get('inner')):
                return None
            return NotImplemented
        cb = {'decl': decl, 'make_unique': lambda *a: NBM(pairs, log), 'exists': lambda o, k: False}
        ex = Exec({'conf': 'CONF', 'sinfo': sinfo}, cb, {}, this)
        try:
            ex.stmt(rvc.body_of(fns['EvalNonbonded'][0]))
        except Ret:
            pass
        tag = 'same' if same else 'cross'
        ob('C06.fmatch.nonbonded/%s/calls' % tag, 'EvalNonbonded', 'six design-matrix contributions per pair (3 components x 2 beads), all into A_ at the column block of this interaction, evaluated at the pair distance',
           len(calls) == 12 and all(c[0] == 'A_' and sp.simplify(c[3] - mp) == 0 for c in calls) and all(rvc.nf_zero(c[1] - dist[k // 6].v) for k, c in enumerate(calls)), 'calls=%d' % len(calls), bound=NB_BOUND)
        if len(calls) == 12:
            for k in range(2):
                u = rv[k] * (1 / dist[k])
                got = {}
                for c in calls[6 * k:6 * k + 6]:
                    got.setdefault(sp.expand(c[2]), []).append(c[4])
                good = True
                for comp in range(3):
                    ri, rj = sp.expand(row_of(off, N, fc, comp, ids[2 * k])), sp.expand(row_of(off, N, fc, comp, ids[2 * k + 1]))
                    gi, gj = got.get(ri, []), got.get(rj, [])
                    good = good and len(gi) == 1 and len(gj) == 1 and rvc.nf_zero(gi[0] - u.g(comp, 0).v) and rvc.nf_zero(gj[0] + u.g(comp, 0).v)
                ob('C06.fmatch.nonbonded/%s/pair%d' % (tag, k), 'EvalNonbonded', 'pair %d: bead i gets +u_c f(r), bead j gets -u_c f(r) (u = r_ij/|r_ij|, Newton\'s third law), each in row offset + 3 N frame + c N + bead' % k, good, str(got)[:500], bound=NB_BOUND)
        gen = [e for e in log if e[0] == 'generate']
        ob('C06.fmatch.nonbonded/%s/search' % tag, 'EvalNonbonded', 'one neighbour search: over one bead list for equal types, over two for different types', len(gen) == 1 and gen[0][1] == (2 if same else 3), str(log)[:300])
    # --- bonded
    for nb_ in (2, 3, 4):
        this, (off, N, fc, mp) = fm_this()
        calls = []
        ids = [sp.Symbol('id%d' % k, integer=True, nonnegative=True) for k in range(nb_)]
        grads = [Mx.sym('g%d' % k, 3) for k in range(nb_)]
        var = sp.Symbol('var', real=True)
        inter = Obj(m_BeadCount=lambda: nb_, m_EvaluateVar=lambda c: D(var), m_getBeadId=lambda k: SInt(ids[rvc._i(k)]), m_Grad=lambda c, k: grads[rvc._i(k)].copy())
        spline = Obj(m_AddToFitMatrix=lambda M, x, o1, o2, sc: calls.append((M, D.lift(x).v, SInt.ex(o1), SInt.ex(o2), D.lift(sc).v)))
        sinfo = {'Spline': spline, 'matr_pos': SInt(mp), 'splineName': 'bond'}
        cb = {'InteractionsInGroup': lambda c, name: [inter] if name == 'bond' else []}
        ex = Exec({'conf': 'CONF', 'sinfo': sinfo}, cb, {}, this)
        try:
            ex.stmt(rvc.body_of(fns['EvalBonded'][0]))
        except Ret:
            pass
        good = len(calls) == 3 * nb_ and all(c[0] == 'A_' and sp.simplify(c[3] - mp) == 0 and rvc.nf_zero(c[1] - var) for c in calls)
        got = {}
        for c in calls:
            got.setdefault(sp.expand(c[2]), []).append(c[4])
        for k in range(nb_):
            for comp in range(3):
                g = got.get(sp.expand(row_of(off, N, fc, comp, ids[k])), [])
                good = good and len(g) == 1 and rvc.nf_zero(g[0] + grads[k].g(comp, 0).v)
        ob('C06.fmatch.bonded/beads%d' % nb_, 'EvalBonded', 'every bead k of the interaction gets -d(var)/d(r_k)_c f(var) in row offset + 3 N frame + c N + bead, at the column block of the interaction, evaluated at the interaction variable', good, str(got)[:500],
           bound=B_BOUND)
    # --- reference forces and block boundary
    for constrained in (True, False):
        P = rvc.Paths()
        while True:
            P.start()
            NB = 2
            this, (off, N, fc, mp) = fm_this({'nbeads_': NB, 'has_existing_forces_': False, 'constr_least_sq_': constrained, 'nblocks_': SInt(sp.Symbol('nblk', integer=True, nonnegative=True)),
                                              'nframes_': SInt(sp.Symbol('nfr', integer=True, positive=True)), 'B_constr_': 'B_constr_'})
            rvc.CTX.base = [z3.Int('fc') >= 0, z3.Int('nfr') >= 1, z3.Int('fc') < z3.Int('nfr'), z3.Int('off') >= 0, z3.Int('nblk') >= 0]
            ev = []
            frc = [Mx.sym('F%d' % k, 3) for k in range(NB)]
            beads = [Obj(m_HasF=lambda: True, m_getF=lambda k=k: frc[k]) for k in range(NB)]
            conf = Obj(m_BeadCount=lambda: NB, m_getBead=lambda k: beads[rvc._i(k)])
            this['splines_'] = [{'bonded': True, 'threebody': False}, {'bonded': False, 'threebody': False}, {'bonded': False, 'threebody': True}]
            class AM:
                def setZero(s_): ev.append('A_.setZero')
            this['A_'] = AM()
            b = this['b_']
            cb = {'decide': P.decide, 'EvalBonded': lambda *a: ev.append('bonded'), 'EvalNonbonded': lambda *a: ev.append('nonbonded'), 'EvalNonbonded_Threebody': lambda *a: ev.append('threebody'),
                  'FmatchAccumulateData': lambda *a: ev.append(('accumulate', this['frame_counter_'], len(b.w))), 'WriteOutFiles': lambda *a: ev.append('write'),
                  'FmatchAssignSmoothCondsToMatrix': lambda o, M: ev.append(('smooth', 'A_' if isinstance(M, AM) else M)), 'ostream_write': lambda *a: None}
            ex = Exec({'conf': conf}, cb, {}, this)
            thrown = False
            try:
                ex.stmt(rvc.body_of(fns['EvalConfiguration'][0]))
            except Ret:
                pass
            except Thrown:
                thrown = True
            t = '%s.p%d' % ('constrained' if constrained else 'simple', P.count)
            writes = [w for w in b.w if w[0] != 'zero']
            good = (not thrown) and len(writes) == 3 * NB
            for k in range(NB):
                for comp in range(3):
                    hit = [w for w in writes if sp.expand(w[0] - row_of(off, NB, fc, comp, k)) == 0]
                    good = good and len(hit) == 1 and rvc.nf_zero(hit[0][1] - frc[k].g(comp, 0).v)
            ob('C06.fmatch.config/%s/reference' % t, 'EvalConfiguration', 'the reference force component c of bead k is stored in row offset + 3 N frame + c N + k (the row the model contributions of that bead/component use)', good, str(writes)[:400], bound='%d beads' % NB)
            ob('C06.fmatch.config/%s/dispatch' % t, 'EvalConfiguration', 'every interaction is evaluated once by the routine of its kind, before the reference forces are stored', ev[:3] == ['bonded', 'nonbonded', 'threebody'], str(ev)[:300], bound='3 interactions')
            fc1 = this['frame_counter_']
            end = any(isinstance(e, tuple) and e[0] == 'accumulate' for e in ev)
            if end:
                acc = [e for e in ev if isinstance(e, tuple) and e[0] == 'accumulate'][0]
                exp_tail = ['write'] + (['A_.setZero'] if constrained else []) + [('smooth', 'B_constr_' if constrained else 'A_')]
                tail = [e for e in ev[3:] if not (isinstance(e, tuple) and e[0] == 'accumulate')]
                zero_b = [w for w in b.w if w[0] == 'zero']
                good = sp.expand(SInt.ex(acc[1]) - (fc + 1)) == 0 and acc[2] == 3 * NB and sorted(map(str, tail)) == sorted(map(str, exp_tail)) and len(zero_b) == 1 and SInt.ex(fc1) == 0 \
                    and sp.expand(SInt.ex(this['nblocks_']) - sp.Symbol('nblk', integer=True, nonnegative=True) - 1) == 0
                ob('C06.fmatch.config/%s/block-end' % t, 'EvalConfiguration', 'a block ends exactly when the frame count reaches a multiple of frames-per-block: the system is solved with all frames of the block stored, results written, matrices cleared, smoothing conditions re-installed, frame counter reset',
                   good and implied(z3.Int('fc') + 1 == z3.Int('nfr'), P.pc), str(ev)[:300], bound='%d beads' % NB)
            else:
                good = sp.expand(SInt.ex(fc1) - fc - 1) == 0 and not [w for w in b.w if w[0] == 'zero'] and len(ev) == 3
                ob('C06.fmatch.config/%s/mid-block' % t, 'EvalConfiguration', 'inside a block only the frame counter advances (nothing solved, cleared or written)', good and implied(z3.Int('fc') + 1 < z3.Int('nfr'), P.pc), str(ev)[:300], bound='%d beads' % NB)
            if not P.next():
                break
    return obs


def replay_periodic(o):
    """native replay: real FmatchAssignSmoothCondsToMatrix + real linalg_constrained_qrsolve on one periodic bonded interaction"""
    try:
        exe = native.build('C06.periodic', open(os.path.join(core.VERIF, 'contracts', 'C06', 'replay_periodic_constraints.cc')).read(), [], sanitize=False, opt='-O1',
                           extra=['-I' + core.REPO, '-I' + os.path.join(core.REPO, 'csg/src/tools')], libs=native.libs())
    except core.Undecided as e:
        o['replay'] = {'reproduced': False, 'error': str(e)}
        return
    rc, out, err = native.execute(exe, ['p'], timeout=120)
    o['replay'] = {'reproduced': rc == 1, 'cmd': exe + ' p', 'rc': rc, 'stdout': (out or '')[-900:], 'stderr': (err or '')[-300:],
                   'against': 'real CGForceMatching::FmatchAssignSmoothCondsToMatrix (csg_fmatch.cc) + CubicSpline + linalg_constrained_qrsolve from the working tree: one periodic bonded interaction, reference data generated exactly from a spline that satisfies every condition'}
    if rc == 1:
        o['witness'] = dict(o.get('witness') or {}, input='one bonded interaction with fmatch.periodic = 1, grid -3:1:3, constrained least squares')


def job_fmatch_layout(seed):
    """column/row layout of the least-squares system: BeginEvaluate, FmatchAssignSmoothCondsToMatrix and FmatchAccumulateData agree on the column block of every interaction"""
    rvc.reset()
    fns = fm_fns()
    for need in ('BeginEvaluate', 'FmatchAssignSmoothCondsToMatrix', 'FmatchAccumulateData'):
        if need not in fns:
            raise core.Undecided('front end: CGForceMatching::%s not found' % need)
    obs = []
    F = 'CGForceMatching::'
    def ob(oid, fn, clause, ok, detail='', bound=None):
        o = Ob(oid, F + fn, clause, 'RVC', 'symbolic execution + exact integer normal form', (core.BOUNDED if bound else core.PROVED) if ok else core.REFUTED, 0, detail, witness=None if ok else {'detail': detail[:600]}, bound=bound)
        o['functions'] = [{'name': F + fn, 'file': 'csg/src/tools/csg_fmatch.cc', 'ast_nodes': rvc.node_count(fns[fn][0])}]
        obs.append(o)
    sx = lambda a: a.e if isinstance(a, SInt) else (D.lift(a).v if isinstance(a, D) else sp.sympify(a))
    eq = lambda a, b: sp.expand(sx(a) - sx(b)) == 0
    g = [sp.Symbol('g%d' % k, integer=True, positive=True) for k in range(3)]       # grid points of the three interactions
    Nb, nfr = sp.Symbol('Nb', integer=True, positive=True), sp.Symbol('nfr', integer=True, positive=True)
    for constrained in (True, False):
        for periodic0 in (False, True):
            bound = '2 bonded (first %speriodic) + 1 non-bonded interaction, symbolic grid sizes' % ('' if periodic0 else 'not ')
            ev = []
            this = {'__class__': 'CGForceMatching', 'splines_': [], 'bonded_': ['pb0', 'pb1'], 'nonbonded_': ['pn0'], 'has_existing_forces_': False, 'A_': None, 'b_': None, 'x_': None, 'B_constr_': None,
                    'nblocks_': SInt(sp.Symbol('u1', integer=True)), 'line_cntr_': SInt(sp.Symbol('u2', integer=True)), 'col_cntr_': SInt(sp.Symbol('u3', integer=True)), 'frame_counter_': SInt(sp.Symbol('u4', integer=True)),
                    'least_sq_offset_': SInt(sp.Symbol('u5', integer=True)), 'nbeads_': SInt(sp.Symbol('u6', integer=True)), 'nframes_': SInt(sp.Symbol('u7', integer=True)), 'dist_': D(rvc.fresh('uninit')), 'constr_least_sq_': None}
            optv = {'cg.fmatch.frames_per_block': SInt(nfr), 'cg.fmatch.constrainedLS': constrained}
            this['options_'] = Obj(m_exists=lambda k: False, m_get=lambda k: Obj(m_as=lambda: optv[k]))
            def emplace(lst, idx, bonded, col, prop):
                k = len(lst)
                lst.append({'splineIndex': idx, 'bonded': bonded, 'matr_pos': col, 'num_gridpoints': SInt(g[k]), 'num_splinefun': SInt(g[k] - 1), 'periodic': 1 if (k == 0 and periodic0) else 0, 'prop': prop})
            class Z:
                def __init__(s_, *d): s_.d = d
                def setZero(s_): ev.append(('setZero', s_))
                def _part(s_, *a):
                    class Part:
                        def setZero(p_): ev.append(('setZero-part', s_, a))
                    return Part()
                topRows = bottomRows = leftCols = rightCols = block = row = col = topLeftCorner = _part
            cb = {'emplace_back': emplace, 'Zero': lambda *d: Z(*d), 'BeadCount': lambda t: SInt(Nb), 'ostream_write': lambda *a: None,
                  'FmatchAssignSmoothCondsToMatrix': lambda o, M: ev.append(('smooth', M))}
            ex = Exec({'top': 'TOP'}, cb, {}, this)
            try:
                ex.stmt(rvc.body_of(fns['BeginEvaluate'][0]))
            except Ret:
                pass
            t = '%s.%s' % ('constrained' if constrained else 'simple', 'periodic' if periodic0 else 'plain')
            sp_ = this['splines_']
            cols = [0, 2 * g[0], 2 * g[0] + 2 * g[1]]
            ob('C06.fmatch.layout/%s/columns' % t, 'BeginEvaluate', 'interaction k owns the column block [sum_{j<k} 2 g_j, + 2 g_k): blocks are adjacent and disjoint, in the order bonded then non-bonded; total columns sum 2 g_k',
               len(sp_) == 3 and all(eq(sp_[k]['matr_pos'], cols[k]) for k in range(3)) and [x['bonded'] for x in sp_] == [True, True, False] and eq(this['col_cntr_'], 2 * sum(g)), str([x['matr_pos'] for x in sp_]), bound=bound)
            lines = sum(g) + (1 if periodic0 else 0)
            ok = eq(this['line_cntr_'], lines) and eq(this['least_sq_offset_'], 0 if constrained else lines) and eq(this['frame_counter_'], 0) and eq(this['nblocks_'], 0) and eq(this['nbeads_'], Nb) and eq(this['nframes_'], nfr)
            rows = (0 if constrained else lines) + 3 * Nb * nfr
            A, b, x, B = this['A_'], this['b_'], this['x_'], this['B_constr_']
            ok = ok and isinstance(A, Z) and len(A.d) == 2 and eq(A.d[0], rows) and eq(A.d[1], 2 * sum(g)) and isinstance(b, Z) and len(b.d) == 1 and eq(b.d[0], rows) and isinstance(x, Z) and eq(x.d[0], 2 * sum(g))
            if constrained:
                ok = ok and isinstance(B, Z) and eq(B.d[0], lines) and eq(B.d[1], 2 * sum(g)) and [e for e in ev if e[0] == 'smooth'] == [('smooth', B)]
            else:
                ok = ok and [e for e in ev if e[0] == 'smooth'] == [('smooth', A)]
            ob('C06.fmatch.layout/%s/sizes' % t, 'BeginEvaluate', 'one smoothing row per grid point (+1 for a periodic interaction); design matrix has (offset + 3 N frames-per-block) rows and sum 2 g_k columns; offset = number of smoothing rows in the plain variant, 0 in the constrained one; the smoothing conditions go to B_constr_ (constrained) or A_ (plain)',
               ok, 'line=%s off=%s' % (this['line_cntr_'], this['least_sq_offset_']), bound=bound)
            # smoothing conditions: same column blocks
            calls = []
            for k in range(3):
                sp_[k]['Spline'] = Obj(m_AddBCToFitMatrix=lambda M, l, c, k=k: calls.append(('bc', k, SInt.ex(l), SInt.ex(c))), m_AddBCSumZeroToFitMatrix=lambda M, l, c, k=k: calls.append(('sum0', k, SInt.ex(l), SInt.ex(c))))
            Mz = Z()
            ex = Exec({'Matrix': Mz}, {}, {}, this)
            ev[:] = []
            try:
                ex.stmt(rvc.body_of(fns['FmatchAssignSmoothCondsToMatrix'][0]))
            except Ret:
                pass
            # every reserved row carries exactly one condition (precondition of the constrained solve: full row rank - no empty row, no condition overwritten):
            # AddBCToFitMatrix(M, l, c) fills rows [l, l+g) (checked under C12), AddBCSumZeroToFitMatrix(M, l, c) fills row l
            l0 = [0, g[0] + (1 if periodic0 else 0), g[0] + (1 if periodic0 else 0) + g[1]]
            exp = []
            for k in range(3):
                exp.append(('bc', k, l0[k], cols[k]))
                if k == 0 and periodic0:
                    exp.append(('sum0', k, l0[k] + g[k], cols[k]))
            ok = len(calls) == len(exp) and all(a[0] == b_[0] and a[1] == b_[1] and eq(a[2], b_[2]) and eq(a[3], b_[3]) for a, b_ in zip(calls, exp)) and ev == [('setZero', Mz)]
            ob('C06.fmatch.layout/%s/smoothing' % t, 'FmatchAssignSmoothCondsToMatrix', 'the WHOLE matrix is cleared once (EvalConfiguration relies on this to clear the design matrix between blocks in the plain variant); the g_k continuity/end conditions of interaction k fill rows [l_k, l_k + g_k) where l_k follows the rows of interaction k-1, at the column block BeginEvaluate assigned to k; '
               'the sum-zero condition of a periodic interaction fills the additional reserved row l_k + g_k: no reserved row stays empty and no condition is overwritten (the constrained solve requires full row rank)', ok, str(calls)[:400], bound=bound)
            if not ok and periodic0:
                replay_periodic(obs[-1])
    # accumulate: the solution vector is cut at the same column blocks
    for constrained in (True, False):
        gp = [2, 3]
        x = Mx.sym('x', 2 * sum(gp))
        log = []
        def mk(k):
            return {'matr_pos': [0, 4][k], 'num_gridpoints': gp[k], 'threebody': False, 'num_outgrid': 2, 'dx_out': D(sp.Symbol('dx%d' % k, positive=True)), 'block_res_f': Mx(0, 1), 'block_res_f2': Mx(0, 1),
                    'resSum': Mx.sym('rs%d_' % k, 2), 'resSum2': Mx.sym('rq%d_' % k, 2),
                    'Spline': Obj(m_setSplineData=lambda f, f2, k=k: log.append(('data', k, f.copy(), f2.copy())), m_getGridPoint=lambda i, k=k: D(sp.Symbol('x0_%d' % k, real=True)),
                                  m_Calculate=lambda xx, k=k: D(sp.Function('S%d' % k)(D.lift(xx).v)))}
        spl = [mk(0), mk(1)]
        old = [(s_['resSum'].copy(), s_['resSum2'].copy()) for s_ in spl]
        this = {'__class__': 'CGForceMatching', 'constr_least_sq_': constrained, 'A_': 'A_', 'b_': 'b_', 'B_constr_': 'B_', 'x_': Mx(0, 1), 'splines_': spl, 'nbeads_': 2, 'frame_counter_': 1}
        def decl(ex_, vd, ty, inner):
            if 'HouseholderQR' in ty:
                arg = rvc.rval(ex_.expr(inner[0]['inner'][0]))
                log.append(('qr', arg))
                return Obj(m_solve=lambda bb: (log.append(('solve', bb)), x.copy())[1])
            if vd['name'] in ('residual', 'fm_resid'):
                return D(0) if vd['name'] == 'fm_resid' else Mx(1, 1)
            return NotImplemented
        cb = {'decl': decl, 'linalg_constrained_qrsolve': lambda A, b, B: (log.append(('cqr', A, b, B)), x.copy())[1], 'ostream_write': lambda *a: None}
        ex = Exec({}, cb, {}, this)
        try:
            ex.stmt(rvc.body_of(fns['FmatchAccumulateData'][0]))
        except Ret:
            pass
        t = 'constrained' if constrained else 'simple'
        src = [e for e in log if e[0] in ('cqr', 'qr', 'solve')]
        ok = (src == [('cqr', 'A_', 'b_', 'B_')]) if constrained else (src == [('qr', 'A_'), ('solve', 'b_')])
        ob('C06.fmatch.layout/%s/solve' % t, 'FmatchAccumulateData', 'the block is solved once: constrained variant by linalg_constrained_qrsolve(A_, b_, B_constr_), plain variant by the QR least-squares solve of A_ x = b_', ok, str(src)[:200], bound='2 interactions')
        data = [e for e in log if e[0] == 'data']
        ok = len(data) == 2
        for k in range(2 if ok else 0):
            mp, n_ = [0, 4][k], gp[k]
            f, f2 = data[k][2], data[k][3]
            ok = ok and data[k][1] == k and f.r == n_ and f2.r == n_ and all(rvc.nf_zero(f.g(i, 0).v - x.g(mp + i, 0).v) and rvc.nf_zero(f2.g(i, 0).v - x.g(mp + n_ + i, 0).v) for i in range(n_))
        ob('C06.fmatch.layout/%s/cut' % t, 'FmatchAccumulateData', 'interaction k receives x[matr_pos : matr_pos+g) as knot values and x[matr_pos+g : matr_pos+2g) as knot curvatures (the layout AddToFitMatrix writes)', ok, '', bound='2 interactions (2 and 3 grid points)')
        ok = True
        for k in range(2):
            for i in range(2):
                xx = sp.Symbol('x0_%d' % k, real=True) + i * sp.Symbol('dx%d' % k, positive=True)
                Sv = sp.Function('S%d' % k)(xx)
                ok = ok and rvc.nf_zero(sp.expand(spl[k]['resSum'].g(i, 0).v - old[k][0].g(i, 0).v - Sv)) and rvc.nf_zero(sp.expand(spl[k]['resSum2'].g(i, 0).v - old[k][1].g(i, 0).v - Sv * Sv))
        ob('C06.fmatch.layout/%s/block-sum' % t, 'FmatchAccumulateData', 'output point i accumulates S(x0 + i dx) and its square once per block (block average and error are formed from these sums)', ok, '', bound='2 interactions, 2 output points')
    return obs


def job_readmatrix(rows, cols, seed):
    """imcio_read_matrix: entry (i,j) of the returned matrix is token j of data line i (what imcio_write_matrix writes).  Eigen::Map enters by its contract:
    it views the buffer in the storage order of its matrix type - column-major unless the type says RowMajor"""
    rvc.reset()
    fns = rvc.functions(rvc.ast('csg/src/libcsg/imcio.cc', 'imcio_read_matrix'))
    if 'imcio_read_matrix' not in fns:
        raise core.Undecided('front end: imcio_read_matrix not found')
    fn = fns['imcio_read_matrix'][0]
    F = 'imcio_read_matrix'
    bound = '%d x %d file (one comment line)' % (rows, cols)
    val = {'t%d_%d' % (i, j): sp.Symbol('a%d%d' % (i, j), real=True) for i in range(rows) for j in range(cols)}
    lines = ['# comment'] + [' '.join('t%d_%d' % (i, j) for j in range(cols)) for i in range(rows)]
    pos = [0]
    def getline(stream, line):
        if pos[0] >= len(lines):
            return False
        line.set(lines[pos[0]]); pos[0] += 1
        return True
    getline.by_ref = True
    maps = []
    def construct(ex_, n, ty, args):
        full = ty + ' ' + n['type'].get('desugaredQualType', '')
        if 'Map<' in full:
            a = [rvc.rval(ex_.expr(x)) for x in args]
            data, r, c = a[0], rvc._i(a[1]), rvc._i(a[2])
            rowmajor = 'RowMajor' in full or re.search(r'Matrix<double, -1, -1, 1', full) is not None
            maps.append((r, c, rowmajor, len(data)))
            if r * c != len(data):
                raise rvc.Unsupported('Eigen::Map over %d values with shape %dx%d' % (len(data), r, c))
            return Mx(r, c, [[D.lift(data[i * c + j] if rowmajor else data[i + j * r]) for j in range(c)] for i in range(r)])
        return NotImplemented
    def decl(ex_, vd, ty, inner):
        if 'ifstream' in ty:
            return {'__class__': 'ifstream'}
        if 'Tokenizer' in ty:
            line = rvc.rval(ex_.expr(inner[0]['inner'][0]))
            return Obj(m_ToVector=lambda: [t for t in line.replace('\t', ' ').split(' ') if t])
        return NotImplemented
    cb = {'getline': getline, 'construct': construct, 'decl': decl, 'open': lambda *a: None, 'close': lambda *a: None, 'stream_fail': lambda st: False, 'stod': lambda t: D(val[t])}
    ex = Exec({'filename': 'FILE'}, cb, {}, None)
    res = None
    try:
        ex.stmt(rvc.body_of(fn))
    except Ret as r:
        res = r.v
    obs = []
    ok = isinstance(res, Mx) and res.r == rows and res.c == cols
    obs.append(Ob('C06.readmatrix/%dx%d/shape' % (rows, cols), F, 'the matrix has one row per data line and one column per token', 'RVC', 'symbolic execution', core.BOUNDED if ok else core.REFUTED, 0, str(maps), witness=None if ok else {}, bound=bound))
    if ok:
        bad = [(i, j, str(res.g(i, j).v)) for i in range(rows) for j in range(cols) if not rvc.nf_zero(res.g(i, j).v - val['t%d_%d' % (i, j)])]
        o = Ob('C06.readmatrix/%dx%d/layout' % (rows, cols), F, 'entry (i,j) of the returned matrix is token j of data line i (the layout imcio_write_matrix writes: the matrix csg_imc_solve works on is the one in the file, not its transpose)', 'RVC',
               'symbolic execution + contract of Eigen::Map (storage order of the mapped type)', core.BOUNDED if not bad else core.REFUTED, 0, 'mismatches (i, j, got): %s' % bad[:6],
               witness=None if not bad else {'file': '%d x %d matrix with distinct entries' % (rows, cols), 'first_mismatch': str(bad[0])}, bound=bound)
        obs.append(o)
        if bad:
            replay_readmatrix(o, rows, cols)
    for o in obs:
        o['functions'] = [{'name': F, 'file': 'csg/src/libcsg/imcio.cc', 'ast_nodes': rvc.node_count(fn)}]
    return obs


def replay_readmatrix(o, rows, cols):
    try:
        exe = native.build('C06.readmatrix', open(os.path.join(core.VERIF, 'contracts', 'C06', 'replay_readmatrix.cc')).read(), [], sanitize=False, opt='-O1', libs=native.libs())
    except core.Undecided as e:
        o['replay'] = {'reproduced': False, 'error': str(e)}
        return
    tmp = os.path.join(core.VERIF, 'build', 'tmp')
    os.makedirs(tmp, exist_ok=True)
    f = os.path.join(tmp, 'c06_matrix_%d.txt' % os.getpid())
    rc, out, err = native.execute(exe, [str(rows), str(cols), f], timeout=60)
    o['replay'] = {'reproduced': rc == 1, 'cmd': '%s %d %d %s' % (exe, rows, cols, f), 'rc': rc, 'stdout': (out or '')[-800:], 'stderr': (err or '')[-300:],
                   'against': 'real imcio_write_matrix + imcio_read_matrix (libvotca_csg from the working tree): write a matrix with distinct entries, read it back'}


def collect(obs):
    seen = set(f['name'] for f in META['functions'])
    for o in obs:
        for f in o.pop('functions', []) or []:
            if f['name'] not in seen:
                seen.add(f['name'])
                META['functions'].append(f)


def run(tier, seed, only=None):
    shapes = [(2, 1, 2), (2, 1, 3), (3, 1, 3), (3, 2, 3)] + ([(3, 1, 4), (3, 2, 4)] if tier == 'thorough' else [])
    jobs = []
    for (n, k, m) in shapes:
        for sg in (1, -1):
            jobs.append((job_qrsolve, (n, k, m, sg, seed)))
    for su in (1, -1):
        for sv in (1, -1):
            for tv in (1, -1):
                jobs.append((job_imcsolve, (2, su, sv, tv, seed)))
            if tier == 'thorough':
                jobs.append((job_imcsolve, (3, su, sv, 1, seed)))
    jobs.append((job_fmatch_rows, (seed,)))
    jobs.append((job_fmatch_layout, (seed,)))
    jobs += [(job_readmatrix, (r, c, seed)) for r, c in ((2, 2), (2, 3), (3, 2))]
    if only:
        jobs = [j for j in jobs if re.search(only, j[0].__name__)] or jobs
    obs = core.pmap(jobs)
    if only:
        obs = [o for o in obs if re.search(only, o['id'])]
    collect(obs)
    return obs, META
