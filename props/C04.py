"""C04 - csg_stat distributions (partial): running frame averages, shell-volume normalisation and its inverse, pair normalisation, IMC block
layout and covariance assembly, block restart (DESIGN.md section 5, C04)"""
import os, re, itertools
import math
from fractions import Fraction
import sympy as sp
import z3
from vlib import core, rvc
from vlib.core import Ob
from vlib.rvc import D, Mx, Exec, Ret, Thrown, SInt
PIQ = rvc.float_literal(repr(math.pi))      # the value of the M_PI literal as the executor reads it

REL = 'csg/src/tools/csg_stat_imc.cc'
META = {
    'level': 'proof', 'functions': [],
    'trusted_base': ['clang 14 AST = the code g++ compiles', 'RVC executor; std::map / std::vector / HistogramNew / Table accessors as models (assumed contracts)', 'machine arithmetic treated as mathematical',
                     'M_PI enters as the rational value of its double literal (the shell-volume identity is proved with pi as a symbol separately)'],
    'assumptions': ['sign convention of the written IMC matrix: the code writes <S_i><S_j> - <S_i S_j> (the negative covariance) in every block; the check requires ONE sign for all blocks and reports it, it does not raise a violation on the convention'],
    'not_decided': ['histogram filling through the neighbour search (C03) and HistogramNew::Process (C13)', 'Table / file output and equality with an independent recomputation of a whole trajectory',
                    'three-body and bonded normalisation beyond "unit integral"', 'average force tables'],
}


def fns_all():
    fns = rvc.functions(rvc.ast(REL, 'Imc::'))
    for need in ('MergeWorker', 'DoCorrelations', 'ClearAverages', 'WriteDist', 'CalcDeltaS', 'InitializeGroups', 'WriteIMCData', 'BeginEvaluate'):
        if need not in fns:
            raise core.Undecided('front end: Imc::%s not found' % need)
    return fns


class Hist:
    """HistogramNew / Table stand-in: data().y() is an Mx of symbolic bin contents"""
    def __init__(s, name, n, ev):
        s.name, s.n, s.ev = name, n, ev
        s.tab = {'y': Mx.vec([sp.Symbol('%s_%d' % (name, i), real=True) for i in range(n)]), 'x': Mx.vec([sp.Symbol('x%s_%d' % (name, i), real=True) for i in range(n)])}
    def call(s, name, args):
        if name == 'data': return s.tab
        if name == 'getNBins': return s.n
        if name == 'Clear':
            s.ev.append(('clear', s.name)); s.tab['y'] = Mx(s.n, 1); return None
        if name == 'getMax': return D(sp.Symbol('max_' + s.name, positive=True))
        raise rvc.Unsupported('HistogramNew::' + name)


def table_cb():
    return {'y': lambda t: t['y'], 'x': lambda t: t['x']}


def mf(fns, names):
    return [{'name': 'Imc::' + k, 'file': REL, 'ast_nodes': rvc.node_count(fns[k][0])} for k in names]


def job_merge(seed, nb=3):
    """MergeWorker / DoCorrelations: running averages, frame counter, block restart"""
    rvc.reset()
    fns = fns_all()
    obs = []
    F = 'Imc::MergeWorker'
    for blk, doimc in ((0, True), (3, True), (3, False)):
        P = rvc.Paths()
        while True:
            P.start()
            n0 = sp.Symbol('nf', integer=True)
            rvc.CTX.base = [z3.Int('nf') >= 0]
            ev = []
            a1, a2 = Hist('avgA', nb, ev), Hist('avgB', 2, ev)
            c1, c2 = Hist('curA', nb, ev), Hist('curB', 2, ev)
            i1 = {'index_': 0, 'average_': a1, 'force_': False, 'average_force_': Hist('fA', nb, ev)}
            i2 = {'index_': 1, 'average_': a2, 'force_': False, 'average_force_': Hist('fB', 2, ev)}
            corr = Mx.sym('M', nb, 2)
            corr0 = corr.copy()
            grp = {'pairs_': [{'i1_': i1, 'i2_': i2, 'corr_': corr}], 'corr_': {'zero': False}}
            worker = {'cur_vol_': D(sp.Symbol('vol', positive=True)), 'current_hists_': [c1, c2], 'current_hists_force_': []}
            this = {'processed_some_frames_': False, 'nframes_': SInt(n0), 'avg_vol_': 'AVGVOL', 'interactions_': [{'first': 'A', 'second': i1}, {'first': 'B', 'second': i2}], 'do_imc_': doimc,
                    'groups_': [{'first': 'g', 'second': grp}], 'block_length_': blk, 'nblock_': 0, 'extension_': 'new'}
            y0 = {'A': [e.v for e in a1.tab['y'].flat()], 'B': [e.v for e in a2.tab['y'].flat()]}
            def isZero(m, *a):
                # Eigen isZero(): all coefficients (approximately) zero; on the true branch the vector IS zero from here on
                z = P.decide(sp.And(*[sp.Eq(e.v, 0) for e in m.flat()]))
                if z:
                    m.assign(Mx(m.r, m.c))
                return z
            cb = dict(table_cb(), **{'decide': P.decide, 'isZero': isZero, 'Process': lambda o, v: ev.append(('vol', v)), 'lexical_cast': lambda *a: 'n',
                                     'WriteDist': lambda o, sfx: ev.append(('WriteDist',)), 'WriteIMCData': lambda o, sfx: ev.append(('WriteIMCData',)), 'WriteIMCBlock': lambda o, sfx: ev.append(('WriteIMCBlock',)),
                                     'setZero': lambda m: (m.__setitem__('zero', True) if isinstance(m, dict) else m.assign(Mx(m.r, m.c)))})
            ex = Exec({'worker_': worker}, cb, {k: v for k, v in fns.items() if k in ('DoCorrelations', 'ClearAverages')}, this)
            try:
                ex.stmt(rvc.body_of(fns['MergeWorker'][0]))
            except Ret:
                pass
            tag = 'blk%d.imc%d.p%d' % (blk, doimc, P.count)
            n1 = n0 + 1
            restarted = ('WriteDist',) in ev
            if blk == 0:
                okb = not restarted
            else:
                # restart exactly when the new frame count is a multiple of the block length
                okb = None
            if not restarted:
                obs.append(rvc.identity('C04.merge/%s/count' % tag, F, 'frame counter incremented exactly once', SInt.ex(this['nframes_']), n1, seed))
                for key, h, cur in (('A', a1, c1), ('B', a2, c2)):
                    for i in range(h.n):
                        obs.append(rvc.identity('C04.merge/%s/avg%s%d' % (tag, key, i), F, 'running average: new == ((n-1) old + current)/n with n the new frame count (so old = S/(n-1) gives (S + x)/n; n = 1 gives x)',
                                                h.tab['y'].g(i).v * n1, (n1 - 1) * y0[key][i] + cur.tab['y'].g(i).v, seed))
                if doimc:
                    for i in range(nb):
                        for j in range(2):
                            obs.append(rvc.identity('C04.merge/%s/corr%d%d' % (tag, i, j), 'Imc::DoCorrelations', 'running average of the outer product: M_new n == (n-1) M_old + a_i b_j',
                                                    corr.g(i, j).v * n1, (n1 - 1) * corr0.g(i, j).v + c1.tab['y'].g(i).v * c2.tab['y'].g(j).v, seed))
                else:
                    same = all(rvc.nf_zero(corr.g(i, j).v - corr0.g(i, j).v) for i in range(nb) for j in range(2))
                    obs.append(Ob('C04.merge/%s/noimc' % tag, 'Imc::DoCorrelations', 'without --do-imc the correlation matrices are not touched', 'RVC', 'normal form', core.PROVED if same else core.REFUTED, 0, '', witness=None if same else {}))
            else:
                seq = [e[0] for e in ev if e[0] in ('WriteDist', 'WriteIMCData', 'WriteIMCBlock', 'clear')]
                okseq = seq[:3] == ['WriteDist', 'WriteIMCData', 'WriteIMCBlock'] and seq.count('clear') == 2 and grp['corr_']['zero'] and rvc.nf_zero(SInt.ex(this['nframes_'])) and this['nblock_'] == 1
                obs.append(Ob('C04.merge/%s/block-restart' % tag, F, 'end of a block: distributions and IMC data are written once, then the frame counter and every average restart from zero', 'RVC', 'symbolic execution',
                              core.PROVED if okseq else core.REFUTED, 0, str(seq), witness=None if okseq else {'events': str(seq)}))
            if blk:
                obs.append(rvc.logic('C04.merge/%s/block-cond' % tag, F, 'a block ends exactly when the new frame count is a multiple of the block length', ((z3.Int('nf') + 1) % blk == 0) if restarted else ((z3.Int('nf') + 1) % blk != 0), pc=P.pc))
            okvol = [e for e in ev if e[0] == 'vol']
            obs.append(Ob('C04.merge/%s/volume' % tag, F, 'the box volume of the frame enters the volume average exactly once', 'RVC', 'symbolic execution', core.PROVED if len(okvol) == 1 else core.REFUTED, 0, '', witness=None if len(okvol) == 1 else {'n': len(okvol)}))
            if not P.next():
                break
    for o in obs:
        o['functions'] = mf(fns, ['MergeWorker', 'DoCorrelations', 'ClearAverages'])
    return obs


def job_writedist(seed, nb=2):
    """WriteDist (non-bonded two-body): exact shell-volume normalisation; bonded: unit integral;  CalcDeltaS: exact inverse"""
    rvc.reset()
    fns = fns_all()
    obs = []
    V, nrm, st = sp.Symbol('Vavg', positive=True), sp.Symbol('norm', positive=True), sp.Symbol('step', positive=True)
    PI = sp.Rational(sp.Float(3.14159265358979323846, 17)) if False else None
    for bonded in (False, True):
        P = rvc.Paths()
        while True:
            P.start()
            rvc.CTX.base = [z3.Real('step') > 0, z3.Real('norm') > 0, z3.Real('Vavg') > 0]
            ev, saved = [], {}
            avg = Hist('h', nb, ev)
            inter = {'average_': avg, 'force_': False, 'average_force_': Hist('f', nb, ev), 'is_bonded_': bonded, 'threebody_': False, 'norm_': D(nrm), 'step_': D(st)}
            this = {'interactions_': [{'first': 'A', 'second': inter}], 'avg_vol_': 'AVGVOL'}
            def construct(ex, n, ty, args):
                if ty.endswith('Table'):
                    if args:
                        src = rvc.rval(ex.expr(args[0]))
                        return {'y': src['y'].copy(), 'x': src['x'].copy()}
                    return {'y': Mx(0, 1), 'x': Mx(0, 1)}
                return NotImplemented
            def cwiseAbs(m):
                return Mx.vec([(e if P.decide(sp.Ge(e.v, 0)) else -e) for e in m.flat()])
            cb = dict(table_cb(), **{'decide': P.decide, 'construct': construct, 'getAvg': lambda o: D(V), 'Save': lambda t, name: saved.__setitem__(name, t), 'cwiseAbs': cwiseAbs,
                                     'decl': lambda ex, vd, ty, inner: ({'y': Mx(0, 1), 'x': Mx(0, 1)} if ty.endswith('Table') and not inner else NotImplemented)})
            ex = Exec({'suffix': '.dist.new'}, cb, {}, this)
            try:
                ex.stmt(rvc.body_of(fns['WriteDist'][0]))
            except Ret:
                pass
            tag = '%s.p%d' % ('bonded' if bonded else 'nb', P.count)
            if 'A.dist.new' not in saved:
                obs.append(Ob('C04.dist/%s/saved' % tag, 'Imc::WriteDist', 'the distribution is written', 'RVC', 'symbolic execution', core.REFUTED, 0, str(list(saved)), witness={'saved': list(saved)}))
            else:
                out = saved['A.dist.new']['y']
                y0 = [sp.Symbol('h_%d' % i, real=True) for i in range(nb)]
                x0 = [sp.Symbol('xh_%d' % i, real=True) for i in range(nb)]
                same_src = all(rvc.nf_zero(avg.tab['y'].g(i).v - y0[i]) for i in range(nb))
                obs.append(Ob('C04.dist/%s/source-kept' % tag, 'Imc::WriteDist', 'the running average itself is not modified by writing', 'RVC', 'normal form', core.PROVED if same_src else core.REFUTED, 0, '', witness=None if same_src else {}))
                if not bonded:
                    for i in range(nb):
                        x1 = x0[i] - st / 2
                        x2 = x1 + st
                        sol = z3.Solver(); sol.add(*rvc.CTX.base); sol.add(*P.pc); sol.add(rvc.to_z3(x1) >= 0)
                        neg = sol.check() == z3.unsat
                        pi = sp.Symbol('pi', positive=True)
                        got = out.g(i).v
                        # replace the M_PI literal by the symbol pi to state the formula
                        spec = sp.Integer(0) if neg else V * nrm * y0[i] / (sp.Rational(4, 3) * PIQ * (x2 ** 3 - x1 ** 3))
                        obs.append(rvc.identity('C04.dist/%s/shell%d' % (tag, i), 'Imc::WriteDist', 'bin value == Vavg * norm * y_i / (4 pi/3 ((x_i+step/2)^3 - (x_i-step/2)^3)), and 0 when the bin starts below r = 0', got, spec, seed))
                else:
                    S = sum(sp.Abs(v) for v in y0)
                    integ = sum((out.g(i).v if P.feas(rvc.to_z3(sp.Ge(y0[i], 0))) and not P.feas(rvc.to_z3(sp.Lt(y0[i], 0))) else (-out.g(i).v if not P.feas(rvc.to_z3(sp.Ge(y0[i], 0))) else None) or sp.Integer(0)) for i in range(nb))
                    # on a definite sign pattern: sum |y'| * step == norm (unit integral for norm = 1, the value bonded interactions get)
                    signs = []
                    for i in range(nb):
                        pos = P.feas(rvc.to_z3(sp.Ge(y0[i], 0)))
                        negs = P.feas(rvc.to_z3(sp.Lt(y0[i], 0)))
                        signs.append(1 if pos and not negs else (-1 if negs and not pos else 0))
                    if all(signs):
                        tot = sum(signs[i] * out.g(i).v for i in range(nb)) * st
                        nz = P.feas(rvc.to_z3(sp.Gt(sum(signs[i] * y0[i] for i in range(nb)), 0)))
                        if nz:
                            obs.append(rvc.identity('C04.dist/%s/unit-integral' % tag, 'Imc::WriteDist', 'bonded: sum |y_i| * step == norm_ (= 1 for bonded interactions): unit integral, ratios unchanged', tot, nrm, seed))
            if not P.next():
                break
    # shell volume = integral of 4 pi r^2 over the bin (pi symbolic)
    r, a, b, pi = sp.symbols('r a b pi', positive=True)
    obs.append(rvc.identity('C04.dist/shell-volume', 'Imc::WriteDist', '4 pi/3 (b^3 - a^3) == integral_a^b 4 pi r^2 dr (exact spherical shell volume)', sp.Rational(4, 3) * pi * (b ** 3 - a ** 3), sp.integrate(4 * pi * r ** 2, (r, a, b)), seed))
    # CalcDeltaS: de-normalisation of the target is the exact inverse of the WriteDist normalisation
    P = rvc.Paths()
    while True:
        P.start()
        rvc.CTX.base = [z3.Real('step') > 0, z3.Real('norm') > 0, z3.Real('Vavg') > 0]
        ev = []
        avg = Hist('h', nb, ev)
        tgt = {'y': Mx.vec([sp.Symbol('t_%d' % i, real=True) for i in range(nb)]), 'x': Mx.vec([sp.Symbol('xt_%d' % i, real=True) for i in range(nb)])}
        t0 = [e.v for e in tgt['y'].flat()]
        inter = {'average_': avg, 'is_bonded_': False, 'norm_': D(nrm), 'step_': D(st), 'p_': 'PROP'}
        dS = Mx(nb, 1)
        cb = dict(table_cb(), **{'decide': P.decide, 'getAvg': lambda o: D(V), 'get': lambda p, k: 'P', 'as': lambda p: 'name', 'Load': lambda t, name: None,
                                 'decl': lambda ex, vd, ty, inner: (tgt if ty.endswith('Table') else NotImplemented)})
        ex = Exec({'interaction': inter, 'dS': dS}, cb, {}, {'avg_vol_': 'AVGVOL'})
        try:
            ex.stmt(rvc.body_of(fns['CalcDeltaS'][0]))
        except Ret:
            pass
        for i in range(nb):
            x1 = sp.Symbol('xt_%d' % i, real=True) - st / 2
            sol = z3.Solver(); sol.add(*rvc.CTX.base); sol.add(*P.pc); sol.add(rvc.to_z3(x1) >= 0)
            if sol.check() == z3.unsat:
                continue
            x2 = x1 + st
            got = avg.tab['y'].g(i).v - dS.g(i).v            # the de-normalised target
            shell = sp.Rational(4, 3) * PIQ * (x2 ** 3 - x1 ** 3)
            obs.append(rvc.identity('C04.dS/p%d/inverse%d' % (P.count, i), 'Imc::CalcDeltaS', 'dS = average - denorm(target) and norm(denorm(t)) == t: denorm(t) * Vavg * norm / shell == t for bins at or above r = step/2',
                                    got * V * nrm / shell, t0[i], seed))
        if not P.next():
            break
    for o in obs:
        o['functions'] = mf(fns, ['WriteDist', 'CalcDeltaS'])
    return obs


def job_groups(seed):
    """InitializeGroups / WriteIMCData: pair blocks tile the upper block triangle; offsets are prefix sums; the written matrix is symmetric with one sign of the covariance"""
    rvc.reset()
    fns = fns_all()
    obs = []
    for sizes in ((2,), (2, 3), (1, 2, 2)):
        ev = []
        hs = [Hist('S%d' % k, n, ev) for k, n in enumerate(sizes)]
        inters = [{'index_': k, 'average_': h, 'p_': 'P%d' % k} for k, h in enumerate(hs)]
        grp = {'pairs_': [], 'interactions_': inters, 'corr_': Mx(0, 0)}
        this = {'do_imc_': True, 'groups_': [{'first': 'g', 'second': grp}]}
        def construct(ex, n, ty, args):
            if ty.endswith('pair_t'):
                v = [rvc.rval(ex.expr(a)) for a in args]
                return {'i1_': v[0], 'i2_': v[1], 'offset_i_': v[2], 'offset_j_': v[3], 'corr_': v[4]}
            return NotImplemented
        ex = Exec({}, dict(table_cb(), construct=construct), {}, this)
        try:
            ex.stmt(rvc.body_of(fns['InitializeGroups'][0]))
        except Ret:
            pass
        N = sum(sizes)
        tag = 'sizes%s' % '_'.join(map(str, sizes))
        bound = 'interaction bin counts %s' % (sizes,)
        M = grp['corr_']
        pre = [sum(sizes[:k]) for k in range(len(sizes))]
        exp = [(i, j) for i in range(len(sizes)) for j in range(i, len(sizes))]
        got = [(p['i1_']['index_'], p['i2_']['index_'], rvc._i(p['offset_i_']), rvc._i(p['offset_j_']), p['corr_'].r, p['corr_'].c, p['corr_'].r0, p['corr_'].c0, p['corr_'].base is M) for p in grp['pairs_']]
        ok = (M.r, M.c) == (N, N) and [(g[0], g[1]) for g in got] == exp and all(g[2] == pre[g[0]] and g[3] == pre[g[1]] and g[4] == sizes[g[0]] and g[5] == sizes[g[1]] and g[6] == g[2] and g[7] == g[3] and g[8] for g in got)
        obs.append(Ob('C04.groups/%s/layout' % tag, 'Imc::InitializeGroups', 'one block per interaction pair i <= j, at the prefix-sum offsets, of size n_i x n_j, a view into the n x n group matrix: the blocks tile the upper block triangle without overlap',
                      'RVC', 'symbolic execution', core.BOUNDED if ok else core.REFUTED, 0, str(got)[:300], bound=bound, witness=None if ok else {'pairs': str(got)[:400]}))
        allz = all(rvc.nf_zero(M.g(i, j).v) for i in range(N) for j in range(N))
        obs.append(Ob('C04.groups/%s/zeroed' % tag, 'Imc::InitializeGroups', 'the group matrix starts from zero', 'RVC', 'normal form', core.BOUNDED if allz else core.REFUTED, 0, '', bound=bound, witness=None if allz else {}))
        # WriteIMCData on symbolic contents
        C = Mx.sym('c', N, N)
        # precondition: the stored diagonal blocks are symmetric (they are running averages of a a^T)
        for bi in range(len(sizes)):
            for i in range(pre[bi], pre[bi] + sizes[bi]):
                for j in range(pre[bi], i):
                    C.p(i, j, C.g(j, i))
        M.assign(C)
        written = {}
        dsrec = []
        def construct2(ex, n, ty, args):
            if 'group_matrix' in ty or re.search(r'Matrix<double, -1, -1', n['type'].get('desugaredQualType', ty)):
                if len(args) == 1:
                    return rvc.rval(ex.expr(args[0])).copy()
            if ty.endswith('RangeParser'):
                return {'ranges': []}
            if 'pair<' in ty and len(args) == 2:
                return {'first': rvc.rval(ex.expr(args[0])), 'second': rvc.rval(ex.expr(args[1]))}
            return NotImplemented
        def decl2(ex, vd, ty, inner):
            if ty.endswith('Table'):
                return {'y': Mx(0, 1), 'x': Mx(0, 1)}
            if ty.endswith('RangeParser'):
                return {'ranges': []}
            return NotImplemented
        def resize(t, n):
            t['y'], t['x'] = Mx(rvc._i(n), 1), Mx(rvc._i(n), 1)
        def calc(o, ic, sub):
            dsrec.append((ic['index_'], sub.r0, sub.r))
        cb2 = dict(table_cb(), construct=construct2, decl=decl2, resize=resize, CalcDeltaS=calc, get=lambda p, k: p, Add=lambda rp, b, e: rp['ranges'].append((rvc._i(b), rvc._i(e))),
                   imcio_write_dS=lambda name, t: written.__setitem__('dS', t), imcio_write_matrix=lambda name, m: written.__setitem__('gmc', m), imcio_write_index=lambda name, r: written.__setitem__('idx', r))
        cb2['as'] = lambda p: p
        ex = Exec({'suffix': '.new'}, cb2, {}, this)
        try:
            ex.stmt(rvc.body_of(fns['WriteIMCData'][0]))
        except Ret:
            pass
        if 'gmc' not in written:
            obs.append(Ob('C04.imc/%s/written' % tag, 'Imc::WriteIMCData', 'the IMC matrix is written', 'RVC', 'symbolic execution', core.REFUTED, 0, str(list(written)), witness={'written': list(written)}))
            continue
        G = written['gmc']
        S = []
        for h in hs:
            S += [e.v for e in h.tab['y'].flat()]
        signs = set()
        okform = True
        for i in range(N):
            for j in range(i, N):
                cov = C.g(i, j).v - S[i] * S[j]          # <S_i S_j> - <S_i><S_j> from the stored upper blocks
                if rvc.nf_zero(G.g(i, j).v - cov): signs.add(1)
                elif rvc.nf_zero(G.g(i, j).v + cov): signs.add(-1)
                else: okform = False
        # entries inside a diagonal block below the diagonal come from the stored block itself (not mirrored): compare with the stored values
        obs.append(Ob('C04.imc/%s/covariance' % tag, 'Imc::WriteIMCData', 'every entry on or above the diagonal is (+ or -, one sign for the whole matrix) (<S_i S_j> - <S_i><S_j>)', 'RVC', 'normal form',
                      core.BOUNDED if okform and len(signs) == 1 else core.REFUTED, 0, 'sign %s' % sorted(signs), bound=bound, witness=None if okform and len(signs) == 1 else {'signs': sorted(signs), 'form': okform}))
        offd = [(i, j) for bi in range(len(sizes)) for bj in range(bi + 1, len(sizes)) for i in range(pre[bi], pre[bi] + sizes[bi]) for j in range(pre[bj], pre[bj] + sizes[bj])]
        sym = all(rvc.nf_zero(G.g(j, i).v - G.g(i, j).v) for i, j in offd)
        obs.append(Ob('C04.imc/%s/symmetric' % tag, 'Imc::WriteIMCData', 'the lower off-diagonal blocks are the transposes of the upper ones (symmetric matrix)', 'RVC', 'normal form', core.BOUNDED if sym else core.REFUTED, 0, '', bound=bound,
                      witness=None if sym else {}))
        rng = [r['second']['ranges'][0] for r in written.get('idx', [])]
        exp_r = [(pre[k] + 1, pre[k] + sizes[k]) for k in range(len(sizes))]
        obs.append(Ob('C04.imc/%s/index' % tag, 'Imc::WriteIMCData', 'index ranges are 1..n1, n1+1..n1+n2, ... in interaction order, and dS sub-vectors sit at the same offsets', 'RVC', 'symbolic execution',
                      core.BOUNDED if rng == exp_r and dsrec == [(k, pre[k], sizes[k]) for k in range(len(sizes))] else core.REFUTED, 0, '%s %s' % (rng, dsrec), bound=bound,
                      witness=None if rng == exp_r else {'ranges': str(rng)}))
    for o in obs:
        o['functions'] = mf(fns, ['InitializeGroups', 'WriteIMCData'])
    return obs


class BeadListM:
    def __init__(s):
        s.n = None
    def call(s, name, args):
        if name == 'Generate':
            s.n = s.sizes[args[1]]
            return None
        if name == 'size':
            return s.n
        raise rvc.Unsupported('BeadList::' + name)


class StrMap:
    def __init__(s, d):
        s.d = d
    def index_ref(s, idx):
        k = idx[0]
        return rvc.Ref(lambda: s.d[k], lambda v: s.d.__setitem__(k, v))


def job_groups_symbolic(seed):
    """InitializeGroups with SYMBOLIC bin counts per interaction (1, 2 or 3 interactions): block (i,j), i <= j, sits at the prefix-sum offsets with size n_i x n_j; the group matrix is n x n with n = sum n_k"""
    rvc.reset()
    fns = fns_all()
    obs = []
    F = 'Imc::InitializeGroups'
    for ni in (1, 2, 3):
        g = [sp.Symbol('bins%d' % k, integer=True, positive=True) for k in range(ni)]
        class H:
            def __init__(s_, k): s_.k = k
            def call(s_, name, args):
                if name == 'getNBins': return SInt(g[s_.k])
                raise rvc.Unsupported('HistogramNew::' + name)
        class MatM:
            """the group matrix: Zero(n, n) and block views as ghost values (sizes are symbolic)"""
            def __init__(s_): s_.dims = None
            def call(s_, name, args):
                if name == 'block': return ('block', s_) + tuple(SInt.ex(a) for a in args)
                raise rvc.Unsupported('MatrixXd::' + name)
        M = MatM()
        inters = [{'index_': k, 'average_': H(k), 'p_': 'P%d' % k} for k in range(ni)]
        grp = {'pairs_': ['stale'], 'interactions_': inters, 'corr_': M}
        this = {'do_imc_': True, 'groups_': [{'first': 'g', 'second': grp}]}
        def construct(ex_, n, ty, args):
            if ty.endswith('pair_t'):
                v = [rvc.rval(ex_.expr(a)) for a in args]
                return {'i1_': v[0], 'i2_': v[1], 'offset_i_': v[2], 'offset_j_': v[3], 'corr_': v[4]}
            return NotImplemented
        zero = []
        def store_zero(*d):
            zero.append(tuple(SInt.ex(x) for x in d)); M.dims = zero[-1]; return M
        cb = dict(table_cb(), construct=construct, Zero=store_zero)
        ex = Exec({}, cb, {}, this)
        try:
            ex.stmt(rvc.body_of(fns['InitializeGroups'][0]))
        except Ret:
            pass
        pre = [sum(g[:k], sp.Integer(0)) for k in range(ni)]
        exp = [(i, j) for i in range(ni) for j in range(i, ni)]
        pairs = grp['pairs_']
        eq = lambda a, b: sp.expand(SInt.ex(a) if isinstance(a, (int, SInt)) else a) - sp.expand(b) == 0
        ok = len(pairs) == len(exp) and all(isinstance(p, dict) for p in pairs)
        if ok:
            for p, (i, j) in zip(pairs, exp):
                blk = p['corr_']
                ok = ok and p['i1_'] is inters[i] and p['i2_'] is inters[j] and eq(p['offset_i_'], pre[i]) and eq(p['offset_j_'], pre[j]) and isinstance(blk, tuple) and blk[0] == 'block' \
                    and sp.expand(blk[2] - pre[i]) == 0 and sp.expand(blk[3] - pre[j]) == 0 and sp.expand(blk[4] - g[i]) == 0 and sp.expand(blk[5] - g[j]) == 0
        okz = len(zero) == 1 and all(sp.expand(z_ - sum(g)) == 0 for z_ in zero[0]) and len(zero[0]) == 2 and grp['corr_'] is M
        o = Ob('C04.groups.sym/n%d/layout' % ni, F, 'stale pairs are dropped; one block per interaction pair i <= j, in order, at the prefix-sum offsets (sum_{t<i} n_t, sum_{t<j} n_t) with size n_i x n_j, for EVERY bin count',
               'RVC', 'symbolic execution + exact integer normal form', core.BOUNDED if ok else core.REFUTED, 0, str([(p.get('offset_i_'), p.get('offset_j_')) for p in pairs if isinstance(p, dict)])[:300],
               bound='%d interactions (bin counts symbolic)' % ni, witness=None if ok else {'pairs': str(pairs)[:400]})
        o['functions'] = mf(fns, ['InitializeGroups']); obs.append(o)
        o = Ob('C04.groups.sym/n%d/matrix' % ni, F, 'the group matrix is the n x n zero matrix with n = sum of the bin counts', 'RVC', 'symbolic execution', core.BOUNDED if okz else core.REFUTED, 0, str(zero), bound='%d interactions (bin counts symbolic)' % ni,
               witness=None if okz else {'zero': str(zero)})
        o['functions'] = mf(fns, ['InitializeGroups']); obs.append(o)
    return obs


def job_norm(seed):
    """BeginEvaluate: pair normalisation 2/(n1 n2) for equal types, 1/(n1 n2) otherwise (so an ideal gas gives 1)"""
    rvc.reset()
    fns = fns_all()
    obs = []
    n1, n2 = sp.Symbol('n1', integer=True), sp.Symbol('n2', integer=True)
    for same in (True, False):
        P = rvc.Paths()
        while True:
            P.start()
            rvc.CTX.base = [z3.Int('n1') >= 0, z3.Int('n2') >= 0] + ([z3.Int('n1') == z3.Int('n2')] if same else [])
            inter = {'threebody_': False, 'average_': Hist('a', 2, []), 'norm_': D(rvc.fresh('uninit'))}
            types = {'type1': 'A', 'type2': 'A' if same else 'B'}
            sizes = {'A': SInt(n1), 'B': SInt(n2)}
            if same:
                sizes = {'A': SInt(n1)}
            class PropM:
                def __init__(s, key=None): s.key = key
            def decl(ex, vd, ty, inner):
                if ty.endswith('BeadList'):
                    b = BeadListM(); b.sizes = sizes
                    return b
                return NotImplemented
            cb = {'decide': P.decide, 'decl': decl, 'get': lambda p, k: PropM(k), 'value': lambda p: ('I' if p.key == 'name' else types.get(p.key, p.key)), 'ShortestBoxSize': lambda t: D(sp.Symbol('hbox', positive=True)),
                  'InteractionsInGroup': lambda t, n: ['x'], 'empty': lambda v: len(v) == 0}
            this = {'nframes_': 0, 'nblock_': 0, 'processed_some_frames_': True, 'nonbonded_': [PropM()], 'bonded_': [], 'interactions_': StrMap({'I': inter})}
            ex = Exec({'top': 'TOP'}, cb, {}, this)
            thrown = False
            try:
                ex.stmt(rvc.body_of(fns['BeginEvaluate'][0]))
            except Ret:
                pass
            except Thrown:
                thrown = True
            tag = '%s.p%d' % ('same' if same else 'cross', P.count)
            if not thrown:
                m2 = n1 if same else n2
                exp = (2 if same else 1) / (sp.Symbol('n1', integer=True) * m2)
                obs.append(rvc.identity('C04.norm/%s/value' % tag, 'Imc::BeginEvaluate', 'pair normalisation == %s/(n1 n2)' % ('2' if same else '1'), inter['norm_'].v, exp, seed))
                obs.append(rvc.logic('C04.norm/%s/nonempty' % tag, 'Imc::BeginEvaluate', 'a normalisation is only computed for non-empty bead lists', z3.And(z3.Int('n1') > 0, z3.Int('n2') > 0) if not same else z3.Int('n1') > 0, pc=P.pc))
                ok0 = this['nframes_'] == 0 and this['processed_some_frames_'] is False
                obs.append(Ob('C04.norm/%s/reset' % tag, 'Imc::BeginEvaluate', 'frame counter reset before the first frame', 'RVC', 'symbolic execution', core.PROVED if ok0 else core.REFUTED, 0, '', witness=None if ok0 else {}))
            if not P.next():
                break
    for o in obs:
        o['functions'] = mf(fns, ['BeginEvaluate'])
    return obs


def job_nonbonded(seed):
    """Imc::Worker::DoNonbonded, two-body branch: which beads are searched, with which cutoff, into which histogram, and whether bonded exclusions apply (--include-intra)"""
    rvc.reset()
    fns = rvc.functions(rvc.ast(REL, 'Imc::Worker::DoNonbonded'))
    if 'DoNonbonded' not in fns:
        raise core.Undecided('front end: Imc::Worker::DoNonbonded not found')
    fn = fns['DoNonbonded'][0]
    hdr = open(os.path.join(core.REPO, 'csg/include/votca/csg/nblist.h')).read()
    dflt = re.findall(r'Generate\s*\([^;{]*?bool\s+do_exclusions\s*=\s*(true|false)\s*\)', hdr)
    if not dflt or len(set(dflt)) != 1:
        raise core.Undecided('front end: default of NBList::Generate(..., do_exclusions) not found in nblist.h')
    default_excl = dflt[0] == 'true'
    F = 'Imc::Worker::DoNonbonded'
    obs = []
    for same in (True, False):
        for intra in (False, True):
            ev = []
            class PropM:
                def __init__(s_, v=None): s_.v = v
                def call(s_, name, args):
                    if name == 'get': return PropM({'name': 'I', 'type1': 'A', 'type2': 'A' if same else 'B'}[args[0]])
                    if name == 'value': return s_.v
                    if name == 'exists': return False
                    raise rvc.Unsupported('Property::' + name)
            class BL:
                def __init__(s_): s_.t = None
                def call(s_, name, args):
                    if name == 'Generate':
                        s_.t = args[1]; ev.append(('beadlist', args[1])); return None
                    raise rvc.Unsupported('BeadList::' + name)
            class NB(list):
                def setCutoff(s_, c): ev.append(('cutoff', D.lift(c).v))
                def SetMatchFunction(s_, h, f=None): ev.append(('match', h))
                def Generate(s_, *a):
                    lists = [x.t for x in a if isinstance(x, BL)]
                    flags = [x for x in a if isinstance(x, bool)]
                    ev.append(('search', tuple(lists), flags[0] if flags else default_excl))
            hist, histf = Hist('h', 2, ev), Hist('hf', 2, ev)
            mx_, st_ = sp.Symbol('imax', positive=True), sp.Symbol('istep', positive=True)
            inter = {'index_': 0, 'threebody_': False, 'force_': False, 'max_': D(mx_), 'step_': D(st_), 'cut_': D(0)}
            imc = {'nonbonded_': [PropM()], 'interactions_': StrMap({'I': inter}), 'options_': PropM(), 'include_intra_': intra}
            this = {'__class__': 'Worker', 'imc_': imc, 'current_hists_': [hist], 'current_hists_force_': [histf]}
            def construct(ex_, n, ty, args):
                if re.search(r'unique_ptr<(votca::csg::)?NBList>', ty + n['type'].get('desugaredQualType', '')):
                    return NB()
                return NotImplemented
            def decl(ex_, vd, ty, inner):
                if ty.endswith('BeadList'):
                    return BL()
                if 'IMCNBSearchHandler' in ty:
                    arg = rvc.rval(ex_.expr(inner[0]['inner'][0])) if inner and inner[0].get('inner') else None
                    return {'__class__': 'IMCNBSearchHandler', 'hist': arg}
                if 'unique_ptr' in ty and (not inner or not inner[0].get('inner')):
                    return None
                return NotImplemented
            cb = {'construct': construct, 'decl': decl, 'new': lambda *a: 'NEW', 'SetMatchFunction': lambda nb, h, *a: nb.SetMatchFunction(h)}
            ex = Exec({'top': 'TOP'}, cb, {}, this)
            try:
                ex.stmt(rvc.body_of(fn))
            except Ret:
                pass
            t = '%s.%s' % ('same' if same else 'cross', 'intra' if intra else 'excl')
            search = [e for e in ev if e[0] == 'search']
            exp_lists = ('A',) if same else ('A', 'B')
            ok = len(search) == 1 and search[0][1] == exp_lists
            o = Ob('C04.nonbonded/%s/lists' % t, F, 'one pair search: over the beads of type1 alone for equal types, over (type1, type2) otherwise', 'RVC', 'symbolic execution', core.PROVED if ok else core.REFUTED, 0, str(ev)[:300], witness=None if ok else {'events': str(ev)[:300]})
            obs.append(o)
            ok = len(search) == 1 and search[0][2] == (not intra)
            o = Ob('C04.nonbonded/%s/exclusions' % t, F, 'bonded exclusions are applied exactly when --include-intra is off (default of an omitted argument read from nblist.h: %s)' % default_excl, 'RVC', 'symbolic execution',
                   core.PROVED if ok else core.REFUTED, 0, str(search), witness=None if ok else {'include_intra': intra, 'types': 'equal' if same else 'different', 'search': str(search)})
            obs.append(o)
            cut = [e for e in ev if e[0] == 'cutoff']
            ok = len(cut) == 1 and sp.expand(cut[0][1] - mx_ - st_) == 0
            obs.append(Ob('C04.nonbonded/%s/cutoff' % t, F, 'search cutoff == max + step of the interaction (every pair that can fall into the last bin is found)', 'RVC', 'symbolic execution', core.PROVED if ok else core.REFUTED, 0, str(cut), witness=None if ok else {}))
            order = [e[0] for e in ev if e[0] in ('clear', 'search')]
            m = [e for e in ev if e[0] == 'match']
            ok = order[:1] == ['clear'] and ('clear', 'h') in ev and order.index('search') > ev.index(('clear', 'h')) - 10 and len(m) == 1 and isinstance(m[0][1], dict) and m[0][1].get('hist') is hist
            obs.append(Ob('C04.nonbonded/%s/histogram' % t, F, 'the histogram of this interaction is cleared before the search and is the one the pair handler fills', 'RVC', 'symbolic execution', core.PROVED if ok else core.REFUTED, 0, str(ev)[:300], witness=None if ok else {}))
    for o in obs:
        o['functions'] = [{'name': F, 'file': REL, 'ast_nodes': rvc.node_count(fn)}]
    return obs


def job_nonbonded3(seed):
    """Imc::Worker::DoNonbonded, three-body branch: which triple search runs for which combination of the three bead types, with which cutoff, and which angle
    goes into which histogram.  The three Generate overloads of NBList_3Body mean: (l) all three beads from l; (l1, l2) centre from l1, both others from l2;
    (l1, l2, l3) centre from l1, second from l2, third from l3 - so the list of type3 must be searched whenever type3 differs from type2."""
    rvc.reset()
    fns = rvc.functions(rvc.ast(REL, 'Imc::Worker::DoNonbonded'))
    if 'DoNonbonded' not in fns:
        raise core.Undecided('front end: Imc::Worker::DoNonbonded not found')
    fn = fns['DoNonbonded'][0]
    F = 'Imc::Worker::DoNonbonded'
    obs = []
    for types in (('A', 'A', 'A'), ('A', 'B', 'B'), ('A', 'A', 'B'), ('A', 'B', 'A'), ('A', 'B', 'C')):
        ev = []
        class PropM:
            def __init__(s_, v=None): s_.v = v
            def call(s_, name, args):
                if name == 'get': return PropM({'name': 'I', 'type1': types[0], 'type2': types[1], 'type3': types[2]}[args[0]])
                if name == 'value': return s_.v
                if name == 'exists': return False
                raise rvc.Unsupported('Property::' + name)
        class BL:
            def __init__(s_): s_.t = None
            def call(s_, name, args):
                if name == 'Generate':
                    s_.t = args[1]; ev.append(('beadlist', args[1])); return None
                raise rvc.Unsupported('BeadList::' + name)
        r12, r13 = Mx.sym('p', 3), Mx.sym('q', 3)
        class Triple:
            def call(s_, name, args):
                if name == 'r12': return r12.copy()
                if name == 'r13': return r13.copy()
                raise rvc.Unsupported('BeadTriple::' + name)
        class NB3(list):
            def setCutoff(s_, c): ev.append(('cutoff', D.lift(c).v))
            def Generate(s_, *a):
                ev.append(('search', tuple(x.t for x in a if isinstance(x, BL)), [x for x in a if isinstance(x, bool)]))
                list.append(s_, Triple())
        class H3(Hist):
            def call(s_, name, args):
                if name == 'Process':
                    ev.append(('process', s_.name, D.lift(args[0]).v)); return None
                return Hist.call(s_, name, args)
        hist, histf = H3('h', 2, ev), H3('hf', 2, ev)
        cut = sp.Symbol('icut', positive=True)
        inter = {'index_': 0, 'threebody_': True, 'force_': False, 'max_': D(sp.Symbol('imax', positive=True)), 'step_': D(sp.Symbol('istep', positive=True)), 'cut_': D(cut)}
        imc = {'nonbonded_': [PropM()], 'interactions_': StrMap({'I': inter}), 'options_': PropM(), 'include_intra_': False}
        this = {'__class__': 'Worker', 'imc_': imc, 'current_hists_': [hist], 'current_hists_force_': [histf]}
        def construct(ex_, n, ty, args):
            if re.search(r'unique_ptr<(votca::csg::)?NBList_3Body', ty + n['type'].get('desugaredQualType', '')):
                return NB3()
            return NotImplemented
        def decl(ex_, vd, ty, inner):
            if ty.endswith('BeadList'):
                return BL()
            if 'unique_ptr' in ty and (not inner or not inner[0].get('inner')):
                return None
            return NotImplemented
        cb = {'construct': construct, 'decl': decl, 'new': lambda *a: 'NEW', 'make_unique': lambda *a: NB3()}
        ex = Exec({'top': 'TOP'}, cb, {}, this)
        try:
            ex.stmt(rvc.body_of(fn))
        except Ret:
            pass
        t = ''.join(types)
        search = [e for e in ev if e[0] == 'search']
        if types[0] == types[1] == types[2]:
            exp = (types[0],)
        elif types[1] == types[2]:
            exp = (types[0], types[1])
        else:
            exp = types
        ok = len(search) == 1 and search[0][1] == exp
        obs.append(Ob('C04.nonbonded3/%s/lists' % t, F, 'exactly one triple search, over %s (centre beads of type1; the list of type3 takes part whenever type3 differs from type2)' % (exp,), 'RVC', 'symbolic execution',
                      core.PROVED if ok else core.REFUTED, 0, str(search), witness=None if ok else {'types': types, 'searches': str(search), 'expected_lists': exp}))
        ok = bool(search) and all(e[2] == [True] for e in search)
        obs.append(Ob('C04.nonbonded3/%s/exclusions' % t, F, 'bonded exclusions are applied in the triple search', 'RVC', 'symbolic execution', core.PROVED if ok else core.REFUTED, 0, str(search), witness=None if ok else {'searches': str(search)}))
        cuts = [e for e in ev if e[0] == 'cutoff']
        ok = len(cuts) == 1 and sp.expand(cuts[0][1] - cut) == 0 and ev.index(cuts[0]) < (ev.index(search[0]) if search else -1)
        obs.append(Ob('C04.nonbonded3/%s/cutoff' % t, F, 'the search cutoff is the cut of the interaction, set before the search', 'RVC', 'symbolic execution', core.PROVED if ok else core.REFUTED, 0, str(cuts), witness=None if ok else {'events': str(ev)[:300]}))
        pr = [e for e in ev if e[0] == 'process']
        if len(pr) == 1 and pr[0][1] == 'h' and ('clear', 'h') in ev and ev.index(('clear', 'h')) < ev.index(pr[0]):
            dot = sum(r12.g(i).v * r13.g(i).v for i in range(3))
            n1 = sum(r12.g(i).v ** 2 for i in range(3)); n2 = sum(r13.g(i).v ** 2 for i in range(3))
            val = pr[0][2]
            if str(getattr(val, 'func', '')) == 'acos' and len(val.args) == 1:
                obs.append(rvc.identity('C04.nonbonded3/%s/angle' % t, F, 'every triple found adds its centre angle acos(r12.r13 / (|r12| |r13|)) to the histogram of this interaction (cleared before)', sp.expand(val.args[0] ** 2 * n1 * n2), sp.expand(dot ** 2), seed))     # squared form; the sign is that of r12.r13 because the code divides by a sqrt (positive)
            else:
                obs.append(Ob('C04.nonbonded3/%s/angle' % t, F, 'every triple found adds its centre angle acos(r12.r13 / (|r12| |r13|)) to the histogram of this interaction', 'RVC', 'symbolic execution', core.REFUTED, 0, 'processed value: %s' % str(val)[:200], witness={'processed': str(val)[:200]}))
        else:
            obs.append(Ob('C04.nonbonded3/%s/angle' % t, F, 'every triple found adds its centre angle to the histogram of this interaction (cleared before)', 'RVC', 'symbolic execution', core.REFUTED, 0, str(ev)[:300], witness={'events': str(ev)[:300]}))
    for o in obs:
        o['functions'] = [{'name': F, 'file': REL, 'ast_nodes': rvc.node_count(fn)}]
    return obs


def collect(obs):
    seen = set(f['name'] for f in META['functions'])
    for o in obs:
        for f in o.pop('functions', []) or []:
            if f['name'] not in seen:
                seen.add(f['name'])
                META['functions'].append(f)


def run(tier, seed, only=None):
    jobs = [(job_merge, (seed,)), (job_writedist, (seed,)), (job_groups, (seed,)), (job_norm, (seed,)), (job_nonbonded, (seed,)), (job_nonbonded3, (seed,)), (job_groups_symbolic, (seed,))]
    if only:
        jobs = [j for j in jobs if re.search(only, j[0].__name__)]
    obs = core.pmap(jobs)
    collect(obs)
    return obs, META
