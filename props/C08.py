"""C08 - file round trips (partial): what the writers put on a line is what the matching readers take from it; atom-count mismatches are reported
(DESIGN.md section 5, C08)

Decided here, at the level of tokens (values handed to fprintf / taken from the tokenizer): box line of gro, box bounds of the lammps dump format,
and the reaction of the readers to an atom count that disagrees with the topology.  NOT decided: printf/iostream formatting and parsing themselves
(printed precision, fixed columns), pdb / xyz / dlpoly / xml bodies.  Tables: operator<< against operator>> of tools::Table (x, y, flags, error column), token level.  Unit factors of readers and writers: C20.  IMC matrix layout: C06."""
import os, re, time, itertools
import sympy as sp
import z3
from vlib import core, rvc, native
from vlib.core import Ob
from vlib.rvc import D, Mx, Exec, Ret, Thrown, SInt

CDIR = os.path.join(core.VERIF, 'contracts', 'C08')
META = {
    'level': 'other', 'functions': [],
    'trusted_base': ['clang 14 AST = the code g++ compiles', 'RVC executor', 'ASSUMED contracts: fprintf hands its arguments to the file in order, one per conversion; tools::getline / Tokenizer / stoi / lexical_cast return what the line holds '
                     '(formatting and parsing themselves are not modelled: a value is a token)', 'conv::nm2ang / ang2nm read from constants.h (their reciprocity is C20)'],
    'assumptions': ['frames without atoms for the box obligations (the atom lines are fixed-column text, outside this technique)'],
    'not_decided': ['printed precision and fixed-column layout of every format', 'pdb (CRYST1 lengths/angles), xyz, dlpoly and xml bodies, multi-frame sequencing', 'tables longer than the enumerated row count, the size line and the comment text of Table::Save, number formatting (precision 10)', 'h5md'],
    'explanation': 'partial: token-level write/read consistency of box lines and atom-count checks',
}


class Obj:
    def __init__(s, **kw): s.__dict__.update(kw)
    def call(s, name, args):
        f = s.__dict__.get('m_' + name)
        if f is None:
            raise rvc.Unsupported('method %s of a model object' % name)
        return f(*args)


def constants():
    txt = open(os.path.join(core.REPO, 'tools/include/votca/tools/constants.h')).read()
    out = {}
    m_b = re.search(r'const\s+double\s+bohr2ang\s*=\s*1\.0\s*/\s*([0-9.eE+-]+)\s*;', txt)
    if m_b:
        out['bohr2ang'] = D(1 / sp.Rational(m_b.group(1)))
    for nm in ('nm2ang', 'ang2nm', 'kcal2kj'):
        m = re.search(r'const\s+double\s+%s\s*=\s*([0-9.eE+-]+)\s*;' % nm, txt)
        if not m:
            raise core.Undecided('front end: constant %s not found in constants.h' % nm)
        out[nm] = D(sp.Rational(m.group(1)))
    if not re.search(r'const\s+double\s+kj2kcal\s*=\s*1\s*/\s*kcal2kj\s*;', txt):
        raise core.Undecided('front end: kj2kcal is no longer defined as 1 / kcal2kj in constants.h')
    out['kj2kcal'] = D(1 / out['kcal2kj'].v)
    return out


def tokens_of(fmt, args):
    """lines of tokens that fprintf(fmt, args...) produces: literals of the format and one argument per conversion (assumed contract of fprintf)"""
    args = list(args)
    lines, cur = [], []
    if not isinstance(fmt, str):
        return [list(args)]            # format string built at run time (sprintf): all arguments on one line
    for piece in re.split(r'(\n)', fmt):
        if piece == '\n':
            lines.append(cur); cur = []
            continue
        for tok in piece.split():
            for part in re.findall(r'%[-0-9.]*l?[dfisg]|[^%]+', tok):
                if part.startswith('%'):
                    if not args:
                        raise rvc.Unsupported('fprintf: more conversions than arguments')
                    cur.append(args.pop(0))
                else:
                    cur.append(D(sp.Rational(part)) if re.fullmatch(r'-?[0-9.]+', part) else part)
    if cur:
        lines.append(cur)
    if args:
        raise rvc.Unsupported('fprintf: more arguments than conversions')
    return lines


class LineSink:
    """what a FILE* receives: lines of tokens; a line ends at a newline of the format (assumed contract of fprintf)"""
    def __init__(s): s.lines, s.cur = [], []
    def fprintf(s, f, fmt, *args):
        args = list(args)
        if not isinstance(fmt, str):
            s.cur.extend(args); s.lines.append(s.cur); s.cur = []      # format built at run time (sprintf): one line holding all arguments
            return
        for piece in re.split(r'(\n)', fmt):
            if piece == '\n':
                s.lines.append(s.cur); s.cur = []
                continue
            for tok in piece.split():
                for part in re.findall(r'%[-0-9.]*l?[dfisg]|[^%]+', tok):
                    if part.startswith('%'):
                        if not args:
                            raise rvc.Unsupported('fprintf: more conversions than arguments')
                        s.cur.append(args.pop(0))
                    else:
                        s.cur.append(D(sp.Rational(part)) if re.fullmatch(r'-?[0-9.]+', part) else part)
        if args:
            raise rvc.Unsupported('fprintf: more arguments than conversions')


def ob(obs, oid, fn, clause, ok, detail='', bound=None, wit=None, fns=None):
    o = Ob(oid, fn, clause, 'RVC', 'symbolic execution + exact normal form', (core.BOUNDED if bound else core.PROVED) if ok else core.REFUTED, 0, detail, witness=None if ok else (wit or {'detail': detail[:500]}), bound=bound)
    if fns:
        o['functions'] = fns
    obs.append(o)
    return o


def ctor_arg(ex_, inner, k=0):
    """value of constructor argument k of a declaration's initialiser (looking through cleanups / temporaries)"""
    n = inner[0]
    while n.get('kind') != 'CXXConstructExpr':
        if not n.get('inner'):
            raise rvc.Unsupported('declaration without a constructor call')
        n = n['inner'][0]
    return rvc.rval(ex_.expr(n['inner'][k]))


def reader_stream(lines):
    pos = [0]
    state = {'eof': False}
    def getline(stream, line):
        if pos[0] >= len(lines):
            state['eof'] = True
            line.set('')
            return stream
        line.set(lines[pos[0]]); pos[0] += 1
        return stream
    getline.by_ref = True
    return getline, state, pos


def job_gro_box(seed):
    rvc.reset()
    fw = rvc.functions(rvc.ast('csg/src/libcsg/modules/io/growriter.cc', 'GROWriter::Write'))
    fr = rvc.functions(rvc.ast('csg/src/libcsg/modules/io/groreader.cc', 'GROReader::NextFrame'))
    if 'Write' not in fw or 'NextFrame' not in fr:
        raise core.Undecided('front end: GROWriter::Write / GROReader::NextFrame not found')
    obs = []
    mfs = [{'name': 'GROWriter::Write', 'file': 'csg/src/libcsg/modules/io/growriter.cc', 'ast_nodes': rvc.node_count(fw['Write'][0])},
           {'name': 'GROReader::NextFrame', 'file': 'csg/src/libcsg/modules/io/groreader.cc', 'ast_nodes': rvc.node_count(fr['NextFrame'][0])}]
    for approx_zero in (False, True):
        box = Mx.sym('h', 3, 3)
        sink = LineSink(); out = sink.lines
        conf = Obj(m_BeadCount=lambda: 0, m_HasVel=lambda: False, m_getBox=lambda: box.copy())
        cb = {'fprintf': sink.fprintf, 'sprintf': lambda *a: None, 'fflush': lambda *a: None,
              'isApproxToConstant': lambda m, v, tol: approx_zero,
              'decl': lambda ex_, vd, ty, inner: (('format built at run time',) if ty.startswith('char[') else NotImplemented)}
        ex = Exec({'conf': conf}, cb, {}, {'__class__': 'GROWriter', 'out_': 'FILE'})
        try:
            ex.stmt(rvc.body_of(fw['Write'][0]))
        except Ret:
            pass
        t = 'offdiag-%s' % ('approx-zero' if approx_zero else 'nonzero')
        ok = len(out) == 3 and len(out[1]) == 1 and rvc._i(out[1][0]) == 0
        ob(obs, 'C08.gro.box/%s/frame-shape' % t, 'GROWriter::Write', 'a frame without atoms is a title line, the atom count and the box line', ok, str(out)[:300], bound='frame without atoms', fns=mfs)
        if not ok:
            continue
        # the reader on exactly these lines
        got = {}
        getline, state, pos = reader_stream([out[0], str(rvc._i(out[1][0])), out[2]])
        top = Obj(m_BeadCount=lambda: 0, m_setBox=lambda b: got.__setitem__('box', b.copy()))
        def construct(ex_, n, ty, args):
            if 'Tokenizer' in ty:
                v = rvc.rval(ex_.expr(args[0]))
                return Obj(m_ToVector=lambda: list(v))
            return NotImplemented
        cbr = {'getline': getline, 'eof': lambda f: state['eof'], 'stoi': lambda s_: int(s_), 'construct': construct, 'ostream_write': lambda *a: None}
        exr = Exec({'top': top}, cbr, {}, {'__class__': 'GROReader', 'fl_': 'STREAM', 'topology_': False})
        ret, thrown = None, False
        try:
            exr.stmt(rvc.body_of(fr['NextFrame'][0]))
        except Ret as r:
            ret = r.v
        except Thrown:
            thrown = True
        rb = got.get('box')
        if thrown or rb is None:
            ob(obs, 'C08.gro.box/%s/roundtrip' % t, 'GROWriter::Write + GROReader::NextFrame', 'the reader accepts the box line the writer produced', False, 'thrown=%s box=%r' % (thrown, rb), bound='frame without atoms', fns=mfs)
            continue
        bad = []
        for i in range(3):
            for j in range(3):
                same = rvc.nf_zero(rb.g(i, j).v - box.g(i, j).v)
                if not same and not (approx_zero and i != j and rvc.nf_zero(rb.g(i, j).v)):
                    bad.append((i, j, str(rb.g(i, j).v)))
        o = ob(obs, 'C08.gro.box/%s/roundtrip' % t, 'GROWriter::Write + GROReader::NextFrame',
               'the box read back from the line the writer produced is the box written, off-diagonal elements included (gro stores all nine); elements the writer found to be zero within 1e-9 may come back as exactly zero',
               not bad, 'box line tokens: %s; differing entries (i, j, read): %s' % (out[2], bad), bound='frame without atoms', fns=mfs,
               wit={'box': 'any box with a non-zero off-diagonal element, e.g. triclinic (3,0,0),(1,3,0),(0.5,0.7,3)', 'line': str(out[2]), 'differing': str(bad)})
        if bad:
            replay_gro(o)
    return obs


def replay_gro(o):
    try:
        exe = native.build('C08.gro', open(os.path.join(CDIR, 'replay_gro_box.cc')).read(), [], sanitize=False, opt='-O1', libs=native.libs())
    except core.Undecided as e:
        o['replay'] = {'reproduced': False, 'error': str(e)}
        return
    tmp = os.path.join(core.VERIF, 'build', 'tmp')
    os.makedirs(tmp, exist_ok=True)
    f = os.path.join(tmp, 'c08_%d.gro' % os.getpid())
    rc, out, err = native.execute(exe, [f], timeout=60)
    o['replay'] = {'reproduced': rc == 1, 'cmd': '%s %s' % (exe, f), 'rc': rc, 'stdout': (out or '')[-900:], 'stderr': (err or '')[-300:],
                   'against': 'real GROWriter / GROReader through TrjWriterFactory / TrjReaderFactory (libvotca_csg from the working tree): one bead, triclinic box, write then read'}


def replay_lammps(o, mode):
    try:
        exe = native.build('C08.lammps', open(os.path.join(CDIR, 'replay_lammps.cc')).read(), [], sanitize=False, opt='-O1', libs=native.libs())
    except core.Undecided as e:
        o['replay'] = {'reproduced': False, 'error': str(e)}
        return
    tmp = os.path.join(core.VERIF, 'build', 'tmp')
    os.makedirs(tmp, exist_ok=True)
    f = os.path.join(tmp, 'c08_%d.dump' % os.getpid())
    rc, out, err = native.execute(exe, [mode, f], timeout=60)
    o['replay'] = {'reproduced': rc == 1, 'cmd': '%s %s %s' % (exe, mode, f), 'rc': rc, 'stdout': (out or '')[-900:], 'stderr': (err or '')[-300:],
                   'against': 'real LAMMPSDumpWriter / LAMMPSDumpReader through TrjWriterFactory / TrjReaderFactory (libvotca_csg from the working tree)'}


def job_lammps_box(seed):
    rvc.reset()
    fw = rvc.functions(rvc.ast('csg/src/libcsg/modules/io/lammpsdumpwriter.cc', 'LAMMPSDumpWriter::Write'))
    fr = rvc.functions(rvc.ast('csg/src/libcsg/modules/io/lammpsdumpreader.cc', 'LAMMPSDumpReader::'))
    if 'Write' not in fw or 'ReadBox' not in fr:
        raise core.Undecided('front end: LAMMPSDumpWriter::Write / LAMMPSDumpReader::ReadBox not found')
    K = constants()
    obs = []
    mfs = [{'name': 'LAMMPSDumpWriter::Write', 'file': 'csg/src/libcsg/modules/io/lammpsdumpwriter.cc', 'ast_nodes': rvc.node_count(fw['Write'][0])},
           {'name': 'LAMMPSDumpReader::ReadBox', 'file': 'csg/src/libcsg/modules/io/lammpsdumpreader.cc', 'ast_nodes': rvc.node_count(fr['ReadBox'][0])}]
    for diag in (True, False):
        box = Mx.sym('h', 3, 3)
        if diag:
            for i in range(3):
                for j in range(3):
                    if i != j:
                        box.p(i, j, D(0))
        sink = LineSink(); out = sink.lines
        conf = Obj(m_getBox=lambda: box.copy(), m_getStep=lambda: 7, m_Beads=lambda: [], m_HasVel=lambda: False, m_HasForce=lambda: False)
        cb = {'fprintf': sink.fprintf, 'fflush': lambda *a: None, 'global': lambda nm: K[nm]}
        ex = Exec({'conf': conf}, cb, {}, {'__class__': 'LAMMPSDumpWriter', 'out_': 'FILE'})
        try:
            ex.stmt(rvc.body_of(fw['Write'][0]))
        except Ret:
            pass
        t = 'orthorhombic' if diag else 'triclinic'
        idx = [k for k, l in enumerate(out) if l[:3] == ['ITEM:', 'BOX', 'BOUNDS']]
        ok = len(idx) == 1 and len(out) >= idx[0] + 4
        ob(obs, 'C08.lammps.box/%s/item' % t, 'LAMMPSDumpWriter::Write', 'one BOX BOUNDS item followed by its bound lines', ok, str(out)[:400], bound='frame without atoms', fns=mfs)
        if not ok:
            continue
        header = out[idx[0]]
        nlines = 3
        lines = out[idx[0] + 1: idx[0] + 1 + nlines]
        got = {}
        getline, state, pos = reader_stream(lines)
        top = Obj(m_setBox=lambda b: got.__setitem__('box', b.copy()))
        def construct(ex_, n, ty, args):
            if 'Tokenizer' in ty:
                v = rvc.rval(ex_.expr(args[0]))
                return Obj(m_ToVector=lambda: list(v))
            return NotImplemented
        cbr = {'getline': getline, 'trim': lambda *a: None, 'construct': construct, 'global': lambda nm: K[nm]}
        exr = Exec({'top': top}, cbr, {}, {'__class__': 'LAMMPSDumpReader', 'fl_': 'STREAM', 'topology_': False})
        thrown = False
        try:
            exr.stmt(rvc.body_of(fr['ReadBox'][0]))
        except Ret:
            pass
        except Thrown:
            thrown = True
        rb = got.get('box')
        bad = [] if (rb is not None and not thrown) else [('no box', thrown)]
        if rb is not None:
            bad = [(i, j, str(rb.g(i, j).v)) for i in range(3) for j in range(3) if not rvc.nf_zero(rb.g(i, j).v - box.g(i, j).v)]
        ob(obs, 'C08.lammps.box/%s/roundtrip' % t, 'LAMMPSDumpWriter::Write + LAMMPSDumpReader::ReadBox',
           'the box read back from the bounds the writer produced is the box written, in nm' + ('' if diag else ' (the dump format has tilt factors xy xz yz for off-diagonal elements)'),
           not bad, 'header %s bounds %s; differing entries: %s' % (header, lines, bad[:4]), bound='frame without atoms', fns=mfs,
           wit={'box': 'any box with a non-zero off-diagonal element', 'header': str(header), 'differing': str(bad[:4])})
        if bad:
            replay_lammps(obs[-1], 'box')
    return obs


class Field:
    def __init__(s, start, width, value, kind): s.start, s.width, s.value, s.kind = start, width, value, kind
    def __repr__(s): return '[%d+%d %s %r]' % (s.start, s.width, s.kind, s.value)


class ColSink:
    """fixed-column lines: fprintf with a literal (or sprintf-built) format puts conversion k into columns [c_k, c_k + w_k) PROVIDED its text fits the width w_k
    (assumed contract of printf: a field is never truncated, a longer text shifts everything after it).  The 'fits' conditions are collected as obligations."""
    def __init__(s): s.lines, s.cur, s.col, s.fits = [], [], 0, []
    def fprintf(s, f, fmt, *args):
        args = list(args)
        if not isinstance(fmt, str):
            raise rvc.Unsupported('fprintf with a format that is not a string')
        for m in re.finditer(r'%(-?)(\d*)(?:\.(\d+))?(ld|li|d|f|s)|\n|[^%\n]+', fmt):
            tok = m.group(0)
            if tok == '\n':
                s.lines.append(s.cur); s.cur, s.col = [], 0
            elif tok.startswith('%'):
                if not args:
                    raise rvc.Unsupported('fprintf: more conversions than arguments')
                v = args.pop(0)
                w = int(m.group(2)) if m.group(2) else None
                kind = m.group(4)
                if w is None:
                    s.cur.append(Field(s.col, 0, v, 'free')); continue      # free-format conversion: not a fixed column
                if kind in ('ld', 'li', 'd'):
                    s.fits.append(('int', w, v))
                elif kind == 's':
                    prec = int(m.group(3)) if m.group(3) else None
                    s.fits.append(('str', w, prec, v))
                else:
                    s.fits.append(('float', w, int(m.group(3) or 6), v))
                s.cur.append(Field(s.col, w, v, kind)); s.col += w
            else:
                s.cur.append(Field(s.col, len(tok), tok, 'lit')); s.col += len(tok)
        if args:
            raise rvc.Unsupported('fprintf: more arguments than conversions')


class ColLine:
    def __init__(s, fields): s.fields = fields; s.width = sum(f.width for f in fields)


def c_sprintf(buf, fmt, *args):
    """sprintf of integers into a format string (assumed contract); the result is stored in the buffer variable"""
    vals = tuple(rvc._i(rvc.rval(a)) for a in args)
    f = rvc.rval(fmt)
    if not isinstance(f, str) or not all(isinstance(v, int) for v in vals):
        raise rvc.Unsupported('sprintf with symbolic arguments')
    buf.set(re.sub(r'%l?[di]', '%d', f.replace('%ld', '%d')) % vals)
c_sprintf.by_ref = True


def job_gro_atoms(seed):
    """gro atom lines are fixed-column text: the columns the writer fills are the columns the reader cuts, for EVERY bead index and residue number
    (the loop body is executed once for a symbolic index: a per-iteration contract, unbounded in the number of beads)"""
    rvc.reset()
    fw = rvc.functions(rvc.ast('csg/src/libcsg/modules/io/growriter.cc', 'GROWriter::Write'))
    fr = rvc.functions(rvc.ast('csg/src/libcsg/modules/io/groreader.cc', 'GROReader::NextFrame'))
    if 'Write' not in fw or 'NextFrame' not in fr:
        raise core.Undecided('front end: GROWriter::Write / GROReader::NextFrame not found')
    obs = []
    mfs = [{'name': 'GROWriter::Write', 'file': 'csg/src/libcsg/modules/io/growriter.cc', 'ast_nodes': rvc.node_count(fw['Write'][0])},
           {'name': 'GROReader::NextFrame', 'file': 'csg/src/libcsg/modules/io/groreader.cc', 'ast_nodes': rvc.node_count(fr['NextFrame'][0])}]
    isym, rsym = sp.Symbol('i', integer=True, nonnegative=True), sp.Symbol('resnr', integer=True, nonnegative=True)
    for hasv in (False, True):
        t = 'vel' if hasv else 'novel'
        sink = ColSink()
        pos, vel = Mx.sym('p', 3), Mx.sym('v', 3)
        bead = Obj(m_getResnr=lambda: SInt(rsym), m_getName=lambda: 'ATOMNAME', m_getPos=lambda: pos, m_getVel=lambda: vel)
        box = Mx.sym('h', 3, 3)
        conf = Obj(m_BeadCount=lambda: SInt(sp.Symbol('nbeads', integer=True, positive=True)), m_HasVel=lambda: hasv, m_getBox=lambda: box.copy(), m_getBead=lambda k: bead,
                   m_getResidue=lambda r: Obj(m_getName=lambda: 'RESIDUENAME'))
        PW = rvc.Paths(); PW.start()
        rvc.CTX.base = [z3.Int('i') >= 0, z3.Int('resnr') >= 0, z3.Int('nbeads') >= 1]
        cb = {'fprintf': sink.fprintf, 'sprintf': c_sprintf, 'fflush': lambda *a: None, 'c_str': lambda x: x, 'decide': PW.decide,
              'decl': lambda ex_, vd, ty, inner: ('' if ty.startswith('char[') else NotImplemented)}
        ex = Exec({'conf': conf}, cb, {}, {'__class__': 'GROWriter', 'out_': 'FILE'})
        body = rvc.body_of(fw['Write'][0])
        loop = None
        for st in body['inner']:
            if st['kind'] == 'ForStmt':
                loop = st
                break
            ex.stmt(st)
        if loop is None:
            raise core.Undecided('GROWriter::Write: bead loop not found')
        del sink.lines[:]; sink.cur, sink.col, sink.fits = [], 0, []
        ex.env['i'] = SInt(isym)
        ex.stmt(loop['inner'][4])                    # one iteration for an arbitrary bead index
        ok = len(sink.lines) == 1 and sink.col == 0
        ob(obs, 'C08.gro.atoms/%s/one-line' % t, 'GROWriter::Write', 'every bead is exactly one line', ok, str(sink.lines)[:300], fns=mfs)
        if not ok:
            continue
        line = sink.lines[0]
        # every field fits its width (otherwise all later columns shift)
        zi, zr = z3.Int('i'), z3.Int('resnr')
        for kfit, ft in enumerate(sink.fits):
            if ft[0] == 'int':
                w, v = ft[1], ft[2]
                ve = SInt.ex(v) if isinstance(v, (int, SInt)) else D.lift(v).v
                rvc.CTX.base = [zi >= 0, zr >= 0]
                o = rvc.logic('C08.gro.atoms/%s/fits.int%d' % (t, kfit), 'GROWriter::Write', 'the integer printed with width %d has at most %d characters for every bead index and residue number (0 <= value < 10^%d)' % (w, w, w),
                              z3.And(rvc.to_z3(sp.Ge(ve, 0)), rvc.to_z3(sp.Lt(ve, 10 ** w))), small=[zi <= 10 ** 7, zr <= 10 ** 7])
                o['functions'] = mfs
                obs.append(o)
            elif ft[0] == 'str':
                w, prec = ft[1], ft[2]
                ob(obs, 'C08.gro.atoms/%s/fits.str%d' % (t, kfit), 'GROWriter::Write', 'a name printed into %d columns is cut to at most %d characters by its precision' % (w, w), prec is not None and prec <= w, 'width %s precision %s' % (w, prec), fns=mfs)
        # the reader on this line
        got = {}
        cuts = []
        getline, state, posn = reader_stream(['title', '1', ColLine(line), [D(1), D(1), D(1)]])
        rbead = Obj(m_setPos=lambda v: got.__setitem__('pos', v.copy()), m_setVel=lambda v: got.__setitem__('vel', v.copy()))
        top = Obj(m_BeadCount=lambda: 1, m_getBead=lambda k: rbead, m_setBox=lambda b: None)
        def construct(ex_, n, ty, args):
            full = ty + ' ' + n['type'].get('desugaredQualType', '')
            if 'basic_string' in full or ty in ('std::string', 'string'):
                if len(args) == 3:
                    a = [rvc.rval(ex_.expr(x)) for x in args]
                    if isinstance(a[0], ColLine):
                        p0, ln = rvc._i(a[1]), rvc._i(a[2])
                        if p0 > a[0].width:
                            raise Thrown('std::out_of_range')      # std::string(str, pos, len) throws only for pos > size()
                        if p0 == a[0].width:
                            return Field(p0, 0, '', 'empty')
                        hit = [f for f in a[0].fields if f.start == p0 and f.width == ln]
                        cuts.append((p0, ln, bool(hit)))
                        return hit[0] if hit else Field(p0, ln, None, 'misaligned')
            if 'Tokenizer' in ty:
                v = rvc.rval(ex_.expr(args[0]))
                return Obj(m_ToVector=lambda: list(v))
            if re.search(r'Vector3d|Matrix<double, 3, 1', full) and len(args) == 3:
                return Mx.vec([D.lift(rvc.rval(ex_.expr(x))) for x in args])
            return NotImplemented
        def stod(x):
            if isinstance(x, Field):
                if x.value is None:
                    return D(rvc.fresh('misaligned'))
                return D.lift(x.value)
            return D.lift(x)
        cbr = {'getline': getline, 'eof': lambda f: state['eof'], 'stoi': lambda s_: int(s_), 'construct': construct, 'trim': lambda *a: None, 'stod': stod, 'ostream_write': lambda *a: None}
        exr = Exec({'top': top}, cbr, {}, {'__class__': 'GROReader', 'fl_': 'STREAM', 'topology_': False})
        thrown = False
        try:
            exr.stmt(rvc.body_of(fr['NextFrame'][0]))
        except Ret:
            pass
        except Thrown:
            thrown = True
        mis = [c for c in cuts if not c[2]]
        ob(obs, 'C08.gro.atoms/%s/columns' % t, 'GROWriter::Write + GROReader::NextFrame', 'every substring the reader cuts from an atom line is exactly one field the writer printed (same start column, same width)', not thrown and not mis and len(cuts) >= 6,
           'line fields %s; reader cuts (start, length, aligned) %s' % (line, cuts), fns=mfs, wit={'fields': str(line), 'cuts': str(cuts)})
        okp = 'pos' in got and all(rvc.nf_zero(got['pos'].g(c, 0).v - pos.g(c, 0).v) for c in range(3))
        okv = (('vel' in got and all(rvc.nf_zero(got['vel'].g(c, 0).v - vel.g(c, 0).v) for c in range(3))) if hasv else ('vel' not in got))
        ob(obs, 'C08.gro.atoms/%s/values' % t, 'GROWriter::Write + GROReader::NextFrame', 'the bead gets back its position%s' % (' and velocity' if hasv else '; no velocity is set for a frame without velocities'), okp and okv, 'got %s' % sorted(got), fns=mfs)
    return obs


def job_lammps_atoms(seed):
    """lammps dump atom lines: what the writer prints for bead k (positions, velocities, forces, with their unit factors) is what the reader stores in bead k"""
    rvc.reset()
    fw = rvc.functions(rvc.ast('csg/src/libcsg/modules/io/lammpsdumpwriter.cc', 'LAMMPSDumpWriter::Write'))
    fr = rvc.functions(rvc.ast('csg/src/libcsg/modules/io/lammpsdumpreader.cc', 'LAMMPSDumpReader::'))
    if 'Write' not in fw or 'ReadAtoms' not in fr:
        raise core.Undecided('front end: LAMMPSDumpWriter::Write / LAMMPSDumpReader::ReadAtoms not found')
    K = constants()
    obs = []
    mfs = [{'name': 'LAMMPSDumpWriter::Write', 'file': 'csg/src/libcsg/modules/io/lammpsdumpwriter.cc', 'ast_nodes': rvc.node_count(fw['Write'][0])},
           {'name': 'LAMMPSDumpReader::ReadAtoms', 'file': 'csg/src/libcsg/modules/io/lammpsdumpreader.cc', 'ast_nodes': rvc.node_count(fr['ReadAtoms'][0])}]
    NB = 2
    for hasv, hasf in ((False, False), (True, False), (True, True), (False, True)):
        box = Mx(3, 3, [[D(sp.Symbol('L%d' % i, positive=True)) if i == j else D(0) for j in range(3)] for i in range(3)])
        P = [Mx.sym('p%d' % k, 3) for k in range(NB)]; V = [Mx.sym('v%d' % k, 3) for k in range(NB)]; Fo = [Mx.sym('f%d' % k, 3) for k in range(NB)]
        beads = [Obj(m_getType=lambda: 'A', m_getId=lambda k=k: k, m_getPos=lambda k=k: P[k], m_getVel=lambda k=k: V[k], m_getF=lambda k=k: Fo[k]) for k in range(NB)]
        sink = LineSink()
        conf = Obj(m_getBox=lambda: box.copy(), m_getStep=lambda: 7, m_Beads=lambda: beads, m_HasVel=lambda: hasv, m_HasForce=lambda: hasf, m_getBeadTypeId=lambda t: 1)
        cb = {'fprintf': sink.fprintf, 'fflush': lambda *a: None, 'global': lambda nm: K[nm]}
        ex = Exec({'conf': conf}, cb, {}, {'__class__': 'LAMMPSDumpWriter', 'out_': 'FILE'})
        try:
            ex.stmt(rvc.body_of(fw['Write'][0]))
        except Ret:
            pass
        t = 'v%d.f%d' % (hasv, hasf)
        idx = [k for k, l in enumerate(sink.lines) if l[:2] == ['ITEM:', 'ATOMS']]
        ok = len(idx) == 1 and len(sink.lines) == idx[0] + 1 + NB
        ob(obs, 'C08.lammps.atoms/%s/item' % t, 'LAMMPSDumpWriter::Write', 'one ATOMS item line followed by one line per bead', ok, str(sink.lines[-3:])[:400], bound='%d beads' % NB, fns=mfs)
        if not ok:
            continue
        item = ' '.join(sink.lines[idx[0]])
        getline, state, pos = reader_stream(sink.lines[idx[0] + 1:])
        rb = [dict(pos=Mx.sym('op%d' % k, 3), vel=Mx.sym('ov%d' % k, 3), f=Mx.sym('of%d' % k, 3), flags={}) for k in range(NB)]
        rbeads = [Obj(m_Pos=lambda k=k: rb[k]['pos'], m_Vel=lambda k=k: rb[k]['vel'], m_F=lambda k=k: rb[k]['f'], m_HasPos=lambda v, k=k: rb[k]['flags'].__setitem__('pos', v),
                      m_HasVel=lambda v, k=k: rb[k]['flags'].__setitem__('vel', v), m_HasF=lambda v, k=k: rb[k]['flags'].__setitem__('f', v)) for k in range(NB)]
        top = Obj(m_getBead=lambda k: rbeads[rvc._i(k)], m_getBox=lambda: box.copy())
        def decl(ex_, vd, ty, inner):
            if ty.endswith('Tokenizer'):
                v = ctor_arg(ex_, inner)
                toks = [x for x in v.split(' ') if x] if isinstance(v, str) else list(v)
                return Obj(m_ToVector=lambda: list(toks), m_begin=lambda: rvc.ListIt(toks, 0), m_end=lambda: rvc.ListIt(toks, len(toks)))
            return NotImplemented
        cbr = {'getline': getline, 'eof': lambda f: state['eof'], 'trim': lambda *a: None, 'decl': decl, 'global': lambda nm: K[nm], 'stod': lambda x: D.lift(x),
               'lexical_cast': lambda x: rvc._i(x) if not isinstance(x, str) else int(x)}
        exr = Exec({'top': top, 'itemline': item}, cbr, {}, {'__class__': 'LAMMPSDumpReader', 'fl_': 'STREAM', 'fname_': 'FILE', 'topology_': False, 'natoms_': NB})
        thrown = False
        try:
            exr.stmt(rvc.body_of(fr['ReadAtoms'][0]))
        except Ret:
            pass
        except Thrown:
            thrown = True
        bad = []
        for k in range(NB):
            for nm, src, present in (('pos', P, True), ('vel', V, hasv), ('f', Fo, hasf)):
                for c in range(3):
                    got = rb[k][nm].g(c, 0).v
                    want = src[k].g(c, 0).v if present else sp.Symbol('o%s%d%s' % ({'pos': 'p', 'vel': 'v', 'f': 'f'}[nm], k, 'xyz'[c]), real=True)
                    if not rvc.nf_zero(got - want):
                        bad.append((k, nm, c, str(got)))
            if rb[k]['flags'] != {'pos': True, 'vel': hasv, 'f': hasf}:
                bad.append((k, 'flags', str(rb[k]['flags'])))
        ob(obs, 'C08.lammps.atoms/%s/roundtrip' % t, 'LAMMPSDumpWriter::Write + LAMMPSDumpReader::ReadAtoms',
           'bead k gets back its own position, velocity and force (those the frame carries; the others are left untouched), in the original units, and the presence flags match',
           not thrown and not bad, 'item line %r; differing: %s' % (item, bad[:4]), bound='%d beads' % NB, fns=mfs, wit={'item': item, 'differing': str(bad[:4])})
    return obs


class Fmt:
    """boost::format by its contract: arguments are bound in order by operator%, the stream receives them in the positions the format names"""
    def __init__(s, fmt): s.fmt, s.args = fmt, []
    def nslots(s): return len(set(re.findall(r'%(\d+)\$', s.fmt)))
    def op_call(s, op, b):
        if op == 'operator%':
            if len(s.args) >= s.nslots():
                s.args = []              # a fully fed format starts over with the next argument
            s.args.append(b); return s
        return NotImplemented
    def snapshot(s):
        f = Fmt(s.fmt); f.args = list(s.args); return f
    def call(s, name, args):
        if name == 'str': return s
        raise rvc.Unsupported('boost::format::' + name)
    def fields(s):
        out = []
        for m in re.finditer(r'%(\d+)\$[-0-9.]*[a-z]+', s.fmt):
            k = int(m.group(1)) - 1
            out.append(s.args[k] if k < len(s.args) else None)
        return out


def job_writer_units(seed):
    """xyz and pdb writers on a csg Topology: which overloads the writers ACTUALLY call for a bead (the AST carries the resolved callee) and hence which
    unit factor and which name reach the file.  Positions of beads are in nm, both formats are in Angstrom: factor conv::nm2ang."""
    rvc.reset()
    K = constants()
    obs = []
    for fmtname, rel, cls, entry in (('xyz', 'csg/src/libcsg/modules/io/xyzwriter.cc', 'XYZWriter', 'Write'), ('pdb', 'csg/src/libcsg/modules/io/pdbwriter.cc', 'PDBWriter', 'Write')):
        fns = rvc.functions(rvc.ast(rel, cls))
        cand = [f for f in fns.get(entry, []) if len(rvc.params_of(f)) == 1]
        if not cand:
            raise core.Undecided('front end: %s::Write(Topology*) not found' % cls)
        fn = cand[0]
        pos = [Mx.sym('p%d' % k, 3) for k in range(2)]
        beads = [Obj(m_getPos=lambda k=k: pos[k], m_Pos=lambda k=k: pos[k], m_getName=lambda k=k: 'BEADNAME%d' % k, m_getElement=lambda k=k: 'ELEMENT%d' % k, m_getId=lambda k=k: k, m_getResnr=lambda k=k: 0,
                     m_getSymmetry=lambda: 1, m_getType=lambda: 'T') for k in range(2)]
        written = []
        conf = Obj(m_Beads=lambda: beads, m_getStep=lambda: 0, m_getTime=lambda: D(0), m_getResidue=lambda r: Obj(m_getName=lambda: 'RES'), m_BeadCount=lambda: 2)
        def decl(ex_, vd, ty, inner):
            if 'format' in ty and 'boost' in (ty + vd['type'].get('desugaredQualType', '')):
                return Fmt(ctor_arg(ex_, inner))
            return NotImplemented
        def construct(ex_, n, ty, args):
            if 'format' in ty and 'boost' in (ty + n['type'].get('desugaredQualType', '')) and args:
                return Fmt(rvc.rval(ex_.expr(args[0])))
            return NotImplemented
        cb = {'decl': decl, 'construct': construct, 'ostream_write': lambda v: written.append(v.snapshot() if isinstance(v, Fmt) else v), 'global': lambda nm: K[nm] if nm in K else ('manip',), 'getResname': lambda *a: 'RES', 'writeSymmetry': lambda *a: None}
        ex = Exec({'conf': conf}, cb, fns, {'__class__': cls, 'out_': 'ostream'})
        try:
            ex.stmt(rvc.body_of(fn))
        except Ret:
            pass
        recs = [w for w in written if isinstance(w, Fmt) and len(w.args) >= 4 and any(isinstance(a, (D, Mx)) for a in w.args)]
        recs = [w for w in recs if sum(1 for a in w.fields() if isinstance(a, D)) >= 3]
        mfs = [{'name': '%s::%s' % (cls, k), 'file': rel if k == 'Write' else 'csg/include/votca/csg/%swriter.h' % fmtname, 'ast_nodes': rvc.node_count(v[0])} for k, v in fns.items() if k in ('Write', 'WriteContainer', 'getPos', 'getName')]
        if fmtname == 'xyz':
            # layout the real XYZReader expects: line 1 = number of atoms, line 2 = title, then one line per atom
            first = written.index(recs[0]) if recs else len(written)
            nl = sum((w.fmt if isinstance(w, Fmt) else w).count('\n') for w in written[:first] if isinstance(w, (str, Fmt)))
            ob(obs, 'C08.xyz.atoms/layout', 'XYZWriter::Write', 'exactly two lines (atom count, title) precede the first atom record - the layout XYZReader::ReadFrame parses', nl == 2,
               '%d line ends before the first atom record: %s' % (nl, [(w.fmt if isinstance(w, Fmt) else w) for w in written[:first] if isinstance(w, (str, Fmt))]), bound='2 beads', fns=None,
               wit={'line_ends_before_first_atom': nl})
        ok = len(recs) == 2
        ob(obs, 'C08.%s.atoms/records' % fmtname, '%s::Write' % cls, 'one atom record per bead', ok, 'records %d of %d writes' % (len(recs), len(written)), bound='2 beads', fns=mfs)
        if not ok:
            continue
        for k, w in enumerate(recs):
            vals = [a for a in w.fields() if isinstance(a, D)][-3:]
            bad = [c for c in range(3) if not rvc.nf_zero(vals[c].v - K['nm2ang'].v * pos[k].g(c, 0).v)]
            ob(obs, 'C08.%s.atoms/bead%d.position' % (fmtname, k), '%s::Write' % cls, 'the coordinates written for a bead are its position (nm) times conv::nm2ang, the Angstrom the format and its reader use - for the overload the writer really calls for a bead',
               not bad, 'written %s' % [str(v.v) for v in vals], bound='2 beads', fns=mfs, wit={'bead': k, 'written': str([str(v.v) for v in vals]), 'expected': 'nm2ang * position'})
            names = [a for a in w.fields() if isinstance(a, str)]
            okn = any(('BEADNAME%d' % k)[:3] in a or a.strip() in ('BEADNAME%d' % k)[:4] for a in names)
            ob(obs, 'C08.%s.atoms/bead%d.name' % (fmtname, k), '%s::Write' % cls, 'the name written for a bead is (a prefix of) the bead name', okn, 'written strings %s' % names, bound='2 beads', fns=mfs, wit={'bead': k, 'strings': str(names)})
        if fmtname == 'xyz' and any(o['status'] == core.REFUTED for o in obs if '.xyz.' in o['id']):
            replay_xyz([o for o in obs if '.xyz.' in o['id'] and o['status'] == core.REFUTED])
    return obs


def replay_xyz(bad):
    try:
        exe = native.build('C08.xyz', open(os.path.join(CDIR, 'replay_xyz.cc')).read(), [], sanitize=False, opt='-O1', libs=native.libs())
        tmp = os.path.join(core.VERIF, 'build', 'tmp')
        os.makedirs(tmp, exist_ok=True)
        f = os.path.join(tmp, 'c08_%d.xyz' % os.getpid())
        rc, out, err = native.execute(exe, [f], timeout=60)
        rep = {'reproduced': rc == 1, 'cmd': '%s %s' % (exe, f), 'rc': rc, 'stdout': (out or '')[-700:], 'stderr': (err or '')[-300:],
               'against': 'real XYZWriter / XYZReader through the factories (libvotca_csg from the working tree): one bead at (1,2,3) nm, write then read'}
    except core.Undecided as e:
        rep = {'reproduced': False, 'error': str(e)}
    for o in bad:
        o['replay'] = rep


def job_pdb_columns(seed):
    """pdb ATOM records are fixed-column text: the fields of the writer's record format against the substrings the reader cuts (both read from the AST:
    the format literal of PDBWriter::WriteContainer, the std::string(line, pos, len) constructions of PDBReader::NextFrame)"""
    rvc.reset()
    fw = rvc.functions(rvc.ast('csg/src/libcsg/modules/io/pdbwriter.cc', 'PDBWriter'))
    fr = rvc.functions(rvc.ast('csg/src/libcsg/modules/io/pdbreader.cc', 'PDBReader::NextFrame'))
    if 'WriteContainer' not in fw or 'NextFrame' not in fr:
        raise core.Undecided('front end: PDBWriter::WriteContainer / PDBReader::NextFrame not found')
    obs = []
    mfs = [{'name': 'PDBWriter::WriteContainer', 'file': 'csg/include/votca/csg/pdbwriter.h', 'ast_nodes': rvc.node_count(fw['WriteContainer'][0])},
           {'name': 'PDBReader::NextFrame', 'file': 'csg/src/libcsg/modules/io/pdbreader.cc', 'ast_nodes': rvc.node_count(fr['NextFrame'][0])}]
    lits = [n.get('value', '') for n in rvc.walk(fw['WriteContainer'][0]) if n.get('kind') == 'StringLiteral' and 'ATOM' in n.get('value', '')]
    if len(lits) != 1:
        raise core.Undecided('PDBWriter::WriteContainer: the ATOM record format literal was not found (%d candidates)' % len(lits))
    fmt = lits[0].strip('"').replace('\\n', '')
    fields, col = [], 0
    for m in re.finditer(r'%(\d+)\$(-?)(\d+)(?:\.(\d+))?([a-z])|[^%]+', fmt):
        if m.group(0).startswith('%'):
            fields.append((col, int(m.group(3)), 'arg%s' % m.group(1))); col += int(m.group(3))
        else:
            col += len(m.group(0))
    width = col
    ex = Exec({}, {}, {}, None)
    cuts = []
    for n in rvc.walk(fr['NextFrame'][0]):
        if n.get('kind') == 'CXXOperatorCallExpr' and len(n.get('inner', [])) == 3:
            lhs, rhs = n['inner'][1], n['inner'][2]
            while rhs.get('kind') in rvc.TRANSPARENT + ('CXXBindTemporaryExpr', 'MaterializeTemporaryExpr', 'CXXFunctionalCastExpr'):
                rhs = rhs['inner'][0]
            if rhs.get('kind') in ('CXXTemporaryObjectExpr', 'CXXConstructExpr') and len(rhs.get('inner', [])) == 3 and lhs.get('kind') == 'DeclRefExpr':
                a0 = rhs['inner'][0]
                while a0.get('kind') in rvc.TRANSPARENT:
                    a0 = a0['inner'][0]
                if a0.get('kind') == 'DeclRefExpr' and a0['referencedDecl']['name'] == 'line':
                    try:
                        cuts.append((lhs['referencedDecl']['name'], rvc._i(rvc.rval(ex.expr(rhs['inner'][1]))), rvc._i(rvc.rval(ex.expr(rhs['inner'][2])))))
                    except Exception:
                        pass
    atom_cuts = [c for c in cuts if c[0] in ('atName', 'resName', 'resNum', 'x', 'y', 'z', 'elem_sym', 'charge')]
    ok = len(atom_cuts) >= 6 and len(fields) >= 8
    ob(obs, 'C08.pdb.columns/found', 'PDBWriter::WriteContainer + PDBReader::NextFrame', 'the record format of the writer and the column cuts of the reader are found in the AST', ok, 'fields %s; cuts %s' % (fields, atom_cuts), fns=mfs)
    if not ok:
        return obs
    for nm in ('atName', 'resName', 'resNum', 'x', 'y', 'z'):
        c = [k for k in atom_cuts if k[0] == nm]
        hit = c and any(f[0] == c[0][1] and f[1] == c[0][2] for f in fields)
        ob(obs, 'C08.pdb.columns/%s' % nm, 'PDBWriter::WriteContainer + PDBReader::NextFrame', 'the substring the reader cuts for %s is exactly one field of the writer record (same start column and width)' % nm, bool(hit), 'cut %s; writer fields %s' % (c, fields), fns=mfs)
    need = max(c[1] for c in atom_cuts)
    o = ob(obs, 'C08.pdb.columns/record-length', 'PDBWriter::WriteContainer + PDBReader::NextFrame',
           'an ATOM record of the writer is long enough for every substring the reader cuts (std::string(line, pos, len) throws out_of_range for pos > size(), which the reader turns into "Misformated pdb file")',
           width >= need, 'writer record has %d columns; the reader cuts at columns up to %d (%s)' % (width, need, [c for c in atom_cuts if c[1] > width]), fns=mfs,
           wit={'writer_record_columns': width, 'reader_needs_column': need, 'cuts_beyond_record': str([c for c in atom_cuts if c[1] > width])})
    if width < need:
        try:
            exe = native.build('C08.pdb', open(os.path.join(CDIR, 'replay_pdb.cc')).read(), [], sanitize=False, opt='-O1', libs=native.libs())
            tmp = os.path.join(core.VERIF, 'build', 'tmp'); os.makedirs(tmp, exist_ok=True)
            f = os.path.join(tmp, 'c08_%d.pdb' % os.getpid())
            rc, out, err = native.execute(exe, [f], timeout=60)
            o['replay'] = {'reproduced': rc == 1, 'cmd': '%s %s' % (exe, f), 'rc': rc, 'stdout': (out or '')[-500:], 'stderr': (err or '')[-200:],
                           'against': 'real PDBWriter / PDBReader through the factories (libvotca_csg from the working tree): one bead, write then read'}
        except core.Undecided as e:
            o['replay'] = {'reproduced': False, 'error': str(e)}
    return obs


def dlpoly_writer_members(this):
    """unit members the writer class declares (dlpolytrajectorywriter.h): name -> enumerator"""
    hdr = open(os.path.join(core.REPO, 'csg/src/libcsg/modules/io/dlpolytrajectorywriter.h')).read()
    for nm, en in re.findall(r'const\s+tools::\w+\s+(\w+)\s*=\s*tools::\w+::(\w+)\s*;', hdr):
        this[nm] = en
    return this


def uc_decl(ex_, vd, ty, inner):
    if 'UnitConverter' in ty:
        return UnitConverterAST('csg/src/libcsg/modules/io/dlpolytrajectorywriter.cc')
    return NotImplemented


def job_dlpoly_box(seed):
    """DL_POLY CONFIG: the three cell lines of the writer, read by the reader, give the box back (cell vector i is line i; VOTCA keeps the box vectors as columns)"""
    rvc.reset()
    fw = rvc.functions(rvc.ast('csg/src/libcsg/modules/io/dlpolytrajectorywriter.cc', 'DLPOLYTrajectoryWriter::Write'))
    fr = rvc.functions(rvc.ast('csg/src/libcsg/modules/io/dlpolytrajectoryreader.cc', 'DLPOLYTrajectoryReader::NextFrame'))
    if 'Write' not in fw or 'NextFrame' not in fr:
        raise core.Undecided('front end: DLPOLYTrajectoryWriter::Write / DLPOLYTrajectoryReader::NextFrame not found')
    K = constants()
    obs = []
    mfs = [{'name': 'DLPOLYTrajectoryWriter::Write', 'file': 'csg/src/libcsg/modules/io/dlpolytrajectorywriter.cc', 'ast_nodes': rvc.node_count(fw['Write'][0])},
           {'name': 'DLPOLYTrajectoryReader::NextFrame', 'file': 'csg/src/libcsg/modules/io/dlpolytrajectoryreader.cc', 'ast_nodes': rvc.node_count(fr['NextFrame'][0])}]
    for is_config in (True, False):
      for sym in (True, False):
        box = Mx.sym('h', 3, 3)
        if sym:
            for i in range(3):
                for j in range(i):
                    box.p(i, j, box.g(j, i))
        lines, cur = [], []
        MANIP = ('manip',)
        def wr(v):
            if v == 'ostream':          # endl
                lines.append(list(cur)); del cur[:]
            elif v is not MANIP and not (isinstance(v, tuple) and v and v[0] == 'function'):       # stream manipulators carry no value
                cur.append(v)
        conf = Obj(m_HasForce=lambda: False, m_HasVel=lambda: False, m_getBoxType=lambda: 'typeTriclinic', m_BeadCount=lambda: 0, m_getBox=lambda: box.copy(), m_getTime=lambda: D(sp.Symbol('time', positive=True)), m_getStep=lambda: 5)
        cb = {'ostream_write': wr, 'setw': lambda *a: MANIP, 'setprecision': lambda *a: MANIP, 'global': lambda nm: MANIP if nm in ('fixed', 'left', 'right', 'scientific') else K[nm], 'enum': lambda nm: nm, 'decl': uc_decl}
        ex = Exec({'conf': conf}, cb, {}, dlpoly_writer_members({'__class__': 'DLPOLYTrajectoryWriter', 'fl_': 'ostream', 'isConfig_': is_config}))
        try:
            ex.stmt(rvc.body_of(fw['Write'][0]))
        except Ret:
            pass
        t = '%s.%s' % ('config' if is_config else 'history', 'symmetric' if sym else 'triclinic')
        nhead = 2 if is_config else 3
        ok = len(lines) == nhead + 3 and all(len(l) == 3 for l in lines[nhead:])
        ob(obs, 'C08.dlpoly.box/%s/frame-shape' % t, 'DLPOLYTrajectoryWriter::Write', 'a frame without atoms is the header (%d lines) and three cell lines of three values' % nhead, ok, str(lines)[:400], bound='frame without atoms', fns=mfs)
        if not ok:
            continue
        got = {}
        def flat(l):
            return [x for x in l]
        rl = [lines[0]] + [flat(l) for l in lines[1:]]
        getline, state, pos = reader_stream(rl)
        top = Obj(m_BeadCount=lambda: 0, m_setBox=lambda b, ty=None: got.__setitem__('box', b.copy()), m_SetHasVel=lambda v: None, m_SetHasForce=lambda v: None, m_setTime=lambda v: None, m_setStep=lambda v: None, m_getTime=lambda: D(5) * D(sp.Symbol('dstep')))
        def decl(ex_, vd, ty, inner):
            if 'Tokenizer' in ty:
                v = ctor_arg(ex_, inner)
                return Obj(m_ToVector=lambda: [(rvc._i(x) if (isinstance(x, D) and x.v.is_Integer) else x) for x in v])
            return NotImplemented
        cbr = {'getline': getline, 'eof': lambda f: state['eof'], 'decl': decl, 'global': lambda nm: K[nm], 'enum': lambda nm: nm, 'ostream_write': lambda *a: None,
               'lexical_cast': lambda x: rvc._i(x) if not isinstance(x, str) else int(x), 'stod': lambda x: D.lift(x), 'abs': lambda x: D(0)}
        exr = Exec({'conf': top}, cbr, {}, {'__class__': 'DLPOLYTrajectoryReader', 'fl_': 'STREAM', 'fname_': 'FILE', 'first_frame_': True, 'isConfig_': is_config})
        thrown, err = False, ''
        try:
            exr.stmt(rvc.body_of(fr['NextFrame'][0]))
        except Ret:
            pass
        except Thrown:
            thrown = True
        except rvc.Unsupported as e:
            if not is_config:
                # the HISTORY header parsing (string fields) is outside the token model: only CONFIG is decided
                obs.pop()
                continue
            raise
        rb = got.get('box')
        bad = [('no box', thrown)] if rb is None else [(i, j, str(rb.g(i, j).v)) for i in range(3) for j in range(3) if not rvc.nf_zero(rb.g(i, j).v - box.g(i, j).v)]
        o = ob(obs, 'C08.dlpoly.box/%s/roundtrip' % t, 'DLPOLYTrajectoryWriter::Write + DLPOLYTrajectoryReader::NextFrame',
               'the box read back from the three cell lines the writer produced is the box written (line i is cell vector i = column i of the box matrix)', not bad,
               'cell lines %s; differing entries (i, j, read): %s' % (lines[nhead:], bad[:4]), bound='frame without atoms', fns=mfs,
               wit={'box': 'any box that is not symmetric as a matrix, e.g. triclinic (3,0,0),(1,3,0),(0.5,0.7,3)', 'lines': str(lines[nhead:]), 'differing': str(bad[:4])})
        if bad and rb is not None:
            replay_dlpoly(o)
    return obs


class UnitConverterAST:
    """tools::UnitConverter executed from the AST of the translation unit that uses it: convert(from, to) and the get<Dim>Value_ tables are the real code
    (their consistency is property C20); the overload is chosen by the enum that declares the two enumerators (read from unitconverter.h)"""
    def __init__(s, relpath):
        s.fns = rvc.functions(rvc.ast(relpath, 'UnitConverter'))
        if 'convert' not in s.fns:
            raise core.Undecided('front end: UnitConverter::convert not found in the AST of %s' % relpath)
        txt = open(os.path.join(core.REPO, 'tools/include/votca/tools/unitconverter.h')).read()
        s.enums = {m.group(1): [x.strip() for x in m.group(2).split(',') if x.strip()] for m in re.finditer(r'enum\s+(\w+)\s*\{([^}]*)\}', txt)}
        if not s.enums:
            raise core.Undecided('front end: no enum declarations found in unitconverter.h')
    def call(s, name, args):
        if name != 'convert':
            raise rvc.Unsupported('UnitConverter::' + name)
        a, b = [str(x).split('::')[-1] for x in args]
        dims = [d for d, names in s.enums.items() if a in names and b in names]
        if len(dims) != 1:
            raise rvc.Unsupported('UnitConverter::convert(%s, %s): the enumerators do not belong to exactly one unit enum (%s)' % (a, b, dims))
        cand = [f for f in s.fns['convert'] if rvc.body_of(f) and re.search(r'\b%s\b' % dims[0], f['type']['qualType'])]
        if len(cand) != 1:
            raise rvc.Unsupported('UnitConverter::convert for %s: %d overloads' % (dims[0], len(cand)))
        this = {'__class__': 'UnitConverter'}
        val = {}            # enumerator -> its value (position in its unscoped enum; no enumerator of unitconverter.h has an initialiser)
        for names in s.enums.values():
            for k_, nm in enumerate(names):
                if '=' in nm:
                    raise rvc.Unsupported('enumerator with an initialiser in unitconverter.h: %s' % nm)
                val.setdefault(nm, k_)
        ex = Exec({}, {'enum': lambda nm: val[nm.split('::')[-1]], 'exec_classes': ('UnitConverter',)}, s.fns, this)
        return D.lift(ex.call_fn(cand[0], [s.enums[dims[0]].index(a), s.enums[dims[0]].index(b)], this))


def job_dlpoly_atoms(seed):
    """DL_POLY CONFIG with one bead that has position, velocity and force: the three vector lines the writer produces, read by the reader, give the bead's
    position, velocity and force back (unit factors of writer and reader are inverse for each of the three quantities)"""
    rvc.reset()
    fw = rvc.functions(rvc.ast('csg/src/libcsg/modules/io/dlpolytrajectorywriter.cc', 'DLPOLYTrajectoryWriter::Write'))
    fr = rvc.functions(rvc.ast('csg/src/libcsg/modules/io/dlpolytrajectoryreader.cc', 'DLPOLYTrajectoryReader::NextFrame'))
    if 'Write' not in fw or 'NextFrame' not in fr:
        raise core.Undecided('front end: DLPOLYTrajectoryWriter::Write / DLPOLYTrajectoryReader::NextFrame not found')
    K = constants()
    obs = []
    mfs = [{'name': 'DLPOLYTrajectoryWriter::Write', 'file': 'csg/src/libcsg/modules/io/dlpolytrajectorywriter.cc', 'ast_nodes': rvc.node_count(fw['Write'][0])},
           {'name': 'DLPOLYTrajectoryReader::NextFrame', 'file': 'csg/src/libcsg/modules/io/dlpolytrajectoryreader.cc', 'ast_nodes': rvc.node_count(fr['NextFrame'][0])}]
    box = Mx.sym('h', 3, 3)
    pos, vel, frc = Mx.sym('r', 3), Mx.sym('v', 3), Mx.sym('f', 3)
    lines, cur = [], []
    MANIP = ('manip',)
    def wr(v):
        if v == 'ostream':
            lines.append(list(cur)); del cur[:]
        elif v is not MANIP and not (isinstance(v, tuple) and v and v[0] == 'function'):
            cur.append(v)
    bead = Obj(m_getType=lambda: 'TY', m_getName=lambda: 'NM', m_getMass=lambda: D(sp.Symbol('m', positive=True)), m_getQ=lambda: D(sp.Symbol('q', real=True)), m_getPos=lambda: pos.copy(), m_getVel=lambda: vel.copy(), m_getF=lambda: frc.copy(),
               m_HasVel=lambda: True, m_HasF=lambda: True, m_HasPos=lambda: True)
    conf = Obj(m_HasForce=lambda: True, m_HasVel=lambda: True, m_getBoxType=lambda: 'typeTriclinic', m_BeadCount=lambda: 1, m_getBox=lambda: box.copy(), m_getTime=lambda: D(sp.Symbol('time', positive=True)), m_getStep=lambda: 5, m_getBead=lambda i: bead)
    def decl(ex_, vd, ty, inner):
        if 'UnitConverter' in ty:
            return UnitConverterAST('csg/src/libcsg/modules/io/dlpolytrajectorywriter.cc')
        return NotImplemented
    cb = {'ostream_write': wr, 'setw': lambda *a: MANIP, 'setprecision': lambda *a: MANIP, 'resetiosflags': lambda *a: MANIP, 'decl': decl,
          'global': lambda nm: MANIP if nm in ('fixed', 'left', 'right', 'scientific') else K[nm], 'enum': lambda nm: nm}
    this = dlpoly_writer_members({'__class__': 'DLPOLYTrajectoryWriter', 'fl_': 'ostream', 'isConfig_': True})
    ex = Exec({'conf': conf}, cb, {}, this)
    try:
        ex.stmt(rvc.body_of(fw['Write'][0]))
    except Ret:
        pass
    bound = 'CONFIG frame with one bead (position, velocity, force)'
    ok = len(lines) == 2 + 3 + 1 + 3 and all(len(l) == 3 for l in lines[2:5] + lines[6:9])
    ob(obs, 'C08.dlpoly.atoms/frame-shape', 'DLPOLYTrajectoryWriter::Write', 'header (2 lines), three cell lines, then per bead a label line and three lines of three values (position, velocity, force)', ok, str(lines)[:500], bound=bound, fns=mfs)
    if not ok:
        return obs
    got = {}
    rl = [lines[0]] + [list(l) for l in lines[1:]]
    getline, state, pos_ = reader_stream(rl)
    rbead = Obj(m_setPos=lambda v: got.__setitem__('pos', v.copy()), m_setVel=lambda v: got.__setitem__('vel', v.copy()), m_setF=lambda v: got.__setitem__('frc', v.copy()))
    top = Obj(m_BeadCount=lambda: 1, m_setBox=lambda b, ty=None: got.__setitem__('box', b.copy()), m_SetHasVel=lambda v: None, m_SetHasForce=lambda v: None, m_setTime=lambda v: None, m_setStep=lambda v: None,
              m_getTime=lambda: D(5) * D(sp.Symbol('dstep')), m_getBead=lambda i: rbead)
    def rdecl(ex_, vd, ty, inner):
        if 'Tokenizer' in ty:
            v = ctor_arg(ex_, inner)
            return Obj(m_ToVector=lambda: [(rvc._i(x) if (isinstance(x, D) and x.v.is_Integer) else x) for x in v])
        return NotImplemented
    cbr = {'getline': getline, 'eof': lambda f: state['eof'], 'decl': rdecl, 'global': lambda nm: K[nm], 'enum': lambda nm: nm, 'ostream_write': lambda *a: None,
           'lexical_cast': lambda x: rvc._i(x) if not isinstance(x, str) else (int(x) if re.fullmatch(r'-?\d+', x) else x), 'stod': lambda x: D.lift(x), 'abs': lambda x: D(0)}
    exr = Exec({'conf': top}, cbr, {}, {'__class__': 'DLPOLYTrajectoryReader', 'fl_': 'STREAM', 'fname_': 'FILE', 'first_frame_': True, 'isConfig_': True})
    thrown = False
    try:
        exr.stmt(rvc.body_of(fr['NextFrame'][0]))
    except Ret:
        pass
    except Thrown:
        thrown = True
    for key, what, orig in (('pos', 'position', pos), ('vel', 'velocity', vel), ('frc', 'force', frc)):
        rb = got.get(key)
        bad = [('not set', thrown)] if rb is None else [(i, str(rb.flat()[i].v)) for i in range(3) if not rvc.nf_zero(rb.flat()[i].v - orig.g(i).v)]
        o = ob(obs, 'C08.dlpoly.atoms/%s' % what, 'DLPOLYTrajectoryWriter::Write + DLPOLYTrajectoryReader::NextFrame', 'the %s read back from the lines the writer produced is the %s written (the unit factors of writer and reader are inverse)' % (what, what), not bad,
               'written line: %s; differing components (i, read): %s' % (lines[6 + ('pos', 'vel', 'frc').index(key)], bad), bound=bound, fns=mfs,
               wit={'quantity': what, 'written': str(lines[6 + ('pos', 'vel', 'frc').index(key)]), 'read': str(bad)})
        if bad:
            replay_dlpoly(o, 'atoms')
    return obs


def replay_dlpoly(o, mode='box'):
    try:
        exe = native.build('C08.dlpoly', open(os.path.join(CDIR, 'replay_dlpoly_box.cc')).read(), [], sanitize=False, opt='-O1', libs=native.libs())
    except core.Undecided as e:
        o['replay'] = {'reproduced': False, 'error': str(e)}
        return
    tmp = os.path.join(core.VERIF, 'build', 'tmp', 'c08_dlpoly_%d' % os.getpid())
    os.makedirs(tmp, exist_ok=True)
    f = os.path.join(tmp, 'CONFIG.dlpc')
    rc, out, err = native.execute(exe, [f, mode], timeout=60)
    o['replay'] = {'reproduced': rc == 1, 'cmd': '%s %s %s' % (exe, f, mode), 'rc': rc, 'stdout': (out or '')[-900:], 'stderr': (err or '')[-300:],
                   'against': 'real DLPOLYTrajectoryWriter / DLPOLYTrajectoryReader through the factories (libvotca_csg from the working tree): one bead, triclinic box, CONFIG format'}


def job_count(seed):
    """a frame whose atom count disagrees with the topology is reported (exception), not used"""
    rvc.reset()
    obs = []
    bound = None
    # lammps dump
    fr = rvc.functions(rvc.ast('csg/src/libcsg/modules/io/lammpsdumpreader.cc', 'LAMMPSDumpReader::'))
    if 'ReadNumAtoms' not in fr:
        raise core.Undecided('front end: LAMMPSDumpReader::ReadNumAtoms not found')
    def run(fn, env, cb, this):
        ex = Exec(env, cb, {}, this)
        try:
            ex.stmt(rvc.body_of(fn))
        except Ret:
            return 'returned'
        except Thrown:
            return 'thrown'
        return 'returned'
    for file_n, top_n in ((5, 4), (4, 4)):
        getline, state, pos = reader_stream([str(file_n)])
        this = {'__class__': 'LAMMPSDumpReader', 'fl_': 'STREAM', 'topology_': False, 'natoms_': SInt(sp.Symbol('u', integer=True))}
        r = run(fr['ReadNumAtoms'][0], {'top': Obj(m_BeadCount=lambda: top_n)}, {'getline': getline, 'trim': lambda *a: None, 'lexical_cast': lambda s_: int(s_)}, this)
        exp = 'thrown' if file_n != top_n else 'returned'
        ob(obs, 'C08.count/lammpsdump.%s' % ('mismatch' if file_n != top_n else 'match'), 'LAMMPSDumpReader::ReadNumAtoms', 'an atom count that differs from the topology is reported by an exception; a matching one is accepted' , r == exp,
           'file %d atoms, topology %d beads: %s' % (file_n, top_n, r), wit={'file_atoms': file_n, 'topology_beads': top_n, 'outcome': r},
           fns=[{'name': 'LAMMPSDumpReader::ReadNumAtoms', 'file': 'csg/src/libcsg/modules/io/lammpsdumpreader.cc', 'ast_nodes': rvc.node_count(fr['ReadNumAtoms'][0])}])
        if r != exp and file_n != top_n:
            replay_lammps(obs[-1], 'count')
    # lammps data
    fd = rvc.functions(rvc.ast('csg/src/libcsg/modules/io/lammpsdatareader.cc', 'LAMMPSDataReader::ReadNumOfAtoms_'))
    if 'ReadNumOfAtoms_' not in fd:
        raise core.Undecided('front end: LAMMPSDataReader::ReadNumOfAtoms_ not found')
    class SMap:
        def __init__(s_): s_.d = {}
        def index_ref(s_, idx):
            k = idx[0]
            return rvc.Ref(lambda: s_.d.get(k, 0), lambda v: s_.d.__setitem__(k, v))
    for file_n, top_n in ((5, 4), (4, 4)):
        this = {'__class__': 'LAMMPSDataReader', 'topology_': False, 'numberOf_': SMap()}
        r = run(fd['ReadNumOfAtoms_'][0], {'fields': [str(file_n)], 'top': Obj(m_BeadCount=lambda: top_n)}, {'stoi': lambda s_: int(s_)}, this)
        exp = 'thrown' if file_n != top_n else 'returned'
        ob(obs, 'C08.count/lammpsdata.%s' % ('mismatch' if file_n != top_n else 'match'), 'LAMMPSDataReader::ReadNumOfAtoms_', 'an atom count that differs from the topology is reported by an exception; a matching one is accepted', r == exp,
           'file %d atoms, topology %d beads: %s' % (file_n, top_n, r), wit={'file_atoms': file_n, 'topology_beads': top_n, 'outcome': r},
           fns=[{'name': 'LAMMPSDataReader::ReadNumOfAtoms_', 'file': 'csg/src/libcsg/modules/io/lammpsdatareader.cc', 'ast_nodes': rvc.node_count(fd['ReadNumOfAtoms_'][0])}])
    # dlpoly (CONFIG and HISTORY): the header count against the topology
    fdl = rvc.functions(rvc.ast('csg/src/libcsg/modules/io/dlpolytrajectoryreader.cc', 'DLPOLYTrajectoryReader::NextFrame'))
    if 'NextFrame' not in fdl:
        raise core.Undecided('front end: DLPOLYTrajectoryReader::NextFrame not found')
    K = constants()
    for is_config in (True, False):
        for file_n, top_n in ((5, 4), (3, 4)):
            lines = ['title', [0, 3, file_n] + ([D(0)] if is_config else [])] + ([['timestep', 1, file_n, 0, 3, D(sp.Rational(1, 1000)), D(sp.Rational(1, 1000))]] if not is_config else []) + [[D(1), D(0), D(0)], [D(0), D(1), D(0)], [D(0), D(0), D(1)]]
            getline, state, pos = reader_stream(lines)
            touched = []
            top = Obj(m_BeadCount=lambda: top_n, m_setBox=lambda b, ty=None: touched.append('box'), m_SetHasVel=lambda v: None, m_SetHasForce=lambda v: None, m_setTime=lambda v: None, m_setStep=lambda v: None,
                      m_getTime=lambda: D(sp.Rational(1, 1000)), m_getBead=lambda k: (touched.append('bead'), Obj())[1])
            def decl(ex_, vd, ty, inner):
                if 'Tokenizer' in ty:
                    v = ctor_arg(ex_, inner)
                    return Obj(m_ToVector=lambda: [(rvc._i(x) if (isinstance(x, D) and x.v.is_Integer) else x) for x in v])
                return NotImplemented
            cbr = {'getline': getline, 'eof': lambda f: state['eof'], 'decl': decl, 'global': lambda nm: K[nm], 'enum': lambda nm: nm, 'ostream_write': lambda *a: None,
                   'lexical_cast': lambda x_: rvc._i(x_) if not isinstance(x_, str) else int(x_), 'stod': lambda x_: D.lift(x_), 'abs': lambda x_: D(0)}
            this = {'__class__': 'DLPOLYTrajectoryReader', 'fl_': 'STREAM', 'fname_': 'FILE', 'first_frame_': True, 'isConfig_': is_config}
            try:
                r = run(fdl['NextFrame'][0], {'conf': top}, cbr, this)
            except rvc.Unsupported as e:
                r = 'unsupported: %s' % e
            ob(obs, 'C08.count/dlpoly.%s.%s' % ('config' if is_config else 'history', 'more' if file_n > top_n else 'fewer'), 'DLPOLYTrajectoryReader::NextFrame',
               'a header atom count that differs from the topology is reported by an exception before the topology is touched (no box, no bead set from the mismatching frame)', r == 'thrown' and not touched,
               'file %d atoms, topology %d beads: %s, touched %s' % (file_n, top_n, r, touched), wit={'file_atoms': file_n, 'topology_beads': top_n, 'format': 'CONFIG' if is_config else 'HISTORY', 'outcome': r},
               fns=[{'name': 'DLPOLYTrajectoryReader::NextFrame', 'file': 'csg/src/libcsg/modules/io/dlpolytrajectoryreader.cc', 'ast_nodes': rvc.node_count(fdl['NextFrame'][0])}])
    # gro
    fg = rvc.functions(rvc.ast('csg/src/libcsg/modules/io/groreader.cc', 'GROReader::NextFrame'))
    for file_n, top_n in ((5, 4),):
        getline, state, pos = reader_stream(['title', str(file_n)])
        this = {'__class__': 'GROReader', 'fl_': 'STREAM', 'topology_': False}
        r = run(fg['NextFrame'][0], {'top': Obj(m_BeadCount=lambda: top_n)}, {'getline': getline, 'eof': lambda f: state['eof'], 'stoi': lambda s_: int(s_)}, this)
        ob(obs, 'C08.count/gro.mismatch', 'GROReader::NextFrame', 'an atom count that differs from the topology is reported by an exception before any atom is read', r == 'thrown' and pos[0] == 2,
           'file %d atoms, topology %d beads: %s after %d lines' % (file_n, top_n, r, pos[0]), wit={'file_atoms': file_n, 'topology_beads': top_n, 'outcome': r},
           fns=[{'name': 'GROReader::NextFrame', 'file': 'csg/src/libcsg/modules/io/groreader.cc', 'ast_nodes': rvc.node_count(fg['NextFrame'][0])}])
    return obs


# ----------------------------------------------------------------------------------------------------------------------------------------------
# tables: operator<<(ostream, Table) against operator>>(istream, Table); imcio_write_matrix against imcio_read_matrix
NPOS = ('npos',)


class TokLine:
    """a text line as the sequence of its whitespace-separated tokens; `comment` = number of leading tokens before a '#' (None: no comment on the line)"""
    def __init__(s, toks, comment=None): s.toks, s.comment = list(toks), comment
    def call(s, name, args):
        if name == 'find':
            if args and args[0] == '#' and s.comment is not None:
                return ('cut', s.comment)
            return NPOS
        if name == 'substr':
            if len(args) == 2 and isinstance(args[1], tuple) and args[1] and args[1][0] == 'cut':
                return TokLine(s.toks[:args[1][1]])
            if len(args) == 2 and args[1] is NPOS:
                return s
            raise rvc.Unsupported('line.substr%r' % (tuple(args),))
        raise rvc.Unsupported('method %s of a text line' % name)


def table_fn(relpath, filt, name):
    fs = rvc.functions(rvc.ast(relpath, filt))
    c = [f for f in fs.get(name, []) if 'votca::tools::Table' in f['type']['qualType'] and rvc.body_of(f)]
    if len(c) != 1:
        raise core.Undecided('front end: %s on tools::Table not found (or ambiguous: %d) in %s' % (name, len(c), relpath))
    return c[0]


def replay_table(o, mode):
    try:
        exe = native.build('C08.table', open(os.path.join(CDIR, 'replay_table.cc')).read(), [], sanitize=False, opt='-O1', libs=native.libs())
    except core.Undecided as e:
        o['replay'] = {'reproduced': False, 'error': str(e)}
        return
    tmp = os.path.join(core.VERIF, 'build', 'tmp')
    os.makedirs(tmp, exist_ok=True)
    f = os.path.join(tmp, 'c08_table_%d.tab' % os.getpid())
    rc, out, err = native.execute(exe, [mode, f], timeout=60)
    o['replay'] = {'reproduced': rc == 1, 'cmd': '%s %s %s' % (exe, mode, f), 'rc': rc, 'stdout': (out or '')[-900:], 'stderr': (err or '')[-300:],
                   'against': 'real tools::Table::Save / Table::Load (libvotca_tools from the working tree): a table with flags i/o/u and (mode yerr) an error column, written and loaded again', 'input_from': 'fixed input in the domain of the refuted obligation'}


def job_table(seed):
    """Table: the lines operator<< writes, read by operator>>, give back x, y, the flags and (when the table has one) the error column.
    Both operators, Table::push_back and Table::resize are executed from the AST; streams carry tokens (assumed contract of iostream formatting)."""
    rvc.reset()
    fw = table_fn('tools/src/libtools/table.cc', 'operator<<', 'operator<<')
    fr = table_fn('tools/src/libtools/table.cc', 'operator>>', 'operator>>')
    meths = rvc.functions(rvc.ast('tools/src/libtools/table.cc', 'Table'))
    for m in ('push_back', 'resize', 'clear'):
        if m not in meths:
            raise core.Undecided('front end: Table::%s not found' % m)
    mfs = [{'name': 'operator<<(std::ostream &, const Table &)', 'file': 'tools/src/libtools/table.cc', 'ast_nodes': rvc.node_count(fw)},
           {'name': 'operator>>(std::istream &, Table &)', 'file': 'tools/src/libtools/table.cc', 'ast_nodes': rvc.node_count(fr)}] + \
          [{'name': 'Table::' + m, 'file': 'tools/src/libtools/table.cc', 'ast_nodes': rvc.node_count(meths[m][0])} for m in ('push_back', 'resize', 'clear')]
    obs = []
    FL = ['i', 'o', 'u', '\0', ' ']
    n = 2
    MAN = ('manip',)
    for has_yerr in (False, True):
      for comment in (False, True):
        for flags in itertools.product(FL, repeat=n):
            if comment and flags != ('i', 'o'):
                continue
            x, y, e = Mx.sym('x', n, 1), Mx.sym('y', n, 1), Mx.sym('e', n, 1)
            t = {'__class__': 'Table', 'x_': x, 'y_': y, 'yerr_': e if has_yerr else Mx(0, 1), 'flags_': list(flags), 'has_yerr_': has_yerr}
            cur = []
            ex = Exec({'out': 'ostream', 't': t}, {'ostream_write': cur.append, 'precision': lambda o_, p_: None, 'global': lambda nm: MAN}, {}, {})
            try:
                ex.stmt(rvc.body_of(fw))
            except Ret:
                pass
            lines, c = [], []
            for v in cur:
                if v == '\n':
                    lines.append(c); c = []
                elif isinstance(v, str) and v.strip() == '' or v == 'ostream' or v is MAN:
                    continue
                else:
                    c.append(v)
            tag = '%s.%s%s' % ('yerr' if has_yerr else 'plain', ''.join({'\0': '0', ' ': '_'}.get(f, f) for f in flags), '.comment' if comment else '')
            bound = '%d rows' % n
            want = [[x.g(i, 0), y.g(i, 0)] + ([e.g(i, 0)] if has_yerr else []) + ([flags[i]] if flags[i] not in ('\0', ' ') else []) for i in range(n)]
            ok = len(lines) == n and not c and all(len(l) == len(w) and all((a == b) if isinstance(b, str) else (isinstance(a, D) and rvc.nf_zero(a.v - b.v)) for a, b in zip(l, w)) for l, w in zip(lines, want))
            ob(obs, 'C08.table/%s/lines' % tag, 'operator<<(std::ostream &, const Table &)', 'one line per row: x, y, the error (when the table has an error column), the flag (when the row has one)', ok, str(lines)[:300], bound=bound, fns=mfs)
            if not ok:
                continue
            # the reader on exactly these lines (with a comment head line and a trailing comment on the first row in the comment variant: Table::Save writes "# ..." lines)
            rl = [TokLine(l) for l in lines]
            if comment:
                rl = [TokLine(['#', 'comment'], comment=0)] + [TokLine(lines[0] + ['#', 'x'], comment=len(lines[0]))] + rl[1:]
            pos = [0]
            def getline(stream, line):
                if pos[0] >= len(rl):
                    return False
                line.set(rl[pos[0]]); pos[0] += 1
                return True
            getline.by_ref = True
            def construct(ex_, nn, ty, args):
                if 'Tokenizer' in ty:
                    v = rvc.rval(ex_.expr(args[0]))
                    if not isinstance(v, TokLine):
                        raise rvc.Unsupported('Tokenizer over %r' % type(v))
                    return {'__class__': 'Tokenizer', 'toks': v.toks}
                return NotImplemented
            t2 = {'__class__': 'Table', 'x_': Mx.sym('oldx', 1, 1), 'y_': Mx.sym('oldy', 1, 1), 'yerr_': Mx(0, 1), 'flags_': ['u'], 'has_yerr_': False, 'error_details_': '', 'comment_line_': '', 'has_comment_': False}
            cbr = {'getline': getline, 'construct': construct, 'ToVector': lambda o_: list(o_['toks']), 'lexical_cast': lambda *a: 'N', 'stod': lambda v: D.lift(v) if not isinstance(v, str) else (_ for _ in ()).throw(Thrown('stod of %r' % v)),
                   'getErrorDetails': lambda o_: 'file', 'exec_classes': ('Table',)}
            exr = Exec({'in': 'STREAM', 't': t2}, cbr, meths, {})
            thrown = False
            try:
                exr.stmt(rvc.body_of(fr))
            except Ret:
                pass
            except Thrown:
                thrown = True
            F = 'operator<<(std::ostream &, const Table &) + operator>>(std::istream &, Table &)'
            okn = (not thrown) and t2['x_'].r == n and t2['y_'].r == n and len(t2['flags_']) == n
            ob(obs, 'C08.table/%s/rows' % tag, F, 'the reader accepts the lines and returns one row per written row (whatever the table held before is gone)', okn, 'thrown=%s rows=%s' % (thrown, t2['x_'].r), bound=bound, fns=mfs)
            if not okn:
                continue
            bad = [(i, nm) for i in range(n) for nm, a, b in (('x', t2['x_'], x), ('y', t2['y_'], y)) if not rvc.nf_zero(a.g(i, 0).v - b.g(i, 0).v)]
            ob(obs, 'C08.table/%s/xy' % tag, F, 'x and y of every row are read back unchanged', not bad, 'differing (row, column): %s' % bad, bound=bound, fns=mfs, wit={'table': 'any table with %d rows' % n, 'differing': str(bad)})
            wantf = [f if f not in ('\0', ' ') else 'i' for f in flags]
            okf = t2['flags_'] == wantf
            o = ob(obs, 'C08.table/%s/flags' % tag, F, 'the flag of every row is read back unchanged (a row written without a flag is in range, i)', okf, 'written %r read %r' % (list(flags), t2['flags_']), bound=bound, fns=mfs,
                   wit={'flags': [f for f in flags], 'read': [str(f) for f in t2['flags_']]})
            if not okf:
                replay_table(o, 'yerrflags' if has_yerr else 'flags')
            if has_yerr:
                oke = bool(t2['has_yerr_']) and t2['yerr_'].r == n and all(rvc.nf_zero(t2['yerr_'].g(i, 0).v - e.g(i, 0).v) for i in range(n))
                o = ob(obs, 'C08.table/%s/yerr' % tag, F, 'the error column of a table that has one is read back unchanged', oke,
                       'after reading: has_yerr_=%s, yerr_ has %d entries (written: %d)' % (t2['has_yerr_'], t2['yerr_'].r, n), bound=bound, fns=mfs,
                       wit={'has_yerr_read': bool(t2['has_yerr_']), 'yerr_rows_read': t2['yerr_'].r, 'rows_written': n})
                if not oke:
                    replay_table(o, 'yerr')
    return obs


def job_imc_matrix(seed):
    """imcio_write_matrix against imcio_read_matrix: the matrix (or, with an index list, the selected sub-matrix) written line by line is the matrix read back.
    Both functions are executed from the AST; Eigen::Map enters by its contract (storage order of the mapped type)."""
    rvc.reset()
    fns = rvc.functions(rvc.ast('csg/src/libcsg/imcio.cc', 'imcio_'))
    for need in ('imcio_write_matrix', 'imcio_read_matrix'):
        if need not in fns:
            raise core.Undecided('front end: %s not found' % need)
    fw, fr = fns['imcio_write_matrix'][0], fns['imcio_read_matrix'][0]
    mfs = [{'name': 'imcio_write_matrix', 'file': 'csg/src/libcsg/imcio.cc', 'ast_nodes': rvc.node_count(fw)}, {'name': 'imcio_read_matrix', 'file': 'csg/src/libcsg/imcio.cc', 'ast_nodes': rvc.node_count(fr)}]
    obs = []
    MAN = ('manip',)
    for (r, c, sel) in ((2, 3, None), (3, 2, None), (3, 3, [0, 2]), (3, 3, [2, 0])):
        A = Mx.sym('a', r, c)
        cur, closed = [], [False]
        def wr(v):
            if not closed[0]:
                cur.append(v)
        cb = {'ostream_write': wr, 'decl': lambda ex_, vd, ty, inner: ('ostream' if 'ofstream' in ty else NotImplemented), 'open': lambda *a: None, 'close': lambda *a: closed.__setitem__(0, True),
              'setprecision': lambda *a: MAN, 'stream_fail': lambda st: False, 'global': lambda nm: MAN}
        ex = Exec({'file': 'F', 'gmc': A, 'list': (list(sel) if sel is not None else None)}, cb, {}, None)
        try:
            ex.stmt(rvc.body_of(fw))
        except Ret:
            pass
        lines, l = [], []
        for v in cur:
            if v == 'ostream':
                lines.append(l); l = []
            elif v is MAN or (isinstance(v, str) and v.strip() == ''):
                continue
            else:
                l.append(v)
        want = A if sel is None else Mx(len(sel), len(sel), [[A.g(i, j) for j in sel] for i in sel])
        tag = '%dx%d%s' % (r, c, '' if sel is None else '.sel' + ''.join(map(str, sel)))
        bound = '%d x %d matrix%s' % (r, c, '' if sel is None else ', index list %s' % sel)
        ok = len(lines) == want.r and all(len(x) == want.c for x in lines) and not l
        ob(obs, 'C08.imc.matrix/%s/lines' % tag, 'imcio_write_matrix', 'one line per (selected) row holding its (selected) entries in order', ok, str(lines)[:300], bound=bound, fns=mfs)
        if not ok:
            continue
        val, text = {}, ['# comment']
        for i, x in enumerate(lines):
            names = []
            for j, t in enumerate(x):
                val['t%d_%d' % (i, j)] = D.lift(t).v
                names.append('t%d_%d' % (i, j))
            text.append(' '.join(names))
        pos = [0]
        def getline(stream, line):
            if pos[0] >= len(text):
                return False
            line.set(text[pos[0]]); pos[0] += 1
            return True
        getline.by_ref = True
        def construct(ex_, n, ty, args):
            full = ty + ' ' + n['type'].get('desugaredQualType', '')
            if 'Map<' in full:
                a = [rvc.rval(ex_.expr(x)) for x in args]
                data, rr, cc = a[0], rvc._i(a[1]), rvc._i(a[2])
                rowmajor = 'RowMajor' in full or re.search(r'Matrix<double, -1, -1, 1', full) is not None
                if rr * cc != len(data):
                    raise rvc.Unsupported('Eigen::Map over %d values with shape %dx%d' % (len(data), rr, cc))
                return Mx(rr, cc, [[D.lift(data[i * cc + j] if rowmajor else data[i + j * rr]) for j in range(cc)] for i in range(rr)])
            return NotImplemented
        def rdecl(ex_, vd, ty, inner):
            if 'ifstream' in ty:
                return {'__class__': 'ifstream'}
            if 'Tokenizer' in ty:
                line = rvc.rval(ex_.expr(inner[0]['inner'][0]))
                return Obj(m_ToVector=lambda: [t for t in line.replace('\t', ' ').split(' ') if t])
            return NotImplemented
        cbr = {'getline': getline, 'construct': construct, 'decl': rdecl, 'open': lambda *a: None, 'close': lambda *a: None, 'stream_fail': lambda st: False, 'stod': lambda t: D(val[t])}
        exr = Exec({'filename': 'FILE'}, cbr, {}, None)
        res = None
        try:
            exr.stmt(rvc.body_of(fr))
        except Ret as e:
            res = e.v
        bad = ['shape'] if not (isinstance(res, Mx) and res.r == want.r and res.c == want.c) else [(i, j, str(res.g(i, j).v)) for i in range(want.r) for j in range(want.c) if not rvc.nf_zero(res.g(i, j).v - want.g(i, j).v)]
        ob(obs, 'C08.imc.matrix/%s/roundtrip' % tag, 'imcio_write_matrix + imcio_read_matrix', 'the matrix read back is the matrix written (entry (i,j) for entry (i,j); with an index list: the selected sub-matrix in list order)', not bad,
           'differing (i, j, read): %s' % bad[:5], bound=bound, fns=mfs, wit={'matrix': bound, 'differing': str(bad[:5])})
    return obs


def job_imc_index(seed):
    """imcio_write_index against imcio_read_index: every (name, range) entry written comes back with the same name, in order, and the text handed to RangeParser::Parse is
    the text RangeParser's operator<< produced (that print/parse pair itself is property C18).  Lines are concrete strings; a range prints as an opaque word."""
    rvc.reset()
    fns = rvc.functions(rvc.ast('csg/src/libcsg/imcio.cc', 'imcio_'))
    for need in ('imcio_write_index', 'imcio_read_index'):
        if need not in fns:
            raise core.Undecided('front end: %s not found' % need)
    fw, fr = fns['imcio_write_index'][0], fns['imcio_read_index'][0]
    mfs = [{'name': 'imcio_write_index', 'file': 'csg/src/libcsg/imcio.cc', 'ast_nodes': rvc.node_count(fw)}, {'name': 'imcio_read_index', 'file': 'csg/src/libcsg/imcio.cc', 'ast_nodes': rvc.node_count(fr)}]
    obs = []
    NPOS_ = 1 << 62
    class RP:
        def __init__(s_, text=None): s_.text = text
        def call(s_, name, args):
            if name == 'Parse':
                s_.text = args[0]; return None
            raise rvc.Unsupported('RangeParser::' + name)
        def clone(s_): return RP(s_.text)
    for names in (('A-A',), ('A-A', 'B-B', 'A-B'), ('bond1', 'A-A')):
        ranges = [{'first': nm, 'second': RP('%d:%d' % (10 * k + 1, 10 * k + 10))} for k, nm in enumerate(names)]
        cur, closed = [], [False]
        def wr(v):
            if not closed[0]:
                cur.append(v.text if isinstance(v, RP) else v)          # contract: operator<<(ostream, RangeParser) prints the range as one word without blanks (C18)
        cb = {'ostream_write': wr, 'decl': lambda ex_, vd, ty, inner: ('ostream' if 'ofstream' in ty else NotImplemented), 'open': lambda *a: None, 'close': lambda *a: closed.__setitem__(0, True), 'stream_fail': lambda st: False, 'global': lambda nm: ('manip',)}
        ex = Exec({'file': 'F', 'ranges': ranges}, cb, {}, None)
        try:
            ex.stmt(rvc.body_of(fw))
        except Ret:
            pass
        lines, l = [], ''
        for v in cur:
            if v == 'ostream':
                lines.append(l); l = ''
            elif isinstance(v, str):
                l += v
        tag = 'n%d.%s' % (len(names), names[0])
        bound = '%d entries' % len(names)
        ok = lines == ['%s %s' % (r_['first'], r_['second'].text) for r_ in ranges]
        ob(obs, 'C08.imc.index/%s/lines' % tag, 'imcio_write_index', 'one line per entry: the name, one blank, the range', ok, str(lines), bound=bound, fns=mfs)
        if not ok:
            continue
        text = list(lines)
        pos = [0]
        def getline(stream, line):
            if pos[0] >= len(text):
                return False
            line.set(text[pos[0]]); pos[0] += 1
            return True
        getline.by_ref = True
        def find(a, x):
            i = a.find(x)
            return NPOS_ if i < 0 else i
        def substr(a, i, n=None):
            i = rvc._i(i)
            if i == NPOS_ or i > len(a):
                raise Thrown('std::out_of_range')
            return a[i:] if (n is None or rvc._i(n) == NPOS_) else a[i:i + rvc._i(n)]
        out = []
        def rdecl(ex_, vd, ty, inner):
            if 'ifstream' in ty:
                return {'__class__': 'ifstream'}
            if 'RangeParser' in ty and 'vector' not in ty:
                return RP()
            if 'vector<' in ty and 'pair' in ty:
                return out
            return NotImplemented
        def construct(ex_, n, ty, args):
            if 'pair<' in ty and len(args) == 2:
                a = [rvc.rval(ex_.expr(x)) for x in args]
                return {'first': a[0], 'second': a[1].clone() if isinstance(a[1], RP) else a[1]}
            return NotImplemented
        def trim(line):
            line.set(rvc.rval(line).strip())
        trim.by_ref = True
        cbr = {'getline': getline, 'decl': rdecl, 'construct': construct, 'open': lambda *a: None, 'close': lambda *a: None, 'stream_fail': lambda st: False, 'find': find, 'substr': substr, 'trim': trim,
               'global': lambda nm: NPOS_ if nm == 'npos' else (_ for _ in ()).throw(rvc.Unsupported('global ' + nm))}
        exr = Exec({'filename': 'FILE'}, cbr, {}, None)
        res, thrown = None, False
        try:
            exr.stmt(rvc.body_of(fr))
        except Ret as e:
            res = e.v
        except Thrown:
            thrown = True
        got = [(e['first'], (e['second'].text or '').strip()) for e in (res or [])] if isinstance(res, list) else None
        want = [(r_['first'], r_['second'].text) for r_ in ranges]
        ob(obs, 'C08.imc.index/%s/roundtrip' % tag, 'imcio_write_index + imcio_read_index', 'the entries read back are the entries written: same names in the same order, and RangeParser::Parse receives (up to surrounding blanks) the text the range printed as', (not thrown) and got == want,
           'thrown=%s got=%s' % (thrown, got), bound=bound, fns=mfs, wit={'written': str(want), 'read': str(got), 'thrown': thrown})
    return obs


def collect(obs):
    seen = set(f['name'] for f in META['functions'])
    for o in obs:
        for f in o.pop('functions', []) or []:
            if f['name'] not in seen:
                seen.add(f['name'])
                META['functions'].append(f)


def run(tier, seed, only=None):
    jobs = [(job_gro_box, (seed,)), (job_lammps_box, (seed,)), (job_dlpoly_box, (seed,)), (job_lammps_atoms, (seed,)), (job_gro_atoms, (seed,)), (job_writer_units, (seed,)), (job_pdb_columns, (seed,)), (job_count, (seed,)), (job_table, (seed,)), (job_dlpoly_atoms, (seed,)), (job_imc_matrix, (seed,)), (job_imc_index, (seed,))]
    if only:
        jobs = [j for j in jobs if re.search(only, j[0].__name__)] or jobs
    obs = core.pmap(jobs)
    if only:
        obs = [o for o in obs if re.search(only, o['id']) or o['status'] == core.UNDECIDED]
    collect(obs)
    return obs, META
