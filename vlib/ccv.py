"""Route CCV: mechanical extraction of real function bodies from /repo + CBMC code contracts (dfcc).

extract():  locate a definition by signature regex in a /repo file, copy the body verbatim (brace matching that
            knows comments, strings and char literals), apply counted rewrite rules.  Any mismatch in the number of
            matches or rule firings raises Undecided ("extraction drift"), never a violation.
cbmc():     goto-cc -> goto-instrument --dfcc -> cbmc --json-ui, every step under timeout and address-space limit.
"""
import os, re, json, time
from .core import REPO, Undecided, Ob, run, sha256, workdir, PROVED, BOUNDED, REFUTED, UNDECIDED

CBMC_CHECKS = ['--bounds-check', '--pointer-check', '--div-by-zero-check', '--signed-overflow-check',
               '--conversion-check', '--pointer-overflow-check']
# --float-overflow-check / --nan-check are deliberately off: IEEE overflow to inf and NaN are defined behaviour in C++


def strip_map(src):
    """return a same-length copy of src with comments, string and char literals blanked (newlines kept)"""
    out = list(src)
    i, n = 0, len(src)
    while i < n:
        c = src[i]
        if src.startswith('//', i):
            j = src.find('\n', i)
            j = n if j < 0 else j
            for k in range(i, j):
                out[k] = ' '
            i = j
        elif src.startswith('/*', i):
            j = src.find('*/', i + 2)
            j = n if j < 0 else j + 2
            for k in range(i, j):
                if out[k] != '\n':
                    out[k] = ' '
            i = j
        elif c == '"' or c == "'":
            j = i + 1
            while j < n and src[j] != c:
                j += 2 if src[j] == '\\' else 1
            for k in range(i + 1, min(j, n)):
                out[k] = ' '
            i = j + 1
        else:
            i += 1
    return ''.join(out)


def match_brace(clean, open_idx):
    depth = 0
    for i in range(open_idx, len(clean)):
        if clean[i] == '{':
            depth += 1
        elif clean[i] == '}':
            depth -= 1
            if depth == 0:
                return i
    raise Undecided('unbalanced braces')


class Extracted:
    def __init__(self, file, sig, header, body, line):
        self.file, self.sig, self.header, self.body, self.line = file, sig, header, body, line
        self.sha = sha256(body)
        self.fired = []

    def info(self):
        return {'file': self.file, 'line': self.line, 'signature': ' '.join(self.header.split()), 'body_sha256': self.sha,
                'rules_fired': self.fired}


def extract(relpath, sig_regex, nth=None):
    """sig_regex matches the definition's header up to (not including) the opening brace of the body"""
    path = os.path.join(REPO, relpath)
    if not os.path.exists(path):
        raise Undecided('extraction drift: %s missing' % relpath)
    src = open(path).read()
    clean = strip_map(src)
    hits = []
    for m in re.finditer(sig_regex, clean):
        j = m.end()
        while j < len(clean) and clean[j] in ' \t\n':
            j += 1
        if j < len(clean) and clean[j] == '{':
            hits.append((m, j))
    if nth is not None:
        if len(hits) <= nth:
            raise Undecided('extraction drift: %s: /%s/ matched %d definitions, need #%d' % (relpath, sig_regex, len(hits), nth))
        hits = [hits[nth]]
    if len(hits) != 1:
        raise Undecided('extraction drift: %s: /%s/ matched %d definitions' % (relpath, sig_regex, len(hits)))
    m, j = hits[0]
    end = match_brace(clean, j)
    return Extracted(relpath, sig_regex, src[m.start():j], src[j + 1:end], src.count('\n', 0, j) + 1)


def rule(ex, name, pattern, repl, count, text=None, flags=0):
    """counted rewrite rule on ex.body (in place). count=None: at least one firing; count='any': zero or more (syntax-only rules that let
    C mode read C++ spellings with the same meaning, e.g. functional casts of scalars)"""
    new, n = re.subn(pattern, repl, ex.body if text is None else text, flags=flags)
    if count == 'any':
        pass
    elif (count is None and n == 0) or (count is not None and n != count):
        raise Undecided('extraction drift: rule %s fired %d times in %s (expected %s)' % (name, n, ex.sig, count))
    ex.fired.append({'rule': name, 'fired': n})
    ex.body = new
    return ex


def rule_self(ex, members, expect=None):
    """R-self: member identifiers not preceded by . or -> get self-> (token level)"""
    clean = strip_map(ex.body)
    out, last, fired = [], 0, {}
    for m in re.finditer(r'[A-Za-z_][A-Za-z_0-9]*', clean):
        w = m.group(0)
        if w not in members:
            continue
        k = m.start() - 1
        while k >= 0 and clean[k] in ' \t\n':
            k -= 1
        if k >= 0 and (clean[k] == '.' or clean[k - 1:k + 1] == '->' or clean[k - 1:k + 1] == '::'):
            continue
        out.append(ex.body[last:m.start()])
        out.append('self->')
        last = m.start()
        fired[w] = fired.get(w, 0) + 1
    out.append(ex.body[last:])
    if expect is not None and fired != expect:
        raise Undecided('extraction drift: R-self fired %r, expected %r' % (fired, expect))
    if not fired:
        raise Undecided('extraction drift: R-self fired nowhere')
    ex.fired.append({'rule': 'R-self', 'fired': fired})
    ex.body = ''.join(out)
    return ex


def insert_loop_contract(ex, ordinal, clauses, kind='for|while'):
    """R-inv(k): insert loop contract clauses after the header of loop number `ordinal` (0-based, textual order)"""
    clean = strip_map(ex.body)
    hits = [m for m in re.finditer(r'\b(%s)\s*\(' % kind, clean)]
    if len(hits) <= ordinal:
        raise Undecided('extraction drift: loop %d not found (%d loops)' % (ordinal, len(hits)))
    m = hits[ordinal]
    depth, i = 0, m.end() - 1
    while True:
        if clean[i] == '(':
            depth += 1
        elif clean[i] == ')':
            depth -= 1
            if depth == 0:
                break
        i += 1
    ex.body = ex.body[:i + 1] + '\n' + clauses + '\n' + ex.body[i + 1:]
    ex.fired.append({'rule': 'R-inv(%d)' % ordinal, 'fired': 1})
    return ex


def count_loops(ex):
    return len(re.findall(r'\b(for|while)\s*\(', strip_map(ex.body)))


# ------------------------------------------------------------------ CBMC pipeline

def _tool(cmd, timeout, cwd, what, mem_gb=16):
    rc, out, err, wall = run(cmd, timeout=timeout, cwd=cwd, mem_gb=mem_gb)
    if rc is None:
        raise Undecided('%s timed out after %ds' % (what, timeout))
    return rc, out, err, wall


def goto_cc(srcs, out, cwd, function=None, defines=(), includes=(), std=None, extra=()):
    cmd = ['goto-cc'] + list(extra)
    if std:
        cmd.append('-std=' + std)
    for d in defines:
        cmd.append('-D' + d)
    for i in includes:
        cmd.append('-I' + i)
    if function:
        cmd += ['--function', function]
    cmd += list(srcs) + ['-o', out]
    rc, o, e, w = _tool(cmd, 300, cwd, 'goto-cc')
    if rc != 0:
        raise Undecided('goto-cc failed (front end / extraction drift): ' + (e or o)[-1200:])
    return out


def instrument(inp, out, cwd, entry, enforce=None, replace=(), loops=False, extra=()):
    cmd = ['goto-instrument', '--dfcc', entry]
    if enforce:
        cmd += ['--enforce-contract', enforce]
    for r in replace:
        cmd += ['--replace-call-with-contract', r]
    if loops:
        cmd.append('--apply-loop-contracts')
    cmd += list(extra) + [inp, out]
    rc, o, e, w = _tool(cmd, 600, cwd, 'goto-instrument')
    if rc != 0:
        raise Undecided('goto-instrument failed: ' + (e or o)[-1200:])
    return out


def parse_cbmc_json(text):
    try:
        doc = json.loads(text)
    except Exception:
        return None, None, []
    res, status, msgs = None, None, []
    for item in doc:
        if 'result' in item:
            res = item['result']
        if 'cProverStatus' in item:
            status = item['cProverStatus']
        if 'messageText' in item:
            msgs.append(item['messageText'])
    return res, status, msgs


def _val(v):
    """decode a cbmc json value exactly (doubles from their bit pattern)"""
    import struct
    if 'members' in v:
        return {m['name']: _val(m['value']) for m in v['members']}
    if 'elements' in v:
        return [_val(e['value']) for e in v['elements']]
    if v.get('name') == 'float' and 'binary' in v and v.get('width') == 64:
        return struct.unpack('>d', int(v['binary'], 2).to_bytes(8, 'big'))[0]
    if v.get('name') == 'integer' and 'binary' in v:
        b = v['binary']; n = int(b, 2)
        if v.get('type', '').startswith(('signed', 'int', 'long', 'char', 'short')) or 'unsigned' not in v.get('type', 'unsigned'):
            if b[0] == '1' and not v.get('type', '').startswith('unsigned'):
                n -= 1 << len(b)
        return n
    if v.get('name') == 'boolean':
        return v.get('data') in (True, 'TRUE', 'true')
    return v.get('data', v.get('name'))


def trace_inputs(trace, prefix='in_'):
    """witness = first value of every harness input (in_*), every contract-wrapper parameter (*_wrapper) and every field of the
    objects created by __CPROVER_is_fresh (dynamic_object$N...), keyed by the short name"""
    w = {}
    for st in trace or []:
        if st.get('stepType') != 'assignment' or st.get('hidden'):
            continue
        lhs = st.get('lhs', '')
        base = re.split(r'[\[.]', lhs)[0]
        if base.startswith('dynamic_object'):
            key = lhs.split('.', 1)[1] if '.' in lhs else lhs
        elif base.endswith('_wrapper'):
            key = lhs.replace('_wrapper', '', 1)
        elif base.startswith(prefix):
            key = lhs[len(prefix):]
        else:
            continue
        harness_var = base.startswith(prefix)
        if (key in w and not harness_var) or key.startswith('$pad'):
            continue            # contract-created objects: first (nondet) value; harness inputs in_*: last value assigned by the harness
        val = _val(st.get('value', {}))
        if val is None or (isinstance(val, str) and ('NULL' in val or 'dynamic_object' in val or '!' in val)):
            continue
        w[key] = val
    # reassemble arrays written element by element: name[3l] -> name = [...]
    arrs = {}
    for k in list(w):
        m = re.fullmatch(r'(\w+)\[(\d+)l?\]', k)
        if m:
            arrs.setdefault(m.group(1), {})[int(m.group(2))] = w.pop(k)
    for name, d in arrs.items():
        cur = w.get(name) if isinstance(w.get(name), list) else []
        n = max(max(d) + 1, len(cur))
        w[name] = [d.get(i, cur[i] if i < len(cur) else 0) for i in range(n)]
    return w


def classify(name, desc):
    """obligation class from cbmc's property name <function>.<class>.<n>"""
    parts = name.split('.')
    cls = parts[-2] if len(parts) >= 2 else 'assertion'
    return {'postcondition': 'postcondition', 'precondition': 'callee-precondition', 'assigns': 'frame', 'loop_assigns': 'frame',
            'loop_invariant_base': 'loop-invariant', 'loop_invariant_step': 'loop-invariant', 'loop_step_unwinding': 'loop-invariant',
            'loop_decreases': 'loop-decreases', 'unwind': 'unwinding', 'overflow': 'arith-overflow', 'division-by-zero': 'div-by-zero',
            'pointer_dereference': 'pointer', 'pointer_arithmetic': 'pointer', 'pointer_primitives': 'pointer', 'pointer': 'pointer',
            'array_bounds': 'bounds', 'NaN': 'nan', 'assertion': 'assertion', 'no-body': 'no-body'}.get(cls, cls)


def cbmc(gb, cwd, oid, function, route_note='', checks=CBMC_CHECKS, solver=None, unwind=None, timeout=600, extra=(), bound=None,
         expect_fail=(), need=(), mem_gb=16, object_bits=None, _rerun=False):
    """run cbmc on an instrumented binary; returns list of Ob.

    bound: None => results count as proved (every loop closed by a contract or constant-bounded with unwinding assertions)
           str  => results count as bounded with that stated bound
    expect_fail: property-description regexes that MUST fail (canaries); a canary that passes makes the run undecided (vacuous)
    need: obligation classes that must be present (vacuity guard, e.g. 'postcondition', 'loop-invariant')
    """
    cmd = ['cbmc', gb, '--json-ui', '--trace'] + list(checks)
    if unwind is not None:
        cmd += ['--unwind', str(unwind), '--unwinding-assertions']
    if object_bits:
        cmd += ['--object-bits', str(object_bits)]
    backend = 'cbmc-sat(minisat)'
    if solver in ('cvc5', 'z3'):
        cmd.append('--' + solver)
        backend = 'cbmc-smt2(%s)' % solver
    elif solver == 'minisat':
        pass
    elif solver:
        cmd += ['--external-sat-solver', solver]
        backend = 'cbmc-sat(%s)' % solver
    else:
        cmd += ['--sat-solver', 'cadical']
        backend = 'cbmc-sat(cadical)'
    cmd += list(extra)
    rc, out, err, wall = run(cmd, timeout=timeout, cwd=cwd, mem_gb=mem_gb)
    log = ' '.join(cmd)
    if rc is None:
        return [Ob(oid, function, 'all obligations of harness', 'CCV', backend, UNDECIDED, wall, 'cbmc timed out after %ds' % timeout, log=log)]
    res, status, msgs = parse_cbmc_json(out)
    if res is None:
        why = ' | '.join(m for m in msgs if 'too many' in m or 'rror' in m)[:300] or (out or err)[-300:].replace('\n', ' ')
        return [Ob(oid, function, 'all obligations of harness', 'CCV', backend, UNDECIDED, wall, 'cbmc gave no result (rc=%s): %s' % (rc, why), log=log)]
    if any('ignoring forall' in m or 'ignoring exists' in m for m in msgs):
        return [Ob(oid, function, 'quantified obligations', 'CCV', backend, UNDECIDED, wall, 'back end ignored a quantifier', log=log)]
    obs, groups, classes, unknown = [], {}, set(), []
    canaries_hit = set()
    for p in res:
        desc = p.get('description', '')
        name = p.get('property', '')
        st = p.get('status')
        cls = classify(name, desc)
        can = [c for c in expect_fail if re.search(c, desc)]
        if can:
            if st == 'FAILURE':
                canaries_hit.update(can)
            continue
        classes.add(cls)
        if st == 'SUCCESS':
            groups.setdefault(cls, []).append(name)
        elif st == 'FAILURE':
            w = trace_inputs(p.get('trace'))
            loc = p.get('sourceLocation', {})
            pid = name
            if cls == 'assertion':      # stable id for user assertions: their text, not cbmc's running number
                pid = re.sub(r'[^A-Za-z0-9]+', '-', desc).strip('-')[:70]
            obs.append(Ob('%s/%s' % (oid, pid), function, '%s [%s:%s]' % (desc, os.path.basename(loc.get('file', '?')), loc.get('line', '?')), 'CCV', backend, REFUTED, wall,
                          'cbmc FAILURE with trace; %s' % route_note, witness=w, bound=bound, log=log))
        else:
            unknown.append((name, desc, st))
    if unknown and not any(o['status'] == REFUTED for o in obs):
        for name, desc, st in unknown:
            obs.append(Ob('%s/%s' % (oid, name), function, desc, 'CCV', backend, UNDECIDED, wall, 'cbmc status %s' % st, log=log))
    elif unknown and not _rerun:
        # cbmc leaves obligations that lie behind a failed one undetermined: decide them in a second run restricted to exactly those
        # properties (otherwise a failure listed as a known finding could hide a new violation in the same harness)
        sub = cbmc(gb, cwd, oid, function, route_note, checks, solver, unwind, max(60, timeout), tuple(extra) + tuple(x for nm, _, _ in unknown for x in ('--property', nm)),
                   bound, (), (), mem_gb, object_bits, _rerun=True)
        for o in sub:
            if o['status'] in (PROVED, BOUNDED):
                groups.setdefault(o['id'].rsplit('/', 1)[-1] + '(2nd run)', []).extend(['x'] * int(o.get('count', 1)))
            elif not o['id'].endswith('/empty'):
                obs.append(o)
    elif unknown:
        for name, desc, st in unknown:
            obs.append(Ob('%s/%s' % (oid, name), function, desc, 'CCV', backend, UNDECIDED, wall, 'cbmc status %s in the restricted second run' % st, log=log))
    for c in expect_fail:
        if c not in canaries_hit:
            obs.append(Ob('%s/canary' % oid, function, 'canary /%s/ must fail' % c, 'CCV', backend, UNDECIDED, wall,
                          'vacuity guard: canary did not fail (preconditions unsatisfiable or harness dead)', log=log))
    for c in need:
        if c not in classes:
            obs.append(Ob('%s/need-%s' % (oid, c), function, 'obligation class %s must be generated' % c, 'CCV', backend, UNDECIDED, wall,
                          'vacuity guard: no %s obligation generated (contract silently dropped?)' % c, log=log))
    ngood = sum(len(v) for v in groups.values())
    if ngood == 0 and not obs:
        obs.append(Ob('%s/empty' % oid, function, 'non-empty obligation set', 'CCV', backend, UNDECIDED, wall, 'no obligations generated', log=log))
    for cls, names in sorted(groups.items()):
        o = Ob('%s/%s' % (oid, cls), function, '%d CBMC obligations of class %s' % (len(names), cls), 'CCV', backend, BOUNDED if bound else PROVED,
               wall / max(1, len(groups)), route_note, bound=bound, log=log)
        o['count'] = len(names)
        obs.append(o)
    return obs


def build_and_check(oid, function, files, entry, enforce=None, replace=(), loops=False, cxx_std=None, defines=(), includes=(),
                    small_defines=None, replay=None, _sub='', **kw):
    """files: {name: text}; compiles all, instruments, runs cbmc. Returns list of Ob.
    small_defines: on a refutation, re-run with these defines (tighter input bounds) to get a witness small enough to replay natively
    replay: callback(ob) -> dict(reproduced=bool, ...) run on every refuted obligation that carries a witness"""
    d = workdir('ccv', re.sub(r'[^A-Za-z0-9_.-]', '_', oid) + _sub)
    srcs = []
    for name, text in files.items():
        with open(os.path.join(d, name), 'w') as f:
            f.write(text)
        if name.endswith(('.c', '.cpp')):
            srcs.append(name)
    t0 = time.time()
    gbs = []
    for s in srcs:
        g = s + '.gb'
        goto_cc([s], g, d, defines=defines, includes=list(includes) + ['.'], std=(cxx_std if s.endswith('.cpp') else None), extra=('-c',))
        gbs.append(g)
    goto_cc(gbs, 'a.gb', d, function=entry)
    gb = 'a.gb'
    if enforce or replace or loops:
        instrument('a.gb', 'b.gb', d, entry, enforce, replace, loops)
        gb = 'b.gb'
    obs = cbmc(gb, d, oid, function, **kw)
    ref = [o for o in obs if o['status'] == REFUTED]
    if _sub:
        return obs
    if ref and small_defines:
        try:
            kw2 = dict(kw); kw2['expect_fail'] = (); kw2['need'] = ()
            small = build_and_check(oid, function, files, entry, enforce, replace, loops, cxx_std, list(defines) + list(small_defines), includes, _sub='.small', **kw2)
            sm = {o['id']: o for o in small if o['status'] == REFUTED and o.get('witness')}
            for o in ref:
                if o['id'] in sm:
                    o['witness_unbounded_run'] = o['witness']
                    o['witness'] = sm[o['id']]['witness']
                    o['detail'] += ' [witness taken from a re-run with %s]' % ' '.join(small_defines)
        except Undecided:
            pass
    if replay:
        for o in ref:
            if o.get('witness'):
                try:
                    o['replay'] = replay(o)
                except Undecided as e:
                    o['replay'] = {'reproduced': False, 'error': str(e)}
    return obs
