"""Native compilation of replay / translation-validation programs against the REAL sources in /repo.

Config headers that CMake would generate are produced from the repository's .in templates into build/cfg
(nothing else is generated).  Sources are compiled from /repo's working tree at call time, never from a stale build.
"""
import os, re, glob
from .core import REPO, WORK, run, workdir, sha256, Undecided

SAN = ['-fsanitize=address,undefined,float-cast-overflow', '-fno-sanitize-recover=undefined,float-cast-overflow', '-fno-omit-frame-pointer']


def cfg_dir():
    d = workdir('cfg')
    def gen(tmpl, out, defs):
        src = os.path.join(REPO, tmpl)
        if not os.path.exists(src):
            return
        s = open(src).read()
        s = s.replace('@PROJECT_VERSION@', 'verif').replace('@PROJECT_CONTACT@', 'verif')
        def cm(m):
            return ('#define %s' % m.group(1)) if m.group(1) in defs else ('/* #undef %s */' % m.group(1))
        s = re.sub(r'#cmakedefine\s+(\w+)', cm, s)
        p = os.path.join(d, out)
        os.makedirs(os.path.dirname(p), exist_ok=True)
        if not os.path.exists(p) or open(p).read() != s:
            open(p, 'w').write(s)
    gen('tools/include/votca/tools/votca_tools_config.h.in', 'votca/tools/votca_tools_config.h', {'FFTW3_FOUND'})
    gen('csg/src/libcsg/votca_csg_config.h.in', 'votca_csg_config.h', set())
    gen('xtp/include/votca/xtp/votca_xtp_config.h.in', 'votca/xtp/votca_xtp_config.h', set())
    return d


def include_flags():
    c = cfg_dir()
    return ['-I' + c, '-I' + os.path.join(c, 'votca', 'tools'), '-I' + os.path.join(c, 'votca', 'xtp'), '-I' + os.path.join(REPO, 'tools/include'), '-I' + os.path.join(REPO, 'csg/include'),
            '-I' + os.path.join(REPO, 'xtp/include'), '-I' + os.path.join(REPO, 'csg/src/libcsg'), '-isystem', '/usr/include/eigen3',
            '-isystem', '/usr/include/hdf5/serial']


_STAMP = None
def tree_stamp():
    """identifies /repo's working tree content: HEAD + diff (so cached objects are never reused across source edits)"""
    global _STAMP
    if _STAMP is None:
        import subprocess
        def git(*args):
            r = subprocess.run(['git', '-C', REPO] + list(args), capture_output=True, text=True)
            if r.returncode != 0:
                raise Undecided('git %s failed: %s' % (' '.join(args), r.stderr[-300:]))
            return r.stdout
        a = git('rev-parse', 'HEAD')
        b = git('diff', 'HEAD') + git('status', '--porcelain', '--', 'tools', 'csg', 'xtp')
        _STAMP = sha256(a + b)[:12]
    return _STAMP


def build(name, main_src, repo_srcs=(), sanitize=True, opt='-O0', extra=(), libs=(), timeout=900, ndebug=True):
    """compile main_src (text) + real sources; returns path of the executable. Objects of repo sources are cached by content hash."""
    d = workdir('native', name)
    # the cmake build of the libraries injects -march=native (INJECT_MARCH_NATIVE): Eigen's alignment of dynamic objects is part of the ABI, so programs
    # linked against those libraries must be compiled the same way (otherwise aligned_malloc/free mismatch: 'double free or corruption')
    march = ['-march=native'] if libs and '-march=native' not in extra else []
    flags = ['-std=c++17', opt, '-g', '-w'] + (['-DNDEBUG'] if ndebug else []) + (SAN if sanitize else []) + include_flags() + list(extra) + march
    objs = []
    jobs = []
    mp = os.path.join(d, 'main.cc')
    open(mp, 'w').write(main_src)
    for src in [mp] + [os.path.join(REPO, s) for s in repo_srcs]:
        h = sha256(open(src).read() + ' '.join(flags) + tree_stamp())[:16]
        o = os.path.join(workdir('native', '_obj'), os.path.basename(src) + '.' + h + '.o')
        objs.append(o)
        if not os.path.exists(o):
            jobs.append((src, o))
    import subprocess
    procs = [(s, o, subprocess.Popen(['g++'] + flags + ['-c', s, '-o', o], stdout=subprocess.PIPE, stderr=subprocess.STDOUT, text=True)) for s, o in jobs]
    for s, o, p in procs:
        out, _ = p.communicate(timeout=timeout)
        if p.returncode != 0:
            raise Undecided('native build failed for %s: %s' % (s, out[-1500:]))
    exe = os.path.join(d, 'a.%d.out' % os.getpid())      # parallel jobs may build the same replay program
    rc, out, err, w = run(['g++'] + flags + objs + ['-o', exe] + list(libs), timeout=timeout, mem_gb=64)
    if rc != 0:
        raise Undecided('native link failed: ' + (err or out)[-1500:])
    return exe


def execute(exe, args=(), timeout=120, stdin=None):
    env = dict(os.environ, ASAN_OPTIONS='detect_leaks=0:abort_on_error=0', UBSAN_OPTIONS='print_stacktrace=0:halt_on_error=1')
    rc, out, err, w = run([exe] + [str(a) for a in args], timeout=timeout, mem_gb=1 << 20, env=env, stdin=stdin)
    return rc, out, err


def libs(targets=('votca_tools', 'votca_csg')):
    """incremental out-of-tree CMake/Ninja build of the real libraries from /repo's working tree (BUILD_XTP off);
    returns (link flags, runtime env). Used by replay programs that need more than a few translation units."""
    d = workdir('native_cmake')
    if not os.path.exists(os.path.join(d, 'build.ninja')):
        rc, out, err, w = run(['cmake', '-G', 'Ninja', '-S', REPO, '-B', d, '-DCMAKE_BUILD_TYPE=RelWithDebInfo', '-DBUILD_XTP=OFF', '-DENABLE_TESTING=OFF',
                               '-DBUILD_CSGAPPS=OFF', '-DCMAKE_DISABLE_FIND_PACKAGE_GROMACS=ON'], timeout=600, mem_gb=64)
        if rc != 0:
            raise Undecided('cmake configure failed: ' + (err or out)[-800:])
    rc, out, err, w = run(['ninja', '-C', d, '-j', '16'] + list(targets), timeout=3000, mem_gb=1 << 10)
    if rc not in (0, 1):      # ninja itself died (a build interrupted earlier can leave a truncated .ninja_deps/.ninja_log): drop its logs and build once more
        for f in ('.ninja_deps', '.ninja_log'):
            try:
                os.remove(os.path.join(d, f))
            except OSError:
                pass
        rc, out, err, w = run(['ninja', '-C', d, '-j', '16'] + list(targets), timeout=3000, mem_gb=1 << 10)
    if rc != 0:
        raise Undecided('native library build failed: ' + (out or err)[-1500:])
    ld = [os.path.join(d, 'tools/src/libtools'), os.path.join(d, 'csg/src/libcsg')]
    flags = []
    for p in ld:
        flags += ['-L' + p, '-Wl,-rpath,' + p]
    flags += ['-l' + t for t in reversed(targets)] + ['-lboost_program_options', '-lboost_filesystem', '-lboost_system']
    return flags
