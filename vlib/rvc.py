"""Route RVC: real-arithmetic verification conditions generated from clang's typed AST of the real translation unit.

 front end   clang++ -fsyntax-only -Xclang -ast-dump=json -Xclang -ast-dump-filter=<name> on the real file in /repo
 executor    symbolic execution of the function bodies: scalars are dual numbers (value, tangent) over exact rational
             functions (sympy), dense small matrices with lvalue views, symbolic integers, feasibility-checked path forking
 back ends   identities: exact normal form (polynomials over Q, radicals as symbols with s^2 = arg); logic: z3 (Real/Int)

Anything the executor does not know (AST node kind, callee, type) raises Unsupported -> the check exits 2 (undecided).
"""
import os, re, json, time, random, hashlib
from fractions import Fraction
import sympy as sp
import z3
from .core import REPO, Undecided, Ob, run, sha256, workdir, PROVED, BOUNDED, REFUTED, UNDECIDED
from . import native


def float_literal(text):
    """the rational a floating literal stands for in the real-arithmetic reading: the shortest decimal that denotes the same double (what the source says)"""
    try:
        return sp.Rational(Fraction(repr(float(text))))
    except ValueError:
        return sp.Rational(Fraction(float(text)))


class Unsupported(Undecided):
    pass


# ------------------------------------------------------------------------------------------------ front end

def load_docs(text):
    dec = json.JSONDecoder()
    i, docs, n = 0, [], len(text)
    while i < n:
        while i < n and text[i].isspace():
            i += 1
        if i >= n:
            break
        if text[i] != '{':
            j = text.find('\n', i)
            i = n if j < 0 else j + 1
            continue
        d, j = dec.raw_decode(text, i)
        docs.append(d)
        i = j
    return docs


def ast(relpath, filt, extra=()):
    """clang JSON AST of every declaration of /repo/<relpath> whose qualified name contains `filt` (cached per tree stamp)"""
    src = os.path.join(REPO, relpath)      # an absolute path (instantiation driver under /verif/contracts: only #include + explicit instantiation) is taken as is
    if not os.path.exists(src):
        raise Undecided('front end: %s missing' % relpath)
    key = sha256(relpath + '|' + filt + '|' + ' '.join(extra) + '|' + native.tree_stamp() + (open(src).read() if os.path.isabs(relpath) else ''))[:20]
    cache = os.path.join(workdir('ast'), key + '.json')
    if not os.path.exists(cache):
        cmd = ['clang++', '-std=c++17', '-fsyntax-only', '-DNDEBUG', '-w'] + native.include_flags() + list(extra) + \
              ['-Xclang', '-ast-dump=json', '-Xclang', '-ast-dump-filter=' + filt, src]
        rc, out, err, w = run(cmd, timeout=600, mem_gb=32)
        if rc != 0 or not out.strip():
            raise Undecided('front end: clang failed on %s (%s): %s' % (relpath, filt, (err or '')[-800:]))
        tmp = '%s.%d.tmp' % (cache, os.getpid())
        with open(tmp, 'w') as f:
            f.write(out)
        os.replace(tmp, cache)
    return load_docs(open(cache).read())


def walk(n):
    yield n
    for c in n.get('inner', []) or []:
        if isinstance(c, dict):
            yield from walk(c)


def has_body(d):
    return any(x.get('kind') == 'CompoundStmt' for x in d.get('inner', []))


def functions(docs, kinds=('CXXMethodDecl', 'FunctionDecl', 'CXXConstructorDecl')):
    """name -> list of declarations with bodies (all overloads / instantiations), in dump order.
    Uninstantiated template patterns are skipped: only instantiated specialisations are executable."""
    out = {}
    def visit(n, skip_pattern=False):
        k = n.get('kind')
        if k in kinds and has_body(n) and not skip_pattern:
            out.setdefault(n['name'], []).append(n)
        first = True
        for c in n.get('inner', []) or []:
            if not isinstance(c, dict):
                continue
            pat = False
            if k == 'FunctionTemplateDecl' and c.get('kind') in kinds and first:
                pat, first = True, False
            if k == 'ClassTemplateDecl' and c.get('kind') == 'CXXRecordDecl':
                continue        # the class template pattern; specialisations follow as ClassTemplateSpecializationDecl
            if pat:
                continue
            visit(c)
    for d in docs:
        visit(d)
    # out-of-line member definitions of a class template are dumped as (dependent) patterns next to their instantiations: keep the instantiated ones
    DEP = ('CXXDependentScopeMemberExpr', 'UnresolvedLookupExpr', 'UnresolvedMemberExpr', 'DependentScopeDeclRefExpr', 'CXXUnresolvedConstructExpr')
    for name, lst in out.items():
        conc = [f for f in lst if not any(x.get('kind') in DEP for x in walk(f))]
        if conc and len(conc) < len(lst):
            out[name] = conc
    return out


def node_count(n):
    return sum(1 for _ in walk(n))


def body_of(fn):
    return [c for c in fn['inner'] if c.get('kind') == 'CompoundStmt'][0]


def params_of(fn):
    return [p.get('name', '_') for p in fn.get('inner', []) if p.get('kind') == 'ParmVarDecl']


def src_line(n):
    for key in ('loc', 'range'):
        l = n.get(key, {})
        if key == 'range':
            l = l.get('begin', {})
        for k in (l, l.get('expansionLoc', {}), l.get('spellingLoc', {})):
            if 'line' in k:
                return k['line']
    return '?'


# ------------------------------------------------------------------------------------------------ context

class Ctx:
    def __init__(self):
        self.rad = []      # (symbol, radicand)
        self.base = []     # z3 assumptions (preconditions, callee contracts)
        self.fresh = 0
        self.nodes = 0     # AST nodes executed (vacuity guard)
        self.funcs = {}    # uninterpreted function symbols used


CTX = Ctx()


def reset():
    global CTX
    CTX = Ctx()
    return CTX


def fresh(prefix, **assume):
    CTX.fresh += 1
    return sp.Symbol('%s_%d' % (prefix, CTX.fresh), **(assume or {'real': True}))


# ------------------------------------------------------------------------------------------------ dual numbers

class D:
    """value + tangent (forward-mode AD), exact"""
    __slots__ = ('v', 't')

    def __init__(s, v, t=0):
        s.v = sp.sympify(v)
        s.t = sp.sympify(t)

    @staticmethod
    def lift(x):
        if isinstance(x, D):
            return x
        if isinstance(x, bool):
            return D(1 if x else 0)
        if isinstance(x, SInt):
            return D(x.e)
        if isinstance(x, Mx):
            return x.scalar()
        if isinstance(x, (int, Fraction, sp.Expr)):
            return D(x)
        raise Unsupported('not a scalar: %r' % type(x))

    def __add__(s, o):
        if isinstance(o, Mx):
            return NotImplemented
        o = D.lift(o)
        return D(s.v + o.v, s.t + o.t)
    __radd__ = __add__

    def __sub__(s, o):
        if isinstance(o, Mx):
            return NotImplemented
        o = D.lift(o)
        return D(s.v - o.v, s.t - o.t)

    def __rsub__(s, o):
        return D.lift(o) - s

    def __neg__(s):
        return D(-s.v, -s.t)

    def __mul__(s, o):
        if isinstance(o, Mx):
            return o.__rmul__(s)
        o = D.lift(o)
        return D(s.v * o.v, s.t * o.v + s.v * o.t)
    __rmul__ = __mul__

    def __truediv__(s, o):
        o = D.lift(o)
        return D(s.v / o.v, (s.t * o.v - s.v * o.t) / (o.v * o.v))

    def __rtruediv__(s, o):
        return D.lift(o) / s

    def __repr__(s):
        return 'D(%s)' % s.v


class SInt:
    """symbolic mathematical integer (machine overflow is not modelled here; CCV covers casts and overflow)"""
    __slots__ = ('e',)

    def __init__(s, e):
        s.e = sp.sympify(e)

    @staticmethod
    def ex(x):
        return x.e if isinstance(x, SInt) else sp.Integer(x)

    def __neg__(s): return SInt(-s.e)
    def __add__(s, o):
        if isinstance(o, D): return D(s.e) + o
        return SInt(s.e + SInt.ex(o))
    __radd__ = __add__
    def __sub__(s, o):
        if isinstance(o, D): return D(s.e) - o
        return SInt(s.e - SInt.ex(o))
    def __rsub__(s, o): return SInt(SInt.ex(o) - s.e)
    def __mul__(s, o):
        if isinstance(o, D): return D(s.e) * o
        return SInt(s.e * SInt.ex(o))
    __rmul__ = __mul__
    def __repr__(s): return 'SInt(%s)' % s.e


# ------------------------------------------------------------------------------------------------ normal form

def reduce_rad(p):
    changed = True
    while changed:
        changed = False
        for (r, a) in CTX.rad:
            if p.has(r):
                P = sp.Poly(p, r)
                if P.degree() >= 2:
                    coeffs = P.all_coeffs()[::-1]
                    newp = 0
                    for k, c in enumerate(coeffs):
                        newp += c * (a ** (k // 2)) * (r ** (k % 2))
                    num, den = sp.fraction(sp.together(newp))
                    p = sp.expand(num)
                    changed = True
    return p


def _rad_args():
    dep = getattr(CTX, '_dep', {})
    return dep


def resolve_deps():
    """dependent radicals: sqrt(a_k) with a_k == a_i * a_j for two other radicals is replaced by s_i * s_j (computed once per radical set)"""
    key = len(CTX.rad)
    if getattr(CTX, '_depkey', None) == key:
        return CTX._dep
    dep = {}
    syms = list(CTX.rad)
    for k, (rk, ak) in enumerate(syms):
        for i, (ri, ai) in enumerate(syms):
            if rk in dep:
                break
            for j, (rj, aj) in enumerate(syms):
                if i >= j or k in (i, j) or ri in dep or rj in dep:
                    continue
                if sp.expand(sp.numer(sp.together(ak - ai * aj))) == 0:
                    dep[rk] = ri * rj
                    break
    CTX._depkey, CTX._dep = key, dep
    return dep


def nf_num(e):
    dep = resolve_deps()
    if dep:
        e = e.subs(dep)
    num, den = sp.fraction(sp.together(e))
    return reduce_rad(sp.expand(num))


def nf_zero(e):
    e = sp.sympify(e)
    if e == 0:
        return True
    return nf_num(e) == 0


def d_sqrt(x):
    x = D.lift(x)
    arg = sp.together(x.v)
    if arg.is_number and arg.is_rational:
        r = sp.sqrt(arg)
        if r.is_rational:
            return D(r, x.t / (2 * r))
    for (r, a) in CTX.rad:
        if nf_zero(a - arg):
            return D(r, x.t / (2 * r))
    # sqrt(a*b) with sqrt(a), sqrt(b) known: dependent radical, eliminated
    for i, (r1, a1) in enumerate(CTX.rad):
        for (r2, a2) in CTX.rad[i:]:
            if nf_zero(a1 * a2 - arg):
                return D(r1 * r2, x.t / (2 * r1 * r2))
    r = sp.Symbol('s%d' % len(CTX.rad), positive=True)
    CTX.rad.append((r, arg))
    return D(r, x.t / (2 * r))


def ufun(name):
    f = CTX.funcs.get(name)
    if f is None:
        f = CTX.funcs[name] = sp.Function(name, real=True)
    return f


def d_exp(x):
    x = D.lift(x)
    e = ufun('E')(sp.expand(x.v))
    return D(e, e * x.t)


def d_log(x):
    x = D.lift(x)
    if x.v.func == ufun('E'):
        return D(x.v.args[0], x.t / x.v)
    return D(ufun('L')(sp.together(x.v)), x.t / x.v)


def d_acos(x):
    x = D.lift(x)
    q = d_sqrt(D(1 - x.v * x.v))
    return D(ufun('acos')(x.v), -x.t / q.v)


def d_sin(x):
    x = D.lift(x)
    return D(ufun('sin')(x.v), ufun('cos')(x.v) * x.t)


def d_cos(x):
    x = D.lift(x)
    return D(ufun('cos')(x.v), -ufun('sin')(x.v) * x.t)


def d_pow(x, n):
    if isinstance(n, D):
        if not n.v.is_Integer:
            raise Unsupported('pow with non-integer exponent %s' % n.v)
        n = int(n.v)
    if isinstance(n, SInt):
        raise Unsupported('pow with symbolic exponent')
    x = D.lift(x)
    r = D(1)
    for _ in range(abs(n)):
        r = r * x
    return r if n >= 0 else D(1) / r


# ------------------------------------------------------------------------------------------------ matrices

class Mx:
    """r x c matrix of dual numbers; column vectors have c == 1. Views share storage. arr: Eigen Array semantics."""

    def __init__(s, r, c, data=None, base=None, r0=0, c0=0, arr=False):
        s.r, s.c, s.arr = r, c, arr
        s.base, s.r0, s.c0 = base, r0, c0
        if base is None:
            s.d = data if data is not None else [[D(0) for _ in range(c)] for _ in range(r)]

    def g(s, i, j=0):
        if not (0 <= i < s.r and 0 <= j < s.c):
            raise Unsupported('matrix index (%d,%d) outside %dx%d' % (i, j, s.r, s.c))
        return s.base.g(s.r0 + i, s.c0 + j) if s.base is not None else s.d[i][j]

    def p(s, i, j, v):
        if not (0 <= i < s.r and 0 <= j < s.c):
            raise Unsupported('matrix write (%d,%d) outside %dx%d' % (i, j, s.r, s.c))
        if s.base is not None:
            s.base.p(s.r0 + i, s.c0 + j, v)
        else:
            s.d[i][j] = D.lift(v)

    @staticmethod
    def vec(xs):
        return Mx(len(xs), 1, [[D.lift(x)] for x in xs])

    @staticmethod
    def sym(name, r, c=1, **assume):
        if c == 1:
            return Mx(r, 1, [[D(sp.Symbol('%s%s' % (name, 'xyz'[i] if r == 3 else i), **(assume or {'real': True})))] for i in range(r)])
        return Mx(r, c, [[D(sp.Symbol('%s%d%d' % (name, i, j), **(assume or {'real': True}))) for j in range(c)] for i in range(r)])

    def flat(s):
        return [s.g(i, j) for i in range(s.r) for j in range(s.c)]

    def copy(s):
        return Mx(s.r, s.c, [[s.g(i, j) for j in range(s.c)] for i in range(s.r)], arr=s.arr)

    def assign(s, o):
        if not isinstance(o, Mx):
            raise Unsupported('assign scalar to matrix')
        if (o.r, o.c) != (s.r, s.c):
            if o.r * o.c == s.r * s.c and 1 in (o.r, o.c) and 1 in (s.r, s.c):
                fl = o.flat()
                k = 0
                for i in range(s.r):
                    for j in range(s.c):
                        s.p(i, j, fl[k])
                        k += 1
                return
            if s.base is None:   # dynamic-size Eigen object: assignment resizes
                s.r, s.c = o.r, o.c
                s.d = [[o.g(i, j) for j in range(o.c)] for i in range(o.r)]
                return
            raise Unsupported('shape %s <- %s' % ((s.r, s.c), (o.r, o.c)))
        vals = [[o.g(i, j) for j in range(s.c)] for i in range(s.r)]
        for i in range(s.r):
            for j in range(s.c):
                s.p(i, j, vals[i][j])

    # views
    def view(s, r0, c0, nr, nc):
        if r0 < 0 or c0 < 0 or r0 + nr > s.r or c0 + nc > s.c:
            raise Unsupported('view outside matrix')
        return Mx(nr, nc, base=s, r0=r0, c0=c0, arr=s.arr)

    def col(s, j): return s.view(0, _i(j), s.r, 1)
    def row(s, i): return s.view(_i(i), 0, 1, s.c)
    def segment(s, n, i): return s.view(_i(i), 0, _i(n), 1) if s.c == 1 else s.view(0, _i(i), 1, _i(n))
    def head(s, n): return s.segment(n, 0)
    def tail(s, n): return s.segment(n, (s.r if s.c == 1 else s.c) - _i(n))
    def rightCols(s, n): return s.view(0, s.c - _i(n), s.r, _i(n))
    def leftCols(s, n): return s.view(0, 0, s.r, _i(n))
    def topRows(s, n): return s.view(0, 0, _i(n), s.c)
    def bottomRows(s, n): return s.view(s.r - _i(n), 0, _i(n), s.c)
    def block(s, i, j, nr, nc): return s.view(_i(i), _i(j), _i(nr), _i(nc))
    def topLeftCorner(s, nr, nc): return s.view(0, 0, _i(nr), _i(nc))
    def topRightCorner(s, nr, nc): return s.view(0, s.c - _i(nc), _i(nr), _i(nc))
    def bottomLeftCorner(s, nr, nc): return s.view(s.r - _i(nr), 0, _i(nr), _i(nc))
    def bottomRightCorner(s, nr, nc): return s.view(s.r - _i(nr), s.c - _i(nc), _i(nr), _i(nc))
    def middleCols(s, j, n): return s.view(0, _i(j), s.r, _i(n))
    def middleRows(s, i, n): return s.view(_i(i), 0, _i(n), s.c)
    def transpose(s): return Mx(s.c, s.r, [[s.g(i, j) for i in range(s.r)] for j in range(s.c)])
    def selfadjointViewLower(s):
        v = Mx(s.r, s.c, [[s.g(max(i, j), min(i, j)) for j in range(s.c)] for i in range(s.r)])
        v.sa_src = s          # the matrix whose lower triangle this view stands for (rankUpdate writes through)
        return v
    def rankUpdate(s, u, alpha=1):
        """contract of SelfAdjointView<Lower>::rankUpdate(u, alpha): the viewed matrix becomes M + alpha * u * u^T; only its lower triangle is written"""
        src = getattr(s, 'sa_src', None)
        if src is None:
            raise Unsupported('rankUpdate on something else than selfadjointView<Lower>()')
        if u.r != src.r or src.r != src.c:
            raise Unsupported('rankUpdate: %dx%d update of a %dx%d matrix' % (u.r, u.c, src.r, src.c))
        uut = u * u.transpose()
        for i in range(src.r):
            for j in range(i + 1):
                src.p(i, j, src.g(i, j) + D.lift(alpha) * uut.g(i, j))
        return s
    def diagonal(s, k=0):
        k = _i(k)
        if k == 0:
            return MxDiag(s)
        n = min(s.r, s.c) - abs(k)      # k-th super- (k > 0) or sub-diagonal (k < 0), as a copy
        return Mx.vec([s.g(i, i + k) if k > 0 else s.g(i - k, i) for i in range(max(n, 0))])
    def asDiagonal(s):
        v = s.flat()
        return Mx(len(v), len(v), [[v[i] if i == j else D(0) for j in range(len(v))] for i in range(len(v))])
    def array(s): return Mx(s.r, s.c, base=s, arr=True)
    def matrix(s): return Mx(s.r, s.c, base=s, arr=False)
    def eval(s): return s.copy()

    # elements
    def eref(s, k):
        k = _i(k)
        i, j = (k, 0) if s.c == 1 else (0, k) if s.r == 1 else (k % s.r, k // s.r)
        return Ref(lambda: s.g(i, j), lambda v: s.p(i, j, v))

    def x(s): return s.eref(0)
    def y(s): return s.eref(1)
    def z(s): return s.eref(2)
    def size(s): return s.r * s.c
    def rows(s): return s.r
    def cols(s): return s.c

    # algebra
    def _ew(s, o, f):
        if (s.r, s.c) != (o.r, o.c):
            raise Unsupported('element-wise op on shapes %s %s' % ((s.r, s.c), (o.r, o.c)))
        return Mx(s.r, s.c, [[f(s.g(i, j), o.g(i, j)) for j in range(s.c)] for i in range(s.r)], arr=s.arr or o.arr)

    def _map(s, f):
        return Mx(s.r, s.c, [[f(s.g(i, j)) for j in range(s.c)] for i in range(s.r)], arr=s.arr)

    def __add__(s, o):
        if not isinstance(o, Mx):
            if s.arr:
                o = D.lift(o)
                return s._map(lambda a: a + o)
            return NotImplemented
        return s._ew(o, lambda a, b: a + b)

    def __sub__(s, o):
        if not isinstance(o, Mx):
            if s.arr:
                o = D.lift(o)
                return s._map(lambda a: a - o)
            return NotImplemented
        return s._ew(o, lambda a, b: a - b)

    def __neg__(s): return s._map(lambda a: -a)

    def __mul__(s, o):
        if isinstance(o, Mx):
            if s.arr or o.arr:
                return s._ew(o, lambda a, b: a * b)
            if s.c != o.r:
                if (s.r, s.c) == (1, 1):
                    return o * s.scalar()
                if (o.r, o.c) == (1, 1):
                    return s * o.scalar()
                raise Unsupported('matmul shapes %s %s' % ((s.r, s.c), (o.r, o.c)))
            out = Mx(s.r, o.c)
            for i in range(s.r):
                for j in range(o.c):
                    acc = D(0)
                    for k in range(s.c):
                        acc = acc + s.g(i, k) * o.g(k, j)
                    out.p(i, j, acc)
            return out
        o = D.lift(o)
        return s._map(lambda a: a * o)

    def __rmul__(s, o):
        o = D.lift(o)
        return s._map(lambda a: o * a)

    def __truediv__(s, o):
        if isinstance(o, Mx):
            if s.arr or o.arr:
                return s._ew(o, lambda a, b: a / b)
            raise Unsupported('matrix / matrix')
        o = D.lift(o)
        return s._map(lambda a: a / o)

    def cwiseProduct(s, o): return s._ew(o, lambda a, b: a * b)
    def cwiseQuotient(s, o): return s._ew(o, lambda a, b: a / b)

    def dot(s, o):
        a, b = s.flat(), o.flat()
        if len(a) != len(b):
            raise Unsupported('dot sizes')
        acc = D(0)
        for p, q in zip(a, b):
            acc = acc + p * q
        return acc

    def cross(s, o):
        a, b = s.flat(), o.flat()
        if len(a) != 3 or len(b) != 3:
            raise Unsupported('cross sizes')
        return Mx.vec([a[1] * b[2] - a[2] * b[1], a[2] * b[0] - a[0] * b[2], a[0] * b[1] - a[1] * b[0]])

    def squaredNorm(s): return s.dot(s)
    def norm(s): return d_sqrt(s.squaredNorm())

    def normalized(s):
        n = s.norm()
        return s / n

    def normalize(s):
        s.assign(s.normalized())

    def prod(s):
        acc = D(1)
        for a in s.flat():
            acc = acc * a
        return acc
    def sum(s):
        acc = D(0)
        for a in s.flat():
            acc = acc + a
        return acc

    def trace(s):
        acc = D(0)
        for i in range(min(s.r, s.c)):
            acc = acc + s.g(i, i)
        return acc

    def determinant(s):
        if (s.r, s.c) == (2, 2):
            return s.g(0, 0) * s.g(1, 1) - s.g(0, 1) * s.g(1, 0)
        if (s.r, s.c) == (3, 3):
            g = s.g
            return (g(0, 0) * (g(1, 1) * g(2, 2) - g(1, 2) * g(2, 1)) - g(0, 1) * (g(1, 0) * g(2, 2) - g(1, 2) * g(2, 0))
                    + g(0, 2) * (g(1, 0) * g(2, 1) - g(1, 1) * g(2, 0)))
        raise Unsupported('determinant of %dx%d' % (s.r, s.c))

    def inverse(s):
        if (s.r, s.c) == (2, 2):
            d = s.determinant()
            return Mx(2, 2, [[s.g(1, 1) / d, -s.g(0, 1) / d], [-s.g(1, 0) / d, s.g(0, 0) / d]])
        if (s.r, s.c) == (3, 3):
            d = s.determinant()
            g = s.g
            def cof(i, j):
                r = [k for k in range(3) if k != i]
                c = [k for k in range(3) if k != j]
                m = g(r[0], c[0]) * g(r[1], c[1]) - g(r[0], c[1]) * g(r[1], c[0])
                return m if (i + j) % 2 == 0 else -m
            return Mx(3, 3, [[cof(j, i) / d for j in range(3)] for i in range(3)])      # adjugate / determinant
        raise Unsupported('inverse of %dx%d' % (s.r, s.c))

    def colwise(s): return MxWise(s, 'col')
    def rowwise(s): return MxWise(s, 'row')

    def value(s): return s.scalar()

    def scalar(s):
        if (s.r, s.c) != (1, 1):
            raise Unsupported('1x1 expected, got %dx%d' % (s.r, s.c))
        return s.g(0, 0)

    def __repr__(s):
        return 'Mx(%s)' % [[s.g(i, j).v for j in range(s.c)] for i in range(s.r)]


class MxWise:
    """Eigen colwise() / rowwise() reductions"""
    def __init__(s, m, how):
        s.m, s.how = m, how
    def _parts(s):
        return [s.m.col(j) for j in range(s.m.c)] if s.how == 'col' else [s.m.row(i) for i in range(s.m.r)]
    def _out(s, vals):
        return Mx(1, len(vals), [list(vals)]) if s.how == 'col' else Mx.vec(vals)
    def norm(s): return s._out([p.norm() for p in s._parts()])
    def squaredNorm(s): return s._out([p.squaredNorm() for p in s._parts()])
    def sum(s): return s._out([p.sum() for p in s._parts()])
    def normalize(s):
        for p in s._parts():
            p.normalize()


class BoolArr(list):
    """Eigen::Array<bool, Dynamic, 1>: elements are Python bools or sympy relations"""
    def head(s, n): return BoolArr(s[:_i(n)])
    def tail(s, n): return BoolArr(s[len(s) - _i(n):])
    def size(s): return len(s)
    def all(s): return sp.And(*[sp.true if x is True else (sp.false if x is False else x) for x in s]) if s else True
    def any(s): return sp.Or(*[sp.true if x is True else (sp.false if x is False else x) for x in s]) if s else False
    def count(s):
        if not all(isinstance(x, bool) for x in s):
            raise Unsupported('count() of a boolean array with undecided entries')
        return sum(1 for x in s if x)
    def copy(s): return BoolArr(s)
    def select(s, a, b):
        """Eigen select(): coefficient-wise a where the condition holds, b elsewhere (a, b arrays of the same size or scalars)"""
        def el(x, k):
            return x.flat()[k] if isinstance(x, Mx) else D.lift(x)
        for x in (a, b):
            if isinstance(x, Mx) and len(x.flat()) != len(s):
                raise Unsupported('select() operands of different size')
        out = []
        for k, c in enumerate(s):
            if isinstance(c, bool):
                out.append(el(a, k) if c else el(b, k))
            else:
                xa, xb = el(a, k), el(b, k)
                out.append(D(sp.Piecewise((xa.v, c), (xb.v, True)), sp.Piecewise((xa.t, c), (xb.t, True))))
        return Mx.vec(out)


class MxDiag(Mx):
    """lvalue view of the main diagonal"""
    def __init__(s, m):
        s.m_, s.r, s.c, s.arr, s.base, s.r0, s.c0 = m, min(m.r, m.c), 1, m.arr, None, 0, 0
    def g(s, i, j=0):
        return s.m_.g(i, i)
    def p(s, i, j, v):
        s.m_.p(i, i, v)


def shape_of(tynode):
    """(rows, cols, is_array) of an Eigen type from clang's type node (qualType / desugaredQualType); dims < 0 are dynamic"""
    for t in (tynode.get('desugaredQualType', ''), tynode.get('qualType', '')):
        m = re.search(r'(Matrix|Array)<double, (-?\d+), (-?\d+)', t)
        if m:
            return int(m.group(2)), int(m.group(3)), m.group(1) == 'Array'
        m = re.search(r'\b(Vector|RowVector|Matrix|Array)([234X])d\b', t)
        if m:
            n = -1 if m.group(2) == 'X' else int(m.group(2))
            k = m.group(1)
            if k == 'Vector': return n, 1, False
            if k == 'RowVector': return 1, n, False
            if k == 'Matrix': return n, n, False
            return n, 1, True
    return None


def _i(x):
    if isinstance(x, D):
        if x.v.is_Integer:
            return int(x.v)
        raise Unsupported('symbolic index %s' % x.v)
    if isinstance(x, SInt):
        if x.e.is_Integer:
            return int(x.e)
        raise Unsupported('symbolic index %s' % x.e)
    if isinstance(x, sp.Integer):
        return int(x)
    return x


class Ref:
    """lvalue"""
    __slots__ = ('get', 'set')

    def __init__(s, get, set):
        s.get = get
        s.set = set


def rval(x):
    return x.get() if isinstance(x, Ref) else x


class Ret(Exception):
    def __init__(s, v):
        s.v = v


class Thrown(Exception):
    """a C++ exception; ty = (desugared) type name of the thrown object when known"""
    def __init__(s, ty=None):
        Exception.__init__(s, ty or 'exception')
        s.ty = ty


class Brk(Exception):
    pass


class Cont(Exception):
    pass


class Lambda:
    """closure: by-value captures are snapshotted when the lambda expression is evaluated, by-reference captures alias the enclosing
    variables (capture kinds are read from the closure type's fields in the AST)"""

    def __init__(s, node, ex):
        cls = [c for c in node['inner'] if c.get('kind') == 'CXXRecordDecl'][0]
        s.m = [c for c in cls['inner'] if c.get('kind') == 'CXXMethodDecl' and c.get('name') == 'operator()'][0]
        s.ex = ex
        fields = [f for f in cls['inner'] if f.get('kind') == 'FieldDecl']
        inits = [c for c in node['inner'] if c.get('kind') not in ('CXXRecordDecl', 'CompoundStmt')]
        s.byval, s.byref = {}, set()
        for f, init in zip(fields, inits):
            names = [x['referencedDecl']['name'] for x in walk(init) if x.get('kind') == 'DeclRefExpr' and 'referencedDecl' in x]
            if not names:
                continue            # e.g. capture of this
            nm = names[0]
            if f['type']['qualType'].rstrip().endswith('&'):
                s.byref.add(nm)
            else:
                v = rval(ex.expr(init))
                s.byval[nm] = v.copy() if isinstance(v, Mx) else (list(v) if isinstance(v, list) else v)
        if len(fields) != len(inits):
            raise Unsupported('lambda with %d captures and %d initialisers' % (len(fields), len(inits)))

    def __call__(s, *args):
        env = dict(s.ex.env)
        env.update(s.byval)
        e2 = Exec(env, s.ex.cb, s.ex.methods, s.ex.this)
        e2.env.update(dict(zip(params_of(s.m), args)))
        try:
            e2.stmt(body_of(s.m))
            r = None
        except Ret as rr:
            r = rr.v
        ps = set(params_of(s.m))
        for k in s.byref:
            if k in e2.env and k not in ps:
                s.ex.env[k] = e2.env[k]
        return r


# ------------------------------------------------------------------------------------------------ sympy -> z3

_ZF = {}


def to_z3(e):
    e = sp.sympify(e)
    if e is sp.true:
        return z3.BoolVal(True)
    if e is sp.false:
        return z3.BoolVal(False)
    if e.is_Symbol:
        return z3.Int(e.name) if e.is_integer else z3.Real(e.name)
    if e.is_Integer:
        return z3.IntVal(int(e))
    if e.is_Rational:
        return z3.RealVal(str(e))
    if e.is_Add or e.is_Mul:
        args = [to_z3(a) for a in e.args]
        if any(a.sort() == z3.RealSort() for a in args):
            args = [z3.ToReal(a) if a.sort() == z3.IntSort() else a for a in args]
        r = args[0]
        for a in args[1:]:
            r = (r + a) if e.is_Add else (r * a)
        return r
    if isinstance(e, sp.Mod):
        return to_z3(e.args[0]) % to_z3(e.args[1])
    if isinstance(e, sp.Piecewise):
        r = None
        for val, cond in reversed(e.args):
            v = to_z3(val)
            if r is None:
                r = v
            else:
                if v.sort() != r.sort():
                    v = z3.ToReal(v) if v.sort() == z3.IntSort() else v
                    r = z3.ToReal(r) if r.sort() == z3.IntSort() else r
                r = z3.If(to_z3(cond), v, r)
        return r
    if e.is_Pow and e.exp.is_Integer:
        b = to_z3(e.base)
        n = int(e.exp)
        r = b
        for _ in range(abs(n) - 1):
            r = r * b
        if n >= 0:
            return r
        if r.sort() == z3.IntSort():
            r = z3.ToReal(r)
        return z3.RealVal(1) / r
    if isinstance(e, (sp.Lt, sp.Gt, sp.Le, sp.Ge, sp.Eq, sp.Ne)):
        a, b = to_z3(e.lhs), to_z3(e.rhs)
        if a.sort() != b.sort():
            a = z3.ToReal(a) if a.sort() == z3.IntSort() else a
            b = z3.ToReal(b) if b.sort() == z3.IntSort() else b
        return {sp.StrictLessThan: a < b, sp.StrictGreaterThan: a > b, sp.LessThan: a <= b, sp.GreaterThan: a >= b,
                sp.Equality: a == b, sp.Unequality: a != b}[type(e)]
    if isinstance(e, sp.And):
        return z3.And(*[to_z3(a) for a in e.args])
    if isinstance(e, sp.Or):
        return z3.Or(*[to_z3(a) for a in e.args])
    if isinstance(e, sp.Not):
        return z3.Not(to_z3(e.args[0]))
    if isinstance(e, sp.ITE):
        return z3.If(to_z3(e.args[0]), to_z3(e.args[1]), to_z3(e.args[2]))
    if isinstance(e, sp.Function) or (hasattr(e, 'func') and isinstance(e.func, sp.core.function.UndefinedFunction)):
        nm = e.func.__name__
        f = _ZF.get((nm, len(e.args)))
        if f is None:
            f = _ZF[(nm, len(e.args))] = z3.Function(nm, *([z3.RealSort()] * (len(e.args) + 1)))
        args = [to_z3(a) for a in e.args]
        args = [z3.ToReal(a) if a.sort() == z3.IntSort() else a for a in args]
        return f(*args)
    raise Unsupported('to_z3: %s' % sp.srepr(e)[:200])


def rad_facts():
    out = []
    for r, a in CTX.rad:
        zr = z3.Real(r.name)
        out.append(zr > 0)
        num, den = sp.fraction(sp.together(a))
        out.append(zr * zr * to_z3(den) == to_z3(num))
    return out


def assigned_names(node):
    """names of variables assigned somewhere inside an AST subtree (=, compound assignment, overloaded +=, ++/--)"""
    out = set()
    for n in walk(node):
        k = n.get('kind')
        tgt = None
        if k in ('BinaryOperator', 'CompoundAssignOperator') and n.get('opcode', '').endswith('=') and n.get('opcode') not in ('==', '!=', '<=', '>='):
            tgt = n['inner'][0]
        elif k == 'CXXOperatorCallExpr' and len(n.get('inner', [])) == 3:
            cal = n['inner'][0]
            while cal.get('kind') in TRANSPARENT:
                cal = cal['inner'][0]
            if cal.get('kind') == 'DeclRefExpr' and cal['referencedDecl']['name'] in ('operator=', 'operator+=', 'operator-=', 'operator*=', 'operator/='):
                tgt = n['inner'][1]
        elif k == 'UnaryOperator' and n.get('opcode') in ('++', '--'):
            tgt = n['inner'][0]
        while tgt is not None and tgt.get('kind') in TRANSPARENT:
            tgt = tgt['inner'][0]
        if tgt is not None and tgt.get('kind') == 'DeclRefExpr':
            out.add(tgt['referencedDecl']['name'])
    return out
class Paths:


    """replay-based depth-first exploration of symbolic decisions; infeasible sides are pruned with z3"""

    def __init__(s, budget=4096, timeout_ms=5000):
        s.prefix, s.pos, s.pc, s.queries, s.budget, s.timeout_ms, s.count = [], 0, [], 0, budget, timeout_ms, 0
        s.dead = 0

    def start(s):
        s.pos, s.pc = 0, []
        s.count += 1
        if s.count > s.budget:
            raise Undecided('path budget %d exceeded' % s.budget)

    def feas(s, extra):
        s.queries += 1
        sol = z3.Solver()
        sol.set('timeout', s.timeout_ms)
        sol.add(*CTX.base)
        sol.add(*s.pc)
        sol.add(extra)
        return sol.check() != z3.unsat

    def decide(s, cond):
        if cond is sp.true or cond is True:
            return True
        if cond is sp.false or cond is False:
            return False
        zc = to_z3(cond)
        if s.pos < len(s.prefix):
            val, _ = s.prefix[s.pos]
        else:
            ct, cf = s.feas(zc), s.feas(z3.Not(zc))
            if ct and cf:
                val = True
                s.prefix.append((True, True))
            else:
                s.dead += 1
                val = ct
                s.prefix.append((val, False))
        s.pos += 1
        s.pc.append(zc if val else z3.Not(zc))
        return val

    def next(s):
        while s.prefix:
            val, alt = s.prefix.pop()
            if alt:
                s.prefix.append((not val, False))
                return True
        return False


# ------------------------------------------------------------------------------------------------ executor

TRANSPARENT = ('ImplicitCastExpr', 'ParenExpr', 'ExprWithCleanups', 'MaterializeTemporaryExpr', 'CXXBindTemporaryExpr',
               'CXXFunctionalCastExpr', 'CXXStaticCastExpr', 'CStyleCastExpr', 'ConstantExpr', 'SubstNonTypeTemplateParmExpr',
               'CXXConstCastExpr', 'CXXDynamicCastExpr', 'CXXReinterpretCastExpr')
REL = {'<': sp.Lt, '>': sp.Gt, '<=': sp.Le, '>=': sp.Ge, '==': sp.Eq, '!=': sp.Ne}


def c_div(a, b):
    q = abs(a) // abs(b)
    return q if (a >= 0) == (b >= 0) else -q


def c_mod(a, b):
    return a - b * c_div(a, b)


class Exec:
    def __init__(s, env, cb, methods=None, this=None):
        s.env = dict(env)
        s.cb = cb
        s.methods = methods or {}
        s.this = this

    # -- helpers
    def call_fn(s, fn, args, this=None):
        ex = Exec(dict(zip(params_of(fn), args)), s.cb, s.methods, this)
        try:
            ex.stmt(body_of(fn))
        except Ret as r:
            return r.v
        return None

    def pick_method(s, name, nargs):
        c = [m for m in s.methods.get(name, []) if len(params_of(m)) == nargs]
        if not c:
            c = [m for m in s.methods.get(name, []) if len(params_of(m)) >= nargs]
        if len(c) >= 1:
            return c[0]
        return None

    def truth(s, c):
        c = rval(c)
        if isinstance(c, bool):
            return c
        if c is None:
            return False
        if isinstance(c, int):
            return c != 0
        if c is sp.true or c is sp.false:
            return bool(c)
        if isinstance(c, (list, dict, str, Lambda)):
            return True
        if isinstance(c, SInt):
            c = sp.Ne(c.e, 0)
        if isinstance(c, D):
            c = sp.Ne(c.v, 0)
        if isinstance(c, sp.Basic):
            if c in (sp.true, sp.false):
                return bool(c)
            if 'decide' in s.cb:
                return s.cb['decide'](c)
            raise Unsupported('symbolic branch %s (no path forking configured)' % c)
        return True

    def field(s, obj, nm):
        if isinstance(obj, ListIt):
            if not (0 <= obj.i < len(obj.lst)):
                raise Unsupported('dereference of an iterator outside its container')
            obj = obj.lst[obj.i]
        if isinstance(obj, dict):
            if nm not in obj:
                raise Unsupported('unknown member %s' % nm)
            return Ref(lambda: obj[nm], lambda v: obj.__setitem__(nm, v))
        if hasattr(obj, nm):
            return Ref(lambda: getattr(obj, nm), lambda v: setattr(obj, nm, v))
        raise Unsupported('member %s of %r' % (nm, type(obj)))

    def callee_name(s, n):
        c = n
        while c['kind'] != 'DeclRefExpr':
            if c['kind'] == 'MemberExpr':
                return c['name']
            if c['kind'] == 'UnresolvedLookupExpr':
                return c.get('name', '?')
            if not c.get('inner'):
                raise Unsupported('callee of kind ' + c['kind'])
            c = c['inner'][0]
        return c['referencedDecl']['name']

    def arith(s, op, a, b):
        if isinstance(a, bool): a = int(a)
        if isinstance(b, bool): b = int(b)
        if op == '+' and (isinstance(a, str) or isinstance(b, str)) and isinstance(a, (str, int)) and isinstance(b, (str, int)):
            return str(a) + str(b)
        if isinstance(a, int) and isinstance(b, int):
            if op == '+': return a + b
            if op == '-': return a - b
            if op == '*': return a * b
            if op == '/':
                if b == 0: raise Unsupported('integer division by zero')
                return c_div(a, b)
            if op == '%':
                if b == 0: raise Unsupported('integer modulo by zero')
                return c_mod(a, b)
        if isinstance(a, (SInt,)) or isinstance(b, SInt):
            if isinstance(a, (int, SInt)) and isinstance(b, (int, SInt)):
                ae, be = SInt.ex(a), SInt.ex(b)
                if op == '+': return SInt(ae + be)
                if op == '-': return SInt(ae - be)
                if op == '*': return SInt(ae * be)
                if op == '%':
                    # C99 truncated remainder for a positive divisor: sign follows the dividend
                    if 'decide' not in s.cb: raise Unsupported('symbolic %')
                    if not s.truth(sp.Gt(be, 0)): raise Unsupported('% by a non-positive symbolic divisor')
                    if s.truth(sp.Ge(ae, 0)): return SInt(sp.Mod(ae, be))
                    return SInt(-sp.Mod(-ae, be))
                if op == '/':
                    if 'int_div' in s.cb: return s.cb['int_div'](a, b)
                    raise Unsupported('symbolic integer division')
        if isinstance(a, (int, SInt)) and not isinstance(b, Mx): a = D.lift(a)
        if isinstance(b, (int, SInt)) and not isinstance(a, Mx): b = D.lift(b)
        if isinstance(a, Mx) and isinstance(b, (int, SInt)): b = D.lift(b)
        if isinstance(b, Mx) and isinstance(a, (int, SInt)): a = D.lift(a)
        if op in ('+', '-'):      # a 1x1 product used as a scalar (implicit conversion); scalar * 1x1 matrix stays a matrix
            if isinstance(a, Mx) and (a.r, a.c) == (1, 1) and isinstance(b, D): a = a.scalar()
            if isinstance(b, Mx) and (b.r, b.c) == (1, 1) and isinstance(a, D): b = b.scalar()
        if op == '+': return a + b
        if op == '-': return a - b
        if op == '*': return a * b
        if op == '/': return a / b
        raise Unsupported('operator %s on %r, %r' % (op, type(a), type(b)))

    def compare(s, op, a, b):
        if isinstance(a, BoolArr) and isinstance(b, bool) and op in ('==', '!='):
            return BoolArr([(x == b) if isinstance(x, bool) else (x if b else sp.Not(x)) for x in a]) if op == '==' else BoolArr([(x != b) if isinstance(x, bool) else (sp.Not(x) if b else x) for x in a])
        if isinstance(a, bool): a = int(a)
        if isinstance(b, bool): b = int(b)
        if isinstance(a, int) and isinstance(b, int):
            return {'<': a < b, '>': a > b, '<=': a <= b, '>=': a >= b, '==': a == b, '!=': a != b}[op]
        if isinstance(a, str) or isinstance(b, str):
            if op == '==': return a == b
            if op == '!=': return a != b
        if isinstance(a, ListIt) or isinstance(b, ListIt):
            if op == '==': return a == b
            if op == '!=': return not (a == b)
        if a is None or b is None or isinstance(a, (dict, list)) or isinstance(b, (dict, list)):
            if op == '==': return a is b
            if op == '!=': return a is not b
        if isinstance(a, Mx) and isinstance(b, Mx) and (a.r, a.c) == (b.r, b.c) and (a.r, a.c) != (1, 1):      # coefficient-wise comparison of two arrays
            out = BoolArr()
            for x, y in zip(a.flat(), b.flat()):
                r = REL[op](x.v, y.v)
                out.append(bool(r) if r in (sp.true, sp.false) else r)
            return out
        if isinstance(a, Mx) and not isinstance(b, Mx):      # coefficient-wise comparison of an array with a scalar
            out = BoolArr()
            for x in a.flat():
                r = REL[op](x.v, SInt.ex(b) if isinstance(b, (int, SInt)) else D.lift(b).v)
                out.append(bool(r) if r in (sp.true, sp.false) else r)
            return out
        av = SInt.ex(a) if isinstance(a, (int, SInt)) else D.lift(a).v
        bv = SInt.ex(b) if isinstance(b, (int, SInt)) else D.lift(b).v
        r = REL[op](av, bv)
        if r in (sp.true, sp.false):
            return bool(r)
        return r

    # -- statements
    def stmt(s, n):
        CTX.nodes += 1
        k = n['kind']
        if k == 'CompoundStmt':
            for c in n.get('inner', []):
                s.stmt(c)
        elif k == 'DeclStmt':
            for vd in n['inner']:
                if vd['kind'] != 'VarDecl':
                    if vd['kind'] in ('TypedefDecl', 'TypeAliasDecl', 'UsingDecl', 'StaticAssertDecl'):
                        continue
                    raise Unsupported('declaration kind %s' % vd['kind'])
                s.declare(vd)
        elif k == 'ReturnStmt':
            raise Ret(s.value(n['inner'][0]) if n.get('inner') else None)
        elif k == 'IfStmt':
            inner = n['inner']
            if n.get('hasInit') or n.get('hasVar'):
                raise Unsupported('if with init/var')
            if s.truth(s.expr(inner[0])):
                s.stmt(inner[1])
            elif len(inner) > 2:
                s.stmt(inner[2])
        elif k == 'ForStmt':
            init, _, cond, inc, body = n['inner']
            if init and init.get('kind'):
                s.stmt(init)
            it = 0
            while (not cond.get('kind')) or s.truth(s.expr(cond)):
                try:
                    s.stmt(body)
                except Brk:
                    break
                except Cont:
                    pass
                if inc and inc.get('kind'):
                    s.expr(inc)
                it += 1
                if it > s.cb.get('loop_bound', 2000):
                    raise Unsupported('loop bound exceeded at line %s' % src_line(n))
        elif k == 'WhileStmt':
            it = 0
            while s.truth(s.expr(n['inner'][0])):
                try:
                    s.stmt(n['inner'][1])
                except Brk:
                    break
                except Cont:
                    pass
                it += 1
                if it > s.cb.get('loop_bound', 2000):
                    raise Unsupported('while bound exceeded at line %s' % src_line(n))
        elif k == 'CXXForRangeStmt':
            inner = n['inner']
            rng_decl = inner[1]['inner'][0]
            rng = rval(s.expr(rng_decl['inner'][0]))
            var = inner[6]['inner'][0]
            byref = '&' in var['type']['qualType']
            items = rng if isinstance(rng, list) else (rng.flat() if isinstance(rng, Mx) else None)
            if items is None:
                raise Unsupported('range-for over %r' % type(rng))
            for idx in range(len(items)):
                s.env[var['name']] = items[idx]
                try:
                    s.stmt(inner[7])
                except Brk:
                    break
                except Cont:
                    pass
                if byref and isinstance(rng, list):
                    rng[idx] = s.env[var['name']]
        elif k == 'SwitchStmt':
            cond = rval(s.expr(n['inner'][0]))
            cv = _i(cond)
            if not isinstance(cv, int):
                raise Unsupported('switch on symbolic value')
            body = n['inner'][1]
            active = False
            try:
                for c in body['inner']:
                    while c['kind'] in ('CaseStmt', 'DefaultStmt'):
                        if c['kind'] == 'CaseStmt':
                            val = _i(rval(s.expr(c['inner'][0])))
                            if val == cv:
                                active = True
                            c = c['inner'][1]
                        else:
                            active = True
                            c = c['inner'][0]
                    if active:
                        s.stmt(c)
            except Brk:
                pass
        elif k == 'BreakStmt':
            raise Brk()
        elif k == 'ContinueStmt':
            raise Cont()
        elif k == 'NullStmt':
            pass
        elif k == 'CXXTryStmt':
            try:
                s.stmt(n['inner'][0])
            except Thrown as e:
                for h in n['inner'][1:]:
                    parts = h.get('inner', [])
                    decl = parts[0] if parts and parts[0].get('kind') == 'VarDecl' else None
                    hty = (decl['type'].get('desugaredQualType') or decl['type'].get('qualType') or '') if decl else None
                    base = re.sub(r'\bconst\b|&|\bclass\b|\s', '', hty) if hty is not None else None
                    thrown = re.sub(r'\bconst\b|&|\bclass\b|\s', '', e.ty) if e.ty else None
                    # a handler matches the same type, catch (...), or std::exception for a known std exception type (no other base-class knowledge)
                    if hty is None or (thrown is not None and (base == thrown or (base == 'std::exception' and thrown.startswith('std::')))):
                        if decl is not None and decl.get('name'):
                            s.env[decl['name']] = {'__class__': 'exception', 'type': e.ty}
                        s.stmt(parts[-1])
                        break
                else:
                    raise
        elif k in ('GotoStmt', 'DoStmt', 'LabelStmt'):
            raise Unsupported('unsupported AST node %s at line %s' % (k, src_line(n)))
        else:
            s.expr(n)

    def declare(s, vd):
        ty = vd['type']['qualType']
        inner = [c for c in vd.get('inner', []) if c.get('kind') and not c['kind'].endswith('Attr')]
        name = vd['name']
        if 'decl' in s.cb:
            r = s.cb['decl'](s, vd, ty, inner)
            if r is not NotImplemented:
                s.env[name] = r
                return
        if not inner:
            s.env[name] = s.default_value(ty)
            return
        init = inner[0]
        if init['kind'] == 'LambdaExpr':
            s.env[name] = Lambda(init, s)
            return
        v = s.expr(init)
        if '&' in ty and isinstance(v, Ref) and not isinstance(rval(v), (Mx, dict, list)):
            # reference to a scalar lvalue: alias
            s.env[name] = v
            s.env.setdefault('__refs__', set()).add(name)
            return
        v = rval(v)
        if isinstance(v, Mx) and '&' not in ty and not (v.base is not None and re.search(r'Block<|VectorBlock<|pair_matrix', ty + ' ' + vd['type'].get('desugaredQualType', ''))):
            v = v.copy()
            if 'Array' in ty: v.arr = True
            elif 'Matrix' in ty or 'Vector' in ty: v.arr = False
        if isinstance(v, ListIt) and '&' not in ty:
            v = ListIt(v.lst, v.i)
        if isinstance(v, list) and '&' not in ty:
            v = v.clone() if hasattr(v, 'clone') else (list(v) if type(v) is list else v)      # by-value copy; model objects that ARE lists copy themselves
        if isinstance(v, int) and not isinstance(v, bool) and re.search(r'\b(double|float)\b', ty) and '*' not in ty:
            v = D(v)
        if vd.get('storageClass') == 'static':
            # a function-local static is state that persists across calls: it is initialised by the FIRST call of the process, so on an arbitrary call it
            # holds a value computed from an earlier call's arguments/object.  Constant initialisers are kept; anything else is havocked (all histories).
            if isinstance(v, D) and (sp.sympify(v.v).free_symbols or sp.sympify(v.t).free_symbols):
                CTX.static_havoc = getattr(CTX, 'static_havoc', 0) + 1
                v = D(sp.Symbol('static_%s' % name, real=True), 0)
            elif (isinstance(v, SInt) and v.e.free_symbols) or isinstance(v, (Mx, dict, list)):
                raise Unsupported('function-local static %s with a non-constant initialiser' % name)
        s.env[name] = s.opaque_hook(name, v)

    def opaque_hook(s, name, v):
        """contract-directed generalisation: a named intermediate is replaced by fresh symbols (value) with its exact tangent kept"""
        if 'opaque_value' in s.cb:
            r = s.cb['opaque_value'](name, v)      # value-directed generalisation (independent of how the code names its locals)
            if r is not None:
                return r
        if name in s.cb.get('opaque', ()):
            if isinstance(v, Mx):
                out = Mx(v.r, v.c, arr=v.arr)
                for i in range(v.r):
                    for j in range(v.c):
                        out.p(i, j, D(sp.Symbol('%s_%d%d' % (name, i, j), real=True), v.g(i, j).t))
                return out
            if isinstance(v, D):
                return D(sp.Symbol(name + '_o', real=True), v.t)
        return v

    def lhs_name(s, node):
        while node is not None and node.get('kind') in TRANSPARENT:
            node = node['inner'][0]
        if node is not None and node.get('kind') == 'DeclRefExpr':
            return node['referencedDecl']['name']
        return None

    def default_value(s, ty):
        t = ty.replace('const ', '').strip()
        if t.endswith('*'):
            return None            # uninitialised pointer: any use before assignment fails in the executor
        if re.match(r'(std::)?vector<', t):
            return []
        sh = shape_of({'qualType': t})
        if sh is not None and 'vector<' not in t:
            r_, c_ = max(sh[0], 0), max(sh[1], 0)
            return Mx(r_, c_, [[D(fresh('uninit')) for _ in range(c_)] for _ in range(r_)], arr=sh[2])     # Eigen does not initialise
        if re.search(r'\b(double|float)\b', t):
            return D(fresh('uninit'))
        if re.search(r'\b(Index|int|long|size_t|unsigned)\b', t):
            return SInt(fresh('uninit_i', integer=True))
        if 'vector<' in t:
            return []
        if re.search(r'\bbool\b', t):
            return False
        if 'string' in t:
            return ''
        raise Unsupported('default value of type %s' % ty)

    def value(s, n):
        return rval(s.expr(n))

    # -- expressions
    def expr(s, n):
        CTX.nodes += 1
        k = n['kind']
        if k in TRANSPARENT:
            if k == 'ConstantExpr' and 'value' in n:
                v = n['value']
                return (v == 'true') if v in ('true', 'false') else int(v)
            inner = n['inner'][-1] if k == 'SubstNonTypeTemplateParmExpr' else n['inner'][0]
            v = s.expr(inner)
            ck = n.get('castKind')
            if ck == 'LValueToRValue':
                v = rval(v)
            elif ck == 'IntegralToFloating':
                v = D.lift(rval(v))
            elif ck == 'FloatingToIntegral':
                v = s.to_int(rval(v))
            elif ck in ('IntegralToBoolean', 'FloatingToBoolean', 'PointerToBoolean'):
                v = s.truth(v)
            elif ck == 'ToVoid':
                v = None
            elif ck in ('IntegralCast', 'NoOp', 'ConstructorConversion', 'UserDefinedConversion', 'DerivedToBase', 'UncheckedDerivedToBase',
                        'ArrayToPointerDecay', 'FunctionToPointerDecay', 'BuiltinFnToFnPtr', 'NullToPointer', 'FloatingCast', 'BitCast', 'Dynamic', 'BaseToDerived', None):
                if ck == 'IntegralCast' and isinstance(rval(v), bool):
                    v = int(rval(v))
            else:
                raise Unsupported('cast kind %s' % ck)
            return v
        if k == 'FloatingLiteral':
            # clang prints the double nearest to the literal with 17 digits (0.1 -> 0.10000000000000001); the real-arithmetic reading of the program takes the
            # literal as the shortest decimal that denotes this double, i.e. what the source says (machine arithmetic treated as mathematical)
            return D(float_literal(n['value']))
        if k == 'IntegerLiteral':
            return int(n['value'])
        if k == 'CXXBoolLiteralExpr':
            return bool(n['value'])
        if k == 'CharacterLiteral':
            return chr(n['value'])
        if k == 'StringLiteral':
            v = n.get('value', '""')
            v = v[1:-1] if len(v) >= 2 and v[0] == '"' and v[-1] == '"' else v.strip('"')
            if '\\' in v:
                try:
                    v = bytes(v, 'utf-8').decode('unicode_escape')       # clang prints the source spelling: decode the C escapes
                except Exception:
                    pass
            return v
        if k == 'CXXNullPtrLiteralExpr' or k == 'GNUNullExpr':
            return None
        if k == 'CXXDefaultArgExpr':
            return None
        if k == 'CXXThisExpr':
            return s.this
        if k == 'CXXThrowExpr':
            ty = None
            if n.get('inner'):
                t0 = n['inner'][0].get('type', {})
                ty = t0.get('desugaredQualType') or t0.get('qualType')
            raise Thrown(ty)
        if k == 'LambdaExpr':
            return Lambda(n, s)
        if k == 'DeclRefExpr':
            rd = n['referencedDecl']
            nm = rd['name']
            if rd.get('kind') == 'EnumConstantDecl':
                if 'enum' in s.cb:
                    return s.cb['enum'](nm)
                return nm
            if nm in s.env:
                cur = s.env[nm]
                if isinstance(cur, Ref) and nm in s.env.get('__refs__', ()):
                    return cur
                return Ref(lambda nm=nm: s.env[nm], lambda v, nm=nm: s.env.__setitem__(nm, v))
            if nm in ('cout', 'cerr', 'endl', 'flush'):
                return 'ostream'
            if rd.get('kind') in ('CXXMethodDecl', 'FunctionDecl'):
                return ('function', nm)         # a function named as a value (pointer to member / function pointer): an opaque token
            if 'global' in s.cb:
                return s.cb['global'](nm)
            raise Unsupported('unknown name %s at line %s' % (nm, src_line(n)))
        if k == 'MemberExpr':
            obj = rval(s.expr(n['inner'][0]))
            return s.field(obj, n['name'])
        if k == 'ArraySubscriptExpr':
            obj = rval(s.expr(n['inner'][0]))
            idx = _i(rval(s.expr(n['inner'][1])))
            return s.index(obj, [idx])
        if k == 'InitListExpr':
            return [rval(s.expr(c)) for c in n.get('inner', [])]
        if k == 'ConditionalOperator':
            return rval(s.expr(n['inner'][1])) if s.truth(s.expr(n['inner'][0])) else rval(s.expr(n['inner'][2]))
        if k == 'UnaryOperator':
            op = n['opcode']
            a = s.expr(n['inner'][0])
            if op == '-':
                v = rval(a)
                return -v if not isinstance(v, bool) else -int(v)
            if op == '+':
                return rval(a)
            if op in ('++', '--'):
                v = rval(a)
                nv = s.arith('+' if op == '++' else '-', v, 1)
                a.set(nv)
                return v if n.get('isPostfix') else nv
            if op == '!':
                return not s.truth(a)
            if op in ('&', '*'):
                return a
            raise Unsupported('unary ' + op)
        if k == 'BinaryOperator':
            op = n['opcode']
            if op == '=':
                l = s.expr(n['inner'][0])
                r = rval(s.expr(n['inner'][1]))
                s.store(l, r, n['inner'][0])
                return l
            if op == '&&':
                return s.truth(s.expr(n['inner'][0])) and s.truth(s.expr(n['inner'][1]))
            if op == '||':
                return s.truth(s.expr(n['inner'][0])) or s.truth(s.expr(n['inner'][1]))
            if op == ',':
                s.expr(n['inner'][0])
                return s.expr(n['inner'][1])
            a = rval(s.expr(n['inner'][0]))
            b = rval(s.expr(n['inner'][1]))
            if op in REL:
                return s.compare(op, a, b)
            return s.arith(op, a, b)
        if k == 'CompoundAssignOperator':
            l = s.expr(n['inner'][0])
            r = rval(s.expr(n['inner'][1]))
            nv = s.arith(n['opcode'][:-1], l.get(), r)
            s.store(l, nv, n['inner'][0])
            return l
        if k == 'CXXConstructExpr' or k == 'CXXTemporaryObjectExpr':
            return s.construct(n)
        if k == 'CXXOperatorCallExpr':
            return s.opcall(n)
        if k == 'CXXMemberCallExpr':
            return s.membercall(n)
        if k == 'CallExpr':
            return s.call(n)
        if k == 'CXXNewExpr':
            ce = [c for c in n.get('inner', []) if c.get('kind') in ('CXXConstructExpr', 'CXXTemporaryObjectExpr')]
            if ce:
                return s.construct(ce[0])
            raise Unsupported('new-expression without constructor')
        if k == 'UnaryExprOrTypeTraitExpr':
            raise Unsupported('sizeof/alignof')
        raise Unsupported('unsupported AST node %s at line %s' % (k, src_line(n)))

    def store(s, l, r, lnode=None):
        if not isinstance(l, Ref):
            if isinstance(l, Mx) and isinstance(r, Mx):
                l.assign(r)
                return
            if isinstance(l, Mx) and l.arr and isinstance(r, (D, int, float)) and not isinstance(r, bool):
                for i in range(l.r):          # array = scalar: every coefficient
                    for j in range(l.c):
                        l.p(i, j, D.lift(r))
                return
            raise Unsupported('assignment to non-lvalue')
        cur = None
        try:
            cur = l.get()
        except Exception:
            pass
        nm = s.lhs_name(lnode) if lnode is not None else None
        if nm is not None:
            r = s.opaque_hook(nm, r)
        if 'destroy' in s.cb and isinstance(cur, dict) and cur.get('__class__') and cur is not r:
            s.cb['destroy'](cur)       # assignment to an owning pointer destroys the previous pointee (ghost event for contracts that depend on object lifetime)
        if isinstance(cur, Mx) and isinstance(r, Mx):
            cur.assign(r)
            return
        if isinstance(cur, D) and isinstance(r, (int, SInt)) and not isinstance(r, bool):
            r = D.lift(r)
        if isinstance(cur, D) and isinstance(r, Mx):
            r = r.scalar()
        if isinstance(r, Mx):
            r = r.copy()
        if isinstance(r, ListIt):
            r = ListIt(r.lst, r.i)      # iterators are values: j = i must not alias i
        l.set(r)

    def to_int(s, v):
        if isinstance(v, (int, SInt)):
            return v
        if isinstance(v, D):
            if v.v.is_Integer:
                return int(v.v)
            if v.v.is_Rational:
                return c_div(int(v.v.p), int(v.v.q))
            if v.v.is_Symbol and v.v.is_integer:
                return SInt(v.v)
            if 'to_int' in s.cb:
                return s.cb['to_int'](v)
        raise Unsupported('float->int conversion of symbolic value %s' % (v,))

    def index(s, obj, idx):
        if isinstance(obj, Mx):
            if len(idx) == 1:
                return obj.eref(idx[0])
            i, j = _i(idx[0]), _i(idx[1])
            return Ref(lambda: obj.g(i, j), lambda v: obj.p(i, j, v))
        if hasattr(obj, 'index_ref'):
            return obj.index_ref(idx)
        if isinstance(obj, list):
            i = _i(idx[0])
            if not isinstance(i, int):
                raise Unsupported('symbolic list index')
            if not (0 <= i < len(obj)):
                raise Unsupported('list index %d outside [0,%d)' % (i, len(obj)))
            return Ref(lambda: obj[i], lambda v: obj.__setitem__(i, v))
        if hasattr(obj, 'index_ref'):
            return obj.index_ref(idx)
        if isinstance(obj, str):
            i = _i(idx[0])
            if isinstance(i, int) and 0 <= i < len(obj):
                return obj[i]
            if isinstance(i, int) and i == len(obj):
                return '\0'
            raise Unsupported('string index %r outside the string' % (i,))
        raise Unsupported('index on %r' % type(obj))

    def construct(s, n):
        ty = n['type']['qualType']
        args = [a for a in n.get('inner', []) if a['kind'] != 'CXXDefaultArgExpr']
        if 'construct' in s.cb:
            r = s.cb['construct'](s, n, ty, args)
            if r is not NotImplemented:
                return r
        if not args:
            return s.default_value(ty)
        if len(args) == 1:
            v = rval(s.expr(args[0]))
            if 'vector<' in ty and isinstance(v, (int,)):
                et = re.search(r'vector<(.*)>', ty).group(1)
                return [s.default_value(et) for _ in range(v)]
            if re.search(r'VectorXd|Matrix<double, -1, 1', ty) and isinstance(v, int):
                return Mx(v, 1)
            return v
        vals = [rval(s.expr(a)) for a in args]
        if re.search(r'Vector3d|Matrix<double, 3, 1|Array3d|Array<double, 3, 1', ty) and len(vals) == 3:
            m = Mx.vec(vals)
            m.arr = 'Array' in ty
            return m
        if re.search(r'Vector2d|Matrix<double, 2, 1', ty) and len(vals) == 2:
            return Mx.vec(vals)
        if 'vector<' in ty and len(vals) == 2 and isinstance(vals[0], int):
            return [vals[1].copy() if isinstance(vals[1], Mx) else vals[1] for _ in range(vals[0])]
        if re.search(r'MatrixXd|Matrix<double, -1, -1', ty) and len(vals) == 2:
            return Mx(_i(vals[0]), _i(vals[1]))
        if 'pair<' in ty and len(vals) == 2:
            return {'first': vals[0], 'second': vals[1]}
        raise Unsupported('constructor %s with %d args' % (ty, len(vals)))

    def opcall(s, n):
        op = s.callee_name(n['inner'][0])
        if op == 'operator<<':
            a0 = rval(s.expr(n['inner'][1]))
            if (isinstance(a0, str) and a0 == 'ostream') or 'ostream' in n['type']['qualType'] or 'Logger' in n['type']['qualType']:
                if 'ostream_write' in s.cb:
                    s.cb['ostream_write'](rval(s.expr(n['inner'][2])))     # contract: the stream records what is written, in order
                return 'ostream'
            raise Unsupported('operator<< on %r' % type(a0))
        args = [s.expr(a) for a in n['inner'][1:]]
        a0 = rval(args[0]) if args else None
        if hasattr(a0, 'op_call') and len(args) == 2:
            r = a0.op_call(op, rval(args[1]))       # model objects with their own operators (e.g. boost::format % argument)
            if r is not NotImplemented:
                return r
        if op in ('operator[]', 'operator()'):
            if isinstance(a0, Lambda):
                return a0(*[rval(a) for a in args[1:]])
            if callable(a0) and not isinstance(a0, Mx):
                return a0(*[rval(a) for a in args[1:]])
            idx = [rval(a) for a in args[1:]]
            return s.index(a0, idx)
        if op == 'operator=':
            r = rval(args[1])
            s.store(args[0], r, n['inner'][1])
            return args[0]
        if op in ('operator+=', 'operator-=', 'operator*=', 'operator/='):
            cur = rval(args[0])
            r = rval(args[1])
            nv = s.arith(op[8], cur, r)
            if isinstance(cur, Mx):
                cur.assign(nv)
            else:
                s.store(args[0], nv)
            return args[0]
        if op in ('operator*', 'operator->') and len(args) == 1:
            if hasattr(a0, 'deref'):
                return a0.deref()          # model iterator with its own dereference (e.g. a symbolic position)
            if isinstance(a0, ListIt):
                if not (0 <= a0.i < len(a0.lst)):
                    raise Unsupported('dereference of an iterator outside its container')
                return Ref(lambda it=a0, i=a0.i: it.lst[i], lambda v, it=a0, i=a0.i: it.lst.__setitem__(i, v))
            return args[0]      # smart pointer dereference: the pointee
        if op == 'operator-' and len(args) == 1:
            return -a0
        if op == 'operator!' and len(args) == 1:
            if 'stream_fail' in s.cb:
                return s.cb['stream_fail'](a0)
            raise Unsupported('operator! on %r without a contract (stream_fail)' % type(a0).__name__)
        if op in ('operator++', 'operator--'):
            v = rval(args[0])
            if hasattr(v, 'advance'):
                return v.advance(1 if op == 'operator++' else -1)
            nv = s.arith('+' if op == 'operator++' else '-', v, 1)
            args[0].set(nv)
            return nv
        if len(args) == 2:
            a, b = a0, rval(args[1])
            if op in ('operator+', 'operator-', 'operator*', 'operator/'):
                return s.arith(op[8], a, b)
            if op[8:] in REL:
                return s.compare(op[8:], a, b)
            if op in ('operator||', 'operator&&') and isinstance(a, BoolArr) and isinstance(b, BoolArr) and len(a) == len(b):
                def sy(x): return sp.true if x is True else (sp.false if x is False else x)
                out = BoolArr()
                for x, y in zip(a, b):
                    r = (sp.Or if op == 'operator||' else sp.And)(sy(x), sy(y))
                    out.append(bool(r) if r in (sp.true, sp.false) else r)
                return out
        raise Unsupported('operator call %s/%d' % (op, len(args)))

    def membercall(s, n):
        me = n['inner'][0]
        if me['kind'] != 'MemberExpr':
            raise Unsupported('member call through %s' % me['kind'])
        name = me['name']
        objref = s.expr(me['inner'][0])
        obj = rval(objref)
        if name.startswith('operator '):     # conversion operator (e.g. 1x1 product -> double)
            return obj.scalar() if isinstance(obj, Mx) else obj
        argn = [a for a in n['inner'][1:] if a['kind'] != 'CXXDefaultArgExpr']
        key = name
        if key + '@' in s.cb:          # contract that depends on the instantiation: the callback also gets the call node (its type is the instantiated return type)
            return s.cb[key + '@'](obj, n, *[rval(s.expr(a)) for a in argn])
        if key in s.cb:
            return s.cb[key](obj, *[rval(s.expr(a)) for a in argn])
        if obj is s.this or (isinstance(obj, dict) and obj.get('__class__') in s.cb.get('exec_classes', ())):
            m = None
            ref = me.get('referencedMemberDecl')
            if ref:
                hit = [f for f in s.methods.get(name, []) if f.get('id') == ref]
                m = hit[0] if hit else None
            if m is None:
                m = s.pick_method(name, len(argn))
            if m is not None:
                return s.call_fn(m, [s.pass_arg(a, p) for a, p in zip(argn, [c for c in m['inner'] if c['kind'] == 'ParmVarDecl'])], obj)
        args = [rval(s.expr(a)) for a in argn]
        if isinstance(obj, Mx):
            if name in ('segment', 'head', 'tail', 'rightCols', 'leftCols', 'topRows', 'bottomRows'):
                mt = re.search(r'(?:FixedSegmentReturnType|NColsBlockXpr|NRowsBlockXpr)<(\d+)>', n['type']['qualType']) or re.search(r'Block<[^>]*?, (\d+), (\d+)', n['type']['qualType'])
                targs = []
                if mt and len(args) < (2 if name == 'segment' else 1):
                    if mt.re.pattern.startswith('(?:Fixed'):
                        targs = [int(mt.group(1))]
                    else:
                        a, b = int(mt.group(1)), int(mt.group(2))
                        targs = [b if name in ('rightCols', 'leftCols') or (obj.r == 1) else a]
                if name == 'segment' and not targs and len(args) == 2:
                    return obj.segment(args[1], args[0])       # runtime form segment(start, count)
                return getattr(obj, name)(*(targs + args))
            if name == 'selfadjointView':
                return obj.selfadjointViewLower()
            if name in ('maxCoeff', 'minCoeff') and not args:
                vals = obj.flat()
                best = vals[0]
                for v in vals[1:]:
                    c = s.compare('>' if name == 'maxCoeff' else '<', v, best)
                    if s.truth(c):
                        best = v
                return best
            if name in ('setZero',):
                obj.assign(Mx(obj.r, obj.c))
                return obj
            if name == 'resize':
                if obj.base is not None:
                    raise Unsupported('resize of a view')
                dims = [_i(a) for a in args]
                obj.r, obj.c = (dims[0], 1 if obj.c <= 1 else obj.c) if len(dims) == 1 else (dims[0], dims[1])
                obj.d = [[D(fresh('uninit')) for _ in range(obj.c)] for _ in range(obj.r)]   # Eigen leaves resized storage uninitialised
                return None
            if name == 'conservativeResize':
                if obj.base is not None:
                    raise Unsupported('conservativeResize of a view')
                dims = [(None if a == 'NoChange' else _i(a)) for a in args]
                if len(dims) == 1:
                    dims = [dims[0], 1] if obj.c <= 1 else [1, dims[0]]
                nr, nc = (obj.r if dims[0] is None else dims[0]), (obj.c if dims[1] is None else dims[1])
                if not (isinstance(nr, int) and isinstance(nc, int)):
                    raise Unsupported('conservativeResize to a symbolic size')
                obj.d = [[obj.d[i][j] if (i < obj.r and j < obj.c) else D(fresh('uninit')) for j in range(nc)] for i in range(nr)]   # old entries kept, new ones uninitialised
                obj.r, obj.c = nr, nc
                return None
            if hasattr(obj, name):
                return getattr(obj, name)(*args)
            raise Unsupported('Eigen member %s' % name)
        if isinstance(obj, MxWise) and hasattr(obj, name):
            return getattr(obj, name)(*args)
        if isinstance(obj, list):
            if name == 'size': return len(obj)
            if name == 'empty': return len(obj) == 0
            if name == 'push_back' or name == 'emplace_back':
                obj.append(args[0].copy() if isinstance(args[0], Mx) else args[0])
                return None
            if name == 'back': return Ref(lambda: obj[-1], lambda v: obj.__setitem__(-1, v))
            if name == 'front': return Ref(lambda: obj[0], lambda v: obj.__setitem__(0, v))
            if name == 'at': return s.index(obj, args)
            if name == 'clear':
                del obj[:]
                return None
            if name == 'assign' and len(args) == 2 and isinstance(_i(args[0]), int):
                obj[:] = [args[1] for _ in range(_i(args[0]))]
                return None
            if name == 'begin': return ListIt(obj, 0)
            if name == 'end': return ListIt(obj, len(obj))
            if name == 'resize':
                k = _i(args[0])
                if not isinstance(k, int):
                    raise Unsupported('vector::resize to a symbolic size')
                while len(obj) < k:
                    obj.append(D(0) if len(args) < 2 else args[1])      # value-initialised elements
                del obj[k:]
                return None
            if name == 'reserve': return None
            if name == 'data': return obj
        if isinstance(obj, str):
            if name in ('c_str', 'data', 'str'): return obj
            if name == 'substr':
                a = [_i(x) for x in args]
                if all(isinstance(x, int) for x in a) and a and 0 <= a[0] <= len(obj):
                    return obj[a[0]:] if len(a) == 1 else obj[a[0]:a[0] + a[1]]
                raise Unsupported('substr%r on a string of length %d' % (tuple(a), len(obj)))
            if name in ('size', 'length'): return len(obj)
            if name == 'empty': return len(obj) == 0
        if hasattr(obj, 'call'):
            return obj.call(name, args)
        if hasattr(obj, name) and callable(getattr(obj, name)):
            return getattr(obj, name)(*args)
        raise Unsupported('member call %s on %r at line %s' % (name, type(obj).__name__, src_line(n)))

    def pass_arg(s, argnode, parm):
        v = s.expr(argnode)
        ty = parm['type']['qualType']
        if '&' in ty and 'const' not in ty.split('&')[0] and isinstance(v, Ref):
            return rval(v)      # containers/objects are shared by identity; scalar out-params are not supported here
        v = rval(v)
        if isinstance(v, Mx) and '&' not in ty:
            v = v.copy()
        return v

    def call(s, n):
        name = s.callee_name(n['inner'][0])
        argn = [a for a in n['inner'][1:] if a['kind'] != 'CXXDefaultArgExpr']
        if name in s.cb:
            f = s.cb[name]
            if getattr(f, 'by_ref', False):       # contract with out-parameters: the callback receives the lvalues
                return f(*[s.expr(a) for a in argn])
            return f(*[rval(s.expr(a)) for a in argn])
        args = [rval(s.expr(a)) for a in argn]
        ty = n['type']['qualType']
        if name in ('Zero', 'Ones', 'Identity', 'UnitX', 'UnitY', 'UnitZ', 'Constant'):
            return s.eigen_static(name, args, n['type'])
        f = {'sqrt': d_sqrt, 'acos': d_acos, 'pow': d_pow, 'exp': d_exp, 'log': d_log, 'sin': d_sin, 'cos': d_cos}.get(name)
        if f:
            return f(*args)
        if name in ('abs', 'fabs'):
            a = args[0]
            if isinstance(a, int): return abs(a)
            av = SInt.ex(a) if isinstance(a, SInt) else D.lift(a).v
            return (a if s.truth(sp.Ge(av, 0)) else -a)
        if name in ('min', 'max', 'lowest', 'epsilon', 'infinity') and len(args) == 0:
            if 'numeric_limits' in s.cb:
                return s.cb['numeric_limits'](name, n['type'].get('qualType', ''))
            raise Unsupported('numeric_limits::%s without a contract' % name)
        if name in ('min', 'max'):
            a, b = args
            c = s.compare('<', b, a) if name == 'min' else s.compare('<', a, b)
            return b if s.truth(c) else a
        if name == 'move' or name == 'forward':
            return args[0]
        if name in ('accumulate', 'transform', 'copy') and args and isinstance(args[0], ListIt):
            # models of the std algorithms over vector iterators (assumed contracts)
            src = args[0].lst[args[0].i:args[1].i]
            if name == 'accumulate':
                # contract of std::accumulate<It, T>: the accumulator has the type T of the initial value (= the type of the call), every step is
                # acc = T(acc + x): with an integral T over real elements each partial sum is converted (truncated) - 'to_integral' supplies that contract
                acc = args[2]
                rty = n['type'].get('qualType', '').replace('const ', '').strip()
                integral = rty in ('int', 'long', 'unsigned int', 'unsigned long', 'long long', 'short', 'char', 'bool', 'votca::Index', 'Index', 'size_t', 'std::size_t')
                for x in src:
                    acc = args[3](acc, x) if len(args) > 3 else s.arith('+', acc, x)
                    if integral and not isinstance(acc, (int, bool, SInt)) and not (isinstance(acc, D) and acc.v.is_Integer):
                        if 'to_integral' not in s.cb:
                            raise Unsupported('std::accumulate with accumulator type %s over non-integer elements (each partial sum is truncated); no conversion contract configured' % rty)
                        acc = s.cb['to_integral'](acc, rty)
                return acc
            dst = args[2]
            for j, x in enumerate(src):
                dst.lst[dst.i + j] = args[3](x) if name == 'transform' else x
            return None
        if name in ('all_of', 'any_of', 'none_of') and len(args) == 3 and isinstance(args[0], ListIt):
            # std::all_of / any_of / none_of over a vector range, by their definitions (short-circuit order is irrelevant for predicates without side effects)
            res = [s.truth(args[2](x)) for x in args[0].lst[args[0].i:args[1].i]]
            return all(res) if name == 'all_of' else (any(res) if name == 'any_of' else not any(res))
        if name in ('make_unique', 'make_shared'):
            m = re.search(r'(?:unique_ptr|shared_ptr|unique_ptr_t)<\s*(?:[\w:]*::)?(\w+)\s*>', n['type'].get('qualType', ''))
            if not m:
                raise Unsupported('make_unique of type %s' % n['type'].get('qualType'))
            return {'__class__': m.group(1)}
        m = s.pick_method(name, len(argn))
        if m is not None and name in s.cb.get('exec_functions', ()):
            c = n['inner'][0]
            while c.get('kind') != 'DeclRefExpr' and c.get('inner'):
                c = c['inner'][0]
            rid = (c.get('referencedDecl') or {}).get('id')
            hit = [f for f in s.methods.get(name, []) if f.get('id') == rid]      # the instantiation / overload the call resolves to
            if hit:
                m = hit[0]
            elif len(set(f.get('id') for f in s.methods.get(name, []))) > 1:
                raise Unsupported('call of %s: %d candidates and none is the referenced declaration' % (name, len(s.methods.get(name, []))))
            return s.call_fn(m, args, s.this)
        raise Unsupported('call of %s at line %s' % (name, src_line(n)))

    def eigen_static(s, name, args, tynode):
        ints = [_i(a) for a in args]
        sh = shape_of(tynode)
        if sh is None or name == 'Constant':
            raise Unsupported('static Eigen constructor %s with type %s' % (name, tynode.get('qualType')))
        shape = [sh[0], sh[1]]
        dyn = [i for i, d in enumerate(shape) if d < 0]
        if len(dyn) != len(ints):
            raise Unsupported('%s(%d args) for type %s' % (name, len(ints), tynode.get('qualType')))
        for d, v in zip(dyn, ints):
            shape[d] = v
        r, c = shape
        if name == 'Zero': return Mx(r, c, arr=sh[2])
        if name == 'Ones': return Mx(r, c, [[D(1) for _ in range(c)] for _ in range(r)], arr=sh[2])
        if name == 'Identity': return Mx(r, c, [[D(1 if i == j else 0) for j in range(c)] for i in range(r)])
        k = 'XYZ'.index(name[-1])
        return Mx.vec([1 if i == k else 0 for i in range(r)])


class ListIt:
    """iterator into a Python list (std::vector / std::list model)"""

    def __init__(s, lst, i):
        s.lst, s.i = lst, i

    def advance(s, d):
        s.i += d
        return s

    def __eq__(s, o):
        return isinstance(o, ListIt) and s.lst is o.lst and s.i == o.i

    def __ne__(s, o):
        return not s.__eq__(o)


# ------------------------------------------------------------------------------------------------ provers

def _numeric_env(symbols, rng, domain=None):
    env = {}
    for sy in symbols:
        if domain and sy in domain:
            lo, hi = domain[sy]
        elif sy.is_positive:
            lo, hi = Fraction(1, 2), Fraction(3)
        elif sy.is_nonnegative:
            lo, hi = Fraction(0), Fraction(3)
        else:
            lo, hi = Fraction(-3), Fraction(3)
        if sy.is_integer:
            env[sy] = sp.Integer(rng.randint(int(lo), int(hi)))
        else:
            env[sy] = sp.Rational(rng.randint(int(lo * 1000), int(hi * 1000)), 1000)
    return env


def numeric(e, env, prec=50):
    """evaluate e at the point env with 50-digit arithmetic; radicals computed numerically from their radicands"""
    sub = dict(env)
    for r, a in CTX.rad:
        av = sp.N(a.subs(sub), prec)
        if not av.is_real or av < 0:
            return None
        sub[r] = sp.sqrt(av)
    e = e.subs(sub)
    repl = {'E': sp.exp, 'L': sp.log, 'acos': sp.acos, 'sin': sp.sin, 'cos': sp.cos}
    for nm, f in CTX.funcs.items():
        if nm in repl:
            e = e.replace(f, repl[nm])
    v = sp.N(e, prec)
    return v


def free_syms(*exprs):
    out = set()
    for e in exprs:
        out |= sp.sympify(e).free_symbols
    for r, a in CTX.rad:
        if r in out:
            out |= a.free_symbols
    changed = True
    while changed:
        changed = False
        for r, a in CTX.rad:
            if r in out and not a.free_symbols <= out:
                out |= a.free_symbols
                changed = True
    rads = {r for r, _ in CTX.rad}
    return sorted((x for x in out if x not in rads), key=lambda x: x.name)


def identity(oid, function, clause, lhs, rhs, seed=0, domain=None, guard=None, npoints=6, bound=None, z3_cross=False, concrete=None):
    """obligation lhs == rhs for all reals (under the radical relations). Exact normal form decides; refutation needs a numeric witness."""
    t0 = time.time()
    lhs = D.lift(lhs).v if not isinstance(lhs, sp.Basic) else lhs
    rhs = D.lift(rhs).v if not isinstance(rhs, sp.Basic) else rhs
    diff = lhs - rhs
    zero = nf_zero(diff)
    if not zero and concrete is not None:
        # the proof used generalised (opaque) intermediates; a witness must be searched on the un-generalised expressions
        lhs, rhs = concrete()
        lhs = D.lift(lhs).v if not isinstance(lhs, sp.Basic) else lhs
        rhs = D.lift(rhs).v if not isinstance(rhs, sp.Basic) else rhs
    rng = random.Random(seed * 7919 + hash(oid) % 100000)
    syms = free_syms(lhs, rhs)
    # independent numeric evaluation at random points of the domain (cross-check of the normal-form code, and witness search)
    worst, wit, tried = 0, None, 0
    for _ in range(npoints * (1 if zero else 6)):
        env = _numeric_env(syms, rng, domain)
        if guard is not None and not guard(env):
            continue
        try:
            lv, rv = numeric(lhs, env), numeric(rhs, env)
        except Exception:
            continue
        if lv is None or rv is None or not (lv.is_real and rv.is_real) or lv.has(sp.zoo, sp.nan, sp.oo) or rv.has(sp.zoo, sp.nan, sp.oo):
            continue
        tried += 1
        scale = max(abs(lv), abs(rv), 1)
        d = abs(lv - rv) / scale
        if d > worst:
            worst = d
            if d > sp.Float('1e-6'):
                wit = {str(k): str(v) for k, v in env.items()}
                wit['lhs'] = str(sp.N(lv, 20))
                wit['rhs'] = str(sp.N(rv, 20))
        if (not zero) and wit:
            break
        if zero and tried >= npoints:
            break
    wall = time.time() - t0
    be = 'normal-form(sympy Poly/Q)+numeric(mpmath 50 digits)'
    if zero:
        if wit is not None:
            return Ob(oid, function, clause, 'RVC', be, UNDECIDED, wall, 'prover disagreement: normal form says zero, numeric evaluation differs', witness=wit)
        st = BOUNDED if bound else PROVED
        return Ob(oid, function, clause, 'RVC', be, st, wall, 'normal form of lhs-rhs is 0; %d random points agree (max rel diff %s)' % (tried, sp.N(worst, 3)), bound=bound)
    if wit is not None:
        return Ob(oid, function, clause, 'RVC', be, REFUTED, wall, 'normal form non-zero and numeric witness found', witness=wit, bound=bound)
    return Ob(oid, function, clause, 'RVC', be, UNDECIDED, wall, 'normal form non-zero but no numeric witness in %d points (dependent radicals?)' % tried)


def logic(oid, function, clause, claim, pc=(), extra=(), timeout_ms=20000, bound=None, witness_vars=None, small=()):
    """obligation: base /\\ pc /\\ extra  =>  claim   (z3: negation unsat). claim / extra: z3 expressions or sympy relations"""
    t0 = time.time()
    def z(e):
        return e if isinstance(e, z3.ExprRef) else to_z3(e)
    sol = z3.Solver()
    sol.set('timeout', timeout_ms)
    sol.add(*CTX.base)
    sol.add(*rad_facts())
    sol.add(*[z(e) for e in pc])
    sol.add(*[z(e) for e in extra])
    sol.add(z3.Not(z(claim)))
    r = sol.check()
    wall = time.time() - t0
    be = 'z3 %s (Real/Int)' % z3.get_version_string()
    if r == z3.unsat:
        return Ob(oid, function, clause, 'RVC', be, BOUNDED if bound else PROVED, wall, 'negation unsat', bound=bound)
    if r == z3.sat:
        m = sol.model()
        if small:       # prefer a witness that is small enough to replay natively
            sol.push()
            sol.add(*[z(e) for e in small])
            if sol.check() == z3.sat:
                m = sol.model()
            sol.pop()
        wit = {}
        for d in m.decls():
            if d.arity() == 0:
                wit[d.name()] = str(m[d])
        return Ob(oid, function, clause, 'RVC', be, REFUTED, wall, 'z3 model of the negation', witness=wit, bound=bound)
    return Ob(oid, function, clause, 'RVC', be, UNDECIDED, wall, 'z3 unknown: %s' % sol.reason_unknown())


def satisfiable(pc=(), extra=(), timeout_ms=10000):
    """vacuity guard: preconditions + path condition have a model"""
    sol = z3.Solver()
    sol.set('timeout', timeout_ms)
    sol.add(*CTX.base)
    sol.add(*rad_facts())
    sol.add(*[e if isinstance(e, z3.ExprRef) else to_z3(e) for e in list(pc) + list(extra)])
    return sol.check() == z3.sat


def canary(oid, function, lhs, rhs, seed=0, domain=None, guard=None):
    """a deliberately wrong claim (rhs scaled by 2, plus 1) must be refuted; otherwise the route is vacuous"""
    rhs = D.lift(rhs).v if not isinstance(rhs, sp.Basic) else rhs
    o = identity(oid + '/canary', function, 'canary: 2*rhs + 1 must NOT equal lhs', lhs, 2 * rhs + 1, seed, domain, guard)
    if o['status'] == REFUTED:
        return Ob(oid + '/canary', function, o['clause'], 'RVC', o['backend'], PROVED, o['wall_s'], 'canary refuted as required')
    return Ob(oid + '/canary', function, o['clause'], 'RVC', o['backend'], UNDECIDED, o['wall_s'], 'vacuity guard: canary was not refuted (%s)' % o['status'])
