"""Common machinery: obligations, evidence, known findings, verdict / exit code.

Exit codes of ./check:  0 every obligation proved (bounded ones passed)
                        1 at least one obligation refuted that known_findings.json does not list
                        2 undecided (timeout, extraction drift, unknown AST node, solver unknown)
"""
import json, os, sys, time, hashlib, subprocess, traceback, multiprocessing, re

VERIF = os.path.dirname(os.path.dirname(os.path.abspath(__file__)))
REPO = os.environ.get('VERIF_REPO', '/repo')
WORK = os.path.join(VERIF, 'build')          # scratch, ignored by git, rebuilt on demand
NCPU = int(os.environ.get('VERIF_JOBS', '16'))

PROVED, BOUNDED, REFUTED, UNDECIDED = 'proved', 'bounded', 'refuted', 'undecided'


class Undecided(Exception):
    """tool limit / drift / unknown construct: never a violation, never a pass"""


class Ob(dict):
    """one obligation and its outcome"""

    def __init__(self, oid, function, clause, route, backend, status, wall_s=0.0, detail='', witness=None,
                 bound=None, replay=None, log=None):
        super().__init__(id=oid, function=function, clause=clause, route=route, backend=backend, status=status,
                         wall_s=round(wall_s, 3), detail=detail, witness=witness, bound=bound, replay=replay, log=log)


def sha256(text):
    return hashlib.sha256(text.encode() if isinstance(text, str) else text).hexdigest()


def workdir(*parts):
    p = os.path.join(WORK, *parts)
    os.makedirs(p, exist_ok=True)
    return p


def run(cmd, timeout=None, cwd=None, mem_gb=16, env=None, stdin=None):
    """run a command under a wall-clock and address-space limit; returns (rc, stdout, stderr, wall); rc None = timeout"""
    def lim():
        import resource
        b = int(mem_gb * (1 << 30))
        resource.setrlimit(resource.RLIMIT_AS, (b, b))
        os.setsid()
    t0 = time.time()
    p = subprocess.Popen(cmd, cwd=cwd, stdout=subprocess.PIPE, stderr=subprocess.PIPE, stdin=subprocess.PIPE if stdin else None,
                         preexec_fn=lim, env=env, text=True)
    try:
        out, err = p.communicate(stdin, timeout=timeout)
        return p.returncode, out, err, time.time() - t0
    except subprocess.TimeoutExpired:
        try:
            os.killpg(p.pid, 9)
        except Exception:
            p.kill()
        try:
            out, err = p.communicate(timeout=5)
        except Exception:
            out, err = '', ''
        return None, out, err, time.time() - t0


def _call(job):
    f, args = job
    try:
        return f(*args)
    except Undecided as e:
        return [Ob('job:%s%r' % (getattr(f, '__name__', 'f'), tuple(str(a)[:40] for a in args)), '-', str(e), '-', '-', UNDECIDED, detail=str(e))]
    except Exception as e:  # a crash of the machinery is undecided, not a pass
        return [Ob('job:%s%r' % (getattr(f, '__name__', 'f'), tuple(str(a)[:40] for a in args)), '-', 'machinery exception', '-', '-', UNDECIDED,
                   detail=traceback.format_exc()[-1500:])]


JOB_TIMEOUT = float(os.environ.get('VERIF_JOB_TIMEOUT', '2400'))      # wall-clock limit of one job: a prover that does not come back is 'undecided', never a hang


def _child(job, conn):
    try:
        os.setsid()                 # own process group: external solvers started by the job die with it
    except Exception:
        pass
    try:
        conn.send(_call(job))
    except Exception:
        try:
            conn.send([Ob('job:%s' % getattr(job[0], '__name__', 'f'), '-', 'machinery exception', '-', '-', UNDECIDED, detail=traceback.format_exc()[-1500:])])
        except Exception:
            pass
    finally:
        conn.close()


def pmap(jobs, nproc=None):
    """jobs: list of (function, args); every function returns a list of Ob. Each job runs in its own forked process with a wall-clock limit."""
    nproc = min(nproc or NCPU, max(1, len(jobs)))
    if os.environ.get('VERIF_SERIAL'):
        res = [_call(j) for j in jobs]
    else:
        ctx = multiprocessing.get_context('fork')
        pending = list(enumerate(jobs))
        running, results = {}, {}
        while pending or running:
            while pending and len(running) < nproc:
                idx, job = pending.pop(0)
                rd, wr = ctx.Pipe(duplex=False)
                pr = ctx.Process(target=_child, args=(job, wr))
                pr.start()
                wr.close()
                running[idx] = (pr, rd, time.time(), job)
            done = []
            for idx, (pr, rd, t0, job) in running.items():
                name = 'job:%s%r' % (getattr(job[0], '__name__', 'f'), tuple(str(a)[:40] for a in job[1]))
                if rd.poll():
                    try:
                        results[idx] = rd.recv()
                    except EOFError:
                        results[idx] = [Ob(name, '-', 'machinery exception', '-', '-', UNDECIDED, detail='worker process ended without a result')]
                    pr.join(5)
                    done.append(idx)
                elif not pr.is_alive():
                    results[idx] = [Ob(name, '-', 'machinery exception', '-', '-', UNDECIDED, detail='worker process died (exit code %s)' % pr.exitcode)]
                    done.append(idx)
                elif time.time() - t0 > JOB_TIMEOUT:
                    try:
                        os.killpg(pr.pid, 9)
                    except Exception:
                        pr.kill()
                    pr.join(5)
                    results[idx] = [Ob(name, '-', 'job exceeded its wall-clock limit', '-', '-', UNDECIDED, detail='no answer within %.0f s (VERIF_JOB_TIMEOUT)' % JOB_TIMEOUT)]
                    done.append(idx)
            for idx in done:
                running.pop(idx)[1].close()
            if not done:
                time.sleep(0.05)
        res = [results[i] for i in range(len(jobs))]
    out = []
    for r in res:
        out.extend(r)
    return out


# ---------------------------------------------------------------- known findings

def load_known():
    p = os.path.join(VERIF, 'known_findings.json')
    if not os.path.exists(p):
        return []
    return [e for e in json.load(open(p)).get('findings', []) if e.get('state') == 'open']


def known_match(entry, ob):
    """an open finding matches an obligation by id and, when given, by a predicate over the witness"""
    if entry['property'] != ob.get('property') or not re.fullmatch(entry['obligation'], ob['id']):
        return False
    pred = entry.get('witness_pred')
    if not pred:
        return True
    w = ob.get('witness')
    if not isinstance(w, dict):
        return False
    try:
        return bool(eval(pred, {'__builtins__': {'abs': abs, 'min': min, 'max': max, 'all': all, 'any': any, 'len': len}}, dict(w)))
    except Exception:
        return False


# ---------------------------------------------------------------- verdict + evidence

def finish(prop, tier, seed, obs, meta, t0):
    """write evidence, replay files, print verdict lines, return exit code"""
    known = load_known()
    for o in obs:
        o['property'] = prop
    refuted = [o for o in obs if o['status'] == REFUTED]
    undec = [o for o in obs if o['status'] == UNDECIDED]
    proved = [o for o in obs if o['status'] == PROVED]
    bounded = [o for o in obs if o['status'] == BOUNDED]
    viol, kf = [], []
    for o in refuted:
        m = [e for e in known if known_match(e, o)]
        if m:
            kf.append((o, m[0]))
        else:
            viol.append(o)
    rdir = os.path.join(VERIF, 'replays', prop)
    lines = []
    for o, e in kf:
        lines.append('KNOWN-FINDING: property=%s %s' % (prop, e['what']))
    for o in viol:
        os.makedirs(rdir, exist_ok=True)
        path = os.path.join(rdir, re.sub(r'[^A-Za-z0-9_.-]', '_', o['id']) + '.json')
        rep = dict(o)
        rep['note'] = 'obligation failed on the current tree; verifier output in "log"/"detail", native replay in "replay"'
        json.dump(rep, open(path, 'w'), indent=1, default=str)
        tail = ''
        if not (o.get('replay') and o['replay'].get('reproduced')):
            tail = ' no-failing-input-found'
        lines.append('VIOLATION property=%s replay=%s obligation=%s%s' % (prop, path, o['id'], tail))
    for o in undec:
        lines.append('UNDECIDED property=%s obligation=%s reason=%s' % (prop, o['id'], (o['detail'] or o['clause']).strip().splitlines()[-1][:300] if (o['detail'] or o['clause']) else ''))
    # a KNOWN-FINDING line is printed once per finding
    seen = set()
    for l in lines:
        if l not in seen:
            print(l)
            seen.add(l)
    level = meta.get('level', 'proof')
    cnt = lambda os_: sum(int(o.get('count', 1)) for o in os_)
    nded = cnt(proved)
    samples = meta.get('samples', [])
    for o in (proved[:3] + bounded[:2] + refuted[:2]):
        samples.append({k: o[k] for k in ('id', 'function', 'clause', 'route', 'backend', 'status', 'wall_s', 'bound') if o.get(k) is not None})
    cov = {
        # obligations that must hold on this tree; obligations failing exactly as listed in known_findings.json are counted separately below
        'obligations': cnt(proved) + len(viol) + len(undec),
        'known_finding_obligations': [o['id'] for o, _ in kf],
        'discharged': nded,
        'checker_cmd': meta.get('checker_cmd', './check %s --tier %s' % (prop, tier)),
        'trusted_base': meta.get('trusted_base', []),
        'bounded': [{'id': o['id'], 'function': o['function'], 'clause': o['clause'], 'bound': o['bound'], 'backend': o['backend'], 'wall_s': o['wall_s']} for o in bounded],
        'bounded_checks_passed': cnt(bounded),
        'functions_under_contract': meta.get('functions', []),
        'obligation_list': [{'id': o['id'], 'function': o['function'], 'status': o['status'], 'count': int(o.get('count', 1)), 'backend': o['backend'], 'route': o['route'], 'wall_s': o['wall_s']} for o in obs],
        'solver_wall_s': round(sum(o['wall_s'] for o in obs), 2),
        'known_findings_seen': [{'what': e['what'], 'obligation': o['id'], 'witness': o.get('witness'), 'native_replay': o.get('replay')} for o, e in kf],
        'not_decided': meta.get('not_decided', []),
        'vacuity': meta.get('vacuity', {}),
        'traces_validated_against_impl': meta.get('traces_validated_against_impl', 0),
        'samples': samples or [{'note': 'no obligation generated'}],
        'explanation': meta.get('explanation', ''),
        'exhaustive': bool(meta.get('exhaustive', False)),
        # generic keys (measured): one evaluation per obligation run; distinct = distinct obligation ids decided
        'evaluations': len(obs),
        'distinct_nontrivial': len(set(o['id'] for o in obs if o['status'] in (PROVED, BOUNDED, REFUTED))),
        'rule': 'one case = one proof obligation generated from the contracts on the current /repo source; non-trivial = decided (proved, bounded-pass or refuted) by a back end, distinct by obligation id',
    }
    if level == 'proof' and (cov['discharged'] != cov['obligations'] or cov['obligations'] == 0):
        level = 'other'  # never claim proof-level evidence with undischarged obligations
        cov['explanation'] = (cov['explanation'] + ' ' if cov['explanation'] else '') + 'Not every obligation discharged on this run (see obligation_list).'
    ev = {'property_id': prop, 'tier': tier, 'seed': seed, 'level': level, 'coverage': cov,
          'assumptions': meta.get('assumptions', []), 'wall_s': round(time.time() - t0, 2), 'violations': len(viol)}
    evdir = os.path.join(VERIF, 'build', 'evidence_scratch') if os.environ.get('VERIF_NO_EVIDENCE') else os.path.join(VERIF, 'evidence')   # seed trials must not overwrite the committed evidence
    os.makedirs(evdir, exist_ok=True)
    json.dump(ev, open(os.path.join(evdir, prop + '.json'), 'w'), indent=1, default=str)
    print('SUMMARY property=%s tier=%s obligations=%d proved=%d bounded=%d refuted=%d (known %d) undecided=%d wall=%.1fs' % (
        prop, tier, len(obs), len(proved), len(bounded), len(refuted), len(kf), len(undec), time.time() - t0))
    if viol:
        return 1
    if undec or not obs:
        return 2
    return 0
