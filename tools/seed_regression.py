#!/usr/bin/env python3
"""apply every stored seeded change to /repo in turn, run the quick check of its property, expect exit code 1 (violation), undo.
usage: tools/seed_regression.py [name-regex]   (writes build/seed_regression.json; /repo must be clean and must not be used meanwhile)"""
import sys, os, re, json, subprocess, time
V = os.path.dirname(os.path.dirname(os.path.abspath(__file__)))
pat = sys.argv[1] if len(sys.argv) > 1 else '.'
def sh(cmd, **kw):
    return subprocess.run(cmd, shell=True, capture_output=True, text=True, **kw)
if [l for l in sh('git -C /repo status --short').stdout.splitlines() if '_build' not in l]:
    sys.exit('/repo is not clean')
res = {}
for name in sorted(os.listdir(os.path.join(V, 'seeded'))):
    if not re.search(pat, name):
        continue
    d = os.path.join(V, 'seeded', name)
    meta = json.load(open(os.path.join(d, 'meta.json')))
    prop = meta.get('checked_by') or meta['property']      # a seed written for one property may break the contract of a callee that is another property
    patch = os.path.join(d, 'patch.diff')
    if sh('git -C /repo apply --check %s' % patch).returncode != 0:
        res[name] = {'property': prop, 'result': 'patch does not apply to the current tree (the code it changed was repaired or moved since)'}
        print(name, res[name]['result'], flush=True)
        continue
    sh('git -C /repo apply %s' % patch)
    t0 = time.time()
    try:
        r = sh('cd %s && VERIF_NO_EVIDENCE=1 VERIF_JOB_TIMEOUT=900 ./check %s --tier quick' % (V, prop), timeout=3000)
        lines = [l for l in r.stdout.splitlines() if l.startswith('VIOLATION')]
        res[name] = {'property': prop, 'exit': r.returncode, 'violations': len(lines), 'first': (lines[0].split('obligation=')[-1][:120] if lines else ''), 'wall_s': round(time.time() - t0)}
    except subprocess.TimeoutExpired:
        res[name] = {'property': prop, 'exit': 'timeout'}
    finally:
        sh('git -C /repo checkout -- .')
    print(name, res[name], flush=True)
os.makedirs(os.path.join(V, 'build'), exist_ok=True)
json.dump(res, open(os.path.join(V, 'build', 'seed_regression.json'), 'w'), indent=1)
exp_missed = set(n for n in res if json.load(open(os.path.join(V, 'seeded', n, 'meta.json'))).get('expected') == 'missed')      # changes recorded as outside the technique (DESIGN.md)
bad = [n for n, r in res.items() if r.get('exit') not in (1, None) and n not in exp_missed]
print('recorded as missed (outside the technique):', sorted(exp_missed))
print('seeds not reported as violation:', bad)
