#!/usr/bin/env python3
"""store a confirmed seeded change under /verif/seeded/<name>/ : patch.diff, demo.cc, notes.md, meta.json
usage: keep_seed.py <name> <property> <outdir> <confirm.json> '<needs>' '<caught by: obligation list / MISSED>'"""
import sys, os, json, shutil
name, prop, out, conf, needs, caught = sys.argv[1:7]
d = os.path.join(os.path.dirname(os.path.dirname(os.path.abspath(__file__))), 'seeded', name)
os.makedirs(d, exist_ok=True)
for f in ('patch.diff', 'demo.cc', 'notes.md'):
    if os.path.exists(os.path.join(out, f)):
        shutil.copy(os.path.join(out, f), os.path.join(d, f))
c = json.load(open(conf))
meta = {'property': prop, 'breaks': open(os.path.join(out, 'notes.md')).read()[:1500] if os.path.exists(os.path.join(out, 'notes.md')) else '', 'needs_to_manifest': needs,
        'confirmed': {'suite_with_change': c.get('suite_with_change'), 'demo_exit_with_change': c.get('demo_exit_with_change'), 'demo_exit_without_change': c.get('demo_exit_without_change'), 'demo_build': c.get('demo_build')},
        'what_was_run': 'tools/confirm_seed.py in the scratch worktree (suite with the change applied; demo with and without the change); then git -C /repo apply patch.diff; ./check %s; git -C /repo checkout -- .' % prop,
        'check_result': caught}
json.dump(meta, open(os.path.join(d, 'meta.json'), 'w'), indent=1)
print('kept', d)
