#!/bin/bash
# confirm a seeded change in its scratch worktree: suite passes with the change; demo fails with it and passes without it
# usage: confirm_seed.sh <id> <worktree> <outdir>
id=$1; wt=$2; out=$3
cd $wt || exit 2
git diff --quiet && { echo "no change applied in $wt"; exit 2; }
cmake --build _build -j8 2>&1 | tail -1
ctest --test-dir _build -j8 --timeout 900 2>&1 | grep -v memory_test | grep -E "tests passed|Failed" | head -5
cmd=$(grep -m1 -E "g\+\+ " $out/demo.cc | sed 's#^[ /*]*##')
echo "demo build: $cmd"
(cd $out && eval "$cmd" 2>&1 | tail -3; ./demo > demo_with.log 2>&1; echo "demo WITH change: exit $?")
git stash -q
(cd $out && eval "$cmd" 2>&1 | tail -3; ./demo > demo_without.log 2>&1; echo "demo WITHOUT change: exit $?")
git stash pop -q
