#!/usr/bin/env python3
"""confirm a seeded change in its scratch worktree: the suite passes with the change; the demo fails with it and passes without it.
usage: confirm_seed.py <worktree> <outdir>   (prints a JSON summary)"""
import sys, os, re, subprocess, json
wt, out = sys.argv[1], sys.argv[2]
def sh(cmd, cwd=None, timeout=3600):
    p = subprocess.run(cmd, shell=True, cwd=cwd, capture_output=True, text=True, timeout=timeout)
    return p.returncode, (p.stdout + p.stderr)
rc, diff = sh('git diff --stat', wt)
res = {'worktree': wt, 'diffstat': diff.strip().splitlines()[-1] if diff.strip() else 'NO CHANGE'}
lines = open(os.path.join(out, 'demo.cc')).read().splitlines()
cmd, on, pre = [], False, []
for l in lines:
    t = re.sub(r'^\s*(//|\*|/\*)\s?', '', l).rstrip()
    if not on and re.match(r'^\s*[A-Za-z_]+=\S+(\s*;\s*[A-Za-z_]+=\S+)*\s*;?\s*$', t):
        pre.append(t.strip().rstrip(';'))       # shell variables used by the build line (W=/tmp/wt/..; B=$W/_build)
    if not on and re.search(r'\bg\+\+\s', t):
        on = True
    if on:
        cmd.append(t.rstrip('\\').strip())
        if not t.endswith('\\'):
            break
build = ' '.join(cmd)
build = re.sub(r'^\$\s*', '', build)
build = re.split(r'\s&&\s|;', build)[0]
build = re.sub(r'-o\s+\S+', '', build) + ' -o %s/demo_bin' % out
if pre:
    build = '; '.join(pre) + '; ' + build
res['demo_build'] = build
rc, o = sh('cmake --build _build -j8 2>&1 | tail -1; ctest --test-dir _build -j8 --timeout 900 -E memory_test 2>&1 | grep -E "tests passed|Failed"', wt)
res['suite_with_change'] = o.strip().splitlines()[-3:]
def demo():
    rc, o = sh(build, out)
    if rc != 0:
        return 'BUILD FAILED: ' + o[-300:]
    rc, o = sh('%s/demo_bin' % out, out, timeout=600)
    return rc
res['demo_exit_with_change'] = demo()
# note: git stash is shared by all worktrees of a repository, so the change is reverted / re-applied with git apply
sh('git diff > %s/_confirm.patch' % out, wt)
sh('git apply -R %s/_confirm.patch' % out, wt)
try:
    sh('cmake --build _build -j8', wt)      # demos that link the worktree's libraries need them rebuilt without the change
    res['demo_exit_without_change'] = demo()
finally:
    sh('git apply %s/_confirm.patch' % out, wt)
print(json.dumps(res, indent=1))
