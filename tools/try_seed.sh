#!/bin/bash
# apply a stored / candidate change to /repo, run one property's quick check, undo the change.  usage: try_seed.sh <patch.diff> <property> [check args]
p=$1; id=$2; shift 2
git -C /repo diff --quiet || { echo "/repo has uncommitted changes"; exit 2; }
git -C /repo apply "$p" || exit 2
cd /verif && VERIF_NO_EVIDENCE=1 ./check $id "$@" 2>&1 | grep -E "^VIOLATION|^SUMMARY|UNDECIDED|undecided" | cut -c1-260 | head -${SEEDLINES:-12}
rc=${PIPESTATUS[0]}
git -C /repo checkout -- .
echo "exit=$rc"
