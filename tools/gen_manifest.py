#!/usr/bin/env python3
"""writes /verif/MANIFEST.json from the table below (one place to keep claims, levels and not_applicable reasons current)"""
import json, os
V = os.path.dirname(os.path.dirname(os.path.abspath(__file__)))
TECH_CCV = 'contract-based deductive verification: CBMC code contracts (goto-instrument --dfcc) on function text extracted from /repo at check time'
TECH_RVC = 'contract-based deductive verification: verification conditions generated from clang\'s AST of the real translation unit (own VC generator with forward-mode AD), discharged by exact polynomial normal form and z3'
CHECKS = {
 'C01': dict(engine='RVC', cat='other', tech=TECH_RVC,
   text='Map_Sphere::Initialize and Map_Sphere::Apply are executed from their AST for every parent count up to the bound, with callee contracts for the boundary condition (proved under C02), the bead getters and the option access: normalised weights w_i/sum(w), force weights (d_i/sum d)/(w_i/sum w), rejection only for w_i = 0 with d_i != 0; position = sum weight_i (r0 + bc(r0, r_i)), velocity, mass, force formulas for every present/absent pattern and every path; rejection iff a parent is farther than half the shortest box height (never silently mapped); translation equivariance, lattice-shift invariance (structural: parent positions reach the outputs only through the boundary condition) and convex hull as consequences. Coordinates, weights and boxes are unbounded; the number of parents is bounded (3 quick / 4 thorough), so every obligation is reported as bounded.',
   note='Real arithmetic; BCShortestConnection / getShortestBoxDimension by contract (C02), Tokenizer/Property as value sources, std algorithms as models; XML plumbing, csg_map, file formats and Map_Ellipsoid orientation are not decided.', ref='DESIGN.md section 5 C01'),
 'C02': dict(engine='RVC', cat='proof', tech=TECH_RVC,
   text='Contracts on the three BCShortestConnection bodies, BoxVolume, getShortestBoxDimension and Topology::setBox, taken from the property: lattice form with integer coefficients, inside the minimum-image brick, antisymmetry, invariance under whole-box shifts of either point, shortest image (orthorhombic always; reduced triclinic below half the smallest diagonal element), volume = |det|, height = volume / base area, box-type dispatch. Proved for all real inputs on the AST of the real code.',
   note='Assumes real arithmetic; std::round by its contract (nearest integer, odd, integer-shift equivariant); triclinic boxes in the lower-triangular column form the code documents; autoDetectBoxType is not decided.', ref='DESIGN.md section 5 C02'),
 'C05': dict(engine='CCV', cat='other', tech=TECH_CCV + ' (sequential lock/token protocol contracts on every path) + bounded check of all interleavings with CBMC threads',
   text='ProcessData and Worker::Run carry ghost-state protocol contracts (own input token first, reader mutex balanced, at most one read between lock and unlock, next token released exactly once on every return path, merge exactly once under the output token) proved on the verbatim bodies for every worker id, thread count <= 4, any frame budget, both modes; the global lemma (exclusive reader and merge, frames in file order each to one worker, ordered merges in frame order, every selected frame processed) is checked over ALL interleavings of 2 workers + main for small frame counts - a bounded stand-in, reported as bounded.',
   note='Interleaving runs are bounded (2 workers, <= 2 frames quick / 3 thorough) and use bodies after counted pointer-call rewrites (R-ptr); deadlock freedom is argued from the sequential contracts, not machine-checked; NextFrame/EvalConfiguration/MergeWorker are ghost events. One open known finding (unordered mode with a frame budget).', ref='DESIGN.md section 5 C05'),
 'C07': dict(engine='RVC', cat='proof', tech=TECH_RVC,
   text='Per-function contracts "Grad = derivative of EvaluateVar", "DF/D2F = parameter derivatives of F", "CalculateDerivative = d/dr Calculate" proved as polynomial identities over all real inputs on the AST of the real code; CBSPL and spline obligations are proved per knot window for a fixed small number of knots (reported as bounded).',
   note='Assumes real arithmetic (no rounding), the Eigen/libm contracts of the executor, clang AST = compiled code, Topology::getDist contract (r_j - r_i up to a locally constant lattice vector). Rotation invariance and tabulated-potential output are not decided.', ref='DESIGN.md section 5 C07'),
 'C12': dict(engine='RVC+CCV', cat='proof', tech=TECH_RVC + '; ' + TECH_CCV,
   text='Spline coefficient formulas (cubic, Akima, linear), the assembled Interpolate / fit-constraint systems and Spline::getInterval carry contracts taken from the property (interpolation, C0/C1, end conditions, linearity, line reproduction, clamped interval lookup); identities proved in exact real arithmetic on the real AST, getInterval by CBMC dfcc with a loop contract for every grid size (cvc5) plus a quantifier-free twin (size <= 8, SAT).',
   note='Real arithmetic for the algebraic obligations; knot counts N <= 5 (quick) / 6 (thorough) for the assembled systems, reported as bounded; Eigen QR solve is an assumed contract; least-squares optimality of Fit and csg_resample I/O are not decided.', ref='DESIGN.md section 5 C12'),
 'C13': dict(engine='CCV', cat='proof', tech=TECH_CCV,
   text='Function contract on HistogramNew::Process enforced by CBMC dfcc on the verbatim body over IEEE doubles: memory safety (no write outside the bins, no undefined conversion/overflow) for ALL finite inputs and both modes, and the single-bin frame (at most one bin changes, by exactly the weight).',
   note='Trusted: CBMC (front end, dfcc, SAT back end), its floor/isnan models, the stub struct standing for the class declaration (member names/types checked against the header).', ref='DESIGN.md section 5 C13'),
 'C14': dict(engine='RVC', cat='proof', tech=TECH_RVC,
   text='The real huffmanTree<GLink>::makeTree and findHoppingDestination are executed symbolically for positive symbolic rates over every ordering the comparators can observe; on every path each event owns a set of lookup arguments of total length rate/sum(rates), thresholds are nested, every event is a leaf once (bounded in the number of events: 4 quick / 5 thorough). Marcus rates: positivity, linearity in J^2 and detailed balance k12/k21 = exp(dG/kT) for all inputs; escape rate = sum of rates; waiting time dt*k = -log(1-u).',
   note='Assumes real arithmetic, exp/log/sqrt by their contracts, std::priority_queue/std::vector as models, one admissible order for ties; the distribution claims rest on the uniformity of the random generator (not decided). Field-term sign convention taken from the code/anchor.', ref='DESIGN.md section 5 C14'),
 'C15': dict(engine='RVC', cat='proof', tech=TECH_RVC,
   text='The instantiated VSiteA<4>/VSiteA<9>, CalcStaticEnergy_site, ApplyStaticField_site and FillTholeInteraction bodies (with the AxA helper executed from its own AST) carry contracts from the property: exchange symmetry for all 9 rank combinations, E = q1 q2/R for charges, invariance under a common translation, rows of the interaction vector = gradient / real-spherical Hessian combinations of the potential row (which together with the Coulomb case and exchange symmetry pins every interaction tensor to point-charge physics), field accumulated on a polarisable site = dE/d(dipole), Thole tensor symmetric, traceless and equal to (1-3aa^T)/R^3 in the undamped branch, documented lambda3/lambda5 factors in the damped branch. Identities over all real inputs.',
   note='Real arithmetic; rotation invariance with rotated moments, the point-charge-cluster limit, the large-separation limit of the damping and the segment-level double loops are not decided (partial claim).', ref='DESIGN.md section 5 C15'),
 'C18': dict(engine='CCV+RVC', cat='proof', tech=TECH_CCV + '; ' + TECH_RVC,
   text='wildcmp: functional contract (result != 0 <=> glob match) checked against the recursive specification for all pattern/string buffers up to N bytes (bounded, N = 4 quick / 6 thorough) plus an unbounded memory-safety and termination proof by loop contracts on the verbatim body; RangeParser: acceptance contract of ParseBlock (stride != 0, direction-consistent), loop-free step contract of iterator::operator++ (induction gives exact in-order enumeration and termination, negative strides included), print/parse round trip; IndexParser::CreateIndexString run-length contract for up to 4 (6) indices.',
   note='Trusted: CBMC, z3, string splitting / std::stoi / std::to_string / std::set as assumed contracts; bounds as stated (reported under coverage.bounded). Tokenizer, BeadList::Generate and CreateIndexVector are not decided.', ref='DESIGN.md section 5 C18'),
 'C20': dict(engine='CCV', cat='proof', tech='contract-based deductive verification: the real unitconverter.h compiled whole by CBMC, every conversion identity over all enumerators as a closed IEEE obligation (exhaustive finite domain)',
   text='Reciprocity, transitivity, derived-unit quotients, molar = per-particle, agreement of tools::conv constants with UnitConverter and with CODATA 2018 to four significant digits, reader/writer factor reciprocity and element-table self-consistency, for every enumerator pair/triple: the domain is finite and fully enumerated.',
   note='Trusted: CBMC C++ front end / IEEE constant evaluation, the CODATA values in contracts/C20/reference.json, counted regex extraction of constants.h and elements.cc. One open known finding (kcal2kj).', ref='DESIGN.md section 5 C20'),
}
NA = {
}
def main():
    checks = []
    for pid, c in sorted(CHECKS.items()):
        checks.append({'property_id': pid, 'quick_cmd': './check %s --tier quick' % pid, 'thorough_cmd': './check %s --tier thorough' % pid,
                       'evidence_file': 'evidence/%s.json' % pid, 'replay_cmd_template': './check %s --replay {path}' % pid, 'engine': c['engine'],
                       'level_claimed': {'category': c['cat'], 'text': c['text'], 'design_ref': c['ref']}, 'level_note': c['note'], 'technique': c['tech']})
    m = {'version': 1, 'setup_cmd': './setup.sh',
         'hooks': {'guard': 'VOTCA_VERIF', 'enable': 'no hooks: contracts live in /verif/contracts and are attached to function text / ASTs extracted from /repo at check time; nothing in /repo is annotated',
                   'baseline_off_cmd': 'cmake --build /repo/_build -j16 && ctest --test-dir /repo/_build -j8 --timeout 900', 'source_commits': [], 'add_only': True},
         'engines': [{'name': 'CCV', 'path': 'vlib/ccv.py', 'serves_properties': [p for p, c in CHECKS.items() if 'CCV' in c['engine']], 'kind_free_text': TECH_CCV},
                     {'name': 'RVC', 'path': 'vlib/rvc.py', 'serves_properties': [p for p, c in CHECKS.items() if 'RVC' in c['engine']], 'kind_free_text': TECH_RVC}],
         'checks': checks,
         'notes': 'Exit codes of ./check: 0 all obligations proved (bounded ones passed); 1 an obligation refuted (VIOLATION line); 2 undecided (timeout, extraction drift, unknown construct). Known findings: known_findings.json.',
         'not_applicable': [{'property_id': p, 'reason': r} for p, r in sorted(NA.items())]}
    json.dump(m, open(os.path.join(V, 'MANIFEST.json'), 'w'), indent=1)
if __name__ == '__main__':
    main()
