#!/bin/bash
# run every registered quick check on the current tree (as vp check does) and report; evidence files are rewritten
cd "$(dirname "$0")/.."
tier=${1:-quick}
ids=$(python3 -c "import json; print(' '.join(c['property_id'] for c in json.load(open('MANIFEST.json'))['checks']))")
rc_all=0
for id in $ids; do
  rm -f evidence/$id.json
  out=$(VERIF_SEED=${VERIF_SEED:-1} ./check $id --tier $tier 2>&1); rc=$?
  echo "$id rc=$rc $(echo "$out" | grep SUMMARY)"
  [ $rc -ne 0 ] && { echo "$out" | grep -E "VIOLATION|UNDECIDED" | head -5; rc_all=1; }
done
exit $rc_all
