#!/bin/bash
# scratch worktree of /repo with its own build (same options as /repo/_build); usage: mk_worktree.sh <dir>
set -e
d=$1
git -C /repo worktree add --detach "$d" HEAD >/dev/null 2>&1
cd "$d"
cmake -G Ninja -B _build -DCMAKE_BUILD_TYPE=RelWithDebInfo -DBUILD_TESTING=ON -DBUILD_XTP=OFF -DENABLE_REGRESSION_TESTING=ON \
  -DENABLE_EXPERIMENTAL_TESTS=ON -DENABLE_VALGRIND_TESTING=ON -DINJECT_MARCH_NATIVE=ON -DBUILD_MANPAGES=ON > _cfg.log 2>&1
cmake --build _build -j${J:-8} > _build.log 2>&1
echo "built $d: $(tail -1 _build.log)"
