// native replay for C08.gro.box/*/roundtrip: real GROWriter and GROReader (through the factories of libvotca_csg) on one bead in a triclinic box.
// usage: a.out <scratch file ending in .gro>; exit 1 if the box read back differs from the box written by more than the printed precision (1e-5).
#include <votca/csg/topology.h>
#include <votca/csg/trajectoryreader.h>
#include <votca/csg/trajectorywriter.h>
#include <iostream>
using namespace votca::csg;
int main(int, char **argv) {
  TrajectoryWriter::RegisterPlugins();
  TrajectoryReader::RegisterPlugins();
  Topology top;
  top.CreateResidue("RES");
  top.RegisterBeadType("A");
  Bead *b = top.CreateBead(Bead::spherical, "A", "A", 0, 1.0, 0.0);
  b->setPos(Eigen::Vector3d(0.5, 0.25, 0.125));
  Eigen::Matrix3d box;
  box << 3.0, 1.0, 0.5,
         0.0, 3.0, 0.7,
         0.0, 0.0, 3.0;      // columns are the box vectors (3,0,0), (1,3,0), (0.5,0.7,3)
  top.setBox(box);
  {
    std::unique_ptr<TrajectoryWriter> w = TrjWriterFactory().Create(argv[1]);
    w->Open(argv[1]);
    w->Write(&top);
    w->Close();
  }
  Topology in;
  in.CreateResidue("RES");
  in.RegisterBeadType("A");
  in.CreateBead(Bead::spherical, "A", "A", 0, 1.0, 0.0);
  std::unique_ptr<TrajectoryReader> r = TrjReaderFactory().Create(argv[1]);
  r->Open(argv[1]);
  r->FirstFrame(in);
  r->Close();
  std::cout << "box written\n" << box << "\nbox read back\n" << in.getBox() << "\n";
  bool same = (in.getBox() - box).cwiseAbs().maxCoeff() < 1e-5;
  std::cout << (same ? "ok\n" : "FAIL: the box read back is not the box written\n");
  return same ? 0 : 1;
}
