// native replay for C08.lammps.box/* and C08.count/lammpsdump.*: real LAMMPSDumpWriter / LAMMPSDumpReader through the factories of libvotca_csg.
// usage: a.out box <scratch.dump>    exit 1 if a triclinic box read back differs from the box written
//        a.out count <scratch.dump>  exit 1 if a 2-atom frame is accepted for a 1-bead topology without an exception
#include <votca/csg/topology.h>
#include <votca/csg/trajectoryreader.h>
#include <votca/csg/trajectorywriter.h>
#include <cstring>
#include <iostream>
using namespace votca::csg;
static void fill(Topology &t, int n) {
  t.CreateResidue("RES");
  t.RegisterBeadType("A");
  for (int i = 0; i < n; ++i) t.CreateBead(Bead::spherical, "A", "A", 0, 1.0, 0.0)->setPos(Eigen::Vector3d(0.1 * (i + 1), 0.2, 0.3));
}
int main(int, char **argv) {
  TrajectoryWriter::RegisterPlugins();
  TrajectoryReader::RegisterPlugins();
  bool boxmode = !strcmp(argv[1], "box");
  Topology top;
  fill(top, boxmode ? 1 : 2);
  Eigen::Matrix3d box;
  box << 3.0, 1.0, 0.5, 0.0, 3.0, 0.7, 0.0, 0.0, 3.0;
  if (!boxmode) box = Eigen::Matrix3d::Identity() * 3.0;
  top.setBox(box);
  {
    std::unique_ptr<TrajectoryWriter> w = TrjWriterFactory().Create(argv[2]);
    w->Open(argv[2]);
    w->Write(&top);
    w->Close();
  }
  Topology in;
  fill(in, 1);
  std::unique_ptr<TrajectoryReader> r = TrjReaderFactory().Create(argv[2]);
  r->Open(argv[2]);
  try {
    r->FirstFrame(in);
  } catch (std::exception &e) {
    std::cout << "reader reported: " << e.what() << "\n";
    return boxmode ? 2 : 0;
  }
  r->Close();
  if (!boxmode) {
    std::cout << "FAIL: a frame with 2 atoms was read into a topology with 1 bead without any error\n";
    return 1;
  }
  std::cout << "box written\n" << box << "\nbox read back\n" << in.getBox() << "\n";
  bool same = (in.getBox() - box).cwiseAbs().maxCoeff() < 1e-5;
  std::cout << (same ? "ok\n" : "FAIL: the box read back is not the box written\n");
  return same ? 0 : 1;
}
