// native replay for C08.pdb.columns/record-length: real PDBWriter and PDBReader (factories of libvotca_csg), one bead at (1,2,3) nm.
// usage: a.out <scratch.pdb>; exit 1 if the reader rejects the file the writer produced or does not return the position.
#include <votca/csg/topology.h>
#include <votca/csg/trajectoryreader.h>
#include <votca/csg/trajectorywriter.h>
#include <iostream>
#include <sstream>
using namespace votca::csg;
static void fill(Topology &t) {
  t.CreateResidue("RES");
  t.RegisterBeadType("C");
  t.CreateBead(Bead::spherical, "C", "C", 0, 1.0, 0.0)->setPos(Eigen::Vector3d(1.0, 2.0, 3.0));
}
int main(int, char **argv) {
  TrajectoryWriter::RegisterPlugins();
  TrajectoryReader::RegisterPlugins();
  Topology top;
  fill(top);
  top.setBox(Eigen::Matrix3d::Identity() * 5);
  {
    auto w = TrjWriterFactory().Create(argv[1]);
    w->Open(argv[1]);
    w->Write(&top);
    w->Close();
  }
  Topology back;
  fill(back);
  back.getBead(0)->setPos(Eigen::Vector3d::Zero());
  auto r = TrjReaderFactory().Create(argv[1]);
  r->Open(argv[1]);
  std::streambuf *old = std::cout.rdbuf();
  std::ostringstream sink;
  std::cout.rdbuf(sink.rdbuf());          // the reader prints a long banner
  bool threw = false;
  std::string what;
  try {
    r->FirstFrame(back);
  } catch (std::exception &e) {
    threw = true;
    what = e.what();
  }
  std::cout.rdbuf(old);
  if (threw) {
    std::cout << "FAIL: the reader rejects the file the writer produced: " << what.substr(0, 120) << "\n";
    return 1;
  }
  bool ok = (back.getBead(0)->getPos() - Eigen::Vector3d(1, 2, 3)).norm() < 1e-3;
  std::cout << (ok ? "ok\n" : "FAIL: position not read back\n");
  return ok ? 0 : 1;
}
