// replay for C08.table/*: the real tools::Table written with Save and loaded again with Load
// usage: replay_table <flags|yerrflags|yerr> <file>  (yerrflags: table with an error column, only x, y and the flags are compared); exit 1 when the table read back differs from the table written
#include <cmath>
#include <iostream>
#include <string>
#include <votca/tools/table.h>
using namespace votca::tools;
int main(int argc, char **argv) {
  if (argc < 3) return 2;
  std::string mode = argv[1], file = argv[2];
  Table t;
  t.resize(4);
  const bool with_err = (mode != "flags");
  if (with_err) {
    t.SetHasYErr(true);
    t.yerr().resize(4);
  }
  const char fl[4] = {'i', 'o', 'u', 'i'};
  for (votca::Index i = 0; i < 4; ++i) {
    if (with_err)
      t.set(i, 0.5 * double(i), 1.0 + double(i), fl[i], 0.125 * double(i + 1));
    else
      t.set(i, 0.5 * double(i), 1.0 + double(i), fl[i]);
  }
  t.Save(file);
  Table r;
  r.Load(file);
  int bad = 0;
  if (r.size() != t.size()) {
    std::cout << "rows written " << t.size() << " read " << r.size() << "\n";
    return 1;
  }
  for (votca::Index i = 0; i < 4; ++i) {
    if (std::fabs(r.x(i) - t.x(i)) > 1e-9 || std::fabs(r.y(i) - t.y(i)) > 1e-9) { std::cout << "row " << i << ": x/y differ\n"; bad = 1; }
    if (r.flags(i) != t.flags(i)) { std::cout << "row " << i << ": flag written " << t.flags(i) << " read " << r.flags(i) << "\n"; bad = 1; }
  }
  if (mode == "yerr") {
    if (!r.GetHasYErr() || r.yerr().size() != 4) {
      std::cout << "error column written (4 values), after Load: GetHasYErr()=" << r.GetHasYErr() << " yerr().size()=" << r.yerr().size() << "\n";
      bad = 1;
    } else {
      for (votca::Index i = 0; i < 4; ++i)
        if (std::fabs(r.yerr(i) - t.yerr(i)) > 1e-9) { std::cout << "row " << i << ": yerr differs\n"; bad = 1; }
    }
  }
  return bad;
}
