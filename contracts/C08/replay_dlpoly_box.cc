// native replay for C08.dlpoly.box/*/roundtrip: real DLPOLYTrajectoryWriter and DLPOLYTrajectoryReader (factories of libvotca_csg), CONFIG format,
// one bead in a triclinic box.  usage: a.out <scratch file ending in .dlpc> [box|atoms]; exit 1 if the box (mode atoms: position, velocity, force of the bead) read back differs from what was written.
#include <votca/csg/topology.h>
#include <votca/csg/trajectoryreader.h>
#include <votca/csg/trajectorywriter.h>
#include <iostream>
#include <string>
using namespace votca::csg;
static bool with_vf = false;
static void fill(Topology &t) {
  t.CreateResidue("RES");
  t.RegisterBeadType("A");
  Bead *b = t.CreateBead(Bead::spherical, "A", "A", 0, 1.0, 0.0);
  b->setPos(Eigen::Vector3d(0.5, 0.25, 0.125));
  if (with_vf) {
    b->setVel(Eigen::Vector3d(1.5, -0.75, 0.375));
    b->setF(Eigen::Vector3d(125.0, -62.5, 31.25));
    t.SetHasVel(true);
    t.SetHasForce(true);
  }
}
int main(int argc, char **argv) {
  with_vf = argc > 2 && std::string(argv[2]) == "atoms";
  TrajectoryWriter::RegisterPlugins();
  TrajectoryReader::RegisterPlugins();
  Topology top;
  fill(top);
  Eigen::Matrix3d box;
  box << 3.0, 1.0, 0.5, 0.0, 3.0, 0.7, 0.0, 0.0, 3.0;      // columns are the cell vectors (3,0,0), (1,3,0), (0.5,0.7,3)
  top.setBox(box);
  {
    std::unique_ptr<TrajectoryWriter> w = TrjWriterFactory().Create(argv[1]);
    w->Open(argv[1]);
    w->Write(&top);
    w->Close();
  }
  Topology in;
  fill(in);
  std::unique_ptr<TrajectoryReader> r = TrjReaderFactory().Create(argv[1]);
  r->Open(argv[1]);
  r->FirstFrame(in);
  r->Close();
  std::cout << "box written\n" << box << "\nbox read back\n" << in.getBox() << "\n";
  bool same = (in.getBox() - box).cwiseAbs().maxCoeff() < 1e-8;
  std::cout << (same ? "ok\n" : "FAIL: the box read back is not the box written\n");
  if (with_vf) {
    Bead *a = top.getBead(0), *b = in.getBead(0);
    bool okp = (a->getPos() - b->getPos()).norm() < 1e-8, okv = b->HasVel() && (a->getVel() - b->getVel()).norm() < 1e-8, okf = b->HasF() && (a->getF() - b->getF()).norm() < 1e-6;
    std::cout << "position " << (okp ? "ok" : "DIFFERS") << ", velocity " << (okv ? "ok" : "DIFFERS") << ", force " << (okf ? "ok" : "DIFFERS") << "\n";
    if (!okf && b->HasF()) std::cout << "force written " << a->getF().transpose() << " read " << b->getF().transpose() << "\n";
    return (okp && okv && okf) ? 0 : 1;
  }
  return same ? 0 : 1;
}
