// native replay for C08.dlpoly.box/*/roundtrip: real DLPOLYTrajectoryWriter and DLPOLYTrajectoryReader (factories of libvotca_csg), CONFIG format,
// one bead in a triclinic box.  usage: a.out <scratch file ending in .dlpc>; exit 1 if the box read back differs from the box written.
#include <votca/csg/topology.h>
#include <votca/csg/trajectoryreader.h>
#include <votca/csg/trajectorywriter.h>
#include <iostream>
using namespace votca::csg;
static void fill(Topology &t) {
  t.CreateResidue("RES");
  t.RegisterBeadType("A");
  t.CreateBead(Bead::spherical, "A", "A", 0, 1.0, 0.0)->setPos(Eigen::Vector3d(0.5, 0.25, 0.125));
}
int main(int, char **argv) {
  TrajectoryWriter::RegisterPlugins();
  TrajectoryReader::RegisterPlugins();
  Topology top;
  fill(top);
  Eigen::Matrix3d box;
  box << 3.0, 1.0, 0.5, 0.0, 3.0, 0.7, 0.0, 0.0, 3.0;      // columns are the cell vectors (3,0,0), (1,3,0), (0.5,0.7,3)
  top.setBox(box);
  {
    std::unique_ptr<TrajectoryWriter> w = TrjWriterFactory().Create(argv[1]);
    w->Open(argv[1]);
    w->Write(&top);
    w->Close();
  }
  Topology in;
  fill(in);
  std::unique_ptr<TrajectoryReader> r = TrjReaderFactory().Create(argv[1]);
  r->Open(argv[1]);
  r->FirstFrame(in);
  r->Close();
  std::cout << "box written\n" << box << "\nbox read back\n" << in.getBox() << "\n";
  bool same = (in.getBox() - box).cwiseAbs().maxCoeff() < 1e-8;
  std::cout << (same ? "ok\n" : "FAIL: the box read back is not the box written\n");
  return same ? 0 : 1;
}
