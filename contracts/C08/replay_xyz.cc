// native replay for C08.xyz.atoms/*: real XYZWriter and XYZReader (factories of libvotca_csg), one bead named C at (1,2,3) nm.
// usage: a.out <scratch.xyz>; exit 1 if the file does not hold 10 20 30 (Angstrom) with the bead name, or the position read back is not (1,2,3) nm.
#include <votca/csg/topology.h>
#include <votca/csg/trajectoryreader.h>
#include <votca/csg/trajectorywriter.h>
#include <fstream>
#include <iostream>
#include <sstream>
using namespace votca::csg;
static void fill(Topology &t) {
  t.CreateResidue("RES");
  t.RegisterBeadType("C");
  t.CreateBead(Bead::spherical, "C", "C", 0, 1.0, 0.0)->setPos(Eigen::Vector3d(1.0, 2.0, 3.0));
}
int main(int, char **argv) {
  TrajectoryWriter::RegisterPlugins();
  TrajectoryReader::RegisterPlugins();
  Topology top;
  fill(top);
  top.setBox(Eigen::Matrix3d::Identity() * 5);
  {
    auto w = TrjWriterFactory().Create(argv[1]);
    w->Open(argv[1]);
    w->Write(&top);
    w->Close();
  }
  std::ifstream in(argv[1]);
  std::string l, last;
  while (std::getline(in, l)) if (!l.empty()) last = l;
  std::cout << "atom line written: '" << last << "'\n";
  std::istringstream is(last);
  std::string name; double x, y, z;
  is >> name >> x >> y >> z;
  bool ok = name == "C" && std::abs(x - 10) < 1e-4 && std::abs(y - 20) < 1e-4 && std::abs(z - 30) < 1e-4;
  Topology back;
  fill(back);
  back.getBead(0)->setPos(Eigen::Vector3d::Zero());
  auto r = TrjReaderFactory().Create(argv[1]);
  r->Open(argv[1]);
  try {
    r->FirstFrame(back);
  } catch (std::exception &e) {
    std::cout << "FAIL: the reader rejects the file the writer produced: " << e.what() << "\n";
    return 1;
  }
  r->Close();
  std::cout << "position read back (nm): " << back.getBead(0)->getPos().transpose() << "\n";
  ok = ok && (back.getBead(0)->getPos() - Eigen::Vector3d(1, 2, 3)).norm() < 1e-4;
  std::cout << (ok ? "ok\n" : "FAIL: a bead at (1,2,3) nm named C is not written as 'C 10 20 30' / not read back unchanged\n");
  return ok ? 0 : 1;
}
