// native replay for C11.merge/unchecked.*: real OptionsHandler::ProcessUserInput on a description whose section <free unchecked=""/> is declared
// unchecked (as xtp/share/xtp/xml/subpackages/dftpackage.xml declares <orca unchecked="">); the user supplies free.maxcore.
// usage: a.out <directory with calc_unchecked.xml>/   exit 1 if the user's option inside the unchecked section is rejected or lost.
#include "votca/tools/optionshandler.h"
#include <iostream>
using namespace votca::tools;
int main(int, char **argv) {
  OptionsHandler opt(argv[1]);
  Property user;
  user.addTree("options.calc_unchecked.a", "3");
  user.addTree("options.calc_unchecked.free.maxcore", "3000");
  try {
    Property r = opt.ProcessUserInput(user, "calc_unchecked");
    bool ok = r.exists("options.calc_unchecked.free.maxcore") && r.get("options.calc_unchecked.free.maxcore").value() == "3000" && r.get("options.calc_unchecked.a").value() == "3";
    std::cout << (ok ? "accepted, free.maxcore = 3000\n" : "FAIL: accepted but the option inside the unchecked section was lost\n");
    return ok ? 0 : 1;
  } catch (std::exception &e) {
    std::cout << "FAIL: rejected: " << e.what() << "\n";
    return 1;
  }
}
