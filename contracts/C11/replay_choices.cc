// native replay for C11.choices/*: real OptionsHandler::ProcessUserInput on a description with one leaf <opt choices="..."/>; the user supplies opt = <value>.
// usage: a.out <directory with calc_choices.xml>/ <value> <accepted|rejected>   exit 1 if the real code does the opposite of what is expected
#include "votca/tools/optionshandler.h"
#include <iostream>
#include <string>
using namespace votca::tools;
int main(int, char **argv) {
  OptionsHandler opt(argv[1]);
  std::string value = argv[2], expect = argv[3];
  Property user;
  user.addTree("options.calc_choices.opt", value);
  std::string got;
  try {
    Property r = opt.ProcessUserInput(user, "calc_choices");
    got = "accepted";
    std::cout << "accepted, opt = \"" << r.get("options.calc_choices.opt").value() << "\"\n";
  } catch (std::exception &e) {
    got = "rejected";
    std::cout << "rejected: " << e.what() << "\n";
  }
  std::cout << "expected " << expect << ", got " << got << "\n";
  return got == expect ? 0 : 1;
}
