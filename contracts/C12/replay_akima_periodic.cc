// native replay: real AkimaSpline with periodic boundaries on a non-uniform grid; the two ends must agree in value and slope
#include <cstdio>
#include <cmath>
#include "votca/tools/akimaspline.h"
using namespace votca::tools;
int main() {
  const int N = 7;
  double xs[N] = {0, 1, 2.5, 3, 4.5, 5.2, 6};
  Eigen::VectorXd x(N), y(N);
  for (int i = 0; i < N; ++i) { x(i) = xs[i]; y(i) = std::sin(2 * M_PI * xs[i] / 6.0) + 0.3 * std::cos(4 * M_PI * xs[i] / 6.0); }
  y(N - 1) = y(0);
  AkimaSpline s;
  s.setBC(Spline::splinePeriodic);
  s.Interpolate(x, y);
  double e = 1e-9;
  double s0 = s.CalculateDerivative(x(0)), sN = s.CalculateDerivative(x(N - 1) - e);
  double v0 = s.Calculate(x(0)), vN = s.Calculate(x(N - 1) - e);
  printf("value  %.9g %.9g\nslope  %.9g %.9g\n", v0, vN, s0, sN);
  bool bad = !(std::fabs(s0 - sN) < 1e-5) || !(std::fabs(v0 - vN) < 1e-6);
  printf(bad ? "MISMATCH periodic ends differ\n" : "OK\n");
  return bad ? 1 : 0;
}
