// Native replay for the fit constraints of C12: the real CubicSpline::Fit (AddBCToFitMatrix + AddToFitMatrix + constrained QR solve) on a
// non-uniform fit grid, for the three boundary conditions. A fitted cubic spline must have a continuous first derivative at every interior knot
// (that is what the constraint rows state); natural boundaries: a function of the spline space is reproduced. exit 0: holds; exit 1: violated.
#include <cmath>
#include <cstdio>
#include <votca/tools/cubicspline.h>
using namespace votca::tools;
using votca::Index;
static double jump(CubicSpline &s, const Eigen::VectorXd &grid) {
  double j = 0;
  for (Index k = 1; k + 1 < grid.size(); ++k) {
    double dl = s.CalculateDerivative(grid(k) - 1e-9), dr = s.CalculateDerivative(grid(k) + 1e-9);
    j = std::max(j, std::abs(dl - dr));
  }
  return j;
}
int main() {
  int bad = 0;
  Eigen::VectorXd grid(7), yg(7);
  grid << 0.0, 0.1, 0.3, 0.4, 0.8, 0.9, 1.5;
  yg << 1.0, 0.2, -0.7, 0.4, 1.3, -0.5, 0.25;
  const Index nd = 300;
  Eigen::VectorXd x(nd), y(nd);
  for (Index i = 0; i < nd; ++i) {
    x(i) = 1.5 * double(i) / double(nd - 1);
    y(i) = std::sin(4.0 * x(i)) + 0.3 * x(i) * x(i);
  }
  const Spline::eBoundary bcs[] = {Spline::splineNormal, Spline::splinePeriodic, Spline::splineDerivativeZero};
  const char *names[] = {"natural", "periodic", "derivative-zero"};
  for (int b = 0; b < 3; ++b) {
    CubicSpline fit;
    fit.setBC(bcs[b]);
    fit.getX() = grid;
    fit.Fit(x, y);
    double j = jump(fit, grid);
    std::printf("%s boundaries, non-uniform grid: largest first-derivative jump at an interior knot %.3e\n", names[b], j);
    if (!(j < 1e-5)) bad = 1;
  }
  CubicSpline ref, fit;
  ref.setBC(Spline::splineNormal);
  ref.Interpolate(grid, yg);
  for (Index i = 0; i < nd; ++i) y(i) = ref.Calculate(x(i));
  fit.setBC(Spline::splineNormal);
  fit.getX() = grid;
  fit.Fit(x, y);
  double e = 0;
  for (Index i = 0; i < nd; ++i) e = std::max(e, std::abs(fit.Calculate(x(i)) - y(i)));
  std::printf("natural boundaries: fit of a function of the spline space, largest deviation %.3e\n", e);
  if (!(e < 1e-8)) bad = 1;
  return bad;
}
