/* Contract for votca::tools::Spline::getInterval(double r)  (tools/src/libtools/spline.cc).
 * Property C12: "interval lookup with clamping at both ends".  The knot vector r_ (Eigen::VectorXd) is represented by
 * data pointer + size; the body text is the real one after rule R-size (r_.size() -> self->r_n) and the macro r_ -> self->r_d. */
#include <stddef.h>
typedef long Index;
struct Spline { double *r_d; Index r_n; };

#ifdef VERIF_UNBOUNDED
#define SORTED(s) __CPROVER_forall { Index j; (0 <= j && j < (s)->r_n - 1) ==> (s)->r_d[j] < (s)->r_d[j + 1] }
#else
/* quantifier-free bounded twin (r_n <= 8): sortedness unrolled */
#define S1(s, j) ((j) + 1 >= (s)->r_n || (s)->r_d[(j)] < (s)->r_d[(j) + 1])
#define SORTED(s) (S1(s,0) && S1(s,1) && S1(s,2) && S1(s,3) && S1(s,4) && S1(s,5) && S1(s,6))
#endif

Index Spline_getInterval(struct Spline *self, double r)
__CPROVER_requires(__CPROVER_is_fresh(self, sizeof(*self)))
__CPROVER_requires(self->r_n >= 2 && self->r_n <= VERIF_MAXN)
__CPROVER_requires(__CPROVER_is_fresh(self->r_d, self->r_n * sizeof(double)))
__CPROVER_requires(r == r)                                   /* not NaN */
__CPROVER_requires(SORTED(self))                             /* strictly increasing abscissae (hence no NaN among them) */
__CPROVER_assigns()
__CPROVER_ensures(0 <= __CPROVER_return_value && __CPROVER_return_value <= self->r_n - 2)
__CPROVER_ensures((r >= self->r_d[0] && r < self->r_d[self->r_n - 1]) ==>
                  (self->r_d[__CPROVER_return_value] <= r && r < self->r_d[__CPROVER_return_value + 1]))
__CPROVER_ensures(r < self->r_d[0] ==> __CPROVER_return_value == 0)                       /* clamped below */
/* clamped above; the guard r >= r_[0] keeps the clause provable without induction over the sortedness chain
   (for sorted knots r > r_[n-2] already implies it) */
__CPROVER_ensures((r >= self->r_d[0] && r > self->r_d[self->r_n - 2]) ==> __CPROVER_return_value == self->r_n - 2)
;
#define r_ (self->r_d)
