// native replay for C12.getInterval.real/*: real Spline::getInterval (spline.cc) on the witness grid.  usage: a.out r x0 x1 ... x(n-1)
// exit 1 if the returned interval is outside [0,n-2], does not contain r (for r inside the grid) or is not the clamped one (outside); ASan/UBSan report out-of-range reads.
#include <votca/tools/linspline.h>
#include <cstdio>
#include <cstdlib>
int main(int argc, char **argv) {
  double r = strtod(argv[1], 0);
  int n = argc - 2;
  Eigen::VectorXd x(n), y = Eigen::VectorXd::Zero(n);
  for (int i = 0; i < n; ++i) x(i) = strtod(argv[2 + i], 0);
  votca::tools::LinSpline sp;
  sp.Interpolate(x, y);
  long k = sp.getInterval(r);
  std::printf("r = %g, interval returned %ld\n", r, k);
  bool ok = k >= 0 && k <= n - 2;
  if (ok && r >= x(0) && r < x(n - 1)) ok = x(k) <= r && r < x(k + 1);
  if (ok && r < x(0)) ok = k == 0;
  if (ok && r >= x(n - 1)) ok = k == n - 2;
  std::printf(ok ? "ok\n" : "FAIL\n");
  return ok ? 0 : 1;
}
