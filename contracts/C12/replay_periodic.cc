// native replay: real CubicSpline with periodic boundaries on a non-uniform grid; the two ends must agree in value, slope and curvature
#include <cstdio>
#include <cmath>
#include "votca/tools/cubicspline.h"
using namespace votca::tools;
int main(int argc, char **argv) {
  bool periodic = !(argc > 1 && argv[1][0] == 'n');
  const int N = 6;
  double xs[N] = {0, 1, 2.5, 3, 4.5, 6};
  Eigen::VectorXd x(N), y(N);
  for (int i = 0; i < N; ++i) { x(i) = xs[i]; y(i) = std::sin(2 * M_PI * xs[i] / 6.0); }
  y(N - 1) = y(0);
  CubicSpline cs;
  cs.setBC(periodic ? Spline::splinePeriodic : Spline::splineNormal);
  cs.Interpolate(x, y);
  double e = 1e-9;
  double s0 = cs.CalculateDerivative(x(0)), sN = cs.CalculateDerivative(x(N - 1) - e);
  double v0 = cs.Calculate(x(0)), vN = cs.Calculate(x(N - 1) - e);
  double c0 = (cs.CalculateDerivative(x(0) + 1e-6) - s0) / 1e-6, cN = (cs.CalculateDerivative(x(N - 1) - e) - cs.CalculateDerivative(x(N - 1) - 1e-6)) / 1e-6;
  printf("value  %.9g %.9g\nslope  %.9g %.9g\ncurv   %.6g %.6g\n", v0, vN, s0, sN, c0, cN);
  bool bad = periodic && (!(std::fabs(s0 - sN) < 1e-5) || !(std::fabs(v0 - vN) < 1e-6) || !(std::fabs(c0 - cN) < 1e-3));
  for (int k = 1; k < N - 1; ++k) {   // first derivative continuous at every inner knot
    double dl = cs.CalculateDerivative(x(k) - 1e-9), dr = cs.CalculateDerivative(x(k) + 1e-9);
    printf("knot %d slope left %.9g right %.9g\n", k, dl, dr);
    if (!(std::fabs(dl - dr) < 1e-5)) bad = true;
  }
  if (!periodic && (std::fabs(cs.CalculateDerivative(x(0) + 1e-6) - cs.CalculateDerivative(x(0))) > 1e-4)) { printf("end curvature not zero\n"); bad = true; }
  printf(bad ? "MISMATCH\n" : "OK\n");
  return bad ? 1 : 0;
}
