// native replay for C03.exclusions/*: real ExclusionList through Topology::RebuildExclusions with bonds whose bead ids are listed in descending order
// exit 1 if an excluded pair is not reported as excluded (either argument order) or turns up in a pair search with exclusions
#include <cstdio>
#include <string>
#include "votca/csg/beadlist.h"
#include "votca/csg/interaction.h"
#include "votca/csg/nblist.h"
#include "votca/csg/topology.h"
using namespace votca::csg;
using votca::Index;
int main() {
  Topology top;
  top.setBox(20.0 * Eigen::Matrix3d::Identity());
  top.CreateResidue("R");
  Molecule *mol = top.CreateMolecule("M");
  for (int i = 0; i < 4; ++i) {
    Bead *b = top.CreateBead(Bead::spherical, "B" + std::to_string(i), "A", 0, 1.0, 0.0);
    b->setPos(Eigen::Vector3d(0.3 * i, 0.0, 0.0));
    mol->AddBead(b, "B" + std::to_string(i));
  }
  // bond 2-1 (descending), bond 0-1 (ascending), angle 3-2-1 (descending)
  Interaction *i1 = new IBond(2, 1); i1->setGroup("bond"); i1->setIndex(0); i1->setMolecule(0); top.AddBondedInteraction(i1);
  Interaction *i2 = new IBond(0, 1); i2->setGroup("bond"); i2->setIndex(1); i2->setMolecule(0); top.AddBondedInteraction(i2);
  Interaction *i3 = new IAngle(3, 2, 1); i3->setGroup("angle"); i3->setIndex(0); i3->setMolecule(0); top.AddBondedInteraction(i3);
  top.RebuildExclusions();
  int bad = 0;
  const int ex[5][2] = {{1, 2}, {0, 1}, {2, 3}, {1, 3}, {2, 1}};
  for (auto &p : ex) {
    Bead *a = top.getBead(p[0]), *b = top.getBead(p[1]);
    if (!top.getExclusions().IsExcluded(a, b) || !top.getExclusions().IsExcluded(b, a)) {
      printf("pair (%d,%d) is bonded but IsExcluded says no\n", p[0], p[1]);
      bad = 1;
    }
  }
  if (top.getExclusions().IsExcluded(top.getBead(0), top.getBead(3))) { printf("pair (0,3) is not bonded but excluded\n"); bad = 1; }
  BeadList bl; bl.Generate(top, "A");
  NBList nb; nb.setCutoff(5.0); nb.Generate(bl, true);
  for (auto *pr : nb) {
    Index a = pr->first()->getId(), b = pr->second()->getId();
    if (!((a == 0 && b == 3) || (a == 3 && b == 0) || (a == 0 && b == 2) || (a == 2 && b == 0))) { printf("pair search with exclusions delivered the bonded pair (%ld,%ld)\n", long(a), long(b)); bad = 1; }
  }
  printf(bad ? "MISMATCH\n" : "OK\n");
  return bad;
}
