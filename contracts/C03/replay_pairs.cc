// Native replay for C03: the pair set of the real NBListGrid against a brute-force minimum-image reference
// (real Topology/BoundaryCondition/BeadList/NBListGrid from the working tree). Seeded search in the precondition domain:
// orthorhombic and sheared triclinic boxes, cut-offs from "many cells" to "one cell", beads inside and outside the primary cell
// and on cell faces. exit 0: every configuration agrees; exit 1: a pair is missing, spurious or duplicated.
#include <cstdint>
#include <cstdio>
#include <set>
#include <string>
#include <utility>
#include <vector>
#include "votca/csg/beadlist.h"
#include "votca/csg/nblistgrid.h"
#include "votca/csg/topology.h"
using namespace votca::csg;
using votca::Index;
static uint64_t st = 0x9E3779B97F4A7C15ULL;
static double rnd() { st ^= st << 13; st ^= st >> 7; st ^= st << 17; return double(st >> 11) / double(1ULL << 53); }
typedef std::set<std::pair<Index, Index>> PairSet;
static int one(const char *label, const Eigen::Matrix3d &box, double rc, Index n) {
  Topology top;
  top.setBox(box);
  Molecule *mol = top.CreateMolecule("M");
  std::string type = "CG";
  top.RegisterBeadType(type);
  for (Index i = 0; i < n; ++i) {
    Eigen::Vector3d f(2 * rnd() - 0.5, 2 * rnd() - 0.5, 2 * rnd() - 0.5);
    if (i % 7 == 0) f = Eigen::Vector3d(double(i % 3) / 3.0, double(i % 5) / 5.0, double(i % 2) / 2.0);  // on cell faces
    Bead *b = top.CreateBead(Bead::spherical, "b", type, 0, 1.0, 0.0);
    b->setPos(box * f);
    mol->AddBead(b, "b");
  }
  BeadList bl;
  bl.Generate(top, "*");
  NBListGrid nb;
  nb.setCutoff(rc);
  nb.Generate(bl);
  PairSet got, ref;
  Index dup = 0;
  for (auto *p : nb) {
    Index a = p->first()->getId(), b = p->second()->getId();
    if (a > b) std::swap(a, b);
    if (!got.insert(std::make_pair(a, b)).second) ++dup;
  }
  for (Index i = 0; i < n; ++i)
    for (Index j = i + 1; j < n; ++j) {
      double d = top.BCShortestConnection(top.getBead(i)->getPos(), top.getBead(j)->getPos()).norm();
      if (d < rc) ref.insert(std::make_pair(i, j));
    }
  Index missing = 0, spurious = 0;
  for (auto &p : ref) if (!got.count(p)) ++missing;
  for (auto &p : got) if (!ref.count(p)) ++spurious;
  std::printf("%s rc=%.2f beads=%ld: reference %zu pairs, grid %zu, missing %ld, spurious %ld, duplicates %ld\n", label, rc, long(n), ref.size(), got.size(), long(missing), long(spurious), long(dup));
  return (missing || spurious || dup) ? 1 : 0;
}
int main() {
  Eigen::Matrix3d ortho = Eigen::Matrix3d::Zero();
  ortho.diagonal() << 4.0, 5.0, 6.0;
  Eigen::Matrix3d tri = Eigen::Matrix3d::Zero();  // columns a, b, c (lower-triangular column form, GROMACS conditions hold)
  tri.col(0) << 4.0, 0, 0;
  tri.col(1) << 1.7, 5.0, 0;
  tri.col(2) << -1.5, 2.1, 6.0;
  int bad = 0;
  const double cuts[] = {0.35, 0.9, 1.3, 1.9, 2.4};
  for (double rc : cuts) {
    bad |= one("orthorhombic", ortho, rc, 160);
    bad |= one("triclinic", tri, rc, 160);
  }
  // strongly sheared boxes: box height well below the edge length / diagonal element (cell counts must come from the heights)
  Eigen::Matrix3d mono = Eigen::Matrix3d::Zero();
  mono.col(0) << 4.0, 0, 0;
  mono.col(1) << 2.0, 4.0, 0;
  mono.col(2) << 0, 0, 4.0;
  Eigen::Matrix3d tri2 = Eigen::Matrix3d::Zero();
  tri2.col(0) << 6.0, 0, 0;
  tri2.col(1) << -2.5, 5.5, 0;
  tri2.col(2) << 2.8, -2.6, 5.0;
  const double cuts2[] = {0.85, 0.95, 1.15};
  for (double rc : cuts2) {
    bad |= one("monoclinic", mono, rc, 300);
    bad |= one("triclinic-2", tri2, rc, 300);
  }
  return bad;
}
