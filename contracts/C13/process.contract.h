/* Contract for votca::tools::HistogramNew::Process(const double &v, double scale)
 * (tools/src/libtools/histogramnew.cc).  The body is inserted verbatim by the extractor below the env macros.
 * Postconditions are taken from property C13:  "no value, however far outside the range or however negative,
 * touches memory outside the histogram" -> memory safety for ALL finite v with no range precondition (CBMC's
 * pointer / bounds / float-to-integer conversion / signed overflow checks inside the enforced contract), and
 * "each processed value is added with its weight to the bin ..." -> at most one bin changes, by exactly `scale`.
 */
#include <math.h>
#include <stddef.h>
typedef long Index;
/* stub of the members Process uses; declaration conformance is checked against histogramnew.h by the extractor */
struct HistogramNew { double min_, max_, step_; _Bool periodic_; Index nbins_; double *y_; };

void HistogramNew_Process(struct HistogramNew *self, const double v, double scale, Index k1, Index k2 /* ghost */)
__CPROVER_requires(__CPROVER_is_fresh(self, sizeof(*self)))
__CPROVER_requires(self->nbins_ >= 1 && self->nbins_ <= VERIF_MAXBINS)
__CPROVER_requires(__CPROVER_is_fresh(self->y_, self->nbins_ * sizeof(double)))
__CPROVER_requires(self->step_ > 0.0 && !isinf(self->step_))
__CPROVER_requires(!isnan(self->min_) && !isinf(self->min_))
__CPROVER_requires(!isnan(v) && !isinf(v))                       /* all finite values, nothing else */
__CPROVER_requires(!isnan(scale) && !isinf(scale))                   /* finite weight */
__CPROVER_requires(0 <= k1 && k1 < k2 && k2 < self->nbins_)      /* two arbitrary distinct bins (ghost) */
__CPROVER_requires(!isnan(self->y_[k1]) && !isnan(self->y_[k2]) && !isinf(self->y_[k1]) && !isinf(self->y_[k2]))
__CPROVER_assigns(__CPROVER_object_whole(self->y_))
/* frame over the bins: every bin is unchanged or incremented by exactly scale ... */
__CPROVER_ensures(self->y_[k1] == __CPROVER_old(self->y_[k1]) || self->y_[k1] == __CPROVER_old(self->y_[k1]) + scale)
__CPROVER_ensures(self->y_[k2] == __CPROVER_old(self->y_[k2]) || self->y_[k2] == __CPROVER_old(self->y_[k2]) + scale)
/* ... and no two distinct bins both change (scale != 0 makes "changed" observable) */
__CPROVER_ensures(scale == 0.0 || self->y_[k1] == __CPROVER_old(self->y_[k1]) || self->y_[k2] == __CPROVER_old(self->y_[k2]))
;

/* ---- env: maps the member names used by the body onto the stub (the body text itself is not edited) */
#define min_ (self->min_)
#define step_ (self->step_)
#define nbins_ (self->nbins_)
#define periodic_ (self->periodic_)
#define data_ (*self)
#define y(i) y_[(i)]
