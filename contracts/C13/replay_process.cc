// native replay of a CBMC counterexample for HistogramNew::Process against the real class (real histogramnew.cc, table.cc)
// usage: a.out min step nbins periodic v scale      (doubles in any strtod format incl. hex floats)
#include "votca/tools/table.h"   // library headers first: the access override below must only touch histogramnew.h
#define private public
#define protected public
#include "votca/tools/histogramnew.h"
#undef private
#undef protected
#include <cstdio>
#include <cstdlib>
#include <cmath>
using namespace votca::tools;
int main(int argc, char **argv) {
  if (argc < 7) return 2;
  double mn = strtod(argv[1], nullptr), step = strtod(argv[2], nullptr);
  long nbins = strtol(argv[3], nullptr, 10); int periodic = atoi(argv[4]);
  double v = strtod(argv[5], nullptr), scale = strtod(argv[6], nullptr);
  HistogramNew h;
  h.Initialize(0.0, 1.0, nbins);
  h.min_ = mn; h.step_ = step; h.periodic_ = periodic != 0;
  h.Process(v, scale);   // Eigen's index assertion (NDEBUG off), ASan and UBSan (float-cast-overflow, signed overflow) watch this call
  long changed = 0;
  for (long i = 0; i < nbins; ++i) if (h.data_.y(i) != 0.0) { ++changed; printf("changed_bin=%ld\n", i); if (h.data_.y(i) != scale) { printf("BAD bin %ld changed by %a, not by scale\n", i, h.data_.y(i)); return 1; } }
  if (changed > 1) { printf("BAD %ld bins changed\n", changed); return 1; }
  printf("OK changed=%ld\n", changed);
  return 0;
}
