// native replay: legacy Histogram with normalisation on contents that are not whole counts: interval * sum(pdf) must be 1
#include <cmath>
#include <cstdio>
#include <numeric>
#include <string>
#include <vector>
#include "votca/tools/histogram.h"
#include "votca/tools/datacollection.h"
using namespace votca::tools;
static double integral(Histogram &h) {
  double s = 0;
  for (double p : h.getPdf()) s += p;
  return s * h.getInterval();
}
int main() {
  int bad = 0;
  const char *scales[3] = {"no", "bond", "angle"};
  for (int k = 0; k < 3; ++k) {
    DataCollection<double> dc;
    DataCollection<double>::array *a = dc.CreateArray("a");
    for (int i = 0; i < 40; ++i) a->push_back(0.4 + 0.05 * double(i % 17) + 0.003 * double(i));
    DataCollection<double>::selection sel; sel.push_back(a);
    Histogram::options_t op; op.auto_interval_ = true; op.n_ = 9; op.normalize_ = true; op.scale_ = scales[k];
    Histogram h(op);
    h.ProcessData(&sel);
    double I1 = integral(h);
    h.Normalize();
    double I2 = integral(h);
    printf("scale=%s: integral after ProcessData %.12g, after a second Normalize %.12g\n", scales[k], I1, I2);
    if (!(std::fabs(I1 - 1) < 1e-9) || !(std::fabs(I2 - 1) < 1e-9)) bad = 1;
  }
  printf(bad ? "MISMATCH\n" : "OK\n");
  return bad;
}
