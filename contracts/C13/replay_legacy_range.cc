// native replay: legacy Histogram with automatic range on given data; the range must be exactly [min data, max data]
// usage: a.out v1 v2 ...
#include <cstdio>
#include <cstdlib>
#include <algorithm>
#include <vector>
#include "votca/tools/histogram.h"
#include "votca/tools/datacollection.h"
using namespace votca::tools;
int main(int argc, char **argv) {
  DataCollection<double> dc;
  DataCollection<double>::array *a = dc.CreateArray("a");
  double lo = 1e300, hi = -1e300;
  for (int i = 1; i < argc; ++i) { double v = strtod(argv[i], 0); a->push_back(v); lo = std::min(lo, v); hi = std::max(hi, v); }
  DataCollection<double>::selection sel; sel.push_back(a);
  Histogram::options_t op; op.auto_interval_ = true; op.n_ = 11; op.normalize_ = false;
  Histogram h(op);
  h.ProcessData(&sel);
  printf("data range [%g, %g]  histogram range [%g, %g]\n", lo, hi, h.getMin(), h.getMax());
  bool bad = h.getMin() != lo || h.getMax() != hi;
  printf(bad ? "MISMATCH\n" : "OK\n");
  return bad;
}
