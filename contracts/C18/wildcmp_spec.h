/* Functional contract of votca::tools::wildcmp(const char *wild, const char *string) (tools/src/libtools/tokenizer.cc), property C18:
 * the result is non-zero exactly when `string` matches `wild` under the glob meaning of '*' (any run, possibly empty) and '?'
 * (exactly one character), everything else literal.  The specification is the textbook recursive definition.
 * Bounded-symbolic: every byte of both buffers is symbolic, N is the buffer length (all shorter strings are included because a NUL
 * may appear anywhere). */
#include <stddef.h>
#define nullptr ((const char *)0)
int wildcmp(const char *wild, const char *string);
static int glob_spec(const char *w, const char *s) {
  if (*w == 0) return *s == 0;
  if (*w == '*') return glob_spec(w + 1, s) || (*s != 0 && glob_spec(w, s + 1));
  if (*s == 0) return 0;
  if (*w == '?' || *w == *s) return glob_spec(w + 1, s + 1);
  return 0;
}
char nondet_char(void);
char in_w[N + 1], in_s[N + 1];
void h_wild(void) {
  for (int i = 0; i < N; i++) { in_w[i] = nondet_char(); in_s[i] = nondet_char(); }
  in_w[N] = 0; in_s[N] = 0;
  int r = wildcmp(in_w, in_s);
  int e = glob_spec(in_w, in_s);
  __CPROVER_assert((r != 0) == (e != 0), "postcondition: wildcmp(wild, string) != 0  <=>  string matches the glob pattern wild");
  __CPROVER_assert(0, "canary: reachable after the call");
}
