/* Unbounded memory-safety and termination contract for wildcmp (loop contracts on the verbatim body): for NUL-terminated buffers of
 * ANY length (allocation bound VERIF_MAXLEN) the pointers wild, string, mp stay inside their buffers, cp at most one past the NUL,
 * mp/cp are set before they are used, and every loop terminates (lexicographic variant for the back-tracking loop). */
#include <stddef.h>
#define nullptr ((const char *)0)
size_t WL, SL; const char *W0, *S0;      /* ghost: string lengths and buffer bases */
#define INB(p, base, len) (__CPROVER_same_object(p, base) && __CPROVER_POINTER_OFFSET(p) <= (len))
int wildcmp(const char *wild, const char *string);
