size_t nondet_size_t(void);
void h_safe(void) {
  WL = nondet_size_t(); SL = nondet_size_t();
  __CPROVER_assume(WL <= VERIF_MAXLEN && SL <= VERIF_MAXLEN);
  char *w = __CPROVER_allocate(WL + 1, 0); char *s = __CPROVER_allocate(SL + 1, 0);
  __CPROVER_assume(w != 0 && s != 0);
  w[WL] = 0; s[SL] = 0;            /* a NUL at the end; earlier NULs are allowed (then the string is simply shorter) */
  W0 = w; S0 = s;
  wildcmp(w, s);
}
