// native replay for C18.beadlist/*: real BeadList::Generate / GenerateInSphericalSubvolume against a brute-force selection with the real wildcmp
// exit 1 if any selection differs
#include <cstdio>
#include <string>
#include <vector>
#include "votca/csg/beadlist.h"
#include "votca/csg/topology.h"
#include "votca/tools/tokenizer.h"
using namespace votca::csg;
using votca::Index;
int main() {
  Topology top;
  Eigen::Matrix3d box = 10.0 * Eigen::Matrix3d::Identity();
  top.setBox(box);
  top.CreateResidue("R");
  const char *names[6] = {"C1", "C2", "N1", "CA", "O1", "name:C9"};
  const char *types[6] = {"A", "B", "A", "C1", "name:A", "C"};
  for (int i = 0; i < 6; ++i) {
    Bead *b = top.CreateBead(Bead::spherical, names[i], types[i], 0, 1.0, 0.0);
    b->setPos(Eigen::Vector3d(0.9 * i, 0.0, 0.0));
  }
  const char *sel[6] = {"A", "C*", "name:C*", "name:*1", "name:", "*"};
  Eigen::Vector3d ref(0.5, 0, 0);
  double radius = 2.0;
  int bad = 0;
  for (int k = 0; k < 6; ++k) {
    std::string s = sel[k];
    bool byname = s.substr(0, 5) == "name:";
    std::string pat = byname ? s.substr(5) : s;
    for (int sub = 0; sub < 2; ++sub) {
      std::vector<Index> want;
      for (auto &b : top.Beads()) {
        if (sub && top.BCShortestConnection(ref, b.getPos()).norm() > radius) continue;
        if (votca::tools::wildcmp(pat, byname ? b.getName() : b.getType())) want.push_back(b.getId());
      }
      BeadList bl;
      Index n = sub ? bl.GenerateInSphericalSubvolume(top, s, ref, radius) : bl.Generate(top, s);
      std::vector<Index> got;
      for (Bead *b : bl) got.push_back(b->getId());
      if (got != want || n != Index(want.size())) {
        printf("select='%s' %s: got %zu beads (returned %ld), expected %zu\n", sel[k], sub ? "sub-volume" : "whole topology", got.size(), long(n), want.size());
        bad = 1;
      }
    }
  }
  printf(bad ? "MISMATCH\n" : "OK\n");
  return bad;
}
