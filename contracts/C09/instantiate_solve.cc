// instantiation driver (no code of its own): DavidsonSolver::solve is a member template defined in
// /repo/xtp/include/votca/xtp/davidsonsolver.h; the translation units that instantiate it in /repo (gwbse/bse.cc, tests/test_davidson.cc)
// need libint2 headers that are not installed, so the dense-matrix instantiation the upstream test uses is requested here.
// Everything the executor runs comes from the header in /repo.
#include "votca/xtp/davidsonsolver.h"
template void votca::xtp::DavidsonSolver::solve<Eigen::MatrixXd>(const Eigen::MatrixXd &, votca::Index, votca::Index);
