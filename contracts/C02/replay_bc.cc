// native replay for C02: the REAL TriclinicBox / OrthorhombicBox / OpenBox::BCShortestConnection, BoxVolume, getShortestBoxDimension
// usage: a.out <triclinic|orthorhombic|open> ax bx cx by cy cz  pix piy piz  pjx pjy pjz  n0 n1 n2
#include <cstdio>
#include <cstdlib>
#include <cstring>
#include <cmath>
#include <memory>
#include "votca/csg/triclinicbox.h"
#include "votca/csg/orthorhombicbox.h"
#include "votca/csg/openbox.h"
using namespace votca::csg;
int main(int argc, char **argv) {
  if (argc < 17) return 2;
  double v[15]; for (int i = 0; i < 15; ++i) v[i] = strtod(argv[2 + i], 0);
  Eigen::Matrix3d box = Eigen::Matrix3d::Zero();
  box(0, 0) = v[0]; box(0, 1) = v[1]; box(0, 2) = v[2]; box(1, 1) = v[3]; box(1, 2) = v[4]; box(2, 2) = v[5];
  std::unique_ptr<BoundaryCondition> bc;
  if (!strcmp(argv[1], "triclinic")) bc = std::make_unique<TriclinicBox>();
  else if (!strcmp(argv[1], "orthorhombic")) { bc = std::make_unique<OrthorhombicBox>(); box(0, 1) = box(0, 2) = box(1, 2) = 0; }
  else bc = std::make_unique<OpenBox>();
  bc->setBox(box);
  Eigen::Vector3d a(v[6], v[7], v[8]), b(v[9], v[10], v[11]);
  Eigen::Vector3d n(v[12], v[13], v[14]);
  Eigen::Vector3d r = bc->BCShortestConnection(a, b);
  int bad = 0; double eps = 1e-9 * (1 + box.norm() + a.norm() + b.norm());
  printf("result %.12g %.12g %.12g\n", r[0], r[1], r[2]);
  if (strcmp(argv[1], "open")) {
    for (int i = 0; i < 3; ++i) if (std::fabs(r[i]) > box(i, i) / 2 + eps) { printf("BAD brick: |r[%d]| = %.12g > %.12g\n", i, std::fabs(r[i]), box(i, i) / 2); bad = 1; }
    Eigen::Vector3d k = box.inverse() * (r - (b - a));
    for (int i = 0; i < 3; ++i) if (std::fabs(k[i] - std::round(k[i])) > 1e-6) { printf("BAD lattice: coefficient %d = %.9g not an integer\n", i, k[i]); bad = 1; }
    Eigen::Vector3d r2 = bc->BCShortestConnection(b, a);
    if ((r2 + r).norm() > eps) { printf("BAD antisymmetry: %.12g\n", (r2 + r).norm()); bad = 1; }
    Eigen::Vector3d r3 = bc->BCShortestConnection(a, b + box * n), r4 = bc->BCShortestConnection(a + box * n, b);
    if ((r3 - r).norm() > eps * (1 + n.norm())) { printf("BAD shift of r_j by %g %g %g box vectors: %.12g\n", n[0], n[1], n[2], (r3 - r).norm()); bad = 1; }
    if ((r4 - r).norm() > eps * (1 + n.norm())) { printf("BAD shift of r_i: %.12g\n", (r4 - r).norm()); bad = 1; }
    double vol = bc->BoxVolume();
    if (std::fabs(vol - std::fabs(box.determinant())) > 1e-9 * (1 + vol)) { printf("BAD volume %.12g vs %.12g\n", vol, std::fabs(box.determinant())); bad = 1; }
    double h = bc->getShortestBoxDimension();
    double ha = vol / box.col(1).cross(box.col(2)).norm(), hb = vol / box.col(2).cross(box.col(0)).norm(), hc = vol / box.col(0).cross(box.col(1)).norm();
    if (std::fabs(h - std::min(ha, std::min(hb, hc))) > 1e-9 * (1 + h)) { printf("BAD shortest box dimension %.12g vs %.12g\n", h, std::min(ha, std::min(hb, hc))); bad = 1; }
  } else if ((r - (b - a)).norm() > eps) { printf("BAD open box\n"); bad = 1; }
  printf(bad ? "MISMATCH\n" : "OK\n");
  return bad;
}
