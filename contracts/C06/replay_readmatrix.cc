// native replay for C06.readmatrix/*/layout: real imcio_write_matrix followed by real imcio_read_matrix on a rows x cols matrix with distinct entries.
// exit 1 if the matrix read back differs from the matrix written.
#include <votca/csg/imcio.h>
#include <cstdlib>
#include <iostream>
int main(int argc, char **argv) {
  long r = atol(argv[1]), c = atol(argv[2]);
  Eigen::MatrixXd A(r, c);
  for (long i = 0; i < r; ++i) for (long j = 0; j < c; ++j) A(i, j) = double(10 * (i + 1) + (j + 1));
  votca::csg::imcio_write_matrix(argv[3], A, nullptr);
  Eigen::MatrixXd B = votca::csg::imcio_read_matrix(argv[3]);
  std::cout << "written\n" << A << "\nread back (" << B.rows() << "x" << B.cols() << ")\n" << B << "\n";
  bool same = B.rows() == r && B.cols() == c && (A - B).norm() == 0;
  std::cout << (same ? "ok\n" : "FAIL: the matrix read back is not the matrix written\n");
  return same ? 0 : 1;
}
