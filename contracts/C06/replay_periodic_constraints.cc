// native replay for C06.fmatch.layout/*/smoothing: the REAL CGForceMatching::FmatchAssignSmoothCondsToMatrix (csg_fmatch.cc compiled into this
// program, main renamed) on one periodic bonded interaction, followed by the REAL linalg_constrained_qrsolve on reference forces generated exactly
// from a spline that satisfies every smoothing condition (continuity at the knots, periodic end conditions, sum zero).
// exit 1: a reserved constraint row stays empty / a condition is overwritten, or the constrained fit does not reproduce the generating spline.
#define main csg_fmatch_tool_main
#include "csg/src/tools/csg_fmatch.cc"
#undef main
#include <votca/tools/linalg.h>
#include <cstdio>
struct Probe : public CGForceMatching {
  int run(bool periodic) {
    votca::tools::Property top;
    votca::tools::Property &p = top.add("bonded", "");
    p.add("name", "dih");
    votca::tools::Property &f = p.add("fmatch", "");
    f.add("min", "-3.0"); f.add("max", "3.0"); f.add("step", "1.0"); f.add("out_step", "0.5");
    if (periodic) f.add("periodic", "1");
    splines_.emplace_back(0, true, 0, &p);
    votca::tools::CubicSpline &sp = splines_.back().Spline;
    votca::Index n = splines_.back().num_gridpoints;
    votca::Index rows = n + (splines_.back().periodic ? 1 : 0);   // what BeginEvaluate reserves
    Eigen::MatrixXd B = Eigen::MatrixXd::Zero(rows, 2 * n);
    FmatchAssignSmoothCondsToMatrix(B);
    int bad = 0;
    Eigen::FullPivLU<Eigen::MatrixXd> lu(B);
    std::printf("constraint rows %ld, rank %ld; empty rows:", (long)rows, (long)lu.rank());
    for (votca::Index i = 0; i < rows; ++i) if (B.row(i).norm() == 0) { std::printf(" %ld", (long)i); bad = 1; }
    std::printf("\n");
    if (lu.rank() != rows) bad = 1;
    // the intended conditions, assembled row by row from the spline's own routines
    Eigen::MatrixXd C = Eigen::MatrixXd::Zero(rows, 2 * n);
    sp.AddBCToFitMatrix(C, 0, 0);
    if (splines_.back().periodic) sp.AddBCSumZeroToFitMatrix(C, n, 0);
    Eigen::MatrixXd K = Eigen::FullPivLU<Eigen::MatrixXd>(C).kernel();
    Eigen::VectorXd c = K * Eigen::VectorXd::LinSpaced(K.cols(), 0.3, 1.7);
    votca::Index m = 60;
    Eigen::MatrixXd A = Eigen::MatrixXd::Zero(m, 2 * n);
    for (votca::Index j = 0; j < m; ++j) sp.AddToFitMatrix(A, -3.0 + 6.0 * (double(j) + 0.5) / double(m), j, 0, 1.0);
    Eigen::VectorXd b = A * c;
    Eigen::VectorXd x = votca::tools::linalg_constrained_qrsolve(A, b, B);
    double err = (x - c).cwiseAbs().maxCoeff(), res = (A * x - b).norm();
    std::printf("generating spline satisfies the assembled conditions: |B c| = %.3g; fit: max |x - c| = %.3g, residual |A x - b| = %.3g, f(0) - f(n-1) = %.3g\n", (B * c).norm(), err, res, x(0) - x(n - 1));
    if (err > 1e-8 || res > 1e-8) bad = 1;
    return bad;
  }
};
int main(int argc, char **argv) {
  Probe pr;
  int rc = pr.run(argc < 2 || argv[1][0] != 'n');
  std::printf(rc ? "FAIL\n" : "ok\n");
  return rc;
}
