// native replay for C07 interaction obligations: the REAL IBond/IAngle/IDihedral (interaction.h) on a real Topology (open box),
// Grad(bead) compared with a Richardson-extrapolated central difference of EvaluateVar; also the sum of gradients.
// usage: a.out <bond|angle|dihedral> x0 y0 z0 x1 y1 z1 ...
#include <cstdio>
#include <cstdlib>
#include <cstring>
#include <cmath>
#include <vector>
#include "votca/csg/interaction.h"
#include "votca/csg/topology.h"
using namespace votca::csg;
int main(int argc, char **argv) {
  int nb = !strcmp(argv[1], "bond") ? 2 : !strcmp(argv[1], "angle") ? 3 : 4;
  if (argc < 2 + 3 * nb) return 2;
  Topology top;
  std::vector<Bead *> b;
  for (int i = 0; i < nb; ++i) {
    Bead *bd = top.CreateBead(Bead::spherical, "a", "C", 1, 1.0, 0.0);
    bd->setPos(Eigen::Vector3d(strtod(argv[2 + 3 * i], 0), strtod(argv[3 + 3 * i], 0), strtod(argv[4 + 3 * i], 0)));
    b.push_back(bd);
  }
  Interaction *ia = nb == 2 ? (Interaction *)new IBond(0, 1) : nb == 3 ? (Interaction *)new IAngle(0, 1, 2) : (Interaction *)new IDihedral(0, 1, 2, 3);
  double worst = 0; Eigen::Vector3d sum = Eigen::Vector3d::Zero();
  for (int i = 0; i < nb; ++i) {
    Eigen::Vector3d g = ia->Grad(top, i);
    sum += g;
    for (int k = 0; k < 3; ++k) {
      Eigen::Vector3d p0 = b[i]->getPos();
      auto f = [&](double h) { Eigen::Vector3d p = p0; p[k] += h; b[i]->setPos(p); double v = ia->EvaluateVar(top); b[i]->setPos(p0); return v; };
      double h = 1e-3;
      double d1 = (f(h) - f(-h)) / (2 * h), d2 = (f(h / 2) - f(-h / 2)) / h;
      double fd = (4 * d2 - d1) / 3;
      double err = std::fabs(fd - g[k]) / std::max(1.0, std::fabs(fd));
      printf("bead %d comp %d grad %.12g finite-diff %.12g relerr %.3g\n", i, k, g[k], fd, err);
      if (err > worst) worst = err;
    }
  }
  printf("sum of gradients %.3g %.3g %.3g\n", sum[0], sum[1], sum[2]);
  bool bad = worst > 1e-6 || sum.norm() > 1e-9 * (1 + 1.0);
  printf(bad ? "MISMATCH worst %.3g\n" : "OK worst %.3g\n", worst);
  return bad ? 1 : 0;
}
