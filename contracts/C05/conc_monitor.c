/* Concurrent monitor for the global lemma of C05 (bounded: NT workers + main, NF frames in the file after seeking started):
 * real mutex semantics (atomic test-and-set, blocking = assume), exclusive reader and merge sections, frames handed out in file order,
 * each exactly once to exactly one worker, ordered mode merges in frame order, at the end every selected frame was processed. */
#include <stddef.h>
#ifndef NT
#define NT 2
#endif
#ifndef NF
#define NF 2
#endif
enum { K_IN = 0, K_OUT = 1, K_READER = 2 };
int lk_in[NT], lk_out[NT], lk_reader;
void ev_lock(int which, long idx) {
  __CPROVER_atomic_begin();
  if (which == K_IN) { __CPROVER_assume(!lk_in[idx]); lk_in[idx] = 1; } else if (which == K_OUT) { __CPROVER_assume(!lk_out[idx]); lk_out[idx] = 1; } else { __CPROVER_assume(!lk_reader); lk_reader = 1; }
  __CPROVER_atomic_end();
}
void ev_unlock(int which, long idx) {
  __CPROVER_atomic_begin();
  if (which == K_IN) { __CPROVER_assert(lk_in[idx], "unlock of an input token that is not locked"); lk_in[idx] = 0; }
  else if (which == K_OUT) { __CPROVER_assert(lk_out[idx], "unlock of an output token that is not locked"); lk_out[idx] = 0; }
  else { __CPROVER_assert(lk_reader, "unlock of the reader mutex while it is not locked"); lk_reader = 0; }
  __CPROVER_atomic_end();
}
int in_reader, in_merge; long next_frame, merged, evaluated[NF + 1], worker_frame[NT], g_budget; int g_sync_mode;
int ev_nextframe(long wid) {
  __CPROVER_assert(in_reader == 0, "no two threads inside the trajectory reader");
  in_reader = 1;
  int ok = next_frame < NF;
  if (ok) { worker_frame[wid] = next_frame; next_frame++; }     /* frames are handed out in file order, each once */
  in_reader = 0;
  return ok;
}
void ev_apply(long wid) {}
void ev_eval(long wid) { long f = worker_frame[wid]; __CPROVER_assert(0 <= f && f < NF, "evaluated frame exists"); __CPROVER_atomic_begin(); evaluated[f]++; __CPROVER_atomic_end(); }
void ev_merge(long wid) {
  __CPROVER_assert(in_merge == 0, "no two threads inside the merge step");
  in_merge = 1;
  if (g_sync_mode) __CPROVER_assert(worker_frame[wid] == merged, "ordered mode: results are merged in frame order");
  merged++;
  in_merge = 0;
}
void conc_setup(long nthreads, long budget, int sync);
void thr_run(long id);
int done[NT];
static void thr(long id) { thr_run(id); done[id] = 1; }
long nondet_long(void); int nondet_int(void);
long in_budget; int in_sync;
void h_conc(void) {
  in_budget = nondet_long(); __CPROVER_assume(in_budget >= -1 && in_budget <= NF + 1);
  in_sync = SYNC;
  g_budget = in_budget; g_sync_mode = in_sync;
  conc_setup(NT, in_budget, in_sync);
  worker_frame[0] = 0; next_frame = 1;                 /* the frame read while seeking sits in worker 0's topology */
  for (int i = 0; i < NT; i++) { lk_in[i] = in_sync; lk_out[i] = in_sync; }   /* ring mutexes are created locked (ordered mode) */
  __CPROVER_ASYNC_1: thr(0);
#if NT > 1
  __CPROVER_ASYNC_2: thr(1);
#endif
#if NT > 2
  __CPROVER_ASYNC_3: thr(2);
#endif
  if (in_sync) { ev_unlock(K_IN, 0); ev_unlock(K_OUT, 0); }
  __CPROVER_assume(done[0]
#if NT > 1
    && done[1]
#endif
#if NT > 2
    && done[2]
#endif
  );                                                    /* join: only completed executions are inspected below */
  long expect = in_budget < 0 ? NF : (in_budget < NF ? in_budget : NF);
  for (long f = 0; f < NF; f++)
    __CPROVER_assert(evaluated[f] == (f < expect ? 1 : 0), "every selected frame is evaluated exactly once, no other frame is");
  if (in_sync) __CPROVER_assert(merged == expect, "ordered mode: every selected frame merged exactly once");
  __CPROVER_assert(!in_reader && !in_merge, "sections left");
}
