/* Ghost monitor: sequential lock/token protocol of ONE call of ProcessData by worker g_id out of g_n (property C05).
 * Every event checks the order the property requires; g_bad records a violation, counters feed the postconditions. */
#include <stddef.h>
enum { K_IN = 0, K_OUT = 1, K_READER = 2 };
long g_id, g_n; int g_sync;
int g_in_own_locked, g_reader_held, g_reader_locks, g_reader_unlocks, g_next_unlocked, g_nextframe_calls, g_evals, g_applies, g_merges, g_out_locked, g_out_next_unlocked, g_bad;
int g_frame_ok;       /* contract of TrajectoryReader::NextFrame: arbitrary success/failure */
int nondet_int(void);
void ev_lock(int which, long idx) {
  if (which == K_IN) { if (!g_sync || idx != g_id || g_in_own_locked || g_reader_locks) g_bad = 1; g_in_own_locked = 1; }
  else if (which == K_READER) { if ((g_sync && !g_in_own_locked) || g_reader_held || g_reader_locks) g_bad = 1; g_reader_held = 1; g_reader_locks++; }
  else if (which == K_OUT) { if (!g_sync || idx != g_id || g_out_locked) g_bad = 1; g_out_locked++; }
  else g_bad = 1;
}
void ev_unlock(int which, long idx) {
  if (which == K_READER) { if (!g_reader_held) g_bad = 1; g_reader_held = 0; g_reader_unlocks++; }
  else if (which == K_IN) { if (!g_sync || idx != (g_id + 1) % g_n || g_reader_held || !g_reader_unlocks || g_next_unlocked) g_bad = 1; g_next_unlocked++; }
  else if (which == K_OUT) { if (!g_sync || idx != (g_id + 1) % g_n || !g_merges || g_out_next_unlocked) g_bad = 1; g_out_next_unlocked++; }
  else g_bad = 1;
}
int ev_nextframe(long wid) { if (!g_reader_held || wid != g_id) g_bad = 1; g_nextframe_calls++; g_frame_ok = nondet_int() != 0; return g_frame_ok; }
void ev_apply(long wid) { if (g_reader_held || (g_sync && !g_next_unlocked) || wid != g_id) g_bad = 1; g_applies++; }
void ev_eval(long wid) { if (g_reader_held || (g_sync && !g_next_unlocked) || wid != g_id) g_bad = 1; g_evals++; }
void ev_merge(long wid) { if (!g_sync || !g_out_locked || wid != g_id || g_merges) g_bad = 1; g_merges++; }
