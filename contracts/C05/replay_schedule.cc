// Demonstration for property C05 (threaded trajectory analysis is schedule-
// and thread-count-independent).
//
// Build (against the libraries built in the worktree /tmp/wt/C05/_build):
//
//   g++ -std=c++17 -O1 -pthread \
//     -I/tmp/wt/C05/tools/include -I/tmp/wt/C05/csg/include \
//     -I/tmp/wt/C05/_build/tools/include -I/tmp/wt/C05/_build/csg/include \
//     -isystem /usr/include/eigen3 \
//     /verif/build/tmp/c05_demo.cc -o /verif/build/tmp/c05_demo \
//     -L/tmp/wt/C05/_build/csg/src/libcsg -L/tmp/wt/C05/_build/tools/src/libtools \
//     -lvotca_csg -lvotca_tools -lboost_program_options \
//     -Wl,-rpath,/tmp/wt/C05/_build/csg/src/libcsg \
//     -Wl,-rpath,/tmp/wt/C05/_build/tools/src/libtools
//
// Run (after the library has been rebuilt with / without the change:
//      cmake --build /tmp/wt/C05/_build -j6):
//
//   /verif/build/tmp/c05_demo > /dev/null; echo "exit=$?"
//
// exit 0  : every scenario processed every frame exactly once (and, in the
//           ordered mode, merged them in file order)
// exit !=0: some scenario lost / duplicated / reordered a frame, an error was
//           reported, or the run hung (alarm() turns a hang into a signal exit)
//
// What it does: writes a small .gro trajectory whose frame number is encoded
// in the x coordinate of bead 0, then runs a minimal threaded CsgApplication
// (written like csg/share/template/template_threaded.cc) over it for
// nt = 1..4, ordered and unordered mode, with and without a start-up delay
// injected into worker 0 (Worker::Run is overridden to sleep before entering
// the library's frame loop, which only changes the schedule).

#include <unistd.h>

#include <algorithm>
#include <chrono>
#include <cmath>
#include <cstdio>
#include <fstream>
#include <iostream>
#include <memory>
#include <string>
#include <thread>
#include <vector>

#include <votca/csg/csgapplication.h>

using namespace votca::csg;
using votca::Index;

static const int kFrames = 7;
static const char *kTrj = "/verif/build/tmp/c05_demo_traj.gro";

struct Scenario {
  Index nt;
  bool sync;
  int delay_ms_worker0;  // start-up delay of worker 0
  int nframes;           // -1: whole trajectory
  int first_frame;       // 0: option not given
};

class DemoApp;

class DemoWorker : public CsgApplication::Worker {
 public:
  int delay_ms_worker0_ = 0;
  std::vector<int> frames_;

  void EvalConfiguration(Topology *top, Topology *) override {
    int frame =
        static_cast<int>(std::lround(top->getBead(0)->getPos().x() * 10.0));
    frames_.push_back(frame);
    // a little bit of "work" so that frames are spread over the workers
    std::this_thread::sleep_for(std::chrono::milliseconds(2));
  }

 protected:
  void Run() override {
    if (getId() == 0 && delay_ms_worker0_ > 0) {
      std::this_thread::sleep_for(
          std::chrono::milliseconds(delay_ms_worker0_));
    }
    CsgApplication::Worker::Run();
  }
};

class DemoApp : public CsgApplication {
 public:
  explicit DemoApp(const Scenario &s) : s_(s) {}

  std::string ProgramName() override { return "c05_demo"; }
  void HelpText(std::ostream &out) override { out << "C05 demo"; }
  bool DoTrajectory() override { return true; }
  bool DoThreaded() override { return true; }
  bool SynchronizeThreads() override { return s_.sync; }

  void BeginEvaluate(Topology *, Topology *) override { merged_.clear(); }
  void EndEvaluate() override {}

  std::unique_ptr<CsgApplication::Worker> ForkWorker() override {
    auto w = std::make_unique<DemoWorker>();
    w->delay_ms_worker0_ = s_.delay_ms_worker0;
    return w;
  }

  void MergeWorker(Worker *worker) override {
    DemoWorker *w = dynamic_cast<DemoWorker *>(worker);
    merged_.insert(merged_.end(), w->frames_.begin(), w->frames_.end());
    w->frames_.clear();
  }

  std::vector<int> merged_;

 private:
  Scenario s_;
};

static void WriteTrajectory() {
  std::ofstream out(kTrj);
  for (int f = 1; f <= kFrames; ++f) {
    char line[128];
    out << "frame " << f << "\n";
    out << "    2\n";
    std::snprintf(line, sizeof(line), "%5d%-5s%5s%5d%8.3f%8.3f%8.3f\n", 1,
                  "MOL", "A", 1, 0.1 * f, 0.5, 0.5);
    out << line;
    std::snprintf(line, sizeof(line), "%5d%-5s%5s%5d%8.3f%8.3f%8.3f\n", 1,
                  "MOL", "A", 2, 1.0, 1.0 + 0.01 * f, 1.0);
    out << line;
    out << "   3.00000   3.00000   3.00000\n";
  }
}

static std::string Show(const std::vector<int> &v) {
  std::string s = "{";
  for (size_t i = 0; i < v.size(); ++i) {
    s += (i ? "," : "") + std::to_string(v[i]);
  }
  return s + "}";
}

static bool RunScenario(const Scenario &s) {
  std::vector<std::string> args = {"c05_demo", "--top", kTrj,
                                   "--trj",    kTrj,    "--nt",
                                   std::to_string(s.nt)};
  if (s.nframes >= 0) {
    args.push_back("--nframes");
    args.push_back(std::to_string(s.nframes));
  }
  if (s.first_frame > 0) {
    args.push_back("--first-frame");
    args.push_back(std::to_string(s.first_frame));
  }
  std::vector<char *> argv;
  for (auto &a : args) {
    argv.push_back(const_cast<char *>(a.c_str()));
  }

  DemoApp app(s);
  alarm(60);  // a deadlock becomes death by SIGALRM (non-zero exit status)
  int rc = app.Exec(static_cast<int>(argv.size()), argv.data());
  alarm(0);

  // expected frames, as the single-threaded run would see them
  int first = s.first_frame > 1 ? s.first_frame : 1;
  int last = kFrames;
  if (s.nframes >= 0 && first + s.nframes - 1 < last) {
    last = first + s.nframes - 1;
  }
  std::vector<int> expected;
  for (int f = first; f <= last; ++f) {
    expected.push_back(f);
  }

  std::vector<int> got = app.merged_;
  if (!s.sync) {
    std::sort(got.begin(), got.end());  // unordered mode: compare as multiset
  }
  bool ok = (rc == 0) && (got == expected);
  std::cerr << (ok ? "ok   " : "FAIL ") << "nt=" << s.nt
            << " mode=" << (s.sync ? "ordered  " : "unordered")
            << " delay(worker0)=" << s.delay_ms_worker0 << "ms"
            << " nframes=" << s.nframes << " first-frame=" << s.first_frame
            << "  expected " << Show(expected) << " got " << Show(got)
            << (rc ? "  (Exec returned error)" : "") << "\n";
  return ok;
}

int main(int argc, char **argv) {
  // native replay of a C05 schedule: a.out <nt> <ordered 0|1> <delay of worker 0 in ms> <nframes or -1> <first-frame>
  // (replay program of /verif; derived from the demonstration of a seeded change, see seeded/C05-*/demo.cc)
  WriteTrajectory();
  if (argc < 6) return 2;
  Scenario s{(Index)atol(argv[1]), atoi(argv[2]) != 0, atoi(argv[3]), atoi(argv[4]), atoi(argv[5])};
  int failures = 0;
  for (int round = 0; round < 3; ++round) if (!RunScenario(s)) ++failures;
  std::cerr << failures << " failing scenario run(s)\n";
  return failures == 0 ? 0 : 1;
}
