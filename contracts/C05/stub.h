/* Stub environment for the bodies of CsgApplication::ProcessData and CsgApplication::Worker::Run (csg/src/libcsg/csgapplication.cc),
 * compiled by CBMC's C++ front end.  Member names and method signatures are those of csgapplication.h (conformance is checked by the
 * extractor); std::vector<std::unique_ptr<tools::Mutex>> is an array whose operator[] hands out a plain Mutex* (the front end does not
 * resolve operator-> on the result of an overloaded operator[] reached through app_->).  Every call that matters for the protocol goes
 * to a ghost monitor (extern "C" functions defined in the monitor file). */
typedef long Index;
extern "C" void ev_lock(int which, long idx);
extern "C" void ev_unlock(int which, long idx);
extern "C" int ev_nextframe(long wid);
extern "C" void ev_eval(long wid);
extern "C" void ev_merge(long wid);
extern "C" void ev_apply(long wid);
#ifdef VERIF_CONC
/* interleaving runs: one stub type per mutex role, so that the role is static and only the ring index is data (keeps the
   partial-order encoding of the shared lock state small); the worker objects live on the thread stacks */
struct InMutex { long idx; void Lock() { ev_lock(0, idx); } void Unlock() { ev_unlock(0, idx); } };
struct OutMutex { long idx; void Lock() { ev_lock(1, idx); } void Unlock() { ev_unlock(1, idx); } };
namespace tools { struct Mutex { void Lock() { ev_lock(2, 0); } void Unlock() { ev_unlock(2, 0); } }; }
#else
namespace tools { struct Mutex { int kind; long idx; void Lock() { ev_lock(kind, idx); } void Unlock() { ev_unlock(kind, idx); } }; }
#endif
struct Topology { long owner; };     /* ghost: which worker's topology this is (NextFrame(worker->top_) identifies the reading worker) */
struct CsgApplication;
struct Worker;
struct TrajectoryReader { bool NextFrame(Topology &t); };
struct TopologyMap { long wid; void Apply() { ev_apply(wid); } };
struct Worker {
  CsgApplication *app_; long id_; Topology top_, top_cg_; TopologyMap *map_;
  Index getId() { return id_; }
  void EvalConfiguration(Topology *a, Topology *b = 0) { ev_eval(id_); }
  void Run();
};
#ifndef VERIF_MAXT
#define VERIF_MAXT 4
#endif
struct CsgApplication {
  typedef ::Worker Worker;
#ifdef VERIF_CONC
  struct InVec { InMutex d[VERIF_MAXT]; InMutex *operator[](long i) { __CPROVER_assert(0 <= i && i < VERIF_MAXT, "ring index inside the mutex vector"); return &d[i]; } } threadsMutexesIn_;
  struct OutVec { OutMutex d[VERIF_MAXT]; OutMutex *operator[](long i) { __CPROVER_assert(0 <= i && i < VERIF_MAXT, "ring index inside the mutex vector"); return &d[i]; } } threadsMutexesOut_;
#else
  struct MutexVec { tools::Mutex d[VERIF_MAXT]; long n;
    tools::Mutex *operator[](long i) { __CPROVER_assert(0 <= i && i < n, "ring index inside the mutex vector"); return &d[i]; } } threadsMutexesIn_, threadsMutexesOut_;
#endif
  tools::Mutex traj_readerMutex_; Index nframes_; bool is_first_frame_; Index nthreads_; bool do_mapping_; bool sync_;
  TrajectoryReader *traj_reader_;
  bool SynchronizeThreads() { return sync_; }
  void MergeWorker(Worker *w) { ev_merge(w->id_); }
  bool ProcessData(Worker *worker);
};
bool TrajectoryReader::NextFrame(Topology &t) { return ev_nextframe(t.owner); }
